import OnetVerif.Proofs.C20Spec
/-! Helper lemmas for property C20 (core-only): the index-based library functions of the model
against their declarative characterisations. -/
namespace C20

/-! ### `cut` / `split` -/

theorem cut_some {s b a : Str} (h : cut s = some (b, a)) : s = b ++ sep ++ a := by
  induction s generalizing b with
  | nil => simp [cut] at h
  | cons c rest ih =>
    unfold cut at h
    split at h
    · rename_i hc
      simp only [Option.some.injEq, Prod.mk.injEq] at h
      obtain ⟨rfl, rfl⟩ := h
      obtain ⟨rfl, h2⟩ := hc
      have : rest = rest.take 2 ++ rest.drop 2 := (List.take_append_drop 2 rest).symm
      rw [h2] at this
      simp [sep]; exact this
    · split at h
      · simp at h
      · rename_i b' a' hcut
        simp only [Option.some.injEq, Prod.mk.injEq] at h
        obtain ⟨rfl, rfl⟩ := h
        simp [ih hcut]

theorem cut_length {s b a : Str} (h : cut s = some (b, a)) : s.length = b.length + 3 + a.length := by
  rw [cut_some h]; simp [sep]; omega

theorem cut_none_not_infix {s : Str} (h : cut s = none) : ¬ sep <:+: s := by
  induction s with
  | nil => simp [sep]
  | cons c rest ih =>
    unfold cut at h
    split at h
    · simp at h
    · rename_i hc
      split at h
      · rename_i hcut
        intro hin
        rcases List.infix_cons_iff.mp hin with hp | hi
        · apply hc
          obtain ⟨t, ht⟩ := hp
          simp [sep] at ht
          obtain ⟨rfl, rfl⟩ := ht
          simp
        · exact ih hcut hi
      · simp at h

theorem cut_none_of_not_infix {s : Str} (h : ¬ sep <:+: s) : cut s = none := by
  cases hc : cut s with
  | none => rfl
  | some ba =>
    obtain ⟨b, a⟩ := ba
    exfalso; apply h
    rw [cut_some hc]
    exact ⟨b, a, by simp⟩

/-- the separator cannot start earlier when the prefix holds none (it does not overlap itself) -/
theorem cut_append {t na : Str} (h : cut t = none) : cut (t ++ sep ++ na) = some (t, na) := by
  induction t with
  | nil => simp [cut, sep]
  | cons c t ih =>
    unfold cut at h
    split at h
    · simp at h
    · rename_i hc
      split at h
      · rename_i hcut
        have := ih hcut
        simp only [List.cons_append]
        unfold cut
        rw [if_neg]
        · simp only [List.append_assoc] at this ⊢
          rw [this]
        · intro ⟨h1, h2⟩
          apply hc
          refine ⟨h1, ?_⟩
          match t, h2 with
          | [], h2 => simp [sep] at h2
          | [x], h2 => simp [sep] at h2
          | x :: y :: r, h2 => simpa using h2
      · simp at h

theorem splitAll_single {n : Nat} {r x : Str} : splitAll n r = [x] ↔ (x = r ∧ (cut r = none ∨ n = 0)) := by
  cases n with
  | zero => simp [splitAll]; exact eq_comm
  | succ n =>
    simp only [splitAll]
    split
    · rename_i hc
      simp [hc]; exact eq_comm
    · rename_i b a hc
      constructor
      · intro h
        simp at h
        cases n <;> simp [splitAll] at h
        split at h <;> simp at h
      · intro ⟨_, h⟩
        simp [*] at h

theorem split_two {a t na : Str} : split a = [t, na] ↔ (cut a = some (t, na) ∧ cut na = none) := by
  unfold split
  cases hl : a.length with
  | zero =>
    have : a = [] := List.eq_nil_of_length_eq_zero hl
    subst this
    simp [splitAll, cut]
  | succ n =>
    simp only [splitAll]
    cases hc : cut a with
    | none => simp
    | some ba =>
      obtain ⟨b, r⟩ := ba
      simp only [List.cons.injEq, Option.some.injEq, Prod.mk.injEq]
      have hlen := cut_length hc
      constructor
      · intro ⟨h1, h2⟩
        have := splitAll_single.mp h2
        refine ⟨⟨h1, this.1.symm⟩, ?_⟩
        rcases this.2 with h | h
        · rw [this.1]; exact h
        · omega
      · intro ⟨⟨h1, h2⟩, h3⟩
        refine ⟨h1, splitAll_single.mpr ⟨h2.symm, Or.inl (h2 ▸ h3)⟩⟩

/-! ### `indexOf`, `lastIndexOf`, `contains` -/

theorem contains_false {c : Nat} {s : Str} : s.contains c = false ↔ c ∉ s := by
  simp

theorem indexOf_append {c : Nat} {h p : Str} (hh : c ∉ h) : indexOf c (h ++ c :: p) = some h.length := by
  induction h with
  | nil => simp [indexOf]
  | cons x h ih =>
    simp only [List.mem_cons, not_or] at hh
    have hx : x ≠ c := fun e => hh.1 e.symm
    simp [indexOf, hx, ih hh.2]

theorem indexOf_some {c : Nat} {s : Str} {i : Nat} (h : indexOf c s = some i) :
    ∃ a b, s = a ++ c :: b ∧ c ∉ a ∧ i = a.length := by
  induction s generalizing i with
  | nil => simp [indexOf] at h
  | cons x r ih =>
    unfold indexOf at h
    split at h
    · rename_i hx
      simp at h
      exact ⟨[], r, by simp [hx], by simp, by simp [h]⟩
    · rename_i hx
      cases hr : indexOf c r with
      | none => simp [hr] at h
      | some j =>
        simp [hr] at h
        obtain ⟨a, b, h1, h2, h3⟩ := ih hr
        refine ⟨x :: a, b, by simp [h1], ?_, by simp [← h, h3]⟩
        simp only [List.mem_cons, not_or]
        exact ⟨fun e => hx e.symm, h2⟩

theorem indexOf_none {c : Nat} {s : Str} (h : indexOf c s = none) : c ∉ s := by
  induction s with
  | nil => simp
  | cons x r ih =>
    unfold indexOf at h
    split at h
    · simp at h
    · rename_i hx
      cases hr : indexOf c r with
      | none =>
        simp only [List.mem_cons, not_or]
        exact ⟨fun e => hx e.symm, ih hr⟩
      | some j => simp [hr] at h

theorem lastIndexOf_none {c : Nat} {s : Str} : lastIndexOf c s = none ↔ c ∉ s := by
  induction s with
  | nil => simp [lastIndexOf]
  | cons x r ih =>
    unfold lastIndexOf
    cases hr : lastIndexOf c r with
    | some j =>
      simp only [reduceCtorEq, List.mem_cons, not_or, false_iff, not_and, Classical.not_not]
      intro _
      have : ¬ (c ∉ r) := fun hn => by rw [ih.mpr hn] at hr; cases hr
      exact Classical.not_not.mp this
    | none =>
      have := ih.mp hr
      by_cases hx : x = c
      · simp [hx]
      · simp [hx, this]; exact fun e => hx e.symm

theorem lastIndexOf_append {c : Nat} {h p : Str} (hp : c ∉ p) :
    lastIndexOf c (h ++ c :: p) = some h.length := by
  induction h with
  | nil => simp [lastIndexOf, lastIndexOf_none.mpr hp]
  | cons x h ih => simp [lastIndexOf, ih]

theorem lastIndexOf_some {c : Nat} {s : Str} {i : Nat} (h : lastIndexOf c s = some i) :
    ∃ a b, s = a ++ c :: b ∧ c ∉ b ∧ i = a.length := by
  induction s generalizing i with
  | nil => simp [lastIndexOf] at h
  | cons x r ih =>
    unfold lastIndexOf at h
    cases hr : lastIndexOf c r with
    | some j =>
      simp [hr] at h
      obtain ⟨a, b, h1, h2, h3⟩ := ih hr
      exact ⟨x :: a, b, by simp [h1], h2, by simp [← h, h3]⟩
    | none =>
      simp [hr] at h
      exact ⟨[], r, by simp [h.1], lastIndexOf_none.mp hr, by simp [h.2]⟩

/-- the text after the last colon is determined by the string -/
theorem last_colon_unique {c : Nat} {a b a' b' : Str} (h : a ++ c :: b = a' ++ c :: b')
    (hb : c ∉ b) (hb' : c ∉ b') : a = a' ∧ b = b' := by
  have h1 := lastIndexOf_append (h := a) hb
  have h2 := lastIndexOf_append (h := a') hb'
  rw [h, h2] at h1
  have hl : a'.length = a.length := by simpa using h1
  have := List.append_inj h hl.symm
  simpa using this

/-! ### `splitHostPort` ⇔ `HostPort` -/

theorem shp_of_hostPort {hp h p : Str} (hh : HostPort hp h p) : splitHostPort hp = some (h, p) := by
  cases hh with
  | plain h p hh hp =>
    have h58p : 58 ∉ p := fun m => (hp 58 m).1 rfl
    have h58h : 58 ∉ h := fun m => (hh 58 m).1 rfl
    have h91 : 91 ∉ h ++ 58 :: p := by
      intro m; rcases List.mem_append.mp m with m | m
      · exact (hh 91 m).2.1 rfl
      · rcases List.mem_cons.mp m with m | m
        · cases m
        · exact (hp 91 m).2.1 rfl
    have h93 : 93 ∉ h ++ 58 :: p := by
      intro m; rcases List.mem_append.mp m with m | m
      · exact (hh 93 m).2.2 rfl
      · rcases List.mem_cons.mp m with m | m
        · cases m
        · exact (hp 93 m).2.2 rfl
    have hhead : (h ++ 58 :: p).head? ≠ some 91 := by
      intro e
      have : 91 ∈ h ++ 58 :: p := List.mem_of_mem_head? e
      exact h91 this
    unfold splitHostPort
    rw [lastIndexOf_append h58p]
    simp only [hhead, if_false]
    rw [List.take_left' rfl]
    rw [contains_false.mpr h58h, contains_false.mpr h91, contains_false.mpr h93]
    simp
  | bracket h p hh hp =>
    have h58p : 58 ∉ p := fun m => (hp 58 m).1 rfl
    have e1 : (91 :: h ++ 93 :: 58 :: p) = (91 :: h ++ [93]) ++ 58 :: p := by simp
    have h93h : 93 ∉ 91 :: h := by
      intro m; rcases List.mem_cons.mp m with m | m
      · cases m
      · exact (hh 93 m).2 rfl
    have e2 : (91 :: h ++ 93 :: 58 :: p) = (91 :: h) ++ 93 :: (58 :: p) := by simp
    have h91 : 91 ∉ h ++ 93 :: 58 :: p := by
      intro m; rcases List.mem_append.mp m with m | m
      · exact (hh 91 m).1 rfl
      · simp at m
        exact (hp 91 m).2.1 rfl
    have h93p : 93 ∉ 58 :: p := by
      intro m; simp at m
      exact (hp 93 m).2.2 rfl
    unfold splitHostPort
    have hl : lastIndexOf 58 (91 :: h ++ 93 :: 58 :: p) = some (h.length + 2) := by
      rw [e1, lastIndexOf_append h58p]; simp
    have hi : indexOf 93 (91 :: h ++ 93 :: 58 :: p) = some (h.length + 1) := by
      rw [e2, indexOf_append h93h]; simp
    rw [hl, hi]
    have hd1 : (91 :: h ++ 93 :: 58 :: p).drop 1 = h ++ 93 :: 58 :: p := by simp
    have hd2 : (91 :: h ++ 93 :: 58 :: p).drop (h.length + 1 + 1) = 58 :: p := by
      rw [e1]; exact List.drop_left' (by simp)
    have hd3 : (91 :: h ++ 93 :: 58 :: p).drop (h.length + 2 + 1) = p := by
      have : (91 :: h ++ 93 :: 58 :: p) = (91 :: h ++ [93, 58]) ++ p := by simp
      rw [this]; exact List.drop_left' (by simp)
    have ht : ((91 :: h ++ 93 :: 58 :: p).take (h.length + 1)).drop 1 = h := by
      rw [e2, List.take_left' (by simp)]; simp
    have hc1 : (91 :: h ++ 93 :: 58 :: p).head? = some 91 := by simp
    have hc2 : ¬ (h.length + 1 + 1 = (91 :: h ++ 93 :: 58 :: p).length) := by simp
    have hc3 : h.length + 1 + 1 = h.length + 2 := rfl
    simp only [hc1, if_true, hc2, if_false, hc3, hd1, hd3, ht, contains_false.mpr h91]
    rw [← hc3, hd2, contains_false.mpr h93p]
    simp

theorem hostPort_of_shp {hp h p : Str} (hs : splitHostPort hp = some (h, p)) : HostPort hp h p := by
  unfold splitHostPort at hs
  cases hl : lastIndexOf 58 hp with
  | none => simp [hl] at hs
  | some i =>
    obtain ⟨a, b, hab, h58b, hi⟩ := lastIndexOf_some hl
    simp only [hl] at hs
    have hdb : hp.drop (i + 1) = b := by
      rw [hab]
      have : a ++ 58 :: b = (a ++ [58]) ++ b := by simp
      rw [this]; exact List.drop_left' (by simp [hi])
    by_cases hhead : hp.head? = some 91
    · simp only [hhead, if_true] at hs
      cases he : indexOf 93 hp with
      | none => simp [he] at hs
      | some e =>
        obtain ⟨a', b', hab', h93a', he'⟩ := indexOf_some he
        simp only [he] at hs
        by_cases c1 : e + 1 = hp.length
        · simp [c1] at hs
        · simp only [c1, if_false] at hs
          by_cases c2 : e + 1 = i
          · simp only [c2, if_true] at hs
            simp only [hdb] at hs
            simp at hs
            obtain ⟨c3', c4', hh, hpp⟩ := hs
            -- a' starts with '[' ; b' = ':' :: b
            have ha' : ∃ h0, a' = 91 :: h0 := by
              cases a' with
              | nil => rw [hab'] at hhead; simp at hhead
              | cons x h0 => rw [hab'] at hhead; simp at hhead; exact ⟨h0, by rw [hhead]⟩
            obtain ⟨h0, rfl⟩ := ha'
            have hdi : hp.drop i = 58 :: b := by
              rw [hab]; exact List.drop_left' hi.symm
            have hb' : b' = 58 :: b := by
              have e1 : hp = (91 :: h0 ++ [93]) ++ b' := by rw [hab']; simp
              have e2 : hp.drop i = b' := by
                rw [e1]; exact List.drop_left' (by simp [← c2, he'])
              rw [← e2, hdi]
            subst hb'
            subst hpp
            have hh0 : h = h0 := by
              rw [← hh, hab', he']; rw [List.take_left' rfl]; simp
            subst hh0
            rw [hdi] at c4'
            have ht : hp.tail = h ++ 93 :: 58 :: b := by rw [hab']; simp
            rw [ht] at c3'
            have : hp = 91 :: h ++ 93 :: 58 :: b := by rw [hab']
            rw [this]
            refine HostPort.bracket h b ?_ ?_
            · intro c hc
              refine ⟨fun e => c3' (by simp [← e, hc]), fun e => h93a' (by simp [← e, hc])⟩
            · intro c hc
              refine ⟨fun e => h58b (e ▸ hc), fun e => c3' (by simp [← e, hc]), fun e => c4' (by simp [← e, hc])⟩
          · simp [c2] at hs
    · simp only [hhead, if_false] at hs
      have hta : hp.take i = a := by rw [hab]; exact List.take_left' hi.symm
      simp only [hdb, hta] at hs
      simp at hs
      obtain ⟨c1', c2', c3', hh, hpp⟩ := hs
      subst hh; subst hpp
      rw [hab] at c2' c3' ⊢
      refine HostPort.plain a b ?_ ?_
      · intro c hc
        exact ⟨fun e => c1' (e ▸ hc), fun e => c2' (by simp [← e, hc]), fun e => c3' (by simp [← e, hc])⟩
      · intro c hc
        exact ⟨fun e => h58b (e ▸ hc), fun e => c2' (by simp [← e, hc]), fun e => c3' (by simp [← e, hc])⟩

theorem shp_iff {hp h p : Str} : splitHostPort hp = some (h, p) ↔ HostPort hp h p :=
  ⟨hostPort_of_shp, shp_of_hostPort⟩

/-! ### ports: `atoi` + range test ⇔ `PortOk` -/

theorem digitsVal_iff {ds : Str} {acc n : Nat} :
    digitsVal ds acc = some n ↔
      ((∀ d ∈ ds, isDigit d = true) ∧ n = ds.foldl (fun a d => a * 10 + (d - 48)) acc) := by
  induction ds generalizing acc with
  | nil => simp [digitsVal]; exact eq_comm
  | cons c r ih =>
    unfold digitsVal
    by_cases hc : isDigit c = true
    · simp [hc, ih]
    · simp [hc]

theorem digitsVal_decVal {ds : Str} {n : Nat} :
    digitsVal ds 0 = some n ↔ ((∀ d ∈ ds, isDigit d = true) ∧ n = decVal ds) := digitsVal_iff

theorem not_digit_sign {ds : Str} (h : Digits ds) : ¬ (ds.head? = some 45 ∨ ds.head? = some 43) := by
  obtain ⟨hne, hd⟩ := h
  cases ds with
  | nil => simp
  | cons c r =>
    have := hd c (by simp)
    simp [isDigit] at this ⊢
    omega

theorem atoi_port_iff {p : Str} :
    (∃ v, atoi p = some v ∧ ¬ (v < 0 ∨ v > 65535)) ↔ PortOk p := by
  constructor
  · rintro ⟨v, hv, hr⟩
    cases p with
    | nil => simp [atoi] at hv
    | cons c r =>
      simp only [atoi] at hv
      by_cases h45 : c = 45
      · subst h45
        simp only [true_or, if_true] at hv
        by_cases hr0 : r = []
        · simp [hr0] at hv
        · simp only [hr0, if_false] at hv
          cases hd : digitsVal r 0 with
          | none => simp [hd] at hv
          | some n =>
            simp only [hd] at hv
            have ⟨hdig, hn⟩ := digitsVal_decVal.mp hd
            refine PortOk.minus r ⟨hr0, hdig⟩ ?_
            by_cases hbig : n > 2 ^ 63
            · simp [hbig] at hv
            · simp only [hbig, if_false, Option.some.injEq] at hv
              rw [← hn]; omega
      · by_cases h43 : c = 43
        · subst h43
          simp only [or_true, if_true] at hv
          by_cases hr0 : r = []
          · simp [hr0] at hv
          · simp only [hr0, if_false] at hv
            cases hd : digitsVal r 0 with
            | none => simp [hd] at hv
            | some n =>
              simp only [hd] at hv
              have ⟨hdig, hn⟩ := digitsVal_decVal.mp hd
              refine PortOk.plus r ⟨hr0, hdig⟩ ?_
              simp at hv
              rw [← hn]; omega
        · simp only [h45, h43, or_self, if_false] at hv
          cases hd : digitsVal (c :: r) 0 with
          | none => simp [hd] at hv
          | some n =>
            simp only [hd] at hv
            have ⟨hdig, hn⟩ := digitsVal_decVal.mp hd
            refine PortOk.plain (c :: r) ⟨by simp, hdig⟩ ?_
            simp at hv
            rw [← hn]; omega
  · intro h
    cases h with
    | plain _ hd hle =>
      have hns := not_digit_sign hd
      obtain ⟨hne, hdig⟩ := hd
      cases p with
      | nil => exact absurd rfl hne
      | cons c r =>
        simp at hns
        have hv : digitsVal (c :: r) 0 = some (decVal (c :: r)) := digitsVal_decVal.mpr ⟨hdig, rfl⟩
        refine ⟨(decVal (c :: r) : Int), ?_, by omega⟩
        simp only [atoi, hns.1, hns.2, or_self, if_false, hv]
        simp
        omega
    | plus ds hd hle =>
      obtain ⟨hne, hdig⟩ := hd
      have hv : digitsVal ds 0 = some (decVal ds) := digitsVal_decVal.mpr ⟨hdig, rfl⟩
      refine ⟨(decVal ds : Int), ?_, by omega⟩
      simp only [atoi, or_true, if_true, hne, if_false, hv]
      simp
      omega
    | minus ds hd hz =>
      obtain ⟨hne, hdig⟩ := hd
      have hv : digitsVal ds 0 = some (decVal ds) := digitsVal_decVal.mpr ⟨hdig, rfl⟩
      refine ⟨0, ?_, by omega⟩
      simp only [atoi, true_or, if_true, hne, if_false, hv, hz]
      simp

theorem atoi_some_ne_nil {p : Str} {v : Int} (h : atoi p = some v) : p ≠ [] := by
  intro e; subst e; simp [atoi] at h

/-! ### host names: `splitDot` ⇔ `Labels`, recogniser ⇔ `Label`/`Tld`, `validHostname` ⇔ `HostName` -/

theorem splitDot_ne_nil (s : Str) : splitDot s ≠ [] := by
  cases s with
  | nil => simp [splitDot]
  | cons c r =>
    unfold splitDot
    split
    · simp
    · split <;> simp

theorem splitDot_nodot {s : Str} (h : 46 ∉ s) : splitDot s = [s] := by
  induction s with
  | nil => simp [splitDot]
  | cons c r ih =>
    simp only [List.mem_cons, not_or] at h
    have hc : c ≠ 46 := fun e => h.1 e.symm
    simp [splitDot, hc, ih h.2]

theorem splitDot_append_dot {l r : Str} (h : 46 ∉ l) : splitDot (l ++ 46 :: r) = l :: splitDot r := by
  induction l with
  | nil => simp [splitDot]
  | cons c l ih =>
    simp only [List.mem_cons, not_or] at h
    have hc : c ≠ 46 := fun e => h.1 e.symm
    simp [splitDot, hc, ih h.2]

theorem splitDot_joinDot {ls : List Str} (hne : ls ≠ []) (h : ∀ l ∈ ls, 46 ∉ l) :
    splitDot (joinDot ls) = ls := by
  induction ls with
  | nil => exact absurd rfl hne
  | cons l ls ih =>
    cases ls with
    | nil => simp [joinDot, splitDot_nodot (h l (by simp))]
    | cons l' ls =>
      simp only [joinDot]
      rw [splitDot_append_dot (h l (by simp))]
      rw [ih (by simp) (fun x hx => h x (by simp [hx]))]

theorem joinDot_splitDot (s : Str) : joinDot (splitDot s) = s ∧ ∀ l ∈ splitDot s, 46 ∉ l := by
  induction s with
  | nil => simp [splitDot, joinDot]
  | cons c r ih =>
    unfold splitDot
    by_cases hc : c = 46
    · subst hc
      simp only [if_true]
      have hne := splitDot_ne_nil r
      cases hs : splitDot r with
      | nil => exact absurd hs hne
      | cons p ps =>
        rw [hs] at ih
        refine ⟨by simp [joinDot, ih.1], ?_⟩
        intro l hl
        rcases List.mem_cons.mp hl with rfl | hl
        · simp
        · exact ih.2 l hl
    · simp only [hc, if_false]
      have hne := splitDot_ne_nil r
      cases hs : splitDot r with
      | nil => exact absurd hs hne
      | cons p ps =>
        rw [hs] at ih
        simp only
        constructor
        · cases ps with
          | nil => simp [joinDot] at ih ⊢; exact ih.1
          | cons p' ps => simp [joinDot] at ih ⊢; exact ih.1
        · intro l hl
          rcases List.mem_cons.mp hl with rfl | hl
          · have := ih.2 p (by simp)
            simp only [List.mem_cons, not_or]
            exact ⟨fun e => hc e.symm, this⟩
          · exact ih.2 l (by simp [hl])

theorem labels_iff {s : Str} {ls : List Str} : Labels s ls ↔ splitDot s = ls := by
  constructor
  · rintro ⟨hne, rfl, hd⟩
    exact splitDot_joinDot hne hd
  · rintro rfl
    exact ⟨splitDot_ne_nil s, (joinDot_splitDot s).1.symm, (joinDot_splitDot s).2⟩

theorem splitDot_length_one {s : Str} : (splitDot s).length = 1 ↔ 46 ∉ s := by
  constructor
  · intro h
    have hj := joinDot_splitDot s
    match hs : splitDot s, h with
    | [l], _ =>
      rw [hs] at hj
      simp [joinDot] at hj
      rw [← hj.1]; exact hj.2
  · intro h; rw [splitDot_nodot h]; rfl

theorem getLast?_cons_getLastD (c : Nat) (r : Str) : (c :: r).getLast? = some ((c :: r).getLastD c) := by
  induction r generalizing c with
  | nil => simp
  | cons y r ih =>
    have := ih y
    simp only [List.getLast?_cons_cons, List.getLastD_eq_getLast?] at this ⊢
    rw [this]; simp

theorem labelOk_iff {l : Str} : labelOk l = true ↔ Label l := by
  cases l with
  | nil => simp [labelOk, Label]
  | cons c r =>
    have hlast := getLast?_cons_getLastD c r
    simp only [labelOk, Label, Bool.and_eq_true, List.all_eq_true, Bool.or_eq_true, decide_eq_true_eq,
      List.head?_cons, Option.some.injEq, List.mem_cons]
    constructor
    · rintro ⟨⟨h1, h2⟩, h3⟩
      refine ⟨?_, ⟨c, rfl, h1⟩, ⟨(c :: r).getLastD c, hlast, h3⟩⟩
      rintro x (rfl | hx)
      · exact Or.inl h1
      · exact h2 x hx
    · rintro ⟨h1, ⟨c', hc', h2⟩, ⟨d, hd, h3⟩⟩
      subst hc'
      refine ⟨⟨h2, fun x hx => h1 x (Or.inr hx)⟩, ?_⟩
      rw [hlast] at hd
      simp only [Option.some.injEq] at hd
      rw [hd]; exact h3

theorem tldOk_iff {l : Str} : tldOk l = true ↔ Tld l := by
  simp [tldOk, Tld]

theorem stripped_iff {s0 s : Str} : Stripped s0 s ↔ s = stripDot s0 := by
  unfold stripDot
  constructor
  · rintro (h | ⟨rfl, h⟩)
    · subst h; simp
    · simp [h]
  · intro h
    by_cases hl : s0.getLast? = some 46
    · simp only [hl, if_true] at h
      left; subst h
      obtain ⟨ys, rfl⟩ := List.getLast?_eq_some_iff.mp hl
      simp
    · simp only [hl, if_false] at h
      right; exact ⟨h, hl⟩

theorem hostnameCore_iff {s : Str} :
    hostnameCore s = true ↔
      (s.length ≤ 253 ∧ (∀ l ∈ splitDot s, 1 ≤ l.length ∧ l.length ≤ 63) ∧
        ((splitDot s).length = 1 ∨
          ((∀ l ∈ (splitDot s).dropLast, Label l) ∧ ∃ t, (splitDot s).getLast? = some t ∧ Tld t))) := by
  unfold hostnameCore
  by_cases h1 : s.length > 253
  · simp only [h1, if_true]
    constructor
    · intro h; cases h
    · intro h; omega
  · simp only [h1, if_false]
    by_cases h2 : (splitDot s).any (fun l => decide (l.length < 1) || decide (l.length > 63)) = true
    · simp only [h2, if_true]
      constructor
      · intro h; cases h
      · rintro ⟨_, hl, _⟩
        simp only [List.any_eq_true, Bool.or_eq_true, decide_eq_true_eq] at h2
        obtain ⟨l, hm, hb⟩ := h2
        have := hl l hm
        omega
    · simp only [h2]
      have hlens : ∀ l ∈ splitDot s, 1 ≤ l.length ∧ l.length ≤ 63 := by
        intro l hl
        simp only [List.any_eq_true, Bool.or_eq_true, decide_eq_true_eq, not_exists, not_and, not_or] at h2
        have := h2 l hl
        omega
      have hm : matchRe s = true ↔
          ((∀ l ∈ (splitDot s).dropLast, Label l) ∧ ∃ t, (splitDot s).getLast? = some t ∧ Tld t) := by
        simp only [matchRe, Bool.and_eq_true, List.all_eq_true, List.getLastD_eq_getLast?]
        have hne := splitDot_ne_nil s
        cases hx : (splitDot s).getLast? with
        | none => simp at hx; exact absurd hx hne
        | some t =>
          simp only [Option.getD_some, Option.some.injEq, exists_eq_left']
          constructor
          · rintro ⟨a, b⟩; exact ⟨fun l hl => labelOk_iff.mp (a l hl), tldOk_iff.mp b⟩
          · rintro ⟨a, b⟩; exact ⟨fun l hl => labelOk_iff.mpr (a l hl), tldOk_iff.mpr b⟩
      have hdot : (!s.contains 46) = true ↔ (splitDot s).length = 1 := by
        rw [splitDot_length_one]; simp
      simp only [Bool.false_eq_true, if_false]
      by_cases hmm : matchRe s = true
      · simp only [hmm, Bool.not_true, Bool.false_and, Bool.false_eq_true, if_false, true_iff]
        exact ⟨by omega, hlens, Or.inr (hm.mp hmm)⟩
      · have hmf : matchRe s = false := by simpa using hmm
        by_cases hd : (!s.contains 46) = true
        · simp only [hmf, hd, Bool.not_false, Bool.and_self, if_true, true_iff]
          exact ⟨by omega, hlens, Or.inl (hdot.mp hd)⟩
        · have hdf : (!s.contains 46) = false := by simpa using hd
          simp only [hmf, hdf, Bool.not_false, Bool.and_false, Bool.false_eq_true, if_false, false_iff]
          rintro ⟨_, _, h | h⟩
          · exact hd (hdot.mpr h)
          · exact hmm (hm.mpr h)

theorem validHostname_iff {h : Str} : validHostname h = true ↔ HostName h := by
  unfold validHostname HostName
  by_cases hne : h = []
  · simp [hne]
  · simp only [hne, if_false, ne_eq, not_false_eq_true, true_and]
    rw [hostnameCore_iff]
    constructor
    · rintro ⟨h1, h2, h3⟩
      exact ⟨_, _, stripped_iff.mpr rfl, h1, labels_iff.mpr rfl, h2, h3⟩
    · rintro ⟨s, ls, hst, hlen, hlab, hll, hre⟩
      have hs := stripped_iff.mp hst
      have hls := labels_iff.mp hlab
      subst hs; subst hls
      exact ⟨hlen, hll, hre⟩

/-! ### `Valid` in terms of its parts -/

theorem connTypeOf_known {t : Str} : connTypeOf t ≠ wrong ↔ (t = tcp ∨ t = tls ∨ t = localT) := by
  unfold connTypeOf
  by_cases h : t = tcp ∨ t = tls ∨ t = localT
  · simp only [h, if_true, iff_true]
    rcases h with rfl | rfl | rfl <;> decide
  · simp [h]

theorem connTypeOf_of_known {t : Str} (h : t = tcp ∨ t = tls ∨ t = localT) : connTypeOf t = t := by
  unfold connTypeOf; simp [h]

theorem cut_known {t : Str} (h : t = tcp ∨ t = tls ∨ t = localT) : cut t = none := by
  rcases h with rfl | rfl | rfl <;> simp [cut, tcp, tls, localT]

/-- `Address.Valid` succeeds exactly when every step of it does -/
theorem valid_iff_parts {a : Str} :
    valid a = true ↔ ∃ t na h p v, split a = [t, na] ∧ connTypeOf t ≠ wrong ∧
      splitHostPort na = some (h, p) ∧ atoi p = some v ∧ ¬ (v < 0 ∨ v > 65535) ∧
      (h = [] ∨ parseIP h = true ∨ validHostname h = true) := by
  unfold valid
  split
  · rename_i t na hs
    constructor
    · intro hv
      by_cases hct : connTypeOf t = wrong
      · simp [hct] at hv
      · simp only [hct, if_false] at hv
        cases hshp : splitHostPort na with
        | none => simp [hshp] at hv
        | some hp =>
          obtain ⟨h, p⟩ := hp
          simp only [hshp] at hv
          cases hat : atoi p with
          | none => simp [hat] at hv
          | some v =>
            simp only [hat] at hv
            by_cases hr : v < 0 ∨ v > 65535
            · simp [hr] at hv
            · simp only [hr, if_false] at hv
              refine ⟨t, na, h, p, v, hs, hct, hshp, hat, hr, ?_⟩
              by_cases h0 : h = []
              · exact Or.inl h0
              · simp only [h0, if_false] at hv
                by_cases hip : parseIP h = true
                · exact Or.inr (Or.inl hip)
                · simp only [hip] at hv
                  simp at hv
                  exact Or.inr (Or.inr hv)
    · rintro ⟨t', na', h', p', v', e1, hct, e2, e3, hr, hh⟩
      rw [hs] at e1
      simp only [List.cons.injEq, and_true] at e1
      obtain ⟨rfl, rfl⟩ := e1
      simp only [hct, if_false, e2, e3, hr]
      by_cases h0 : h' = []
      · simp [h0]
      · simp only [h0, if_false]
        by_cases hip : parseIP h' = true
        · simp [hip]
        · rcases hh with hh | hh | hh
          · exact absurd hh h0
          · exact absurd hh hip
          · simp [hip, hh]
  · rename_i hne
    simp only [Bool.false_eq_true, false_iff]
    rintro ⟨t, na, _, _, _, hs, _⟩
    exact hne t na hs

theorem shp_nil : splitHostPort [] = none := by simp [splitHostPort, lastIndexOf]

/-! ### `fmtNat` (FormatUint) and `joinHostPort` -/

theorem char_isDigit_toNat {c : Char} (h : c.isDigit = true) : isDigit c.toNat = true := by
  simp only [Char.isDigit, ge_iff_le, Bool.and_eq_true, decide_eq_true_eq] at h
  simp only [isDigit, Bool.and_eq_true, decide_eq_true_eq, Char.toNat]
  have h1 : (48 : UInt32) ≤ c.val := h.1
  have h2 : c.val ≤ (57 : UInt32) := h.2
  rw [UInt32.le_iff_toNat_le] at h1 h2
  simpa using And.intro h1 h2

theorem fmtNat_digits (n : Nat) : ∀ c ∈ fmtNat n, isDigit c = true := by
  intro c hc
  simp only [fmtNat, List.mem_map] at hc
  obtain ⟨ch, hch, rfl⟩ := hc
  exact char_isDigit_toNat (Nat.isDigit_of_mem_toDigits (by decide) (by decide) hch)

theorem fmtNat_ne_nil (n : Nat) : fmtNat n ≠ [] := by
  simp [fmtNat, Nat.toDigits_ne_nil]

theorem digitsVal_map_toNat {cs : List Char} {acc : Nat} (h : ∀ c ∈ cs, c.isDigit = true) :
    digitsVal (cs.map Char.toNat) acc = some (Nat.ofDigitChars 10 cs acc) := by
  induction cs generalizing acc with
  | nil => simp [digitsVal]
  | cons c cs ih =>
    have hc := char_isDigit_toNat (h c (by simp))
    simp only [List.map_cons, digitsVal, hc, if_true, Nat.ofDigitChars_cons]
    rw [ih (fun x hx => h x (by simp [hx]))]
    simp [Nat.mul_comm]

theorem digitsVal_fmtNat (n : Nat) : digitsVal (fmtNat n) 0 = some n := by
  unfold fmtNat
  rw [digitsVal_map_toNat (fun c hc => Nat.isDigit_of_mem_toDigits (by decide) (by decide) hc)]
  simp

/-- FormatUint then ParseUint(…, 10, 16) gives the number back -/
theorem parseUint16_fmtNat {n : Nat} (h : n ≤ 65535) : parseUint16 (fmtNat n) = some n := by
  simp [parseUint16, fmtNat_ne_nil, digitsVal_fmtNat, h]

theorem parseUint16_some {p : Str} {n : Nat} (h : parseUint16 p = some n) : n ≤ 65535 := by
  unfold parseUint16 at h
  split at h
  · cases h
  · split at h
    · cases h
    · split at h
      · simp at h; omega
      · cases h

theorem noBr_of_digits {p : Str} (h : ∀ c ∈ p, isDigit c = true) : NoBr p := by
  intro c hc
  have := h c hc
  simp [isDigit] at this
  omega

/-- `net.JoinHostPort` followed by `net.SplitHostPort` gives host and port back (host without
square brackets, port without colon and brackets) -/
theorem shp_joinHostPort {h p : Str} (hh : NoSq h) (hp : NoBr p) :
    splitHostPort (joinHostPort h p) = some (h, p) := by
  unfold joinHostPort
  by_cases hc : h.contains 58 = true
  · simp only [hc, if_true]
    exact shp_of_hostPort (HostPort.bracket h p hh hp)
  · simp only [hc]
    have hc' : 58 ∉ h := contains_false.mp (by simpa using hc)
    refine shp_of_hostPort (HostPort.plain h p ?_ hp)
    intro c hm
    exact ⟨fun e => hc' (e ▸ hm), (hh c hm).1, (hh c hm).2⟩

theorem hostPort_noSq {hp h p : Str} (hh : HostPort hp h p) : NoSq h ∧ NoBr p := by
  cases hh with
  | plain h p a b => exact ⟨fun c hc => ⟨(a c hc).2.1, (a c hc).2.2⟩, b⟩
  | bracket h p a b => exact ⟨a, b⟩

theorem hostPort_last_colon {s h p : Str} (hh : HostPort s h p) : ∃ pre, s = pre ++ 58 :: p ∧ 58 ∉ p := by
  cases hh with
  | plain h p a b => exact ⟨h, rfl, fun m => (b 58 m).1 rfl⟩
  | bracket h p a b => exact ⟨91 :: h ++ [93], by simp, fun m => (b 58 m).1 rfl⟩

end C20
