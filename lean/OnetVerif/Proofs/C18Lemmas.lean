import OnetVerif.Model.C18
/-! Helper lemmas for property C18 (core-only). -/
namespace C18

/-! ### hex -/

theorem hexVal_hexDigit {n : Nat} (h : n < 16) : hexVal (hexDigit n) = some n := by
  unfold hexDigit hexVal
  by_cases h10 : n < 10
  · simp only [h10, if_true]
    rw [if_pos (by omega)]
    congr 1; omega
  · simp only [h10, if_false]
    rw [if_neg (by omega), if_pos (by omega)]
    congr 1; omega

theorem hexDecode_hexEncode {b : Bytes} (h : ∀ x ∈ b, x < 256) : hexDecode (hexEncode b) = some b := by
  induction b with
  | nil => simp [hexEncode, hexDecode]
  | cons x r ih =>
    have hx : x < 256 := h x (by simp)
    have h1 : hexVal (hexDigit (x / 16)) = some (x / 16) := hexVal_hexDigit (by omega)
    have h2 : hexVal (hexDigit (x % 16)) = some (x % 16) := hexVal_hexDigit (by omega)
    simp only [hexEncode, hexDecode, h1, h2, ih (fun y hy => h y (by simp [hy]))]
    congr 2; omega

theorem hexEncode_length (b : Bytes) : (hexEncode b).length = 2 * b.length := by
  induction b with
  | nil => simp [hexEncode]
  | cons x r ih => simp [hexEncode, ih]; omega

theorem hexVal_lt {c n : Nat} (h : hexVal c = some n) : n < 16 := by
  unfold hexVal at h
  split at h
  · simp at h; omega
  · split at h
    · simp at h; omega
    · split at h
      · simp at h; omega
      · cases h

theorem hexDecode_some : ∀ (s : Str) (b : Bytes), hexDecode s = some b →
    s.length = 2 * b.length ∧ ∀ x ∈ b, x < 256
  | [], b, h => by simp [hexDecode] at h; subst h; simp
  | [_], b, h => by simp [hexDecode] at h
  | a :: c :: r, b, h => by
    simp only [hexDecode] at h
    cases ha : hexVal a with
    | none => simp [ha] at h
    | some x =>
      cases hc : hexVal c with
      | none => simp [ha, hc] at h
      | some y =>
        cases hr : hexDecode r with
        | none => simp [ha, hc, hr] at h
        | some t =>
          simp only [ha, hc, hr, Option.some.injEq] at h
          subst h
          have := hexDecode_some r t hr
          have hx := hexVal_lt ha
          have hy := hexVal_lt hc
          refine ⟨by simp [this.1]; omega, ?_⟩
          intro z hz
          rcases List.mem_cons.mp hz with rfl | hz
          · omega
          · exact this.2 z hz

/-- what `getHex` returns has exactly the requested length and consists of bytes -/
theorem getHex_some {s : Str} {l : Nat} {b : Bytes} (h : getHex s l = some b) :
    b.length = l ∧ ∀ x ∈ b, x < 256 := by
  unfold getHex at h
  split at h
  · cases h
  · split at h
    · cases h
    · rename_i h1 h2
      have := hexDecode_some _ _ h
      refine ⟨?_, this.2⟩
      have hl : (s.take (2 * l)).length = 2 * l := by simp; omega
      omega

/-- writing `l` bytes in hex and reading `l` bytes back gives the bytes, whatever follows the text -/
theorem getHex_hexEncode {b : Bytes} (junk : Str) (hne : b ≠ []) (h : ∀ x ∈ b, x < 256) :
    getHex (hexEncode b ++ junk) b.length = some b := by
  unfold getHex
  have hlen := hexEncode_length b
  have hne' : hexEncode b ++ junk ≠ [] := by
    cases b with
    | nil => exact absurd rfl hne
    | cons x r => simp [hexEncode]
  rw [if_neg hne', if_neg (by simp [hlen])]
  rw [List.take_left' hlen]
  exact hexDecode_hexEncode h

/-! ### service entries: the loop, then the sort -/

/-- the identity an entry yields, if any -/
def okOf (reg : List (Str × Suite)) (c : SvcCfg) : Option SvcId :=
  match parseServiceIdentity reg c with
  | .ok s => some s
  | _ => none

/-- the entry makes `parseServiceIdentity` panic (suite name differs from the registered one) -/
def panics (reg : List (Str × Suite)) (c : SvcCfg) : Bool :=
  match parseServiceIdentity reg c with
  | .panic => true
  | _ => false

theorem collect_eq (reg : List (Str × Suite)) (l : List SvcCfg) :
    collectServices reg l = if l.any (panics reg) then none else some (l.filterMap (okOf reg)) := by
  induction l with
  | nil => simp [collectServices]
  | cons c r ih =>
    have hpan : panics reg c = (match parseServiceIdentity reg c with | .panic => true | _ => false) := rfl
    have hok : okOf reg c = (match parseServiceIdentity reg c with | .ok s => some s | _ => none) := rfl
    rw [List.any_cons, List.filterMap_cons, hpan, hok, collectServices]
    cases hp : parseServiceIdentity reg c with
    | panic => simp
    | err => simp only [Bool.false_or]; exact ih
    | ok sid =>
      simp only [Bool.false_or]; rw [ih]
      by_cases ha : r.any (panics reg) = true
      · simp [ha]
      · simp [ha]

/-- what a successful `parseServiceIdentity` returned -/
theorem psi_ok {reg : List (Str × Suite)} {c : SvcCfg} {sid : SvcId}
    (h : parseServiceIdentity reg c = .ok sid) :
    ∃ S priv pub, regSuite reg c.name = some S ∧ S.name = c.suite ∧
      (if c.priv ≠ [] then getHex c.priv S.ssize else some (zeroScalar S)) = some priv ∧
      decPoint S c.pub = some pub ∧ sid = { name := c.name, suite := S.name, pub := pub, priv := priv } := by
  unfold parseServiceIdentity at h
  cases hr : regSuite reg c.name with
  | none => simp [hr] at h
  | some S =>
    simp only [hr] at h
    by_cases hn : S.name ≠ c.suite
    · simp [hn] at h
    · simp only [hn, if_false] at h
      cases hpr : (if c.priv ≠ [] then getHex c.priv S.ssize else some (zeroScalar S)) with
      | none => simp only [hpr] at h; cases h
      | some priv =>
        simp only [hpr] at h
        cases hd : decPoint S c.pub with
        | none => simp only [hd] at h; cases h
        | some pub =>
          simp only [hd, Res.ok.injEq] at h
          exact ⟨S, priv, pub, rfl, by simpa using hn, hpr, hd, h.symm⟩

theorem okOf_some {reg : List (Str × Suite)} {c : SvcCfg} {sid : SvcId} (h : okOf reg c = some sid) :
    parseServiceIdentity reg c = .ok sid := by
  unfold okOf at h
  split at h
  · rename_i s hs; simp only [Option.some.injEq] at h; rw [← h]; exact hs
  · cases h

theorem okOf_name {reg : List (Str × Suite)} {c : SvcCfg} {sid : SvcId} (h : okOf reg c = some sid) :
    sid.name = c.name := by
  obtain ⟨S, priv, pub, _, _, _, _, rfl⟩ := psi_ok (okOf_some h)
  rfl

theorem filterMap_names_nodup {reg : List (Str × Suite)} {l : List SvcCfg}
    (h : (l.map (·.name)).Nodup) : ((l.filterMap (okOf reg)).map (·.name)).Nodup := by
  induction l with
  | nil => simp
  | cons c r ih =>
    simp only [List.map_cons, List.nodup_cons] at h
    simp only [List.filterMap_cons]
    cases hc : okOf reg c with
    | none => exact ih h.2
    | some sid =>
      simp only [List.map_cons, List.nodup_cons]
      refine ⟨?_, ih h.2⟩
      intro hm
      apply h.1
      simp only [List.mem_map, List.mem_filterMap] at hm ⊢
      obtain ⟨sid', ⟨c', hc', hok⟩, hn⟩ := hm
      exact ⟨c', hc', by rw [← okOf_name hok, hn, okOf_name hc]⟩

theorem nameLe_trans (a b c : SvcId) (h1 : nameLe a b = true) (h2 : nameLe b c = true) : nameLe a c = true := by
  simp only [nameLe, decide_eq_true_eq] at *
  exact List.le_trans h1 h2

theorem nameLe_total (a b : SvcId) : (nameLe a b || nameLe b a) = true := by
  simp only [nameLe, Bool.or_eq_true, decide_eq_true_eq]
  exact List.le_total a.name b.name

theorem eq_of_name_eq {l : List SvcId} (hn : (l.map (·.name)).Nodup) {a b : SvcId}
    (ha : a ∈ l) (hb : b ∈ l) (h : a.name = b.name) : a = b := by
  induction l with
  | nil => cases ha
  | cons x r ih =>
    simp only [List.map_cons, List.nodup_cons, List.mem_map, not_exists, not_and] at hn
    rcases List.mem_cons.mp ha with rfl | ha' <;> rcases List.mem_cons.mp hb with rfl | hb'
    · rfl
    · exact absurd h.symm (hn.1 b hb')
    · exact absurd h (hn.1 a ha')
    · exact ih hn.2 ha' hb'

theorem sortServices_perm (l : List SvcId) : (sortServices l).Perm l := List.mergeSort_perm l nameLe

theorem sortServices_sorted (l : List SvcId) :
    (sortServices l).Pairwise (fun a b => nameLe a b = true) :=
  List.pairwise_mergeSort nameLe_trans nameLe_total l

/-- **sorting removes the iteration order**: permutations with distinct names sort to the same slice -/
theorem sortServices_eq_of_perm {l₁ l₂ : List SvcId} (hp : l₁.Perm l₂) (hn : (l₁.map (·.name)).Nodup) :
    sortServices l₁ = sortServices l₂ := by
  apply List.Perm.eq_of_pairwise (le := fun a b => nameLe a b = true)
  · intro a b ha hb hab hba
    have ha' : a ∈ l₁ := (sortServices_perm l₁).subset ha
    have hb' : b ∈ l₁ := hp.symm.subset ((sortServices_perm l₂).subset hb)
    simp only [nameLe, decide_eq_true_eq] at hab hba
    exact eq_of_name_eq hn ha' hb' (List.le_antisymm hab hba)
  · exact sortServices_sorted l₁
  · exact sortServices_sorted l₂
  · exact (sortServices_perm l₁).trans (hp.trans (sortServices_perm l₂).symm)

/-- the repaired `parseServiceConfig` does not depend on the map's iteration order -/
theorem parseServices_perm {reg : List (Str × Suite)} {l₁ l₂ : List SvcCfg} (hp : l₁.Perm l₂)
    (hn : (l₁.map (·.name)).Nodup) : parseServices reg l₁ = parseServices reg l₂ := by
  unfold parseServices
  rw [collect_eq, collect_eq, hp.any_eq]
  by_cases ha : l₂.any (panics reg) = true
  · simp [ha]
  · simp only [ha, Bool.false_eq_true, if_false, Option.map_some, Option.some.injEq]
    exact sortServices_eq_of_perm (hp.filterMap _) (filterMap_names_nodup hn)

/-! ### write-out and re-read -/

theorem psi_ok_intro {reg : List (Str × Suite)} {c : SvcCfg} {S : Suite} {priv pub : Bytes}
    (h1 : regSuite reg c.name = some S) (h2 : S.name = c.suite)
    (h3 : (if c.priv ≠ [] then getHex c.priv S.ssize else some (zeroScalar S)) = some priv)
    (h4 : decPoint S c.pub = some pub) :
    parseServiceIdentity reg c = .ok { name := c.name, suite := S.name, pub := pub, priv := priv } := by
  unfold parseServiceIdentity
  simp only [h1]
  rw [if_neg (by simp [h2])]
  simp only [h3, h4]

theorem decPoint_some {S : Suite} {k : Key} {b : Bytes} (h : decPoint S k = some b) :
    b.length = S.psize ∧ ∀ x ∈ b, x < 256 := by
  unfold decPoint at h
  cases hg : getHex k.s S.psize with
  | none => simp [hg] at h
  | some b' =>
    simp only [hg] at h
    by_cases hk : k.ok = true
    · simp only [hk, if_true, Option.some.injEq] at h
      subst h; exact getHex_some hg
    · simp [hk] at h

/-- a marshalled point written in hex is read back as that point -/
theorem decPoint_hexEncode {S : Suite} {b : Bytes} (hl : b.length = S.psize) (hpos : 0 < S.psize)
    (hb : ∀ x ∈ b, x < 256) : decPoint S { s := hexEncode b, ok := true } = some b := by
  unfold decPoint
  have hne : b ≠ [] := by intro e; rw [e] at hl; simp at hl; omega
  have := getHex_hexEncode [] hne hb
  simp only [List.append_nil, hl] at this
  simp [this]

/-- a service identity as a group file yields it: registered with suite `S`, public key of that
suite's size, zero private scalar -/
def GroupSvc (reg : List (Str × Suite)) (sid : SvcId) : Prop :=
  ∃ S, regSuite reg sid.name = some S ∧ sid.suite = S.name ∧ sid.priv = zeroScalar S ∧
    sid.pub.length = S.psize ∧ (∀ x ∈ sid.pub, x < 256) ∧ 0 < S.psize

/-- the `Services` entry `Group.Toml` writes for a service identity -/
def writeEntry (S' : Suite) (sid : SvcId) : SvcCfg :=
  { name := sid.name, suite := S'.name, pub := { s := hexEncode sid.pub, ok := true }, priv := [] }

theorem groupSvc_of_parse {reg : List (Str × Suite)} (hreg : ∀ e ∈ reg, 0 < e.2.psize)
    {c : SvcCfg} {sid : SvcId} (hc : c.priv = []) (h : parseServiceIdentity reg c = .ok sid) :
    GroupSvc reg sid := by
  obtain ⟨S, priv, pub, h1, h2, h3, h4, rfl⟩ := psi_ok h
  simp only [hc, ne_eq, not_true_eq_false, if_false, Option.some.injEq] at h3
  have hd := decPoint_some h4
  refine ⟨S, h1, rfl, h3.symm, hd.1, hd.2, ?_⟩
  unfold regSuite at h1
  cases hf : reg.find? (fun e => e.1 == c.name) with
  | none => simp [hf] at h1
  | some e =>
    simp only [hf, Option.map_some, Option.some.injEq] at h1
    rw [← h1]
    exact hreg e (List.mem_of_find?_eq_some hf)

theorem parse_writeEntry {reg : List (Str × Suite)} {sid : SvcId} (h : GroupSvc reg sid) :
    ∃ S, regSuite reg sid.name = some S ∧ parseServiceIdentity reg (writeEntry S sid) = .ok sid := by
  obtain ⟨S, h1, h2, h3, h4, h5, h6⟩ := h
  refine ⟨S, h1, ?_⟩
  have := psi_ok_intro (reg := reg) (c := writeEntry S sid) (S := S) (priv := zeroScalar S) (pub := sid.pub)
    h1 rfl (by simp [writeEntry]) (decPoint_hexEncode h4 h6 h5)
  rw [this]
  cases sid
  simp_all [writeEntry]

theorem collect_written {reg : List (Str × Suite)} {svcs : List SvcId} (h : ∀ sid ∈ svcs, GroupSvc reg sid) :
    ∃ ws, (svcs.mapM fun sid => (regSuite reg sid.name).map fun S' => writeEntry S' sid) = some ws ∧
      collectServices reg ws = some svcs := by
  induction svcs with
  | nil => exact ⟨[], by simp, by simp [collectServices]⟩
  | cons sid r ih =>
    obtain ⟨ws, hw1, hw2⟩ := ih (fun x hx => h x (by simp [hx]))
    obtain ⟨S, hS, hp⟩ := parse_writeEntry (h sid (by simp))
    refine ⟨writeEntry S sid :: ws, ?_, ?_⟩
    · simp only [List.mapM_cons, hS, Option.map_some, hw1]
      rfl
    · simp [collectServices, hp, hw2]

/-- what a successful `ToServerIdentity` returned -/
theorem tsi_ok {suites : List Suite} {reg : List (Str × Suite)} {s : ServerToml} {si : ServerId}
    (h : toServerIdentity suites reg s = .ok si) :
    ∃ S svcs, findSuite suites (defaultSuite s.suite) = some S ∧ decPoint S s.pub = some si.pub ∧
      parseServices reg s.services = some svcs ∧
      si = { pub := si.pub, ptype := S.ptype, services := svcs, address := s.address,
             description := s.description, url := s.url, priv := none } := by
  unfold toServerIdentity at h
  cases hf : findSuite suites (defaultSuite s.suite) with
  | none => simp [hf] at h
  | some S =>
    simp only [hf] at h
    cases hd : decPoint S s.pub with
    | none => simp [hd] at h
    | some pub =>
      simp only [hd] at h
      cases hp : parseServices reg s.services with
      | none => simp [hp] at h
      | some svcs =>
        simp only [hp, Res.ok.injEq] at h
        subst h
        exact ⟨S, svcs, rfl, hd, rfl, rfl⟩

/-- the identities a group file's `Services` tables yield are sorted by name and are `GroupSvc`s -/
theorem parseServices_group {reg : List (Str × Suite)} (hreg : ∀ e ∈ reg, 0 < e.2.psize)
    {entries : List SvcCfg} {svcs : List SvcId} (hpriv : ∀ c ∈ entries, c.priv = [])
    (h : parseServices reg entries = some svcs) :
    svcs.Pairwise (fun a b => nameLe a b = true) ∧ ∀ sid ∈ svcs, GroupSvc reg sid := by
  unfold parseServices at h
  rw [collect_eq] at h
  by_cases ha : entries.any (panics reg) = true
  · simp [ha] at h
  · simp only [ha, Bool.false_eq_true, if_false, Option.map_some, Option.some.injEq] at h
    subst h
    refine ⟨sortServices_sorted _, ?_⟩
    intro sid hs
    have hm := (sortServices_perm _).subset hs
    obtain ⟨c, hc, hok⟩ := List.mem_filterMap.mp hm
    exact groupSvc_of_parse hreg (hpriv c hc) (okOf_some hok)

/-- `GroupToml.String` fills in an empty description -/
def fillDesc (si : ServerId) : ServerId :=
  { si with description := if si.description = [] then placeholder else si.description }

/-- one server: what was read is written and read again as itself (description filled in) -/
theorem write_read_server {suites : List Suite} {reg : List (Str × Suite)} {S : Suite}
    (hS : findSuite suites (defaultSuite S.name) = some S) (hpos : 0 < S.psize)
    (hreg : ∀ e ∈ reg, 0 < e.2.psize)
    {s : ServerToml} {si : ServerId} (hsuite : findSuite suites (defaultSuite s.suite) = some S)
    (hpriv : ∀ c ∈ s.services, c.priv = [])
    (h : toServerIdentity suites reg s = .ok si) :
    ∃ t, writeServer S reg si = some t ∧ toServerIdentity suites reg t = .ok (fillDesc si) := by
  obtain ⟨S', svcs, h1, h2, h3, h4⟩ := tsi_ok h
  rw [hsuite] at h1
  simp only [Option.some.injEq] at h1
  subst h1
  obtain ⟨hsorted, hgs⟩ := parseServices_group hreg hpriv h3
  obtain ⟨ws, hw1, hw2⟩ := collect_written hgs
  have hd := decPoint_some h2
  have hsv : si.services = svcs := by rw [h4]
  have hpt : si.ptype = S.ptype := by rw [h4]
  refine ⟨{ address := si.address, suite := S.name,
            pub := { s := hexEncode si.pub, ok := S.ptype == si.ptype },
            description := if si.description = [] then placeholder else si.description,
            url := si.url, services := ws }, ?_, ?_⟩
  · unfold writeServer
    rw [hsv]
    have : (svcs.mapM fun sid => (regSuite reg sid.name).map fun S' =>
        ({ name := sid.name, suite := S'.name, pub := { s := hexEncode sid.pub, ok := true }, priv := [] } : SvcCfg))
        = some ws := hw1
    simp only [this, Option.map_some]
  · unfold toServerIdentity
    simp only [hS]
    have hok : (S.ptype == si.ptype) = true := by simp [hpt]
    rw [hok, decPoint_hexEncode hd.1 hpos hd.2]
    have hps : parseServices reg ws = some svcs := by
      unfold parseServices
      rw [hw2]
      simp only [Option.map_some, Option.some.injEq]
      exact List.mergeSort_of_pairwise hsorted
    simp only [hps]
    rw [h4]
    simp [fillDesc]

end C18
