import OnetVerif.Proofs.C18Lemmas
import OnetVerif.Proofs.C18Toml
/-! Property C18: the write/read round trip over the emitted *text* — assembling the structure-level
lemmas (`C18Lemmas`) and the text-level ones (`C18Toml`).  Core-only. -/
namespace C18

/-- every registered service has a name the writer quotes faithfully (no backslash, no line break) -/
def RegKeysOK (reg : List (Str × Suite)) : Prop := ∀ e ∈ reg, Toml.KeyOK e.1

/-- no key of these identities is among the texts kyber is said to reject -/
def NotBad (bad : List Str) (g : List ServerId) : Prop :=
  ∀ si ∈ g, hexEncode si.pub ∉ bad ∧ ∀ sid ∈ si.services, hexEncode sid.pub ∉ bad

theorem regSuite_mem {reg : List (Str × Suite)} {n : Str} {S : Suite} (h : regSuite reg n = some S) :
    ∃ e ∈ reg, e.1 = n := by
  unfold regSuite at h
  cases hf : reg.find? (fun e => e.1 == n) with
  | none => simp [hf] at h
  | some e =>
    refine ⟨e, List.mem_of_find?_eq_some hf, ?_⟩
    have := List.find?_some hf
    simpa using this

theorem mapM_written {reg : List (Str × Suite)} : ∀ (svcs : List SvcId) (ws : List SvcCfg),
    (svcs.mapM fun sid => (regSuite reg sid.name).map fun S' => writeEntry S' sid) = some ws →
    ws.map (·.name) = svcs.map (·.name) ∧
    (∀ c ∈ ws, c.priv = [] ∧ c.pub.ok = true ∧ ∃ sid ∈ svcs, c.pub.s = hexEncode sid.pub) := by
  intro svcs
  induction svcs with
  | nil =>
    intro ws h
    simp only [List.mapM_nil, Option.pure_def, Option.some.injEq] at h
    subst h; simp
  | cons sid r ih =>
    intro ws h
    simp only [List.mapM_cons, Option.bind_eq_bind] at h
    cases hr : regSuite reg sid.name with
    | none => simp [hr] at h
    | some S' =>
      cases hm : (r.mapM fun sid => (regSuite reg sid.name).map fun S' => writeEntry S' sid) with
      | none => simp [hr, hm] at h
      | some ws' =>
        simp only [hr, hm, Option.map_some, Option.bind_some, Option.pure_def, Option.some.injEq] at h
        subst h
        obtain ⟨i1, i2⟩ := ih ws' hm
        refine ⟨by simp [writeEntry, i1], ?_⟩
        intro c hc
        simp only [List.mem_cons] at hc
        rcases hc with rfl | hc
        · exact ⟨rfl, rfl, sid, by simp, rfl⟩
        · obtain ⟨a, b, sid', hs', e⟩ := i2 c hc
          exact ⟨a, b, sid', by simp [hs'], e⟩

/-- names of the identities `parseServices` returns: pairwise distinct when the map keys are -/
theorem parseServices_names_nodup {reg : List (Str × Suite)} {entries : List SvcCfg} {svcs : List SvcId}
    (hn : (entries.map (·.name)).Nodup) (h : parseServices reg entries = some svcs) : (svcs.map (·.name)).Nodup := by
  unfold parseServices at h
  rw [collect_eq] at h
  by_cases ha : entries.any (panics reg) = true
  · simp [ha] at h
  · simp only [ha, Bool.false_eq_true, if_false, Option.map_some, Option.some.injEq] at h
    subst h
    exact ((sortServices_perm _).map _).nodup_iff.mpr (filterMap_names_nodup hn)

def convSvc (c : SvcCfg) : Toml.TSvc := { name := c.name, suite := c.suite, pub := c.pub.s, priv := c.priv }

/-- one server: the `ServerToml` that `Group.Toml` builds goes through the text unchanged -/
theorem write_server_text {suites : List Suite} {reg : List (Str × Suite)} {S : Suite} {bad : List Str}
    (hreg : ∀ e ∈ reg, 0 < e.2.psize) (hkeys : RegKeysOK reg)
    {s : ServerToml} {si : ServerId} (hsuite : findSuite suites (defaultSuite s.suite) = some S)
    (hpriv : ∀ c ∈ s.services, c.priv = []) (hdist : (s.services.map (·.name)).Nodup)
    (h : toServerIdentity suites reg s = .ok si)
    (hb : hexEncode si.pub ∉ bad ∧ ∀ sid ∈ si.services, hexEncode sid.pub ∉ bad)
    {t : ServerToml} (hw : writeServer S reg si = some t) :
    serverTomlOf bad (Toml.normServer (tserverOf t)) = t ∧
    ∀ l, (tserverOf t).services = some l →
      ((l.map (·.name)).Nodup ∧ ∀ e ∈ l, e.priv = []) ∧ ∀ e ∈ l, Toml.KeyOK e.name := by
  obtain ⟨S', svcs, h1, h2, h3, h4⟩ := tsi_ok h
  rw [hsuite] at h1
  simp only [Option.some.injEq] at h1
  subst h1
  obtain ⟨hsorted, hgs⟩ := parseServices_group hreg hpriv h3
  have hnd := parseServices_names_nodup hdist h3
  have hsv : si.services = svcs := by rw [h4]
  have hpt : si.ptype = S.ptype := by rw [h4]
  -- what was written
  unfold writeServer at hw
  rw [hsv] at hw
  cases hm : (svcs.mapM fun sid => (regSuite reg sid.name).map fun S' => writeEntry S' sid) with
  | none =>
    have : (svcs.mapM fun sid => (regSuite reg sid.name).map fun S' =>
        ({ name := sid.name, suite := S'.name, pub := { s := hexEncode sid.pub, ok := true }, priv := [] } : SvcCfg))
        = none := hm
    simp [this] at hw
  | some ws =>
    have hm' : (svcs.mapM fun sid => (regSuite reg sid.name).map fun S' =>
        ({ name := sid.name, suite := S'.name, pub := { s := hexEncode sid.pub, ok := true }, priv := [] } : SvcCfg))
        = some ws := hm
    simp only [hm', Option.map_some, Option.some.injEq] at hw
    obtain ⟨w1, w2⟩ := mapM_written svcs ws hm
    -- the entries are in the byte order of their names already
    have hsortedNames : (svcs.map (·.name)).Pairwise (· ≤ ·) := by
      rw [List.pairwise_map]
      exact hsorted.imp (by intro a b hab; simpa [nameLe] using hab)
    have hwsSorted : (ws.map convSvc).Pairwise (fun a b => decide (a.name ≤ b.name) = true) := by
      rw [← w1, List.pairwise_map] at hsortedNames
      rw [List.pairwise_map]
      exact hsortedNames.imp (by intro a b hab; exact decide_eq_true hab)
    have hsortId : Toml.sortSvcs (ws.map convSvc) = ws.map convSvc := List.mergeSort_of_pairwise hwsSorted
    have hback : (ws.map convSvc).map (svcCfgOf bad) = ws := by
      rw [List.map_map]
      conv => rhs; rw [← List.map_id ws]
      apply List.map_congr_left
      intro c hc
      obtain ⟨p1, p2, sid, hs, p3⟩ := w2 c hc
      have hnb : bad.contains c.pub.s = false := by
        rw [p3]
        have := hb.2 sid (hsv ▸ hs)
        simpa using this
      cases c with
      | mk name suite pub priv =>
        cases pub with
        | mk ps pok =>
          simp only at p2 hnb
          have hnm : ps ∉ bad := by simpa using hnb
          simp [svcCfgOf, convSvc, keyOf, hnm, p2]
    have hpubnb : bad.contains (hexEncode si.pub) = false := by simpa using hb.1
    subst hw
    refine ⟨?_, ?_⟩
    · simp only [serverTomlOf, Toml.normServer, tserverOf, Option.map_some, Option.getD_some, keyOf, hpubnb, hpt,
        Bool.not_false, BEq.rfl]
      have : (ws.map fun c => ({ name := c.name, suite := c.suite, pub := c.pub.s, priv := c.priv } : Toml.TSvc)) =
          ws.map convSvc := rfl
      rw [this, hsortId, hback]
    · intro l hl
      simp only [tserverOf, Option.some.injEq] at hl
      subst hl
      have hnames : (ws.map fun c => ({ name := c.name, suite := c.suite, pub := c.pub.s, priv := c.priv } : Toml.TSvc)).map
          (·.name) = svcs.map (·.name) := by
        rw [List.map_map, ← w1]; rfl
      refine ⟨⟨by rw [hnames]; exact hnd, ?_⟩, ?_⟩
      · intro e he
        obtain ⟨c, hc, rfl⟩ := List.mem_map.mp he
        exact (w2 c hc).1
      · intro e he
        obtain ⟨c, hc, rfl⟩ := List.mem_map.mp he
        have hcn : c.name ∈ svcs.map (·.name) := by rw [← w1]; exact List.mem_map_of_mem hc
        obtain ⟨sid, hs, hsn⟩ := List.mem_map.mp hcn
        obtain ⟨S', hS', _⟩ := hgs sid hs
        obtain ⟨e', he', hen⟩ := regSuite_mem hS'
        have := hkeys e' he'
        simp only
        rw [← hsn, ← hen]
        exact this

/-- all servers: the structure `Group.Toml` builds goes through the text unchanged -/
theorem write_group_text {suites : List Suite} {reg : List (Str × Suite)} {S : Suite} {bad : List Str}
    (hreg : ∀ e ∈ reg, 0 < e.2.psize) (hkeys : RegKeysOK reg) :
    ∀ (cfg : List ServerToml) (g : List ServerId) (ts : List ServerToml),
      (∀ s ∈ cfg, findSuite suites (defaultSuite s.suite) = some S) →
      (∀ s ∈ cfg, ∀ c ∈ s.services, c.priv = []) →
      (∀ s ∈ cfg, (s.services.map (·.name)).Nodup) →
      readServers suites reg cfg = .ok g → NotBad bad g → writeGroup S reg g = some ts →
      ((ts.map tserverOf).map Toml.normServer).map (serverTomlOf bad) = ts ∧ Toml.GroupTextOK (ts.map tserverOf)
  | [], g, ts, _, _, _, h, _, hw => by
    simp only [readServers, Res.ok.injEq] at h
    subst h
    simp only [writeGroup, List.mapM_nil, Option.pure_def, Option.some.injEq] at hw
    subst hw
    exact ⟨rfl, by simp [Toml.GroupTextOK, Toml.GroupOK]⟩
  | s :: r, g, ts, hsu, hpr, hdi, h, hnb, hw => by
    simp only [readServers] at h
    cases ht : toServerIdentity suites reg s with
    | err => simp [ht] at h
    | panic => simp [ht] at h
    | ok si =>
      simp only [ht] at h
      cases hr : readServers suites reg r with
      | err => simp [hr] at h
      | panic => simp [hr] at h
      | ok l =>
        simp only [hr, Res.ok.injEq] at h
        subst h
        simp only [writeGroup, List.mapM_cons, Option.bind_eq_bind] at hw
        cases hw1 : writeServer S reg si with
        | none => simp [hw1] at hw
        | some t =>
          cases hw2 : l.mapM (writeServer S reg) with
          | none => simp [hw1, hw2] at hw
          | some ts' =>
            simp only [hw1, hw2, Option.bind_some, Option.pure_def, Option.some.injEq] at hw
            subst hw
            obtain ⟨a1, a2⟩ := write_server_text hreg hkeys (hsu s (by simp)) (hpr s (by simp)) (hdi s (by simp)) ht
              (hnb si (by simp)) hw1
            obtain ⟨b1, b2⟩ := write_group_text hreg hkeys r l ts' (fun x hx => hsu x (by simp [hx]))
              (fun x hx => hpr x (by simp [hx])) (fun x hx => hdi x (by simp [hx])) hr
              (fun x hx => hnb x (by simp [hx])) hw2
            refine ⟨by simp only [List.map_cons, a1, b1], ?_, ?_⟩
            · intro x hx lx hlx
              simp only [List.map_cons, List.mem_cons] at hx
              rcases hx with rfl | hx
              · exact (a2 lx hlx).1
              · exact b2.1 x hx lx hlx
            · intro x hx lx hlx
              simp only [List.map_cons, List.mem_cons] at hx
              rcases hx with rfl | hx
              · exact (a2 lx hlx).2
              · exact b2.2 x hx lx hlx

theorem readServers_of_readGroup {suites : List Suite} {reg : List (Str × Suite)} {cfg : List ServerToml}
    {g : List ServerId} (h : readGroup suites reg cfg = .ok g) : readServers suites reg cfg = .ok g := by
  unfold readGroup at h
  cases hr : readServers suites reg cfg with
  | err => simp [hr] at h
  | panic => simp [hr] at h
  | ok g0 =>
    simp only [hr] at h
    by_cases hst : sameType g0 = true
    · simp only [hst, if_true, Res.ok.injEq] at h; rw [h]
    · simp [hst] at h

end C18
