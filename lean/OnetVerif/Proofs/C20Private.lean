import OnetVerif.Proofs.C20Spec
/-! The private IPv4 ranges of `Address.Public`: the textual patterns of the regular expression against the numeric
ranges, on canonical dotted quads (helper lemmas for `c20_public_ipv4`).  Core-only. -/
namespace C20

def Dg (a : Nat) : Prop := 48 ≤ a ∧ a ≤ 57

theorem foldl_dec_ge (r : Str) (acc : Nat) :
    acc * 10 ^ r.length ≤ r.foldl (fun a d => a * 10 + (d - 48)) acc := by
  induction r generalizing acc with
  | nil => simp
  | cons d r ih =>
    simp only [List.foldl_cons, List.length_cons]
    refine Nat.le_trans ?_ (ih _)
    rw [Nat.pow_succ, Nat.mul_comm (10 ^ r.length) 10, ← Nat.mul_assoc]
    exact Nat.mul_le_mul_right _ (Nat.le_add_right _ _)

/-- an octet of the dotted-quad grammar is one, two or three digits, the first not `0` unless alone -/
theorem octet_shapes {f : Str} (h : Octet f) :
    (∃ a, f = [a] ∧ Dg a) ∨ (∃ a b, f = [a, b] ∧ Dg a ∧ Dg b ∧ a ≠ 48) ∨
    (∃ a b c, f = [a, b, c] ∧ Dg a ∧ Dg b ∧ Dg c ∧ a ≠ 48) := by
  obtain ⟨⟨hne, hd⟩, hv, hz⟩ := h
  have dg : ∀ x ∈ f, Dg x := by
    intro x hx
    have := hd x hx
    simp [isDigit] at this
    exact this
  match f, hne, hd, hv, hz, dg with
  | [a], _, _, _, _, dg => exact Or.inl ⟨a, rfl, dg a (by simp)⟩
  | [a, b], _, _, _, hz, dg =>
    refine Or.inr (Or.inl ⟨a, b, rfl, dg a (by simp), dg b (by simp), ?_⟩)
    intro e; exact hz (by simp) (by simp [e])
  | [a, b, c], _, _, _, hz, dg =>
    refine Or.inr (Or.inr ⟨a, b, c, rfl, dg a (by simp), dg b (by simp), dg c (by simp), ?_⟩)
    intro e; exact hz (by simp) (by simp [e])
  | a :: b :: c :: d :: r, _, _, hv, hz, dg =>
    exfalso
    have ha : Dg a := dg a (by simp)
    have hne : a ≠ 48 := by
      intro e; exact hz (by simp) (by simp [e])
    have := foldl_dec_ge (b :: c :: d :: r) (0 * 10 + (a - 48))
    unfold decVal at hv
    simp only [List.foldl_cons] at hv this
    have h1 : 1 ≤ a - 48 := by unfold Dg at ha; omega
    have h2 : (0 * 10 + (a - 48)) * 10 ^ (b :: c :: d :: r).length ≥ 1000 := by
      simp only [List.length_cons, Nat.zero_mul, Nat.zero_add]
      have : 10 ^ (r.length + 1 + 1 + 1) ≥ 1000 := by
        have : 10 ^ 3 ≤ 10 ^ (r.length + 1 + 1 + 1) := Nat.pow_le_pow_right (by omega) (by omega)
        omega
      have h3 : 1 * 10 ^ (r.length + 1 + 1 + 1) ≤ (a - 48) * 10 ^ (r.length + 1 + 1 + 1) := Nat.mul_le_mul_right _ h1
      omega
    omega

/-- a dotted pattern against a dotted string: the first fields must be equal -/
theorem prefix_dot (p q o tl : Str) (hp : 46 ∉ p) (ho : 46 ∉ o) :
    (p ++ 46 :: q).isPrefixOf (o ++ 46 :: tl) = (decide (o = p) && q.isPrefixOf tl) := by
  induction p generalizing o with
  | nil =>
    cases o with
    | nil => simp
    | cons x r =>
      have : x ≠ 46 := by intro e; exact ho (by simp [e])
      simp [List.isPrefixOf, Ne.symm this]
  | cons c p ih =>
    have hc : c ≠ 46 := by intro e; exact hp (by simp [e])
    cases o with
    | nil => simp [List.isPrefixOf, hc]
    | cons x r =>
      have hr : 46 ∉ r := fun m => ho (List.mem_cons_of_mem _ m)
      have hp' : 46 ∉ p := fun m => hp (List.mem_cons_of_mem _ m)
      simp only [List.cons_append, List.isPrefixOf, ih r hp' hr]
      by_cases e : c = x
      · subst e; simp
      · simp [e, Ne.symm e]

theorem octet_nodot {f : Str} (h : Octet f) : 46 ∉ f := by
  intro m
  have := h.1.2 46 m
  simp [isDigit] at this

/-- the private IPv4 ranges: 127/8, 10/8, 172.16/12, 192.168/16, 169.254/16 -/
def private4 (v1 v2 : Nat) : Prop :=
  v1 = 127 ∨ v1 = 10 ∨ (v1 = 172 ∧ 16 ≤ v2 ∧ v2 ≤ 31) ∨ (v1 = 192 ∧ v2 = 168) ∨ (v1 = 169 ∧ v2 = 254)

/-- a two-digit field: the digit `d`, then a digit in `lo..hi` -/
def rangeTwo (d lo hi : Nat) (o : Str) : Bool :=
  match o with
  | [a, b] => a = d && lo ≤ b && b ≤ hi
  | _ => false

/-- textual form of the ranges on canonical octets -/
def privateText (o1 o2 : Str) : Bool :=
  o1 = [49, 50, 55] || o1 = [49, 48] ||
  (o1 = [49, 55, 50] && (rangeTwo 49 54 57 o2 || rangeTwo 50 48 57 o2 || rangeTwo 51 48 49 o2)) ||
  (o1 = [49, 57, 50] && o2 = [49, 54, 56]) || (o1 = [49, 54, 57] && o2 = [50, 53, 52])

/-- a canonical octet with a three-digit value is those three digits -/
theorem octet_val3 {f : Str} (h : Octet f) (a b c : Nat) (ha : 49 ≤ a ∧ a ≤ 57) (hb : Dg b) (hc : Dg c) :
    decVal f = ((a - 48) * 10 + (b - 48)) * 10 + (c - 48) ↔ f = [a, b, c] := by
  unfold Dg at hb hc
  rcases octet_shapes h with ⟨x, rfl, hx⟩ | ⟨x, y, rfl, hx, hy, hx0⟩ | ⟨x, y, z, rfl, hx, hy, hz, hx0⟩
  · unfold Dg at *; simp [decVal]; omega
  · unfold Dg at *; simp [decVal]; omega
  · unfold Dg at *; simp [decVal]
    constructor
    · intro e; omega
    · rintro ⟨rfl, rfl, rfl⟩; rfl

/-- a canonical octet with a two-digit value is those two digits -/
theorem octet_val2 {f : Str} (h : Octet f) (a b : Nat) (ha : 49 ≤ a ∧ a ≤ 57) (hb : Dg b) :
    decVal f = (a - 48) * 10 + (b - 48) ↔ f = [a, b] := by
  unfold Dg at hb
  rcases octet_shapes h with ⟨x, rfl, hx⟩ | ⟨x, y, rfl, hx, hy, hx0⟩ | ⟨x, y, z, rfl, hx, hy, hz, hx0⟩
  · unfold Dg at *; simp [decVal]; omega
  · unfold Dg at *; simp [decVal]
    constructor
    · intro e; omega
    · rintro ⟨rfl, rfl⟩; rfl
  · unfold Dg at *; simp [decVal]; omega

theorem octet_range {f : Str} (h : Octet f) :
    (16 ≤ decVal f ∧ decVal f ≤ 31) ↔
      (rangeTwo 49 54 57 f || rangeTwo 50 48 57 f || rangeTwo 51 48 49 f) = true := by
  rcases octet_shapes h with ⟨x, rfl, hx⟩ | ⟨x, y, rfl, hx, hy, hx0⟩ | ⟨x, y, z, rfl, hx, hy, hz, hx0⟩
  · unfold Dg at *; simp [decVal, rangeTwo]; omega
  · unfold Dg at *; simp [decVal, rangeTwo]; omega
  · unfold Dg at *; simp [decVal, rangeTwo]; omega

theorem privateText_iff (o1 o2 : Str) (h1 : Octet o1) (h2 : Octet o2) :
    privateText o1 o2 = true ↔ private4 (decVal o1) (decVal o2) := by
  have d : ∀ n, 48 ≤ n → n ≤ 57 → Dg n := fun n a b => ⟨a, b⟩
  have e127 : decVal o1 = 127 ↔ o1 = [49, 50, 55] := octet_val3 h1 49 50 55 (by omega) (d _ (by omega) (by omega)) (d _ (by omega) (by omega))
  have e172 : decVal o1 = 172 ↔ o1 = [49, 55, 50] := octet_val3 h1 49 55 50 (by omega) (d _ (by omega) (by omega)) (d _ (by omega) (by omega))
  have e192 : decVal o1 = 192 ↔ o1 = [49, 57, 50] := octet_val3 h1 49 57 50 (by omega) (d _ (by omega) (by omega)) (d _ (by omega) (by omega))
  have e169 : decVal o1 = 169 ↔ o1 = [49, 54, 57] := octet_val3 h1 49 54 57 (by omega) (d _ (by omega) (by omega)) (d _ (by omega) (by omega))
  have e168 : decVal o2 = 168 ↔ o2 = [49, 54, 56] := octet_val3 h2 49 54 56 (by omega) (d _ (by omega) (by omega)) (d _ (by omega) (by omega))
  have e254 : decVal o2 = 254 ↔ o2 = [50, 53, 52] := octet_val3 h2 50 53 52 (by omega) (d _ (by omega) (by omega)) (d _ (by omega) (by omega))
  have e10 : decVal o1 = 10 ↔ o1 = [49, 48] := octet_val2 h1 49 48 (by omega) (d _ (by omega) (by omega))
  have er := octet_range h2
  unfold private4
  rw [e127, e10, e172, e192, e169, e168, e254, er]
  simp [privateText, or_assoc]

theorem beq_swap (a b : Nat) : (a == b) = decide (b = a) := by
  by_cases h : b = a
  · simp [h]
  · have : a ≠ b := fun e => h e.symm
    simp [h, this]

/-- `^172\\.d[lo-hi]\\.` on a dotted string -/
theorem prefixRangeDot_quad (d lo hi : Nat) (hlo : 46 < lo) (o1 o2 tl : Str) (h1 : Octet o1) (h2 : Octet o2) :
    prefixRangeDot [49, 55, 50, 46, d] lo hi (o1 ++ 46 :: (o2 ++ 46 :: tl)) =
      (decide (o1 = [49, 55, 50]) && rangeTwo d lo hi o2) := by
  have n1 := octet_nodot h1
  have hp := prefix_dot [49, 55, 50] [d] o1 (o2 ++ 46 :: tl) (by decide) n1
  simp only [List.cons_append, List.nil_append] at hp
  unfold prefixRangeDot
  rw [hp]
  by_cases e : o1 = [49, 55, 50]
  · subst e
    rcases octet_shapes h2 with ⟨x, rfl, hx⟩ | ⟨x, y, rfl, hx, hy, hx0⟩ | ⟨x, y, z, rfl, hx, hy, hz, hx0⟩
    · simp only [rangeTwo]
      cases tl with
      | nil => simp
      | cons t tl' =>
        have : ¬ lo ≤ 46 := by omega
        simp [this]
    · simp [rangeTwo, List.isPrefixOf, beq_swap, Bool.and_assoc]
    · unfold Dg at hz
      have : z ≠ 46 := by omega
      simp [rangeTwo, List.isPrefixOf, this]
  · simp [e]

theorem prefix254 (o2 tl : Str) (h2 : Octet o2) :
    ([50, 53, 52] : Str).isPrefixOf (o2 ++ 46 :: tl) = decide (o2 = [50, 53, 52]) := by
  rcases octet_shapes h2 with ⟨x, rfl, hx⟩ | ⟨x, y, rfl, hx, hy, hx0⟩ | ⟨x, y, z, rfl, hx, hy, hz, hx0⟩
  · simp [List.isPrefixOf]
  · simp [List.isPrefixOf]
  · simp [List.isPrefixOf, beq_swap]
/-- the regular expression of `Public` on a dotted quad followed by anything: its textual meaning -/
theorem privateRe_text (o1 o2 tl : Str) (h1 : Octet o1) (h2 : Octet o2) :
    privateRe (o1 ++ 46 :: (o2 ++ 46 :: tl)) = privateText o1 o2 := by
  have n1 := octet_nodot h1
  have n2 := octet_nodot h2
  have hd1 : ∀ c ∈ o1, c ≠ 91 := by
    intro c m e
    have := h1.1.2 c m
    simp [isDigit, e] at this
  have hne : o1 ≠ [] := h1.1.1
  -- the bracket alternatives need a leading '['
  have hb1 : ([91, 58, 58, 49, 93] : Str).isPrefixOf (o1 ++ 46 :: (o2 ++ 46 :: tl)) = false := by
    cases o1 with
    | nil => exact absurd rfl hne
    | cons x r => have := hd1 x (by simp); simp [List.isPrefixOf, Ne.symm this]
  have hb2 : ([91, 102, 100] : Str).isPrefixOf (o1 ++ 46 :: (o2 ++ 46 :: tl)) = false := by
    cases o1 with
    | nil => exact absurd rfl hne
    | cons x r => have := hd1 x (by simp); simp [List.isPrefixOf, Ne.symm this]
  have p127 := prefix_dot [49, 50, 55] [] o1 (o2 ++ 46 :: tl) (by decide) n1
  have p10 := prefix_dot [49, 48] [] o1 (o2 ++ 46 :: tl) (by decide) n1
  have p192 := prefix_dot [49, 57, 50] ([49, 54, 56] ++ 46 :: []) o1 (o2 ++ 46 :: tl) (by decide) n1
  have p192b := prefix_dot [49, 54, 56] [] o2 tl (by decide) n2
  have p169 := prefix_dot [49, 54, 57] [50, 53, 52] o1 (o2 ++ 46 :: tl) (by decide) n1
  simp only [List.cons_append, List.nil_append, List.isPrefixOf_nil_left, Bool.and_true] at p127 p10 p192 p192b p169
  unfold privateRe privateText
  rw [hb1, hb2, p127, p10, p192, p192b, p169, prefix254 o2 tl h2,
    prefixRangeDot_quad 49 54 57 (by omega) o1 o2 tl h1 h2, prefixRangeDot_quad 50 48 57 (by omega) o1 o2 tl h1 h2,
    prefixRangeDot_quad 51 48 49 (by omega) o1 o2 tl h1 h2]
  cases decide (o1 = [49, 55, 50]) <;> simp [Bool.or_assoc]

end C20
