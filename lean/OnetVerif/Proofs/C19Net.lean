import OnetVerif.Model.C19Net
/-! C19 helper lemmas for the monitor's network side: the effect of one step on what the connections
still have to deliver, well-formedness of reachable states, the decreasing weight.  Core only. -/
namespace C19

/-- `Interleave parts out`: `out` is an arrival order of the measures that the reporting
connections sent, connection i having sent `parts[i]` in that order -/
inductive Interleave {μ : Type} : List (List μ) → List μ → Prop
  | done (parts : List (List μ)) (h : ∀ p ∈ parts, p = []) : Interleave parts []
  | step (pre post : List (List μ)) (x : μ) (rest out : List μ) :
      Interleave (pre ++ rest :: post) out → Interleave (pre ++ (x :: rest) :: post) (x :: out)

theorem getElem?_split {β : Type} : ∀ (l : List β) (i : Nat) (c : β), l[i]? = some c →
    l = l.take i ++ c :: l.drop (i + 1)
  | [], i, c, h => by simp at h
  | x :: l, 0, c, h => by simp at h; simp [h]
  | x :: l, i + 1, c, h => by
    simp only [List.getElem?_cons_succ] at h
    have := getElem?_split l i c h
    simp only [List.take_succ_cons, List.drop_succ_cons, List.cons_append]
    rw [← this]

theorem set_split {β : Type} : ∀ (l : List β) (i : Nat) (c c' : β), l[i]? = some c →
    l.set i c' = l.take i ++ c' :: l.drop (i + 1)
  | [], i, c, c', h => by simp at h
  | x :: l, 0, c, c', h => by simp
  | x :: l, i + 1, c, c', h => by
    simp only [List.getElem?_cons_succ] at h
    simp only [List.set_cons_succ, List.take_succ_cons, List.drop_succ_cons, List.cons_append]
    rw [set_split l i c c' h]

section net
variable {κ α : Type} [Num α] [KeyOrd κ] [DecidableEq κ]

theorem map_set_same {β γ : Type} (f : β → γ) (l : List β) (i : Nat) (c c' : β) (h : l[i]? = some c)
    (hf : f c' = f c) : (l.set i c').map f = l.map f := by
  rw [set_split l i c c' h]
  conv => rhs; rw [getElem?_split l i c h]
  simp [hf]

/-- what one step does to the monitor and to what the connections still have to deliver: nothing —
except `deliver`, which takes the first remaining record of one connection and updates the monitor
with it -/
theorem step_effect (isEnd : κ → Bool) (n n1 : Net κ α) (a : Act) (h : n.step isEnd a = some n1) :
    (n1.mon = n.mon ∧ n1.conns.map (Conn.remaining isEnd) = n.conns.map (Conn.remaining isEnd)) ∨
    (∃ m pre R post, n1.mon = n.mon.update m ∧
      n.conns.map (Conn.remaining isEnd) = pre ++ (m :: R) :: post ∧
      n1.conns.map (Conn.remaining isEnd) = pre ++ R :: post) := by
  cases a with
  | accept i =>
    left
    simp only [Net.step] at h
    cases hc : n.conns[i]? with
    | none => simp [hc] at h
    | some c =>
      simp only [hc] at h
      split at h
      · cases h
      · cases h
        exact ⟨rfl, map_set_same _ _ _ _ _ hc rfl⟩
  | write i =>
    left
    simp only [Net.step] at h
    cases hc : n.conns[i]? with
    | none => simp [hc] at h
    | some c =>
      simp only [hc] at h
      cases hf : c.future with
      | nil => simp [hf] at h
      | cons m f =>
        simp only [hf] at h
        split at h
        · cases h
        · cases h
          refine ⟨rfl, map_set_same _ _ _ _ _ hc ?_⟩
          simp only [Conn.remaining, noEnd, hf, List.filter_append, List.append_assoc]
          congr 2
          rw [← List.filter_append]; rfl
  | hangup i =>
    left
    simp only [Net.step] at h
    cases hc : n.conns[i]? with
    | none => simp [hc] at h
    | some c =>
      simp only [hc] at h
      split at h
      · cases h
      · cases h
        exact ⟨rfl, map_set_same _ _ _ _ _ hc rfl⟩
  | decode i =>
    left
    simp only [Net.step] at h
    cases hc : n.conns[i]? with
    | none => simp [hc] at h
    | some c =>
      simp only [hc] at h
      split at h
      · cases h
      · cases hh : c.held with
        | some x => simp [hh] at h
        | none =>
          cases hi : c.input with
          | nil => simp [hh, hi] at h
          | cons m rest =>
            simp only [hh, hi] at h
            by_cases he : isEnd m.name = true
            · simp only [he, if_true, Option.some.injEq] at h
              subst h
              refine ⟨rfl, map_set_same _ _ _ _ _ hc ?_⟩
              simp [Conn.remaining, noEnd, hh, hi, he]
            · simp only [he, Bool.false_eq_true, if_false, Option.some.injEq] at h
              subst h
              refine ⟨rfl, map_set_same _ _ _ _ _ hc ?_⟩
              simp [Conn.remaining, noEnd, hh, hi, he]
  | deliver i =>
    right
    simp only [Net.step] at h
    split at h
    · cases h
    · cases hc : n.conns[i]? with
      | none => simp [hc] at h
      | some c =>
        simp only [hc] at h
        cases hh : c.held with
        | none => simp [hh] at h
        | some m =>
          simp only [hh, Option.some.injEq] at h
          subst h
          refine ⟨m, (n.conns.take i).map (Conn.remaining isEnd), noEnd isEnd c.input ++ noEnd isEnd c.future,
            (n.conns.drop (i + 1)).map (Conn.remaining isEnd), rfl, ?_, ?_⟩
          · conv => lhs; rw [getElem?_split n.conns i c hc]
            simp [Conn.remaining, hh]
          · simp only []
            rw [set_split n.conns i c _ hc]
            simp [Conn.remaining]
  | eof i =>
    left
    simp only [Net.step] at h
    split at h
    · cases h
    · cases hc : n.conns[i]? with
      | none => simp [hc] at h
      | some c =>
        simp only [hc] at h
        split at h
        · cases h
        · cases h
          exact ⟨rfl, map_set_same _ _ _ _ _ hc rfl⟩

/-- **every schedule**: if a run ends with nothing left to deliver, the monitor has been updated
with the connections' records in an order that is an interleaving of the connections' sequences -/
theorem run_interleave (isEnd : κ → Bool) (acts : List Act) (n n' : Net κ α)
    (h : n.run isEnd acts = some n') (hdone : ∀ c ∈ n'.conns, c.remaining isEnd = []) :
    ∃ out, n'.mon = out.foldl Monitor.update n.mon ∧
      Interleave (n.conns.map (Conn.remaining isEnd)) out := by
  induction acts generalizing n with
  | nil =>
    simp only [Net.run, Option.some.injEq] at h
    subst h
    exact ⟨[], rfl, .done _ (by simpa using hdone)⟩
  | cons a acts ih =>
    simp only [Net.run] at h
    cases hs : n.step isEnd a with
    | none => simp [hs] at h
    | some n1 =>
      simp only [hs] at h
      obtain ⟨out, ho, hi⟩ := ih n1 h
      rcases step_effect isEnd n n1 a hs with ⟨hm, hr⟩ | ⟨m, pre, R, post, hm, hr, hr1⟩
      · exact ⟨out, by rw [ho, hm], by rw [← hr]; exact hi⟩
      · refine ⟨m :: out, by rw [ho, hm]; rfl, ?_⟩
        rw [hr]
        rw [hr1] at hi
        exact .step pre post m R out hi

/-! ### Termination: every action consumes weight -/

theorem sum_set {β : Type} (f : β → Nat) (l : List β) (i : Nat) (c c' : β) (h : l[i]? = some c) :
    ((l.set i c').map f).sum + f c = (l.map f).sum + f c' := by
  rw [set_split l i c c' h]
  conv => rhs; rw [getElem?_split l i c h]
  simp only [List.map_append, List.map_cons, List.sum_append, List.sum_cons]
  omega

theorem step_weight (isEnd : κ → Bool) (n n1 : Net κ α) (a : Act) (h : n.step isEnd a = some n1) :
    n1.weight < n.weight := by
  have key : ∀ (i : Nat) (c c' : Conn κ α), n.conns[i]? = some c → c'.weight < c.weight →
      ((n.conns.set i c').map Conn.weight).sum < (n.conns.map Conn.weight).sum := by
    intro i c c' hc hw
    have := sum_set Conn.weight n.conns i c c' hc
    omega
  cases a with
  | accept i =>
    simp only [Net.step] at h
    cases hc : n.conns[i]? with
    | none => simp [hc] at h
    | some c =>
      simp only [hc] at h
      split at h
      · cases h
      · next hne =>
        cases h
        simp only [Bool.or_eq_true, not_or, Bool.not_eq_true] at hne
        exact key i c _ hc (by simp [Conn.weight, hne.2])
  | write i =>
    simp only [Net.step] at h
    cases hc : n.conns[i]? with
    | none => simp [hc] at h
    | some c =>
      simp only [hc] at h
      cases hf : c.future with
      | nil => simp [hf] at h
      | cons m f =>
        simp only [hf] at h
        split at h
        · cases h
        · cases h
          exact key i c _ hc (by simp [Conn.weight, hf]; omega)
  | hangup i =>
    simp only [Net.step] at h
    cases hc : n.conns[i]? with
    | none => simp [hc] at h
    | some c =>
      simp only [hc] at h
      split at h
      · cases h
      · next hne =>
        cases h
        simp only [Bool.or_eq_true, not_or, Bool.not_eq_true] at hne
        exact key i c _ hc (by simp [Conn.weight, hne.1])
  | decode i =>
    simp only [Net.step] at h
    cases hc : n.conns[i]? with
    | none => simp [hc] at h
    | some c =>
      simp only [hc] at h
      split at h
      · cases h
      · cases hh : c.held with
        | some x => simp [hh] at h
        | none =>
          cases hi : c.input with
          | nil => simp [hh, hi] at h
          | cons m rest =>
            simp only [hh, hi] at h
            by_cases he : isEnd m.name = true
            · simp only [he, if_true, Option.some.injEq] at h
              subst h
              exact key i c _ hc (by simp [Conn.weight, hh, hi])
            · simp only [he, Bool.false_eq_true, if_false, Option.some.injEq] at h
              subst h
              exact key i c _ hc (by simp [Conn.weight, hh, hi]; omega)
  | deliver i =>
    simp only [Net.step] at h
    split at h
    · cases h
    · cases hc : n.conns[i]? with
      | none => simp [hc] at h
      | some c =>
        simp only [hc] at h
        cases hh : c.held with
        | none => simp [hh] at h
        | some m =>
          simp only [hh, Option.some.injEq] at h
          subst h
          exact key i c _ hc (by simp [Conn.weight, hh])
  | eof i =>
    simp only [Net.step] at h
    split at h
    · cases h
    · cases hc : n.conns[i]? with
      | none => simp [hc] at h
      | some c =>
        simp only [hc] at h
        split at h
        · cases h
        · next hne =>
          cases h
          simp only [Bool.or_eq_true, not_or, Bool.not_eq_true, Bool.not_eq_eq_eq_not, Bool.not_true] at hne
          exact key i c _ hc (by simp [Conn.weight, hne.1.1.1.2])

/-- a run of `k` actions consumes at least `k` units of weight: no schedule is longer than the
weight of its first state -/
theorem run_length (isEnd : κ → Bool) (acts : List Act) (n n' : Net κ α)
    (h : n.run isEnd acts = some n') : n'.weight + acts.length ≤ n.weight := by
  induction acts generalizing n with
  | nil => simp only [Net.run, Option.some.injEq] at h; subst h; simp
  | cons a acts ih =>
    simp only [Net.run] at h
    cases hs : n.step isEnd a with
    | none => simp [hs] at h
    | some n1 =>
      simp only [hs] at h
      have := ih n1 h
      have := step_weight isEnd n n1 a hs
      simp only [List.length_cons]
      omega

/-! ### Reachable states and quiescence -/

/-- what holds of a connection in every reachable state -/
structure Conn.WF (c : Conn κ α) : Prop where
  gone : c.gone = true → c.accepted = true ∧ c.closed = true ∧ c.held = none ∧ c.input = []
  closed : c.closed = true → c.future = []

/-- what holds of the monitor in every state reachable from "no connection accepted yet" -/
structure Net.WF (n : Net κ α) : Prop where
  conns : ∀ c ∈ n.conns, c.WF
  fin : n.finished = true → ∀ c ∈ n.conns, c.accepted = true → c.gone = true
  notfin : n.finished = false →
    (∀ c ∈ n.conns, c.accepted = false) ∨ (∃ c ∈ n.conns, c.accepted = true ∧ c.gone = false)

/-- the initial states: clients with their records to write, nothing accepted, nothing written -/
theorem wf_init (mon : Monitor κ α) (futures : List (List (Measure κ α))) :
    Net.WF ({ mon := mon, conns := futures.map fun f => { future := f } } : Net κ α) := by
  refine ⟨?_, (by intro h; cases h), fun _ => Or.inl ?_⟩
  · intro c hc
    obtain ⟨f, _, rfl⟩ := List.mem_map.mp hc
    exact ⟨(by intro h; cases h), (by intro h; cases h)⟩
  · intro c hc
    obtain ⟨f, _, rfl⟩ := List.mem_map.mp hc
    rfl

theorem mem_of_getElem? {β : Type} {l : List β} {i : Nat} {c : β} (h : l[i]? = some c) : c ∈ l :=
  List.mem_of_getElem? h

theorem mem_set_cases {β : Type} (l : List β) (i : Nat) (c c' x : β) (h : l[i]? = some c)
    (hx : x ∈ l.set i c') : x = c' ∨ x ∈ l := by
  rw [set_split l i c c' h] at hx
  rcases List.mem_append.mp hx with h1 | h1
  · exact Or.inr (List.mem_of_mem_take h1)
  · rcases List.mem_cons.mp h1 with h2 | h2
    · exact Or.inl h2
    · exact Or.inr (List.mem_of_mem_drop h2)

theorem mem_set_of_mem {β : Type} (l : List β) (i : Nat) (c c' x : β) (h : l[i]? = some c)
    (hx : x ∈ l) : x = c ∨ x ∈ l.set i c' := by
  rw [getElem?_split l i c h] at hx
  rw [set_split l i c c' h]
  rcases List.mem_append.mp hx with h1 | h1
  · exact Or.inr (List.mem_append_left _ h1)
  · rcases List.mem_cons.mp h1 with h2 | h2
    · exact Or.inl h2
    · exact Or.inr (List.mem_append_right _ (List.mem_cons_of_mem _ h2))

theorem self_mem_set {β : Type} (l : List β) (i : Nat) (c c' : β) (h : l[i]? = some c) : c' ∈ l.set i c' := by
  rw [set_split l i c c' h]; simp

/-- a step that changes one connection from `c` to `c'`, keeps `finished` and does not un-accept or
un-go anything preserves well-formedness, provided `c'` is well-formed and (if `c` witnessed
"accepted and not gone") so does `c'` -/
theorem wf_set (n : Net κ α) (mon : Monitor κ α) (i : Nat) (c c' : Conn κ α) (hw : n.WF)
    (hc : n.conns[i]? = some c) (hc' : c'.WF)
    (hacc : c'.accepted = true → c'.gone = false → n.finished = false)
    (hkeep : c.accepted = true → c.gone = false → c'.accepted = true ∧ c'.gone = false)
    (hnone : c.accepted = false → c'.accepted = false ∨ (c'.accepted = true ∧ c'.gone = false)) :
    Net.WF ({ n with mon := mon, conns := n.conns.set i c' } : Net κ α) := by
  refine ⟨?_, ?_, ?_⟩
  · intro x hx
    rcases mem_set_cases _ _ _ _ _ hc hx with rfl | h1
    · exact hc'
    · exact hw.conns x h1
  · intro hf x hx ha
    rcases mem_set_cases _ _ _ _ _ hc hx with rfl | h1
    · cases hg : x.gone with
      | true => rfl
      | false => have := hacc ha hg; simp [this] at hf
    · exact hw.fin hf x h1 ha
  · intro hf
    rcases hw.notfin hf with h0 | ⟨w, hwm, hwa, hwg⟩
    · rcases hnone (h0 c (mem_of_getElem? hc)) with h1 | ⟨h1, h2⟩
      · left
        intro x hx
        rcases mem_set_cases _ _ _ _ _ hc hx with rfl | h3
        · exact h1
        · exact h0 x h3
      · exact Or.inr ⟨c', self_mem_set _ _ _ _ hc, h1, h2⟩
    · rcases mem_set_of_mem _ i c c' w hc hwm with rfl | h1
      · obtain ⟨k1, k2⟩ := hkeep hwa hwg
        exact Or.inr ⟨c', self_mem_set _ _ _ _ hc, k1, k2⟩
      · exact Or.inr ⟨w, h1, hwa, hwg⟩

theorem step_wf (isEnd : κ → Bool) (n n1 : Net κ α) (a : Act) (hw : n.WF) (h : n.step isEnd a = some n1) :
    n1.WF := by
  cases a with
  | accept i =>
    simp only [Net.step] at h
    cases hc : n.conns[i]? with
    | none => simp [hc] at h
    | some c =>
      simp only [hc] at h
      split at h
      · cases h
      · next hne =>
        cases h
        simp only [Bool.or_eq_true, not_or, Bool.not_eq_true] at hne
        have hcw := hw.conns c (mem_of_getElem? hc)
        have hng : c.gone = false := by
          cases hg : c.gone with
          | false => rfl
          | true => have := (hcw.gone hg).1; simp [hne.2] at this
        exact wf_set n n.mon i c _ hw hc
          ⟨(by intro hg; simp [hng] at hg), hcw.closed⟩
          (fun _ _ => hne.1) (fun ha _ => by simp [hne.2] at ha) (fun _ => Or.inr ⟨rfl, hng⟩)
  | write i =>
    simp only [Net.step] at h
    cases hc : n.conns[i]? with
    | none => simp [hc] at h
    | some c =>
      simp only [hc] at h
      cases hf : c.future with
      | nil => simp [hf] at h
      | cons m f =>
        simp only [hf] at h
        split at h
        · cases h
        · next hcl =>
          cases h
          have hcw := hw.conns c (mem_of_getElem? hc)
          have hng : c.gone = false := by
            cases hg : c.gone with
            | false => rfl
            | true => have := (hcw.gone hg).2.1; simp [this] at hcl
          refine wf_set n n.mon i c _ hw hc
            ⟨(by intro hg; simp [hng] at hg),
             (fun hx => by have hx' : c.closed = true := hx; simp [hx'] at hcl)⟩ ?_ (fun ha hg => ⟨ha, hg⟩) ?_
          · intro ha _
            cases hfin : n.finished with
            | false => rfl
            | true => have := hw.fin hfin c (mem_of_getElem? hc) ha; simp [hng] at this
          · intro ha; exact Or.inl ha
  | hangup i =>
    simp only [Net.step] at h
    cases hc : n.conns[i]? with
    | none => simp [hc] at h
    | some c =>
      simp only [hc] at h
      split at h
      · cases h
      · next hne =>
        cases h
        simp only [Bool.or_eq_true, not_or, Bool.not_eq_true, Bool.not_eq_eq_eq_not, Bool.not_true,
          List.isEmpty_eq_false_iff, ne_eq, Decidable.not_not] at hne
        have hcw := hw.conns c (mem_of_getElem? hc)
        have hng : c.gone = false := by
          cases hg : c.gone with
          | false => rfl
          | true => have := (hcw.gone hg).2.1; simp [hne.1] at this
        refine wf_set n n.mon i c _ hw hc
          ⟨(by intro hg; simp [hng] at hg), fun _ => ?_⟩ ?_ (fun ha hg => ⟨ha, hg⟩) (fun ha => Or.inl ha)
        · simpa using hne.2
        · intro ha _
          cases hfin : n.finished with
          | false => rfl
          | true => have := hw.fin hfin c (mem_of_getElem? hc) ha; simp [hng] at this
  | decode i =>
    simp only [Net.step] at h
    cases hc : n.conns[i]? with
    | none => simp [hc] at h
    | some c =>
      simp only [hc] at h
      split at h
      · cases h
      · next hne =>
        simp only [Bool.or_eq_true, not_or, Bool.not_eq_true, Bool.not_eq_eq_eq_not, Bool.not_true,
          Bool.not_false] at hne
        have hcw := hw.conns c (mem_of_getElem? hc)
        have hnf : n.finished = false := by
          cases hfin : n.finished with
          | false => rfl
          | true => have := hw.fin hfin c (mem_of_getElem? hc) (by simpa using hne.1); simp [hne.2] at this
        cases hh : c.held with
        | some x => simp [hh] at h
        | none =>
          cases hi : c.input with
          | nil => simp [hh, hi] at h
          | cons m rest =>
            simp only [hh, hi] at h
            by_cases he : isEnd m.name = true
            · simp only [he, if_true, Option.some.injEq] at h
              subst h
              exact wf_set n n.mon i c _ hw hc
                ⟨(by intro hg; simp [hne.2] at hg), hcw.closed⟩ (fun _ _ => hnf) (fun ha hg => ⟨ha, hg⟩)
                (fun ha => Or.inl ha)
            · simp only [he, Bool.false_eq_true, if_false, Option.some.injEq] at h
              subst h
              exact wf_set n n.mon i c _ hw hc
                ⟨(by intro hg; simp [hne.2] at hg), hcw.closed⟩ (fun _ _ => hnf) (fun ha hg => ⟨ha, hg⟩)
                (fun ha => Or.inl ha)
  | deliver i =>
    simp only [Net.step] at h
    split at h
    · cases h
    · next hnf =>
      cases hc : n.conns[i]? with
      | none => simp [hc] at h
      | some c =>
        simp only [hc] at h
        cases hh : c.held with
        | none => simp [hh] at h
        | some m =>
          simp only [hh, Option.some.injEq] at h
          subst h
          have hcw := hw.conns c (mem_of_getElem? hc)
          have hng : c.gone = false := by
            cases hg : c.gone with
            | false => rfl
            | true => have := (hcw.gone hg).2.2.1; simp [hh] at this
          exact wf_set n (n.mon.update m) i c _ hw hc
            ⟨(by intro hg; simp [hng] at hg), hcw.closed⟩ (fun _ _ => by simpa using hnf)
            (fun ha hg => ⟨ha, hg⟩) (fun ha => Or.inl ha)
  | eof i =>
    simp only [Net.step] at h
    split at h
    · cases h
    · next hnf =>
      cases hc : n.conns[i]? with
      | none => simp [hc] at h
      | some c =>
        simp only [hc] at h
        split at h
        · cases h
        · next hne =>
          cases h
          simp only [Bool.or_eq_true, not_or, Bool.not_eq_true, Bool.not_eq_eq_eq_not, Bool.not_true,
            Bool.not_false, Option.isSome_eq_false_iff, Option.isNone_iff_eq_none,
            List.isEmpty_eq_false_iff, ne_eq, Decidable.not_not] at hne
          obtain ⟨⟨⟨⟨ha, hg⟩, hh⟩, hi⟩, hcl⟩ := hne
          have hcw := hw.conns c (mem_of_getElem? hc)
          refine ⟨?_, ?_, ?_⟩
          · intro x hx
            rcases mem_set_cases _ _ _ _ _ hc hx with rfl | h1
            · exact ⟨fun _ => ⟨by simpa using ha, by simpa using hcl, hh, by simpa using hi⟩, hcw.closed⟩
            · exact hw.conns x h1
          · intro hf x hx hxa
            simp only [List.all_eq_true, Bool.or_eq_true, Bool.not_eq_true'] at hf
            rcases hf x hx with h1 | h1
            · simp [hxa] at h1
            · exact h1
          · intro hf
            simp only [List.all_eq_false, Bool.or_eq_true, Bool.not_eq_true', not_or, Bool.not_eq_false] at hf
            obtain ⟨x, hx, h1, h2⟩ := hf
            exact Or.inr ⟨x, hx, h1, by simpa using h2⟩

theorem run_wf (isEnd : κ → Bool) (acts : List Act) (n n' : Net κ α) (hw : n.WF)
    (h : n.run isEnd acts = some n') : n'.WF := by
  induction acts generalizing n with
  | nil => simp only [Net.run, Option.some.injEq] at h; subst h; exact hw
  | cons a acts ih =>
    simp only [Net.run] at h
    cases hs : n.step isEnd a with
    | none => simp [hs] at h
    | some n1 =>
      simp only [hs] at h
      exact ih n1 (step_wf isEnd n n1 a hw hs) h

theorem canMove_of (isEnd : κ → Bool) (n : Net κ α) (i : Nat) (c : Conn κ α) (hc : n.conns[i]? = some c)
    (a : Act) (ha : a ∈ [Act.accept i, .write i, .hangup i, .decode i, .deliver i, .eof i])
    (hs : (n.step isEnd a).isSome = true) : n.canMove isEnd = true := by
  have hi : i < n.conns.length := by
    rcases Nat.lt_or_ge i n.conns.length with h | h
    · exact h
    · rw [List.getElem?_eq_none h] at hc; cases hc
  unfold Net.canMove
  rw [List.any_eq_true]
  refine ⟨i, List.mem_range.mpr hi, ?_⟩
  rw [List.any_eq_true]
  exact ⟨a, ha, hs⟩

/-- **nothing is stuck**: in a reachable state in which no action is enabled, every client has written
everything and closed; every accepted connection has been read to its end, all its records have been
handed to the monitor and `Listen` has been told; if any connection was accepted, `Listen` has
returned; a connection that was never accepted can only be left over because the listener was closed
before its turn (a client that arrives after all earlier ones have left). -/
theorem quiescent (isEnd : κ → Bool) (n : Net κ α) (hw : n.WF) (hq : n.canMove isEnd = false) :
    (∀ c ∈ n.conns, c.closed = true ∧ c.future = []) ∧
    (∀ c ∈ n.conns, c.accepted = true → c.gone = true ∧ c.remaining isEnd = []) ∧
    (∀ c ∈ n.conns, c.accepted = false → n.finished = true) ∧
    ((∃ c ∈ n.conns, c.accepted = true) → n.finished = true) := by
  have no : ∀ (i : Nat) (c : Conn κ α), n.conns[i]? = some c →
      ∀ a ∈ [Act.accept i, .write i, .hangup i, .decode i, .deliver i, .eof i], (n.step isEnd a).isSome = false := by
    intro i c hc a ha
    cases hs : (n.step isEnd a).isSome with
    | false => rfl
    | true => rw [canMove_of isEnd n i c hc a ha hs] at hq; cases hq
  have hclosed : ∀ c ∈ n.conns, c.closed = true ∧ c.future = [] := by
    intro c hc
    obtain ⟨i, hi⟩ := List.mem_iff_getElem?.mp hc
    have hcw := hw.conns c hc
    cases hcl : c.closed with
    | true => exact ⟨rfl, hcw.closed hcl⟩
    | false =>
      cases hf : c.future with
      | nil =>
        have := no i c hi (.hangup i) (by simp)
        simp [Net.step, hi, hcl, hf] at this
      | cons m f =>
        have := no i c hi (.write i) (by simp)
        simp [Net.step, hi, hcl, hf] at this
  have hacc : ∀ c ∈ n.conns, c.accepted = true → c.gone = true ∧ c.remaining isEnd = [] := by
    intro c hc ha
    obtain ⟨i, hi⟩ := List.mem_iff_getElem?.mp hc
    have hcw := hw.conns c hc
    obtain ⟨hcl, hfu⟩ := hclosed c hc
    cases hg : c.gone with
    | true =>
      obtain ⟨_, _, hh, hin⟩ := hcw.gone hg
      exact ⟨rfl, by simp [Conn.remaining, noEnd, hh, hin, hfu]⟩
    | false =>
      exfalso
      have hnf : n.finished = false := by
        cases hfin : n.finished with
        | false => rfl
        | true => have := hw.fin hfin c hc ha; simp [hg] at this
      cases hh : c.held with
      | some m =>
        have := no i c hi (.deliver i) (by simp)
        simp [Net.step, hi, hnf, hh] at this
      | none =>
        cases hin : c.input with
        | cons m rest =>
          have := no i c hi (.decode i) (by simp)
          by_cases he : isEnd m.name = true <;> simp [Net.step, hi, ha, hg, hh, hin, he] at this
        | nil =>
          have := no i c hi (.eof i) (by simp)
          simp [Net.step, hi, hnf, ha, hg, hh, hin, hcl] at this
  refine ⟨hclosed, hacc, ?_, ?_⟩
  · intro c hc ha
    obtain ⟨i, hi⟩ := List.mem_iff_getElem?.mp hc
    cases hfin : n.finished with
    | true => rfl
    | false =>
      have := no i c hi (.accept i) (by simp)
      simp [Net.step, hi, hfin, ha] at this
  · rintro ⟨c, hc, ha⟩
    cases hfin : n.finished with
    | true => rfl
    | false =>
      exfalso
      rcases hw.notfin hfin with h0 | ⟨w, hwm, hwa, hwg⟩
      · have := h0 c hc; simp [ha] at this
      · have := (hacc w hwm hwa).1; simp [hwg] at this

/-- no step adds or removes a connection -/
theorem step_conns_length (isEnd : κ → Bool) (n n1 : Net κ α) (a : Act) (h : n.step isEnd a = some n1) :
    n1.conns.length = n.conns.length := by
  cases a <;> simp only [Net.step] at h <;>
    (repeat' split at h) <;> first | (cases h; done) | (cases h; exact List.length_set)

theorem run_conns_length (isEnd : κ → Bool) (acts : List Act) (n n' : Net κ α)
    (h : n.run isEnd acts = some n') : n'.conns.length = n.conns.length := by
  induction acts generalizing n with
  | nil => simp only [Net.run, Option.some.injEq] at h; subst h; rfl
  | cons a acts ih =>
    simp only [Net.run] at h
    cases hs : n.step isEnd a with
    | none => simp [hs] at h
    | some n1 =>
      simp only [hs] at h
      rw [ih n1 h, step_conns_length isEnd n n1 a hs]

end net

end C19
