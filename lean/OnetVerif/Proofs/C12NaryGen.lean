import OnetVerif.Model.C12
import OnetVerif.Gen.C12Nary
/-! Helper lemmas for `C12.c12_gen_WithRoot_eq` (Props/C12Gen.lean): the regenerated `Roster.GenerateNaryTreeWithRoot`
(`Gen/C12Nary.lean`) against the hand model `C12.genNaryKeys`.  Core Lean only. -/
namespace C12.NaryGen
open C12

/-- the roster of the translation over these keys (no nil entry; a server's id is its key) -/
def roster (keys : List Nat) : Gen.C12Nary.Roster := { List := keys.map fun k => some { Public := k } }

/-- the state function of one iteration, read off the model -/
def step (N rootIdx n : Nat) (s : List Nat × List Nat × Nodes) (i : Int) : Option (List Nat × List Nat × Nodes) :=
  match naryStep N rootIdx n { nodes := s.2.2, parents := s.1, children := s.2.1 } i.toNat with
  | none => none
  | some s' => some (s'.parents, s'.children, s'.nodes)

theorem idx_zero {α : Type} (l : List α) : Gen.Rt.idx l 0 = l.head? := by
  cases l <;> simp [Gen.Rt.idx]

theorem slice_tail {α : Type} (a : α) (l : List α) : Gen.Rt.slice (a :: l) 1 (Gen.Rt.len (a :: l)) = some l := by
  have h1 : ¬ ((l.length : Int) + 1 < 1) := by omega
  simp [Gen.Rt.slice, Gen.Rt.len, h1]

theorem len_eq_zero {α : Type} (l : List α) : (Gen.Rt.len l == 0) = l.isEmpty := by
  cases l with
  | nil => rfl
  | cons a r =>
    have h : ¬ (((r.length : Nat) : Int) + 1 = 0) := by omega
    simp [Gen.Rt.len, h]

theorem set_last (h : Nodes) (x : Nat) (q : Nat) :
    (h ++ [(x, 0)]).set h.length (((h ++ [(x, 0)]).getD h.length (0, 0)).1, q) = h ++ [(x, q)] := by
  simp [List.getD]


set_option linter.unusedVariables false

theorem imod_nat (i : Int) (r n : Nat) (hi : 0 ≤ i) (hn : 0 < n) :
    Gen.Rt.imod (i + (r : Int)) (n : Int) = some (((i.toNat + r) % n : Nat) : Int) := by
  have h0 : ¬ ((n : Int) = 0) := by omega
  have h1 : 0 ≤ i + (r : Int) := by omega
  have h2 : ((i.toNat + r : Nat) : Int) = i + r := by omega
  simp only [Gen.Rt.imod, h0, if_false, Int.tmod_eq_emod_of_nonneg h1, Int.natCast_emod, h2]

theorem idx_nat {α : Type} (l : List α) (k : Nat) : Gen.Rt.idx l (k : Int) = l[k]? := by
  have : ¬ ((k : Int) < 0) := by omega
  simp [Gen.Rt.idx, this]

theorem imod_nat0 (i : Int) (n : Nat) (hi : 0 ≤ i) (hn : 0 < n) :
    Gen.Rt.imod (i + 0) (n : Int) = some (((i.toNat + 0) % n : Nat) : Int) := by
  simpa using imod_nat i 0 n hi hn

/-- one iteration of the generated loop body is the model's `naryStep` (run on the goal the main theorem leaves after
`Gen.Rt.loop_step`: the generated text sits in the goal, so the proof is a script, not a lemma about a copy) -/
macro "nary_step_tac" keys:ident N:ident r:term:max i:ident p:ident c:ident h:ident hne:ident hi1:ident imodlemma:term:max : tactic => `(tactic| (
  have hn : 0 < ($keys).length := by cases $keys:ident <;> simp_all
  have hlen : Gen.Rt.len (roster $keys).List = (($keys).length : Int) := by simp [Gen.Rt.len, roster]
  rw [hlen, $imodlemma (by omega) hn]
  simp only []
  have hlt : (($i).toNat + $r) % ($keys).length < ($keys).length := Nat.mod_lt _ hn
  have hidx : Gen.Rt.idx (roster $keys).List (((($i).toNat + $r) % ($keys).length : Nat) : Int) = some (some { Public := ($keys)[(($i).toNat + $r) % ($keys).length] }) := by
    rw [idx_nat]
    simp [roster, hlt]
  rw [hidx]
  simp only [Int.toNat_natCast, set_last, idx_zero, len_eq_zero]
  unfold step naryStep
  cases $p:ident with
  | nil => simp
  | cons p0 prest =>
    simp only [List.head?_cons, slice_tail]
    by_cases hN : subtreeCount $h p0 = $N
    · simp only [hN, Int.ofNat_eq_natCast, beq_self_eq_true, if_true]
      cases prest with
      | nil =>
        simp
        cases $c:ident <;> simp
      | cons a b => simp
    · have h2 : ¬ (((subtreeCount $h p0 : Nat) : Int) = (($N : Nat) : Int)) := by omega
      simp [h2, hN]))


def ofOutcome : Outcome Nodes → Option (Outcome Nodes)
  | .panic => none
  | o => some o

theorem upto_range' (n : Nat) : Gen.Rt.upto 1 (n : Int) = (List.range' 1 (n - 1)).map Int.ofNat := by
  have h : ((n : Int) - 1).toNat = n - 1 := by omega
  simp [Gen.Rt.upto, h, List.range'_eq_map_range, List.map_map, Function.comp_def]

theorem foldlM_step (N r n : Nat) (xs : List Nat) (p c : List Nat) (h : Nodes) :
    List.foldlM (step N r n) (p, c, h) (xs.map Int.ofNat) =
      (naryLoop N r n xs { nodes := h, parents := p, children := c }).map fun s => (s.parents, s.children, s.nodes) := by
  induction xs generalizing p c h with
  | nil => simp [naryLoop]
  | cons x xs ih =>
    simp only [List.map_cons, List.foldlM_cons, naryLoop]
    cases hs : naryStep N r n { nodes := h, parents := p, children := c } x with
    | none => simp [step, hs]
    | some s' => simp [step, hs, ih]

theorem withRoot_nil (keys : List Nat) (N : Nat) (hne : keys ≠ []) :
    (Gen.C12Nary.Roster_GenerateNaryTreeWithRoot (roster keys) (Int.ofNat N) none []).map (·.1) =
      ofOutcome (genNary N (some 0) keys.length) := by
  unfold Gen.C12Nary.Roster_GenerateNaryTreeWithRoot
  simp only [Option.isNone_none, Bool.not_true]
  rw [Gen.Rt.loop_step (step N 0 keys.length) none]
  · have hlen : Gen.Rt.len (roster keys).List = (keys.length : Int) := by simp [Gen.Rt.len, roster]
    rw [hlen, upto_range', foldlM_step]
    have hidx0 : Gen.Rt.idx (roster keys).List 0 = some (some { Public := keys.head hne }) := by
      cases keys with
      | nil => exact absurd rfl hne
      | cons a b => simp [Gen.Rt.idx, roster]
    simp only [hidx0, genNary]
    cases hL : naryLoop N 0 keys.length (List.range' 1 (keys.length - 1)) { nodes := [(0, 0)], parents := [0], children := [] } with
    | none => simp [ofOutcome, hL]
    | some s => simp [ofOutcome, hL]
  · intro s i hi
    obtain ⟨p, c, h⟩ := s
    have hi1 : 1 ≤ i := by
      simp [Gen.Rt.upto] at hi
      omega
    simp only []
    nary_step_tac keys N 0 i p c h hne hi1 (imod_nat0 i keys.length)

theorem search_aux (f : Int × Option Gen.C12Nary.ServerIdentity → Option (Option (Int × Option Gen.C12Nary.ServerIdentity)))
    (k : Nat) (hf : ∀ (i : Int) (s : Gen.C12Nary.ServerIdentity), f (i, some s) = if (s.Public == k) then some (some (i, some s)) else none)
    (keys : List Nat) (off : Nat) :
    (Gen.Rt.enumFrom off (keys.map fun k => (some { Public := k } : Option Gen.C12Nary.ServerIdentity))).findSome? f =
    (keys.findIdx? (· == k)).map fun i => some (((off + i : Nat) : Int), some { Public := k }) := by
  induction keys generalizing off with
  | nil => simp [Gen.Rt.enumFrom]
  | cons a r ih =>
    simp only [List.map_cons, Gen.Rt.enumFrom, List.findSome?_cons, List.findIdx?_cons, hf]
    by_cases hak : a = k
    · subst hak; simp
    · have : (a == k) = false := by simp [hak]
      simp only [this]
      rw [ih (off + 1)]
      cases List.findIdx? (fun x => x == k) r <;> simp <;> omega

theorem search_eq (keys : List Nat) (k : Nat) :
    Gen.C12Nary.Roster_searchByKey (roster keys) k =
      some (match search keys k with | some i => ((i : Int), some { Public := k }) | none => (-1, none)) := by
  unfold Gen.C12Nary.Roster_searchByKey Gen.Rt.rangeReturn Gen.Rt.enum
  simp only [roster]
  rw [search_aux _ k (by intro i s; rfl) keys 0]
  unfold search
  cases List.findIdx? (fun x => x == k) keys <;> simp

theorem withRoot_some (keys : List Nat) (N k : Nat) :
    (Gen.C12Nary.Roster_GenerateNaryTreeWithRoot (roster keys) (Int.ofNat N) (some { Public := k }) []).map (·.1) =
      ofOutcome (genNary N (search keys k) keys.length) := by
  unfold Gen.C12Nary.Roster_GenerateNaryTreeWithRoot
  simp only [Option.isNone_some, Bool.not_false, if_true, search_eq]
  cases hs : search keys k with
  | none => simp [genNary, ofOutcome]
  | some r =>
    have hne : keys ≠ [] := by
      intro h0; subst h0; simp [search] at hs
    simp only []
    have hneg : ¬ ((r : Int) < 0) := by omega
    simp only [hneg, decide_false, Bool.false_eq_true, if_false]
    rw [Gen.Rt.loop_step (step N r keys.length) none]
    · have hlen : Gen.Rt.len (roster keys).List = (keys.length : Int) := by simp [Gen.Rt.len, roster]
      rw [hlen, upto_range', foldlM_step]
      simp only [genNary, List.nil_append, List.length_nil, Int.toNat_natCast]
      cases hL : naryLoop N r keys.length (List.range' 1 (keys.length - 1)) { nodes := [(r, 0)], parents := [0], children := [] } with
      | none => simp [ofOutcome]
      | some s => simp [ofOutcome]
    · intro s i hi
      obtain ⟨p, c, h⟩ := s
      have hi1 : 1 ≤ i := by
        simp [Gen.Rt.upto] at hi
        omega
      simp only []
      nary_step_tac keys N r i p c h hne hi1 (imod_nat i r keys.length)

end C12.NaryGen
