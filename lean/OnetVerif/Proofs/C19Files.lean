import OnetVerif.Model.C19Files
/-! C19 helper lemmas about the file handling of `RunTests` (`Model/C19Files.lean`). Core only. -/
namespace C19

section files
variable {S L : Type}

theorem writeSet_length (ln : S → List L) (fs : List (List L)) (o : Nat) (s : S) (h : o ≤ fs.length) :
    (writeSet ln fs o s).length = max fs.length (o + 1) := by
  unfold writeSet
  by_cases h1 : fs.length ≤ o
  · simp [h1, List.length_modify]; omega
  · simp [h1, List.length_modify]; omega

theorem writeSet_get (ln : S → List L) (fs : List (List L)) (o : Nat) (s : S) (h : o ≤ fs.length) (j : Nat) :
    (writeSet ln fs o s)[j]?.getD [] = fs[j]?.getD [] ++ (if j = o then ln s else []) := by
  unfold writeSet
  by_cases h1 : fs.length ≤ o
  · have ho : o = fs.length := by omega
    subst ho
    simp only [Nat.le_refl, if_true, List.getElem?_modify, List.getElem?_append]
    by_cases hj : j < fs.length
    · have : ¬ j = fs.length := by omega
      have h2 : ¬ fs.length = j := by omega
      simp [hj, this, h2]
    · by_cases hj2 : j = fs.length
      · subst hj2; simp
      · have h2 : ¬ fs.length = j := by omega
        have h3 : ¬ j - fs.length = 0 := by omega
        simp [hj, hj2, h2]
        rw [List.getElem?_eq_none (by simp; omega)]
        rfl
  · simp only [h1, if_false, List.getElem?_modify]
    by_cases hj : j = o
    · subst hj
      have : j < fs.length := by omega
      simp [this]
    · have h2 : ¬ o = j := by omega
      simp [hj, h2]

theorem writeRunFrom_length (ln : S → List L) : ∀ (sets : List S) (o : Nat) (fs : List (List L)), o ≤ fs.length →
    (writeRunFrom ln o sets fs).length = max fs.length (o + sets.length)
  | [], o, fs, h => by simp [writeRunFrom]; omega
  | s :: ss, o, fs, h => by
    have hl := writeSet_length ln fs o s h
    have := writeRunFrom_length ln ss (o + 1) (writeSet ln fs o s) (by omega)
    simp only [writeRunFrom, this, hl, List.length_cons]; omega

theorem writeRunFrom_get (ln : S → List L) : ∀ (sets : List S) (o : Nat) (fs : List (List L)), o ≤ fs.length →
    ∀ j, (writeRunFrom ln o sets fs)[j]?.getD [] =
      fs[j]?.getD [] ++ (if j < o then [] else ((sets[j - o]?).map ln).getD [])
  | [], o, fs, h, j => by simp [writeRunFrom]
  | s :: ss, o, fs, h, j => by
    have hl := writeSet_length ln fs o s h
    have ih := writeRunFrom_get ln ss (o + 1) (writeSet ln fs o s) (by omega) j
    simp only [writeRunFrom, ih, writeSet_get ln fs o s h j]
    by_cases h1 : j < o
    · have : j < o + 1 := by omega
      have h3 : ¬ j = o := by omega
      simp [h1, this, h3]
    · by_cases h2 : j = o
      · subst h2; simp
      · have h3 : ¬ j < o + 1 := by omega
        have h4 : j - o = (j - (o + 1)) + 1 := by omega
        simp [h1, h2, h3]
        rw [h4]; simp

/-- file `j` after the runs from index `i` on: what was there, then per executed run that has a result set `j` its lines -/
def specFrom (ss : Int × Int) (j : Nat) : Nat → List (Option (List S)) → List (Line S)
  | _, [] => []
  | i, r :: rs =>
    (if inRange ss i then
      match r with
      | some sets => ((sets[j]?).map (runLines i)).getD []
      | none => []
    else []) ++ specFrom ss j (i + 1) rs

/-- the number of files the runs from index `i` on need -/
def widthFrom (ss : Int × Int) : Nat → List (Option (List S)) → Nat
  | _, [] => 0
  | i, r :: rs =>
    max (if inRange ss i then (match r with | some sets => sets.length | none => 0) else 0) (widthFrom ss (i + 1) rs)

theorem runTestsFrom_get (ss : Int × Int) : ∀ (runs : List (Option (List S))) (i : Nat) (fs : List (List (Line S))) (j : Nat),
    (runTestsFrom ss i runs fs)[j]?.getD [] = fs[j]?.getD [] ++ specFrom ss j i runs
  | [], i, fs, j => by simp [runTestsFrom, specFrom]
  | r :: rs, i, fs, j => by
    unfold runTestsFrom specFrom
    by_cases h : inRange ss i
    · cases r with
      | none => simp [h, runTestsFrom_get ss rs (i + 1) fs j]
      | some sets =>
        simp only [h, Bool.not_true, Bool.false_eq_true, if_false, if_true]
        rw [runTestsFrom_get ss rs (i + 1) _ j, writeRunFrom_get (runLines i) sets 0 fs (Nat.zero_le _) j]
        simp
    · simp [h, runTestsFrom_get ss rs (i + 1) fs j]

theorem runTestsFrom_length (ss : Int × Int) : ∀ (runs : List (Option (List S))) (i : Nat) (fs : List (List (Line S))),
    (runTestsFrom ss i runs fs).length = max fs.length (widthFrom ss i runs)
  | [], i, fs => by simp [runTestsFrom, widthFrom]
  | r :: rs, i, fs => by
    unfold runTestsFrom widthFrom
    by_cases h : inRange ss i
    · cases r with
      | none => simp [h, runTestsFrom_length ss rs (i + 1) fs]
      | some sets =>
        simp only [h, Bool.not_true, Bool.false_eq_true, if_false, if_true]
        rw [runTestsFrom_length ss rs (i + 1) _, writeRunFrom_length (runLines i) sets 0 fs (Nat.zero_le _)]
        omega
    · simp [h, runTestsFrom_length ss rs (i + 1) fs]

end files
end C19
