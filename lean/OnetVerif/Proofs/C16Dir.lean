import OnetVerif.Model.C16Dir
/-! C16 helper lemmas for the data-directory model: injectivity of the hexadecimal file names, the
frame conditions of start / call / close on files of other servers, and the simulation of a
directory history by the database history of one server (`dir_sim`).  Core only. -/
namespace C16

/-! ### File names -/

theorem hexDigit_inj {a b : Nat} (ha : a < 16) (hb : b < 16) (h : hexDigit a = hexDigit b) : a = b := by
  unfold hexDigit at h
  split at h <;> split at h <;> omega

theorem hexOf_inj : ∀ (a b : Bytes), (∀ x ∈ a, x < 256) → (∀ x ∈ b, x < 256) → hexOf a = hexOf b → a = b
  | [], [], _, _, _ => rfl
  | [], _ :: _, _, _, h => by simp [hexOf] at h
  | _ :: _, [], _, _, h => by simp [hexOf] at h
  | x :: a, y :: b, ha, hb, h => by
    simp only [hexOf, List.cons.injEq] at h
    obtain ⟨h1, h2, h3⟩ := h
    have hx := ha x List.mem_cons_self
    have hy := hb y List.mem_cons_self
    have e1 := hexDigit_inj (Nat.mod_lt _ (by decide)) (Nat.mod_lt _ (by decide)) h1
    have e2 := hexDigit_inj (a := x % 16) (b := y % 16) (Nat.mod_lt _ (by decide)) (Nat.mod_lt _ (by decide)) h2
    have : x = y := by omega
    rw [this, hexOf_inj a b (fun z hz => ha z (List.mem_cons_of_mem _ hz)) (fun z hz => hb z (List.mem_cons_of_mem _ hz)) h3]

/-- byte strings (the model's `Nat`s stand for bytes) -/
def IsBytes (b : Bytes) : Prop := ∀ x ∈ b, x < 256
instance (b : Bytes) : Decidable (IsBytes b) := by unfold IsBytes; infer_instance

theorem dbName_inj {a b : Bytes} (ha : IsBytes a) (hb : IsBytes b) (h : hexOf a ++ dotDb = hexOf b ++ dotDb) : a = b :=
  hexOf_inj a b ha hb (List.append_cancel_right h)

/-- the server with key `q` uses no file name of the server with key `pub` -/
structure Apart (h : Bytes → Bytes) (pub q : Bytes) : Prop where
  nn : newName h q ≠ newName h pub
  on : oldName q ≠ newName h pub
  no : newName h q ≠ oldName pub
  oo : oldName q ≠ oldName pub

theorem Apart.ne {h : Bytes → Bytes} {pub q : Bytes} (a : Apart h pub q) : q ≠ pub :=
  fun e => a.oo (by rw [e])

/-- file names differ as soon as keys and hashes differ (hexadecimal notation is injective) -/
theorem apart_of_hash (h : Bytes → Bytes) (pub q : Bytes) (hp : IsBytes pub) (hq : IsBytes q)
    (hhp : IsBytes (h pub)) (hhq : IsBytes (h q))
    (h1 : h q ≠ h pub) (h2 : q ≠ h pub) (h3 : h q ≠ pub) (h4 : q ≠ pub) : Apart h pub q :=
  ⟨fun e => h1 (dbName_inj hhq hhp e), fun e => h2 (dbName_inj hq hhp e),
   fun e => h3 (dbName_inj hhq hp e), fun e => h4 (dbName_inj hq hp e)⟩

theorem self_apart (h : Bytes → Bytes) (pub : Bytes) (hp : IsBytes pub) (hhp : IsBytes (h pub))
    (hfix : h pub ≠ pub) : newName h pub ≠ oldName pub :=
  fun e => hfix (dbName_inj hhp hp e)

/-! ### Files -/

theorem setFile_same (d : Dir) (n : Bytes) (c : Option Db) : setFile d n c n = c := by simp [setFile]
theorem setFile_other (d : Dir) (n m : Bytes) (c : Option Db) (hne : m ≠ n) : setFile d n c m = d m := by
  simp [setFile, hne]

/-- what a server with key `pub` finds when it is started on the directory: the file with the legacy
name if there is one (it is taken over and replaces whatever has the new name), else the file with
the new name, else a new, empty database -/
def initialDb (h : Bytes → Bytes) (d : Dir) (pub : Bytes) : Db :=
  match d (oldName pub) with
  | some c => c
  | none => (d (newName h pub)).getD Db.empty

theorem migrate_new (h : Bytes → Bytes) (d : Dir) (pub : Bytes) :
    ((migrate h d pub) (newName h pub)).getD Db.empty = initialDb h d pub := by
  unfold migrate initialDb
  cases hd : d (oldName pub) with
  | none => rfl
  | some c => simp [setFile_same]

theorem migrate_old (h : Bytes → Bytes) (d : Dir) (pub : Bytes) (hself : newName h pub ≠ oldName pub) :
    (migrate h d pub) (oldName pub) = none := by
  unfold migrate
  cases hd : d (oldName pub) with
  | none => simpa using hd
  | some c => simp [setFile, hself.symm]

theorem migrate_other (h : Bytes → Bytes) (d : Dir) (pub m : Bytes) (h1 : m ≠ oldName pub) (h2 : m ≠ newName h pub) :
    (migrate h d pub) m = d m := by
  unfold migrate
  cases hd : d (oldName pub) with
  | none => rfl
  | some c => simp [setFile, h1, h2]

/-- the first thing a start does: the server's file holds what `initialDb` says, with the contexts of
the registered services made; no file with the legacy name is left -/
theorem startOn_file (h : Bytes → Bytes) (d : Dir) (pub : Bytes) (services : List Bytes)
    (hself : newName h pub ≠ oldName pub) :
    startOn h d pub services (newName h pub) = some (startServer (initialDb h d pub) services) ∧
    startOn h d pub services (oldName pub) = none := by
  unfold startOn openFile
  constructor
  · rw [setFile_same, migrate_new]
  · rw [setFile_other _ _ _ _ hself.symm]; exact migrate_old h d pub hself

theorem startOn_other (h : Bytes → Bytes) (d : Dir) (pub m : Bytes) (services : List Bytes)
    (h1 : m ≠ oldName pub) (h2 : m ≠ newName h pub) : startOn h d pub services m = d m := by
  unfold startOn openFile
  rw [setFile_other _ _ _ _ h2, migrate_other h d pub m h1 h2]

theorem closeOn_other (h : Bytes → Bytes) (d : Dir) (srv : Server) (m : Bytes) (h2 : m ≠ newName h srv.pub) :
    closeOn h d srv m = d m := by
  unfold closeOn; split
  · exact setFile_other _ _ _ _ h2
  · rfl

theorem callOn_other (h : Bytes → Bytes) (known : List Bytes) (d : Dir) (p svc : Bytes) (op : Op) (m : Bytes)
    (h2 : m ≠ newName h p) : (callOn h known d p svc op).1 m = d m := by
  unfold callOn
  cases hd : d (newName h p) with
  | none => rfl
  | some db => exact setFile_other _ _ _ _ h2

/-! ### One server's view of a directory history -/

/-- an event that the theorems about the server with key `pub` allow: its own starts and calls,
its own closes as a server that keeps its file, and anything of servers whose file names are apart -/
def Fits (h : Bytes → Bytes) (pub : Bytes) : DEv → Prop
  | .start srv _ => srv.pub = pub ∨ Apart h pub srv.pub
  | .call p _ _ => p = pub ∨ Apart h pub p
  | .close srv => (srv.pub = pub ∧ srv.delDb = false) ∨ Apart h pub srv.pub

/-- **simulation**: on a directory where the server's file exists and no legacy file is around, a
history of the directory looks to the server with key `pub` exactly like the history `proj pub` of
its database — same results, same final contents — whatever the other servers did in between; and
no legacy file appears. -/
theorem dir_sim (h : Bytes → Bytes) (known : List Bytes) (pub : Bytes) (hself : newName h pub ≠ oldName pub)
    (devs : List DEv) (hok : ∀ e ∈ devs, Fits h pub e) (d : Dir) (db : Db)
    (hfile : d (newName h pub) = some db) (hold : d (oldName pub) = none) :
    resultsOf pub (drun h known d devs).2 = (run known db (proj pub devs)).2 ∧
    (drun h known d devs).1 (newName h pub) = some (run known db (proj pub devs)).1 ∧
    (drun h known d devs).1 (oldName pub) = none := by
  induction devs generalizing d db with
  | nil => exact ⟨rfl, hfile, hold⟩
  | cons e devs ih =>
    have hrest : ∀ e ∈ devs, Fits h pub e := fun e he => hok e (List.mem_cons_of_mem _ he)
    have he := hok e List.mem_cons_self
    cases e with
    | start srv services =>
      simp only [drun, proj]
      by_cases hp : srv.pub = pub
      · rw [if_pos hp, hp]
        obtain ⟨f1, f2⟩ := startOn_file h d pub services hself
        have hi : initialDb h d pub = db := by simp [initialDb, hold, hfile]
        rw [hi] at f1
        simpa [run] using ih hrest _ _ f1 f2
      · rw [if_neg hp]
        have ha : Apart h pub srv.pub := by
          rcases he with e | a
          · exact absurd e hp
          · exact a
        exact ih hrest _ _
          ((startOn_other h d srv.pub _ services ha.on.symm ha.nn.symm).trans hfile)
          ((startOn_other h d srv.pub _ services ha.oo.symm ha.no.symm).trans hold)
    | call p svc op =>
      simp only [drun, proj]
      by_cases hp : p = pub
      · subst hp
        rw [if_pos rfl]
        have hc : callOn h known d p svc op = (setFile d (newName h p) (some (step known db svc op).1), (step known db svc op).2) := by
          simp [callOn, hfile]
        obtain ⟨i1, i2, i3⟩ := ih hrest (callOn h known d p svc op).1 (step known db svc op).1
          (by rw [hc]; exact setFile_same _ _ _)
          (by rw [hc]; show setFile d (newName h p) _ (oldName p) = none
              rw [setFile_other _ _ _ _ hself.symm]; exact hold)
        refine ⟨?_, by simpa [run] using i2, i3⟩
        simp only [resultsOf, run] at i1 ⊢
        rw [List.filter_cons_of_pos (by simp), List.map_cons, i1, hc]
      · rw [if_neg hp]
        have ha : Apart h pub p := by
          rcases he with e | a
          · exact absurd e hp
          · exact a
        obtain ⟨i1, i2, i3⟩ := ih hrest (callOn h known d p svc op).1 db
          ((callOn_other h known d p svc op _ ha.nn.symm).trans hfile)
          ((callOn_other h known d p svc op _ ha.no.symm).trans hold)
        refine ⟨?_, i2, i3⟩
        simp only [resultsOf] at i1 ⊢
        rw [List.filter_cons_of_neg (by simpa using hp)]
        exact i1
    | close srv =>
      simp only [drun, proj]
      rcases he with ⟨e, hdel⟩ | ha
      · have : closeOn h d srv = d := by simp [closeOn, hdel]
        rw [this]
        exact ih hrest d db hfile hold
      · exact ih hrest _ _
          ((closeOn_other h d srv _ ha.nn.symm).trans hfile)
          ((closeOn_other h d srv _ ha.no.symm).trans hold)

end C16
