import OnetVerif.Model.C18Slices
/-! Lemmas for the slice/heap model of C18 (`Model/C18Slices.lean`); core only. -/
namespace C18
namespace Sl

/-- the arrays numbered below `n` are what they were, and no array has gone -/
def Below {α : Type} (n : Nat) (h h' : Heap α) : Prop := h.length ≤ h'.length ∧ ∀ i, i < n → h'[i]? = h[i]?

theorem Below.refl {α : Type} (n : Nat) (h : Heap α) : Below n h h := ⟨Nat.le_refl _, fun _ _ => rfl⟩

theorem Below.trans {α : Type} {n : Nat} {h₁ h₂ h₃ : Heap α} (a : Below n h₁ h₂) (b : Below n h₂ h₃) : Below n h₁ h₃ :=
  ⟨Nat.le_trans a.1 b.1, fun i hi => (b.2 i hi).trans (a.2 i hi)⟩

theorem Below.mono {α : Type} {n m : Nat} {h h' : Heap α} (a : Below n h h') (hm : m ≤ n) : Below m h h' :=
  ⟨a.1, fun i hi => a.2 i (Nat.lt_of_lt_of_le hi hm)⟩

/-- what a slice shows depends on its own array only -/
theorem read_below {α : Type} {n : Nat} {h h' : Heap α} (a : Below n h h') (s : Slice) (hs : s.arr < n) :
    read h' s = read h s := by
  unfold read; rw [a.2 s.arr hs]

theorem alloc_below {α : Type} (h : Heap α) (l : List α) (k : Nat) (pad : α) :
    Below h.length h (alloc h l k pad).1 ∧ (alloc h l k pad).2.arr = h.length := by
  refine ⟨⟨by simp [alloc], fun i hi => ?_⟩, rfl⟩
  simp only [alloc]
  exact List.getElem?_append_left hi

theorem push_below {α : Type} (n : Nat) (h : Heap α) (s : Slice) (x pad : α) (hn : n ≤ h.length) (hs : n ≤ s.arr) :
    Below n h (push h s x pad).1 ∧ n ≤ (push h s x pad).2.arr := by
  unfold push
  split
  · refine ⟨⟨by simp, fun i hi => ?_⟩, hs⟩
    simp only
    rw [List.getElem?_modify]
    have : s.arr ≠ i := by omega
    cases h[i]? <;> simp [this]
  · have := alloc_below h (read h s ++ [x]) (s.len + 1) pad
    exact ⟨this.1.mono hn, by rw [this.2]; exact hn⟩

theorem concatLoop_below {α : Type} [DecidableEq α] (pad : α) (n : Nat) (sis : List α) :
    ∀ (h : Heap α) (t : Slice), n ≤ h.length → n ≤ t.arr →
      Below n h (concatLoop pad (h, t) sis).1 ∧ n ≤ (concatLoop pad (h, t) sis).2.arr := by
  induction sis with
  | nil => intro h t _ ht; exact ⟨Below.refl _ _, ht⟩
  | cons si sis ih =>
    intro h t hn ht
    simp only [concatLoop]
    split
    · exact ih h t hn ht
    · have hp := push_below n h t si pad hn ht
      have := ih (push h t si pad).1 (push h t si pad).2 (Nat.le_trans hn hp.1.1) hp.2
      exact ⟨hp.1.trans this.1, this.2⟩

/-- `NewRoster` (the code's) leaves every existing array alone -/
theorem newRoster_below {α : Type} (h : Heap α) (s : Slice) (pad : α) :
    Below h.length h (newRoster h s pad).1 ∧ (newRoster h s pad).2.arr = h.length :=
  alloc_below h _ 0 pad

/-- `Roster.Concat` built on it too: it only appends to arrays of its own -/
theorem concat_below {α : Type} [DecidableEq α] (h : Heap α) (ro : Slice) (sis : List α) (pad : α) :
    Below h.length h (concatWith newRoster h ro sis pad).1 ∧ h.length ≤ (concatWith newRoster h ro sis pad).2.arr := by
  unfold concatWith
  have h1 := newRoster_below h ro pad
  have h2 := concatLoop_below pad h.length sis (newRoster h ro pad).1 (newRoster h ro pad).2 h1.1.1 (by rw [h1.2]; exact Nat.le_refl _)
  have h3 := newRoster_below (concatLoop pad (newRoster h ro pad) sis).1 (concatLoop pad (newRoster h ro pad) sis).2 pad
  have hlen : h.length ≤ (concatLoop pad (newRoster h ro pad) sis).1.length := Nat.le_trans h1.1.1 h2.1.1
  refine ⟨(h1.1.trans h2.1).trans (h3.1.mono hlen), ?_⟩
  simp only
  rw [h3.2]; exact hlen

theorem use_below {α : Type} [DecidableEq α] (pad : α) (st : St α) (u : Use α) :
    Below st.heap.length st.heap (useWith newRoster pad st u).heap := by
  cases u with
  | part r lo hi =>
    simp only [useWith]
    split
    · exact Below.refl _ _
    · split
      · exact (newRoster_below _ _ pad).1
      · exact Below.refl _ _
  | concat r sis =>
    simp only [useWith]
    split
    · exact Below.refl _ _
    · exact (concat_below _ _ sis pad).1

theorem run_below {α : Type} [DecidableEq α] (pad : α) (us : List (Use α)) :
    ∀ st : St α, Below st.heap.length st.heap (runWith newRoster pad st us).heap := by
  induction us with
  | nil => intro st; exact Below.refl _ _
  | cons u us ih =>
    intro st
    have h1 := use_below pad st u
    have h2 := ih (useWith newRoster pad st u)
    exact h1.trans (h2.mono h1.1)

end Sl
end C18
