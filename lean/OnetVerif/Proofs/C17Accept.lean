import OnetVerif.Model.C17
/-! Helper lemmas for the accept-path transition system of C17 (`Model/C17Accept.lean`); core only. -/
namespace C17
namespace Acc

theorem run_snoc (s : State) (acts : List Act) (a : Act) : run s (acts ++ [a]) = step (run s acts) a := by
  simp [run, List.foldl_append]

theorem run_append (s : State) (l₁ l₂ : List Act) : run s (l₁ ++ l₂) = run (run s l₁) l₂ := by
  simp [run, List.foldl_append]

theorem run_cons (s : State) (a : Act) (l : List Act) : run s (a :: l) = run (step s a) l := rfl

/-! ### what `upd` changes -/

theorem upd_vp (s : State) (c : Nat) (f : Conn → Conn) : (upd s c f).vp = s.vp := by
  unfold upd; split <;> rfl

theorem upd_closed (s : State) (c : Nat) (f : Conn → Conn) : (upd s c f).closed = s.closed := by
  unfold upd; split <;> rfl

theorem upd_log (s : State) (c : Nat) (f : Conn → Conn) : (upd s c f).log = s.log := by
  unfold upd; split <;> rfl

theorem upd_conns_length (s : State) (c : Nat) (f : Conn → Conn) : (upd s c f).conns.length = s.conns.length := by
  unfold upd; split <;> simp

theorem upd_get (s : State) (c c' : Nat) (f : Conn → Conn) :
    (upd s c f).conns[c']? = if c' = c then (s.conns[c]?).map f else s.conns[c']? := by
  unfold upd
  split
  · rename_i hn
    by_cases h : c' = c
    · subst h; simp [hn]
    · simp [h]
  · rename_i cn hc
    by_cases h : c' = c
    · subst h
      have hlt : c' < s.conns.length := (List.getElem?_eq_some_iff.mp hc).1
      rw [if_pos rfl, hc]
      exact List.getElem?_set_self hlt
    · have h' : c ≠ c' := fun e => h e.symm
      rw [if_neg h]
      exact List.getElem?_set_ne h'

/-- the phase of a connection after `step`, in terms of the phase before, for every act that is not
about that connection -/
theorem step_other (s : State) (a : Act) (c' : Nat)
    (hne : match a with
      | .peerSend c _ | .peerClose c | .recvId c | .check c | .register c | .launch c | .recv c => c ≠ c'
      | _ => True) :
    ∀ cn, s.conns[c']? = some cn → (step s a).conns[c']? = some cn := by
  intro cn h
  cases a with
  | setPeers id peers => exact h
  | connect =>
    simp only [step]
    rw [List.getElem?_append_left (List.getElem?_eq_some_iff.mp h).1]; exact h
  | stop => exact h
  | peerSend c w => simp only [step, upd_get]; simp at hne; rw [if_neg (fun e => hne e.symm)]; exact h
  | peerClose c => simp only [step, upd_get]; simp at hne; rw [if_neg (fun e => hne e.symm)]; exact h
  | recvId c => simp only [step, upd_get]; simp at hne; rw [if_neg (fun e => hne e.symm)]; exact h
  | check c => simp only [step, upd_get]; simp at hne; rw [if_neg (fun e => hne e.symm)]; exact h
  | register c => simp only [step, upd_get]; simp at hne; rw [if_neg (fun e => hne e.symm)]; exact h
  | launch c => simp only [step, upd_get]; simp at hne; rw [if_neg (fun e => hne e.symm)]; exact h
  | recv c =>
    simp at hne
    simp only [step]
    split
    · exact h
    · simp only
      rw [List.getElem?_set_ne hne]; exact h

/-! ### the phase of a connection moves forward only -/

/-- every move of a phase except the positive answer of `check` -/
def Stays (ph ph' : Phase) : Prop :=
  ph' = ph ∨ (ph = .waitId ∧ ∃ p, ph' = .gotId p) ∨ (∃ w, w ≠ .refused ∧ ph' = .closed w) ∨
  (∃ p v, ph = .checked p v ∧ ph' = .registered p v) ∨ (∃ p v, ph = .registered p v ∧ ph' = .running p v)

theorem recvIdConn_stays (cn : Conn) : Stays cn.phase (recvIdConn cn).phase := by
  unfold recvIdConn
  split
  · rename_i hw
    split
    · exact .inr (.inl ⟨hw, _, rfl⟩)
    · exact .inr (.inr (.inl ⟨_, by decide, rfl⟩))
    · split
      · exact .inl rfl
      · exact .inr (.inr (.inl ⟨_, by decide, rfl⟩))
  · exact .inl rfl

theorem registerConn_stays (b : Bool) (cn : Conn) : Stays cn.phase (registerConn b cn).phase := by
  unfold registerConn
  split
  · rename_i p v h
    split
    · exact .inr (.inr (.inl ⟨_, by decide, rfl⟩))
    · exact .inr (.inr (.inr (.inl ⟨p, v, h, rfl⟩)))
  · exact .inl rfl

theorem launchConn_stays (b : Bool) (cn : Conn) : Stays cn.phase (launchConn b cn).phase := by
  unfold launchConn
  split
  · rename_i p v h
    split
    · exact .inr (.inr (.inl ⟨_, by decide, rfl⟩))
    · exact .inr (.inr (.inr (.inr ⟨p, v, h, rfl⟩)))
  · exact .inl rfl

theorem recvConn_stays (b : Bool) (cn : Conn) : Stays cn.phase (recvConn b cn).1.phase := by
  unfold recvConn
  split
  · split
    · exact .inr (.inr (.inl ⟨_, by decide, rfl⟩))
    · split
      · exact .inl rfl
      · exact .inl rfl
      · split
        · exact .inl rfl
        · exact .inr (.inr (.inl ⟨_, by decide, rfl⟩))
  · exact .inl rfl

/-- what `recvConn` dispatches carries the identity of the running connection -/
theorem recvConn_dispatch {b : Bool} {cn : Conn} {p : Ident} {m : Nat} (h : (recvConn b cn).2 = some (p, m)) :
    b = false ∧ (∃ v, cn.phase = .running p v) ∧ ∃ rest, cn.inbox = .msg m :: rest := by
  unfold recvConn at h
  split at h
  · rename_i q v hq
    split at h
    · cases h
    · rename_i hb
      split at h
      · rename_i m' rest hi
        simp at h
        obtain ⟨rfl, rfl⟩ := h
        exact ⟨by simpa using hb, ⟨v, hq⟩, rest, hi⟩
      · cases h
      · split at h <;> cases h
  · cases h

theorem checkConn_cases (vp : VP) (cn : Conn) :
    (checkConn vp cn).phase = cn.phase ∨
    ∃ p, cn.phase = .gotId p ∧
      ((vp.isValid p = true ∧ (checkConn vp cn).phase = .checked p vp) ∨
       (vp.isValid p = false ∧ (checkConn vp cn).phase = .closed .refused)) := by
  unfold checkConn
  split
  · rename_i p h
    split
    · rename_i hv; exact .inr ⟨p, h, .inl ⟨hv, rfl⟩⟩
    · rename_i hv; exact .inr ⟨p, h, .inr ⟨by simpa using hv, rfl⟩⟩
  · exact .inl rfl

/-- one step, seen from connection `c'` -/
theorem step_conn (s : State) (a : Act) (c' : Nat) (cn' : Conn) (h : (step s a).conns[c']? = some cn') :
    (∃ cn, s.conns[c']? = some cn ∧ Stays cn.phase cn'.phase) ∨
    (s.conns[c']? = none ∧ a = .connect ∧ cn'.phase = .waitId) ∨
    (a = .check c' ∧ ∃ cn p, s.conns[c']? = some cn ∧ cn.phase = .gotId p ∧
      ((s.vp.isValid p = true ∧ cn'.phase = .checked p s.vp) ∨
       (s.vp.isValid p = false ∧ cn'.phase = .closed .refused))) := by
  -- acts on one connection through `upd`
  have viaUpd : ∀ (c : Nat) (f : Conn → Conn), (upd s c f).conns[c']? = some cn' →
      (∀ cn, Stays cn.phase (f cn).phase) →
      ∃ cn, s.conns[c']? = some cn ∧ Stays cn.phase cn'.phase := by
    intro c f hu hf
    rw [upd_get] at hu
    split at hu
    · rename_i e; subst e
      cases hc : s.conns[c']? with
      | none => rw [hc] at hu; cases hu
      | some cn =>
        rw [hc] at hu; simp at hu; subst hu
        exact ⟨cn, rfl, hf cn⟩
    · exact ⟨cn', hu, .inl rfl⟩
  cases a with
  | setPeers id peers => exact .inl ⟨cn', h, .inl rfl⟩
  | stop => exact .inl ⟨cn', h, .inl rfl⟩
  | connect =>
    simp only [step] at h
    by_cases hlt : c' < s.conns.length
    · rw [List.getElem?_append_left hlt] at h
      exact .inl ⟨cn', h, .inl rfl⟩
    · have hge : s.conns.length ≤ c' := Nat.le_of_not_lt hlt
      rw [List.getElem?_append_right hge] at h
      refine .inr (.inl ⟨List.getElem?_eq_none hge, rfl, ?_⟩)
      cases hi : c' - s.conns.length with
      | zero => rw [hi] at h; simp at h; subst h; rfl
      | succ n => rw [hi] at h; simp at h
  | peerSend c w =>
    refine .inl (viaUpd c _ h ?_)
    intro cn; split <;> exact .inl rfl
  | peerClose c => exact .inl (viaUpd c _ h (fun _ => .inl rfl))
  | recvId c => exact .inl (viaUpd c _ h recvIdConn_stays)
  | register c => exact .inl (viaUpd c _ h (registerConn_stays _))
  | launch c => exact .inl (viaUpd c _ h (launchConn_stays _))
  | check c =>
    simp only [step] at h
    rw [upd_get] at h
    split at h
    · rename_i e; subst e
      cases hc : s.conns[c']? with
      | none => rw [hc] at h; cases h
      | some cn =>
        rw [hc] at h; simp at h; subst h
        rcases checkConn_cases s.vp cn with hs | ⟨p, hp, hcase⟩
        · exact .inl ⟨cn, rfl, .inl hs⟩
        · exact .inr (.inr ⟨rfl, cn, p, rfl, hp, hcase⟩)
    · exact .inl ⟨cn', h, .inl rfl⟩
  | recv c =>
    simp only [step] at h
    split at h
    · exact .inl ⟨cn', h, .inl rfl⟩
    · rename_i cn hc
      simp only at h
      by_cases e : c = c'
      · subst e
        rw [List.getElem?_set_self (List.getElem?_eq_some_iff.mp hc).1] at h
        simp at h; subst h
        exact .inl ⟨cn, hc, recvConn_stays _ _⟩
      · rw [List.getElem?_set_ne e] at h
        exact .inl ⟨cn', h, .inl rfl⟩

/-- one step, seen from the dispatch log -/
theorem step_log (s : State) (a : Act) (e : Nat × Ident × Nat) (h : e ∈ (step s a).log) :
    e ∈ s.log ∨ ∃ c p m cn v, a = .recv c ∧ e = (c, p, m) ∧ s.conns[c]? = some cn ∧ cn.phase = .running p v ∧
      s.closed = false ∧ ∃ rest, cn.inbox = .msg m :: rest := by
  cases a with
  | setPeers id peers => exact .inl h
  | stop => exact .inl h
  | connect => exact .inl h
  | peerSend c w => simp only [step, upd_log] at h; exact .inl h
  | peerClose c => simp only [step, upd_log] at h; exact .inl h
  | recvId c => simp only [step, upd_log] at h; exact .inl h
  | check c => simp only [step, upd_log] at h; exact .inl h
  | register c => simp only [step, upd_log] at h; exact .inl h
  | launch c => simp only [step, upd_log] at h; exact .inl h
  | recv c =>
    simp only [step] at h
    split at h
    · exact .inl h
    · rename_i cn hc
      simp only at h
      split at h
      · rename_i p m hd
        rcases List.mem_append.mp h with h | h
        · exact .inl h
        · simp at h
          obtain ⟨hb, ⟨v, hv⟩, rest, hi⟩ := recvConn_dispatch hd
          exact .inr ⟨c, p, m, cn, v, rfl, h, hc, hv, hb, rest, hi⟩
      · exact .inl h

/-! ### progress: every effective step of a server goroutine brings its connection nearer to rest -/

theorem sum_set (g : Conn → Nat) (l : List Conn) (c : Nat) (old x : Conn) (h : l[c]? = some old) :
    ((l.set c x).map g).sum + g old = (l.map g).sum + g x := by
  induction l generalizing c with
  | nil => simp at h
  | cons y l ih =>
    cases c with
    | zero =>
      simp at h; subst h
      simp only [List.set, List.map_cons, List.sum_cons]; omega
    | succ n =>
      simp at h
      have := ih n h
      simp only [List.set, List.map_cons, List.sum_cons]; omega

theorem upd_measure (s : State) (c : Nat) (f : Conn → Conn)
    (hf : ∀ cn, f cn = cn ∨ (f cn).measure < cn.measure) :
    upd s c f = s ∨ measure (upd s c f) < measure s := by
  unfold upd
  split
  · exact .inl rfl
  · rename_i cn hc
    rcases hf cn with e | hlt
    · left; rw [e]
      have : s.conns.set c cn = s.conns := by
        apply List.ext_getElem?
        intro i
        by_cases hi : c = i
        · subst hi; rw [List.getElem?_set_self (List.getElem?_eq_some_iff.mp hc).1, hc]
        · rw [List.getElem?_set_ne hi]
      rw [this]
    · right
      have := sum_set Conn.measure s.conns c cn (f cn) hc
      simp only [measure]
      omega

theorem recvIdConn_measure (cn : Conn) : recvIdConn cn = cn ∨ (recvIdConn cn).measure < cn.measure := by
  unfold recvIdConn
  split
  · rename_i hw
    split
    · rename_i p rest hi
      right; (simp [Conn.measure, hw, hi] <;> (try split) <;> omega)
    · rename_i m rest hi
      right; (simp [Conn.measure, hw] <;> (try split) <;> omega)
    · split
      · exact .inl rfl
      · rename_i hi ho
        right; (simp [Conn.measure, hw] <;> (try split) <;> omega)
  · exact .inl rfl

theorem checkConn_measure (vp : VP) (cn : Conn) : checkConn vp cn = cn ∨ (checkConn vp cn).measure < cn.measure := by
  unfold checkConn
  split
  · rename_i p hp
    split <;> (right; (simp [Conn.measure, hp] <;> (try split) <;> omega))
  · exact .inl rfl

theorem registerConn_measure (b : Bool) (cn : Conn) : registerConn b cn = cn ∨ (registerConn b cn).measure < cn.measure := by
  unfold registerConn
  split
  · rename_i p v hp
    split <;> (right; (simp [Conn.measure, hp] <;> (try split) <;> omega))
  · exact .inl rfl

theorem launchConn_measure (b : Bool) (cn : Conn) : launchConn b cn = cn ∨ (launchConn b cn).measure < cn.measure := by
  unfold launchConn
  split
  · rename_i p v hp
    split <;> (right; (simp [Conn.measure, hp] <;> (try split) <;> omega))
  · exact .inl rfl

theorem recvConn_measure (b : Bool) (cn : Conn) :
    ((recvConn b cn).1 = cn ∧ (recvConn b cn).2 = none) ∨ (recvConn b cn).1.measure < cn.measure := by
  unfold recvConn
  split
  · rename_i p v hp
    split
    · right; (simp [Conn.measure, hp] <;> (try split) <;> omega)
    · split
      · rename_i m rest hi; right; (simp [Conn.measure, hp, hi] <;> (try split) <;> omega)
      · rename_i q rest hi; right; (simp [Conn.measure, hp, hi] <;> (try split) <;> omega)
      · rename_i hi
        split
        · exact .inl ⟨rfl, rfl⟩
        · rename_i ho; right; (simp [Conn.measure, hp] <;> (try split) <;> omega)
  · exact .inl ⟨rfl, rfl⟩

theorem set_self {l : List Conn} {c : Nat} {cn : Conn} (hc : l[c]? = some cn) : l.set c cn = l := by
  apply List.ext_getElem?
  intro i
  by_cases hi : c = i
  · subst hi; rw [List.getElem?_set_self (List.getElem?_eq_some_iff.mp hc).1, hc]
  · rw [List.getElem?_set_ne hi]

/-- an internal act either changes nothing or lowers the measure -/
theorem internal_measure (s : State) (c : Nat) (a : Act) (ha : a ∈ internal c) :
    step s a = s ∨ measure (step s a) < measure s := by
  simp only [internal, List.mem_cons, List.not_mem_nil, or_false] at ha
  rcases ha with rfl | rfl | rfl | rfl | rfl
  · exact upd_measure s c _ recvIdConn_measure
  · exact upd_measure s c _ (checkConn_measure s.vp)
  · exact upd_measure s c _ (registerConn_measure s.closed)
  · exact upd_measure s c _ (launchConn_measure s.closed)
  · simp only [step]
    split
    · exact .inl rfl
    · rename_i cn hc
      rcases recvConn_measure s.closed cn with ⟨e1, e2⟩ | hlt
      · left
        simp only [e1, e2, set_self hc]
      · right
        have := sum_set Conn.measure s.conns c cn (recvConn s.closed cn).1 hc
        simp only [measure]
        omega

/-- `upd` that changes nothing leaves the connection fixed -/
theorem upd_fix {s : State} {c : Nat} {f : Conn → Conn} {cn : Conn} (hc : s.conns[c]? = some cn)
    (h : upd s c f = s) : f cn = cn := by
  have := upd_get s c c f
  rw [h, if_pos rfl, hc] at this
  simpa using this.symm

end Acc
end C17
