import OnetVerif.Model.C20
import OnetVerif.Gen.Rt
/-! Helper lemmas for the equivalence theorems `c20_gen_*` (Props/C20.lean) between the definitions
regenerated from the Go source (`Gen/C20.lean`) and the hand-written model: the Go run-time
operations of `Gen/Rt.lean` in terms of core `List` functions, and what the panic-freedom of
`validHostname` rests on (`strings.ToLower` of a non-empty string is non-empty).  Core-only. -/
namespace C20
open Gen.Rt

theorem len_eq_zero {α : Type} (xs : List α) : (len xs == 0) = (xs.isEmpty) := by
  cases xs <;> simp [len]
  omega

theorem len_eq_zero' {α : Type} (xs : List α) : len xs = 0 ↔ xs = [] := by
  cases xs <;> simp [len]
  omega

/-- `s[len(s)-1]` is the last byte; it panics exactly on the empty string -/
theorem idx_last {α : Type} (xs : List α) : idx xs (len xs - 1) = xs.getLast? := by
  cases xs with
  | nil => simp [idx, len]
  | cons c r =>
    have h : ¬ ((len (c :: r)) - 1 < 0) := by simp [len]
    have e : ((len (c :: r)) - 1).toNat = r.length := by simp [len]
    rw [idx, if_neg h, e, List.getLast?_eq_getElem?]
    simp

/-- `s[:len(s)-1]` drops the last byte; it panics exactly on the empty string -/
theorem slice_dropLast {α : Type} (xs : List α) (h : xs ≠ []) : slice xs 0 (len xs - 1) = some xs.dropLast := by
  cases xs with
  | nil => exact absurd rfl h
  | cons c r =>
    have h1 : ¬ ((0 : Int) < 0 ∨ len (c :: r) - 1 < 0 ∨ len (c :: r) < len (c :: r) - 1) := by
      simp [len]; omega
    have e : ((len (c :: r)) - 1).toNat = r.length := by simp [len]
    rw [slice, if_neg h1, e]
    simp [List.dropLast_eq_take]

theorem idx_zero {α : Type} (xs : List α) : idx xs 0 = xs.head? := by
  cases xs <;> simp [idx]

theorem idx_pair {α : Type} (a b : α) : idx [a, b] 0 = some a ∧ idx [a, b] 1 = some b := by
  constructor <;> simp [idx]

/-- a search loop that returns the constant `c` at the first element satisfying `p` -/
theorem rangeReturn_const {α ρ : Type} (xs : List α) (p : α → Bool) (c : ρ) :
    rangeReturn xs (fun x => if p x = true then some c else none) = if xs.any p then some c else none := by
  induction xs with
  | nil => simp [rangeReturn]
  | cons x r ih =>
    simp only [rangeReturn] at ih
    cases hp : p x <;> simp [rangeReturn, hp, ih]

theorem len_gt {α : Type} (xs : List α) (n : Nat) : decide (len xs > (n : Int)) = decide (xs.length > n) := by
  simp only [len, Int.ofNat_eq_natCast, gt_iff_lt, Int.ofNat_lt]

theorem len_lt {α : Type} (xs : List α) (n : Nat) : decide (len xs < (n : Int)) = decide (xs.length < n) := by
  simp only [len, Int.ofNat_eq_natCast, Int.ofNat_lt]

/-- `strings.Count(s, ".") == 0` ⇔ no dot in `s` -/
theorem count_zero (c : Nat) (s : Str) : (Int.ofNat (List.count c s) == 0) = !s.contains c := by
  by_cases h : c ∈ s
  · have : List.count c s ≠ 0 := by
      intro e; exact (List.count_eq_zero.mp e) h
    simp [h]; omega
  · simp [h, List.count_eq_zero.mpr h]

/-! ### `strings.Split` at one byte -/

theorem splitByte_ne_nil (c : Nat) (s : Str) : splitByte c s ≠ [] := by
  cases s with
  | nil => simp [splitByte]
  | cons x r =>
    unfold splitByte
    split
    · simp
    · split <;> simp

theorem splitByte_nomem {c : Nat} {s : Str} (h : c ∉ s) : splitByte c s = [s] := by
  induction s with
  | nil => simp [splitByte]
  | cons x r ih =>
    simp only [List.mem_cons, not_or] at h
    have hc : x ≠ c := fun e => h.1 e.symm
    simp [splitByte, hc, ih h.2]

theorem splitByte_length_one {c : Nat} {s : Str} : (splitByte c s).length = 1 ↔ c ∉ s := by
  induction s with
  | nil => simp [splitByte]
  | cons x r ih =>
    by_cases hc : x = c
    · have hne := splitByte_ne_nil c r
      have : (splitByte c r).length ≠ 0 := by
        intro e; exact hne (List.length_eq_zero_iff.mp e)
      simp [splitByte, hc]
      omega
    · have hlen : (splitByte c (x :: r)).length = (splitByte c r).length := by
        simp only [splitByte, hc, if_false]
        split
        · rename_i h; simp [h]
        · rename_i h; exact absurd h (splitByte_ne_nil c r)
      rw [hlen, ih]
      simp [Ne.symm hc]

theorem splitByte_dot (s : Str) : splitByte 46 s = splitDot s := by
  induction s with
  | nil => simp [splitByte, splitDot]
  | cons x r ih => simp [splitByte, splitDot, ih]

/-- how the result of a generated definition for a Go function returning `(string, error)` reads as
the model's three-valued result: outer `none` = panic, inner `none` = a non-nil error -/
def R.ofGen : Option (Option Str) → R
  | none => .panic
  | some none => .err
  | some (some s) => .ok s

/-! ### `strings.ToLower` keeps a non-empty string non-empty -/

theorem lenChange_out_ne_nil : ∀ e ∈ lenChange, e.2 ≠ [] := by decide

theorem lowerMulti_ne_nil {r : Str} (h : r ≠ []) : lowerMulti r ≠ [] := by
  unfold lowerMulti
  split
  · rename_i e he
    exact lenChange_out_ne_nil e (List.mem_of_find?_eq_some he)
  · exact h

theorem lowerStep_ne_nil (c : Nat) (r : Str) : (lowerStep (c :: r)).1 ≠ [] := by
  simp only [lowerStep]
  repeat' split
  all_goals first | (simp; done) | exact lowerMulti_ne_nil (by simp)

theorem goLower_ne_nil {s : Str} (h : s ≠ []) : goLower s ≠ [] := by
  cases s with
  | nil => exact absurd rfl h
  | cons c r =>
    unfold goLower
    simp only [List.length_cons, lowerRunes]
    intro e
    exact lowerStep_ne_nil c r (List.append_eq_nil_iff.mp e).1

end C20
