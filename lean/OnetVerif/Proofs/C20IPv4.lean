import OnetVerif.Proofs.C20Lemmas
/-! Property C20 — an independent grammar of IPv4 literals and the proof that the transcription of
`netip.parseIPv4Fields` (`v4loop`) accepts exactly that grammar. -/
namespace C20

def stepD (a d : Nat) : Nat := a * 10 + (d - 48)

/-- what the rest `f` of the current field must look like when `digLen` digits of value `val` of
that field have been read already -/
def CurOk (val digLen : Nat) (f : Str) : Prop :=
  (∀ c ∈ f, isDigit c = true) ∧ 1 ≤ digLen + f.length ∧ f.foldl stepD val ≤ 255 ∧
    (digLen = 1 ∧ val = 0 → f = []) ∧ (digLen = 0 → 1 < f.length → f.head? ≠ some 48)

theorem foldl_stepD_ge (f : Str) (v : Nat) : v ≤ f.foldl stepD v := by
  induction f generalizing v with
  | nil => simp
  | cons c r ih =>
    simp only [List.foldl_cons]
    exact Nat.le_trans (by unfold stepD; omega) (ih _)

theorem curOk_zero_iff_octet (f : Str) : CurOk 0 0 f ↔ Octet f := by
  unfold CurOk Octet Digits decVal
  constructor
  · rintro ⟨h1, h2, h3, _, h5⟩
    refine ⟨⟨?_, h1⟩, h3, fun hl => h5 rfl hl⟩
    intro e; subst e; simp at h2
  · rintro ⟨⟨h0, h1⟩, h3, h5⟩
    refine ⟨h1, ?_, h3, by simp, fun _ hl => h5 hl⟩
    cases f with
    | nil => exact absurd rfl h0
    | cons c r => simp

/-- the loop invariant of `parseIPv4Fields` -/
structure V4Inv (s : Str) (val pos digLen : Nat) (first prevDot : Bool) : Prop where
  val_le : val ≤ 255
  pos_le : pos ≤ 3
  zero_val : digLen = 0 → val = 0
  zero_iff : digLen = 0 ↔ (first = true ∨ prevDot = true)
  not_end : digLen = 0 → s = [] → pos < 3

theorem exists_cons_eq {α : Type} {a : α} {l : List α} {P : α → List α → Prop} :
    (∃ f fs, a :: l = f :: fs ∧ P f fs) ↔ P a l := by
  constructor
  · rintro ⟨f, fs, heq, hp⟩
    simp only [List.cons.injEq] at heq
    rw [heq.1, heq.2]; exact hp
  · intro hp; exact ⟨a, l, rfl, hp⟩

theorem v4loop_iff (s : Str) : ∀ (val pos digLen : Nat) (first prevDot : Bool),
    V4Inv s val pos digLen first prevDot →
    (v4loop s val pos digLen first prevDot = true ↔
      ∃ f fs, splitDot s = f :: fs ∧ CurOk val digLen f ∧ (∀ g ∈ fs, Octet g) ∧ pos + fs.length = 3) := by
  induction s with
  | nil =>
    intro val pos digLen first prevDot inv
    simp only [v4loop, splitDot, decide_eq_true_eq, exists_cons_eq]
    constructor
    · intro hp
      have hpos : pos = 3 := by have := inv.pos_le; omega
      have hd : digLen ≠ 0 := fun h0 => by have := inv.not_end h0 rfl; omega
      refine ⟨?_, by simp, by simp [hpos]⟩
      refine ⟨by simp, by simp; omega, by simpa using inv.val_le, by simp, by simp⟩
    · rintro ⟨_, _, hp⟩
      simp at hp; omega
  | cons c rest ih =>
    intro val pos digLen first prevDot inv
    obtain ⟨f', fs, hsp⟩ : ∃ f' fs, splitDot rest = f' :: fs := by
      cases h : splitDot rest with
      | nil => exact absurd h (splitDot_ne_nil rest)
      | cons a b => exact ⟨a, b, rfl⟩
    by_cases hdig : isDigit c = true
    · -- a digit
      have hc46 : c ≠ 46 := by intro e; subst e; simp [isDigit] at hdig
      have hsplit : splitDot (c :: rest) = (c :: f') :: fs := by simp [splitDot, hc46, hsp]
      rw [hsplit, exists_cons_eq]
      simp only [v4loop, hdig, if_true]
      by_cases hlz : digLen = 1 ∧ val = 0
      · rw [if_pos hlz]
        simp only [Bool.false_eq_true, false_iff]
        rintro ⟨hcur, _⟩
        have := hcur.2.2.2.1 hlz
        cases this
      · rw [if_neg hlz]
        by_cases hbig : val * 10 + (c - 48) > 255
        · simp only [hbig, if_true, Bool.false_eq_true, false_iff]
          rintro ⟨hcur, _⟩
          have h3 := hcur.2.2.1
          simp only [List.foldl_cons] at h3
          have := foldl_stepD_ge f' (stepD val c)
          unfold stepD at this h3
          omega
        · simp only [hbig, if_false]
          have inv' : V4Inv rest (val * 10 + (c - 48)) pos (digLen + 1) false false :=
            ⟨by omega, inv.pos_le, by omega, by simp, by omega⟩
          rw [ih _ _ _ _ _ inv', hsp, exists_cons_eq]
          constructor
          · rintro ⟨hcur, hoct, hp⟩
            refine ⟨?_, hoct, hp⟩
            obtain ⟨h1, h2, h3, h4, h5⟩ := hcur
            refine ⟨?_, by simp; omega, by simpa [List.foldl_cons, stepD] using h3, fun h => absurd h hlz, ?_⟩
            · intro x hx
              rcases List.mem_cons.mp hx with rfl | hx
              · exact hdig
              · exact h1 x hx
            · intro hd0 hl
              simp only [List.head?_cons, ne_eq, Option.some.injEq]
              intro hc48
              have hv0 : val = 0 := inv.zero_val hd0
              have : f' = [] := h4 ⟨by omega, by subst hv0; subst hc48; rfl⟩
              subst this; simp at hl
          · rintro ⟨hcur, hoct, hp⟩
            refine ⟨?_, hoct, hp⟩
            obtain ⟨h1, h2, h3, h4, h5⟩ := hcur
            refine ⟨fun x hx => h1 x (by simp [hx]), by omega,
              by simpa [List.foldl_cons, stepD] using h3, ?_, by omega⟩
            rintro ⟨hd1, hv0⟩
            have hd0 : digLen = 0 := by omega
            have hval : val = 0 := inv.zero_val hd0
            have hc48 : c = 48 := by
              simp [isDigit] at hdig; subst hval; omega
            cases f' with
            | nil => rfl
            | cons y r =>
              have := h5 hd0 (by simp)
              simp [hc48] at this
    · by_cases hdot : c = 46
      · -- a dot
        subst hdot
        have hsplit : splitDot (46 :: rest) = [] :: f' :: fs := by simp [splitDot, hsp]
        rw [hsplit, exists_cons_eq]
        simp only [v4loop, hdig, Bool.false_eq_true, if_false, if_true]
        by_cases hbad : (first || rest.isEmpty || prevDot) = true
        · rw [if_pos hbad]
          simp only [Bool.false_eq_true, false_iff]
          rintro ⟨hcur, hoct, hp⟩
          simp only [Bool.or_eq_true, List.isEmpty_iff] at hbad
          rcases hbad with (hf | hr) | hpd
          · have h0 := inv.zero_iff.mpr (Or.inl hf); have := hcur.2.1; simp at this; omega
          · subst hr
            simp [splitDot] at hsp
            obtain ⟨rfl, rfl⟩ := hsp
            have := (hoct [] (by simp)).1.1
            exact this rfl
          · have h0 := inv.zero_iff.mpr (Or.inr hpd); have := hcur.2.1; simp at this; omega
        · rw [if_neg hbad]
          simp only [Bool.or_eq_true, List.isEmpty_iff, not_or] at hbad
          obtain ⟨⟨hf, hr⟩, hpd⟩ := hbad
          have hd : digLen ≠ 0 := fun h0 => by
            rcases inv.zero_iff.mp h0 with h | h
            · exact hf h
            · exact hpd h
          by_cases hp3 : pos = 3
          · rw [if_pos hp3]
            simp only [Bool.false_eq_true, false_iff]
            rintro ⟨_, _, hp⟩
            simp at hp; omega
          · rw [if_neg hp3]
            have inv' : V4Inv rest 0 (pos + 1) 0 false true :=
              ⟨by omega, by have := inv.pos_le; omega, fun _ => rfl, by simp, fun _ h => absurd h hr⟩
            rw [ih _ _ _ _ _ inv', hsp, exists_cons_eq]
            constructor
            · rintro ⟨hcur, hoct, hp⟩
              refine ⟨?_, ?_, by simp; omega⟩
              · exact ⟨by simp, by simp; omega, by simpa using inv.val_le, by simp, by simp⟩
              · intro g hg
                rcases List.mem_cons.mp hg with rfl | hg
                · exact (curOk_zero_iff_octet _).mp hcur
                · exact hoct g hg
            · rintro ⟨hcur, hoct, hp⟩
              refine ⟨(curOk_zero_iff_octet _).mpr (hoct f' (by simp)),
                fun g hg => hoct g (by simp [hg]), by simp at hp; omega⟩
      · -- any other byte
        have hsplit : splitDot (c :: rest) = (c :: f') :: fs := by simp [splitDot, hdot, hsp]
        rw [hsplit, exists_cons_eq]
        simp only [v4loop, hdig, Bool.false_eq_true, if_false, hdot, false_iff]
        rintro ⟨hcur, _⟩
        exact hdig (hcur.1 c (by simp))

/-- **`parseIPv4` accepts exactly the dotted quads** -/
theorem parseIPv4_iff (s : Str) : parseIPv4 s = true ↔ IPv4 s := by
  unfold parseIPv4
  have inv : V4Inv s 0 0 0 true false :=
    ⟨by omega, by omega, fun _ => rfl, by simp, fun _ _ => by omega⟩
  rw [v4loop_iff s 0 0 0 true false inv]
  constructor
  · rintro ⟨f, fs, hsp, hcur, hoct, hp⟩
    have hlab := labels_iff.mpr hsp
    match fs, hp, hoct, hlab with
    | [b, c, d], _, hoct, hlab =>
      refine ⟨f, b, c, d, (curOk_zero_iff_octet f).mp hcur, hoct b (by simp), hoct c (by simp),
        hoct d (by simp), ?_⟩
      rw [hlab.2.1]; simp [joinDot]
  · rintro ⟨a, b, c, d, ha, hb, hc, hd, rfl⟩
    have nodot : ∀ {f : Str}, Octet f → 46 ∉ f := by
      intro f hf hm
      have := hf.1.2 46 hm
      simp [isDigit] at this
    refine ⟨a, [b, c, d], ?_, (curOk_zero_iff_octet a).mpr ha, ?_, rfl⟩
    · have : a ++ 46 :: (b ++ 46 :: (c ++ 46 :: d)) = joinDot [a, b, c, d] := by simp [joinDot]
      rw [this]
      exact splitDot_joinDot (by simp) (by
        intro l hl
        simp only [List.mem_cons, List.not_mem_nil, or_false] at hl
        rcases hl with rfl | rfl | rfl | rfl
        · exact nodot ha
        · exact nodot hb
        · exact nodot hc
        · exact nodot hd)
    · intro g hg
      simp only [List.mem_cons, List.not_mem_nil, or_false] at hg
      rcases hg with rfl | rfl | rfl
      · exact hb
      · exact hc
      · exact hd

theorem ipv4_find {s : Str} (h : IPv4 s) :
    s.find? (fun c => c = 46 || c = 58 || c = 37) = some 46 := by
  obtain ⟨a, b, c, d, ha, _, _, _, rfl⟩ := h
  have hnone : a.find? (fun c => c = 46 || c = 58 || c = 37) = none := by
    rw [List.find?_eq_none]
    intro x hx
    have := ha.1.2 x hx
    simp [isDigit] at this ⊢
    omega
  rw [List.find?_append, hnone]
  simp

/-- **`net.ParseIP ≠ nil` accepts exactly the IPv4 literals of the grammar and the IPv6 literals** -/
theorem parseIP_iff (s : Str) : parseIP s = true ↔ (IPv4 s ∨ IPv6Lit s) := by
  unfold parseIP
  cases hf : s.find? (fun c => c = 46 || c = 58 || c = 37) with
  | none =>
    simp only [Bool.false_eq_true, false_iff, not_or]
    refine ⟨fun h => ?_, fun h => ?_⟩
    · rw [ipv4_find h] at hf; cases hf
    · rw [h.1] at hf; cases hf
  | some c =>
    simp only
    by_cases h46 : c = 46
    · subst h46
      simp only [if_true, parseIPv4_iff]
      constructor
      · exact Or.inl
      · rintro (h | h)
        · exact h
        · rw [h.1] at hf; cases hf
    · simp only [h46, if_false]
      by_cases h58 : c = 58
      · subst h58
        simp only [if_true]
        constructor
        · intro h; exact Or.inr ⟨hf, h⟩
        · rintro (h | h)
          · rw [ipv4_find h] at hf; cases hf
          · exact h.2
      · simp only [h58, if_false, Bool.false_eq_true, false_iff, not_or]
        refine ⟨fun h => ?_, fun h => ?_⟩
        · rw [ipv4_find h] at hf; simp at hf; exact h46 hf.symm
        · rw [h.1] at hf; simp at hf; exact h58 hf.symm
