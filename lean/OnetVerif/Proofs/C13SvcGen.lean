import OnetVerif.Model.C13
import OnetVerif.Gen.C13Svc
/-! The service factory's look-ups as regenerated from `service.go` (`Gen/C13Svc.lean`, written by `harness/cmd/go2lean` on every
check run) against the hand model of `Model/C13.lean` (`svcLookupId`, `svcLookupName`, `svcLookupSuite`, `svcUnregister`).
Core Lean only.  Written by the translator's owner (b7-xlat, round 7); `Props/C13Gen.lean` may restate these as obligations. -/
set_option linter.unusedSimpArgs false
namespace C13.SvcGen
open C13

/-- a translated entry read as the model's -/
def entryOf (e : Gen.C13Svc.serviceEntry) : SvcEntry := { name := e.name, suite := e.suite, id := e.serviceID }

/-- the translated factory read as the model's registry -/
def regOf (s : Gen.C13Svc.serviceFactory) : List SvcEntry := s.constructors.map entryOf

private theorem beq_comm_bytes (a b : Bytes) : (a == b) = (b == a) := by
  by_cases h : a = b
  · subst h; rfl
  · have h1 : (a == b) = false := by simpa using h
    have h2 : (b == a) = false := by simpa using fun h' => h h'.symm
    rw [h1, h2]

/-- `serviceFactory.ServiceID` = `svcLookupId` -/
theorem ServiceID_eq (s : Gen.C13Svc.serviceFactory) (name : Bytes) :
    Gen.C13Svc.serviceFactory_ServiceID s name = svcLookupId (regOf s) name := by
  obtain ⟨l⟩ := s
  simp only [Gen.C13Svc.serviceFactory_ServiceID, Gen.Rt.rangeReturn, svcLookupId, regOf]
  induction l with
  | nil => rfl
  | cons e r ih =>
    by_cases h : name = e.name
    · simp [List.findSome?_cons, List.find?_cons, h, entryOf]
    · have h' : ¬ e.name = name := fun h' => h h'.symm
      simpa [List.findSome?_cons, List.find?_cons, h, h', entryOf] using ih

/-- `serviceFactory.Name` = `svcLookupName` -/
theorem Name_eq (s : Gen.C13Svc.serviceFactory) (id : Bytes) :
    Gen.C13Svc.serviceFactory_Name s id = svcLookupName (regOf s) id := by
  obtain ⟨l⟩ := s
  simp only [Gen.C13Svc.serviceFactory_Name, Gen.C13Svc.ServiceID_Equal, Gen.Rt.rangeReturn, svcLookupName, regOf]
  induction l with
  | nil => rfl
  | cons e r ih =>
    cases h : idEqual id e.serviceID
    · simpa [List.findSome?_cons, List.find?_cons, h, entryOf] using ih
    · simp [List.findSome?_cons, List.find?_cons, h, entryOf]

/-- `serviceFactory.SuiteByID`: the suite of the first entry with that id; Go's nil for "no entry" and for "an entry registered
with the default suite" alike -/
theorem SuiteByID_eq (s : Gen.C13Svc.serviceFactory) (id : Bytes) :
    Gen.C13Svc.serviceFactory_SuiteByID s id = (svcLookupSuite (regOf s) id).getD none := by
  obtain ⟨l⟩ := s
  simp only [Gen.C13Svc.serviceFactory_SuiteByID, Gen.Rt.rangeReturn, svcLookupSuite, regOf, idEqual]
  induction l with
  | nil => rfl
  | cons e r ih =>
    by_cases h : id = e.serviceID
    · simp [List.findSome?_cons, List.find?_cons, h, entryOf]
    · simpa [List.findSome?_cons, List.find?_cons, h, entryOf] using ih

/-- `serviceFactory.Suite` (by name) -/
theorem Suite_eq (s : Gen.C13Svc.serviceFactory) (name : Bytes) :
    Gen.C13Svc.serviceFactory_Suite s name = (((regOf s).find? fun e => e.name == name).map (·.suite)).getD none := by
  obtain ⟨l⟩ := s
  simp only [Gen.C13Svc.serviceFactory_Suite, Gen.Rt.rangeReturn, regOf]
  induction l with
  | nil => rfl
  | cons e r ih =>
    by_cases h : name = e.name
    · simp [List.findSome?_cons, List.find?_cons, h, entryOf]
    · have h' : ¬ e.name = name := fun h' => h h'.symm
      simpa [List.findSome?_cons, List.find?_cons, h, h', entryOf] using ih

private theorem foldl_snoc {α β : Type} (f : α → β) (l : List α) (acc : List β) :
    List.foldl (fun acc x => acc ++ [f x]) acc l = acc ++ l.map f := by
  induction l generalizing acc with
  | nil => simp
  | cons a r ih => simp [ih]

/-- `RegisteredServiceNames` / `registeredServiceIDs`: the names / ids in registration order -/
theorem names_ids_eq (s : Gen.C13Svc.serviceFactory) :
    Gen.C13Svc.serviceFactory_RegisteredServiceNames s = (regOf s).map (·.name) ∧
    Gen.C13Svc.serviceFactory_registeredServiceIDs s = (regOf s).map (·.id) := by
  obtain ⟨l⟩ := s
  constructor
  · show List.foldl (fun names (n : Gen.C13Svc.serviceEntry) => names ++ [n.name]) [] l = _
    rw [foldl_snoc (fun n : Gen.C13Svc.serviceEntry => n.name)]
    simp [regOf, entryOf, List.map_map, Function.comp_def]
  · show List.foldl (fun ids (c : Gen.C13Svc.serviceEntry) => ids ++ [c.serviceID]) [] l = _
    rw [foldl_snoc (fun n : Gen.C13Svc.serviceEntry => n.serviceID)]
    simp [regOf, entryOf, List.map_map, Function.comp_def]


/-- `Unregister`'s search loop (with `break`): the position of the first entry with that name, else the start value -/
theorem Unregister_index_eq (s : Gen.C13Svc.serviceFactory) (name : Bytes) (i0 : Int) :
    Gen.C13Svc.Unregister_index s name i0 =
      match (regOf s).findIdx? (fun e => e.name == name) with
      | some i => (i : Int)
      | none => i0 := by
  obtain ⟨l⟩ := s
  simp only [Gen.C13Svc.Unregister_index, Gen.Rt.enum, regOf]
  have key : ∀ (l : List Gen.C13Svc.serviceEntry) (off : Nat) (i0 : Int),
      Gen.Rt.loop (ρ := Int) (Gen.Rt.enumFrom off l) i0 (fun index (t : Int × Gen.C13Svc.serviceEntry) =>
          if (t.2.name == name) = true then Gen.Rt.Step.brk t.1 else Gen.Rt.Step.next index) =
        Sum.inr (match (l.map entryOf).findIdx? (fun e => e.name == name) with
          | some i => ((off + i : Nat) : Int)
          | none => i0) := by
    intro l
    induction l with
    | nil => intro off i0; rfl
    | cons e r ih =>
      intro off i0
      by_cases h : e.name = name
      · simp [Gen.Rt.enumFrom, Gen.Rt.loop, List.findIdx?_cons, h, entryOf]
      · have hb : (e.name == name) = false := by simpa using h
        simp only [Gen.Rt.enumFrom, Gen.Rt.loop, List.map_cons, List.findIdx?_cons, entryOf, hb, Bool.false_eq_true, if_false]
        rw [ih (off + 1) i0]
        cases List.findIdx? (fun e => e.name == name) (List.map entryOf r) with
        | none => rfl
        | some i =>
          have hh : off + 1 + i = off + (i + 1) := by omega
          simp only [Option.map_some, hh]
  have := key l 0 i0
  simp only [Nat.zero_add] at this
  simp only [this]

/-- the removal by two slice expressions and `append` = `eraseIdx`, for a position inside the list (no slice panic) -/
theorem Unregister_rest_eq (s : Gen.C13Svc.serviceFactory) (i : Nat) (h : i < s.constructors.length) :
    Gen.C13Svc.Unregister_rest s (i : Int) = some (s.constructors.eraseIdx i) := by
  obtain ⟨l⟩ := s
  simp only at h
  have h1 : ¬ ((i : Int) < 0) := by omega
  have h2 : ¬ (Gen.Rt.len l < (i : Int)) := by simp [Gen.Rt.len]; omega
  have h3 : ¬ ((i : Int) + 1 < 0) := by omega
  have h4 : ¬ (Gen.Rt.len l < (i : Int) + 1) := by simp [Gen.Rt.len]; omega
  have h5 : ((i : Int) + 1).toNat = i + 1 := by omega
  simp only [Gen.C13Svc.Unregister_rest, Gen.Rt.slice, h1, h2, h3, h4, Int.le_refl, Int.toNat_natCast, h5, false_or, if_false,
    or_false, List.drop_zero, Gen.Rt.len, Int.toNat_natCast, List.take_length]
  have h6 : ¬ l.length < i := by omega
  have h7 : ¬ ((l.length : Int) < (i : Int) + 1) := by omega
  simp [h6, h7, List.eraseIdx_eq_take_drop_succ]

/-- **`serviceFactory.Unregister` as its three regenerated pieces** (search loop, the not-found test, the removal) is the model's
`svcUnregister`: an error exactly when no entry has the name, otherwise the first such entry is removed — never a slice panic -/
theorem Unregister_eq (s : Gen.C13Svc.serviceFactory) (name : Bytes) :
    (let i := Gen.C13Svc.Unregister_index s name (-1)
     if Gen.C13Svc.Unregister_notFound i then some none
     else (Gen.C13Svc.Unregister_rest s i).map fun l => some (l.map entryOf)) =
    some (svcUnregister (regOf s) name) := by
  simp only [Unregister_index_eq, svcUnregister]
  cases hf : (regOf s).findIdx? (fun e => e.name == name) with
  | none => simp [Gen.C13Svc.Unregister_notFound]
  | some i =>
    have hi : i < s.constructors.length := by
      have := List.findIdx?_eq_some_iff_getElem.mp hf
      obtain ⟨hlt, _⟩ := this
      simpa [regOf] using hlt
    have hneg : ¬ ((i : Int) < 0) := by omega
    simp [Gen.C13Svc.Unregister_notFound, hneg, Unregister_rest_eq s i hi, regOf, List.eraseIdx_eq_take_drop_succ,
      List.map_take, List.map_drop]

end C13.SvcGen
