import OnetVerif.Proofs.C16
/-! C16: one call on the database is simulated by the same call on the per-service specification,
and touches nothing another (independent) service can name. Core only. -/
namespace C16

theorem abs_update_other {s t n : Bytes} (hI : Indep s t) (hn : Owns s n) (db : Db) (b' : Bucket) :
    (abs (update db n b')).main t = (abs db).main t ∧ (abs (update db n b')).ver t = (abs db).ver t ∧
    (abs (update db n b')).extra t = (abs db).extra t := by
  have h1 : mainName t ≠ n := fun e => names_disjoint hI hn (e ▸ Owns.main)
  have h2 : versionName t ≠ n := fun e => names_disjoint hI hn (e ▸ Owns.version)
  have h3 : ∀ x, extraName t x ≠ n := fun x e => names_disjoint hI hn (e ▸ Owns.extra x)
  refine ⟨?_, ?_, ?_⟩
  · funext k; simp [abs, content, update, h1]
  · simp [abs, content, update, h2]
  · funext x; simp [abs, update, h3 x]

theorem abs_update_main (db : Db) (s : Bytes) (b' : Bucket) :
    (abs (update db (mainName s) b')).main s = (fun k => b' k) ∧
    (abs (update db (mainName s) b')).ver s = (abs db).ver s ∧
    (abs (update db (mainName s) b')).extra s = (abs db).extra s := by
  refine ⟨?_, ?_, ?_⟩
  · funext k; simp [abs, content, update]
  · simp [abs, content, update, (main_ne_version s).symm]
  · funext x; simp [abs, update, (main_ne_extra s x).symm]

theorem abs_update_version (db : Db) (s : Bytes) (b' : Bucket) :
    (abs (update db (versionName s) b')).main s = (abs db).main s ∧
    (abs (update db (versionName s) b')).ver s = b' dbVersionKey ∧
    (abs (update db (versionName s) b')).extra s = (abs db).extra s := by
  refine ⟨?_, ?_, ?_⟩
  · funext k; simp [abs, content, update, main_ne_version s]
  · simp [abs, content, update]
  · funext x; simp [abs, update, (version_ne_extra s x).symm]

theorem abs_update_extra (db : Db) (s x : Bytes) (b' : Bucket) :
    (abs (update db (extraName s x) b')).main s = (abs db).main s ∧
    (abs (update db (extraName s x) b')).ver s = (abs db).ver s ∧
    (abs (update db (extraName s x) b')).extra s =
      (fun x' => if x' = x then some b' else (abs db).extra s x') := by
  refine ⟨?_, ?_, ?_⟩
  · funext k; simp [abs, content, update, main_ne_extra s x]
  · simp [abs, content, update, version_ne_extra s x]
  · funext x'; simp [abs, update, extra_inj]

theorem ready_update (db : Db) (n : Bytes) (b' : Bucket) (t : Bytes) (h : Ready db t) :
    Ready (update db n b') t := by
  constructor
  · unfold update; by_cases e : mainName t = n <;> simp [e, h.1]
  · unfold update; by_cases e : versionName t = n <;> simp [e, h.2]

/-- agreement after a call that replaced bucket `n` (owned by `s`), given what the specification
did at `s` and that it left the other services alone -/
theorem agree_update {S : List Bytes} (hS : PairwiseIndep S) {s n : Bytes} (hs : s ∈ S) (hn : Owns s n)
    {db : Db} {σ σ' : Spec} (b' : Bucket) (ha : AgreeOn S (abs db) σ)
    (hoth : ∀ t, t ≠ s → σ'.main t = σ.main t ∧ σ'.ver t = σ.ver t ∧ σ'.extra t = σ.extra t)
    (hown : (abs (update db n b')).main s = σ'.main s ∧ (abs (update db n b')).ver s = σ'.ver s ∧
      (abs (update db n b')).extra s = σ'.extra s) :
    AgreeOn S (abs (update db n b')) σ' := by
  intro t ht
  by_cases e : t = s
  · subst e; exact hown
  · have hI : Indep s t := hS s hs t ht (fun h => e h.symm)
    obtain ⟨a1, a2, a3⟩ := abs_update_other hI hn db b'
    obtain ⟨o1, o2, o3⟩ := hoth t e
    obtain ⟨g1, g2, g3⟩ := ha t ht
    exact ⟨by rw [a1, o1, g1], by rw [a2, o2, g2], by rw [a3, o3, g3]⟩

theorem putIn_some (db : Db) (n k v : Bytes) (b : Bucket) (h : db n = some b) :
    putIn db n k v =
      if validKey k then some (update db n (fun k' => if k' = k then some v else b k'), .ok)
      else some (db, .errTx) := by
  unfold putIn validKey
  simp only [h]
  by_cases hk : k = [] ∨ k.length > maxKeySize
  · simp [hk]
  · simp [hk]; rfl

theorem putIn_none (db : Db) (n k v : Bytes) (h : db n = none) : putIn db n k v = none := by
  simp [putIn, h]

theorem delIn_some (db : Db) (n k : Bytes) (b : Bucket) (h : db n = some b) :
    delIn db n k = some (update db n (fun k' => if k' = k then none else b k'), .ok) := by
  simp [delIn, h]; rfl

theorem delIn_none (db : Db) (n k : Bytes) (h : db n = none) : delIn db n k = none := by
  simp [delIn, h]

theorem getFrom_eq (db : Db) (n k : Bytes) : getFrom db n k = (db n).map (· k) := rfl

/-- **one call is simulated by the specification** -/
theorem sim_step (known : List Bytes) {S : List Bytes} (hS : PairwiseIndep S) (db : Db) (σ : Spec)
    {s : Bytes} (hs : s ∈ S) (hr : ∀ t ∈ S, Ready db t) (ha : AgreeOn S (abs db) σ) (op : Op) :
    (step known db s op).2 = (specStep known σ s op).2 ∧
    AgreeOn S (abs (step known db s op).1) (specStep known σ s op).1 ∧
    ∀ t ∈ S, Ready (step known db s op).1 t := by
  obtain ⟨gm, gv, ge⟩ := ha s hs
  obtain ⟨rm, rv⟩ := hr s hs
  obtain ⟨bm, hbm⟩ := Option.isSome_iff_exists.mp rm
  obtain ⟨bv, hbv⟩ := Option.isSome_iff_exists.mp rv
  have hmain : ∀ k, σ.main s k = bm k := by
    intro k; rw [← gm]; simp [abs, content, hbm]
  have hver : σ.ver s = bv dbVersionKey := by
    rw [← gv]; simp [abs, content, hbv]
  have hextra : ∀ x, σ.extra s x = db (extraName s x) := by
    intro x; rw [← ge]; rfl
  cases op with
  | save k raw =>
    simp only [step, specStep, putIn_some db _ k raw bm hbm]
    by_cases hk : validKey k
    · simp only [hk, if_true]
      refine ⟨by first | rfl | trivial, ?_, fun t ht => ready_update _ _ _ t (hr t ht)⟩
      apply agree_update hS hs Owns.main _ ha
      · intro t e; simp [e]
      · obtain ⟨a1, a2, a3⟩ := abs_update_main db s (fun k' => if k' = k then some raw else bm k')
        refine ⟨?_, by rw [a2, gv], by rw [a3, ge]⟩
        rw [a1]; funext k'
        by_cases e : k' = k <;> simp [e, hmain]
    · simp only [hk, if_false]
      first | exact ⟨rfl, ha, hr⟩ | exact ⟨trivial, ha, hr⟩
  | saveBad k => first | exact ⟨rfl, ha, hr⟩ | exact ⟨trivial, ha, hr⟩
  | load k =>
    have hg : getFrom db (mainName s) k = some (bm k) := by simp [getFrom_eq, hbm]
    simp only [step, specStep, hg, hmain]
    cases bm k <;> first | exact ⟨rfl, ha, hr⟩ | exact ⟨trivial, ha, hr⟩
  | loadRaw k =>
    have hg : getFrom db (mainName s) k = some (bm k) := by simp [getFrom_eq, hbm]
    simp only [step, specStep, hg, hmain]
    cases bm k <;> first | exact ⟨rfl, ha, hr⟩ | exact ⟨trivial, ha, hr⟩
  | saveVersion v =>
    simp only [step, specStep, putIn_some db _ dbVersionKey (encodeVersion v) bv hbv, dbVersionKey_valid, if_true]
    refine ⟨by first | rfl | trivial, ?_, fun t ht => ready_update _ _ _ t (hr t ht)⟩
    apply agree_update hS hs Owns.version _ ha
    · intro t e; simp [e]
    · obtain ⟨a1, a2, a3⟩ := abs_update_version db s
        (fun k' => if k' = dbVersionKey then some (encodeVersion v) else bv k')
      exact ⟨by rw [a1, gm], by rw [a2]; simp, by rw [a3, ge]⟩
  | loadVersion =>
    have hg : getFrom db (versionName s) dbVersionKey = some (bv dbVersionKey) := by simp [getFrom_eq, hbv]
    simp only [step, specStep, hg, hver]
    cases bv dbVersionKey with
    | none => first | exact ⟨rfl, ha, hr⟩ | exact ⟨trivial, ha, hr⟩
    | some b =>
      cases b with
      | nil => first | exact ⟨rfl, ha, hr⟩ | exact ⟨trivial, ha, hr⟩
      | cons c r =>
        cases hd : decodeVersion (c :: r) <;> simp only [hd] <;>
          first | exact ⟨rfl, ha, hr⟩ | exact ⟨trivial, ha, hr⟩
  | addBucket x =>
    simp only [step, specStep, createBucket_eq]
    refine ⟨by first | rfl | trivial, ?_, fun t ht => ready_update _ _ _ t (hr t ht)⟩
    apply agree_update hS hs (Owns.extra x) _ ha
    · intro t e; simp [e]
    · obtain ⟨a1, a2, a3⟩ := abs_update_extra db s x ((db (extraName s x)).getD fun _ => none)
      refine ⟨by rw [a1, gm], by rw [a2, gv], ?_⟩
      rw [a3]; funext x'
      by_cases e : x' = x
      · simp [e, hextra]
      · simp [e, ← ge]
  | bput x k v =>
    cases hb : db (extraName s x) with
    | none =>
      simp only [step, specStep, putIn_none db _ k v hb, hextra, hb]
      first | exact ⟨rfl, ha, hr⟩ | exact ⟨trivial, ha, hr⟩
    | some b =>
      simp only [step, specStep, putIn_some db _ k v b hb, hextra, hb]
      by_cases hk : validKey k
      · simp only [hk, if_true]
        refine ⟨by first | rfl | trivial, ?_, fun t ht => ready_update _ _ _ t (hr t ht)⟩
        apply agree_update hS hs (Owns.extra x) _ ha
        · intro t e; simp [e]
        · obtain ⟨a1, a2, a3⟩ := abs_update_extra db s x (fun k' => if k' = k then some v else b k')
          refine ⟨by rw [a1, gm], by rw [a2, gv], ?_⟩
          rw [a3]; funext x'
          by_cases e : x' = x
          · simp [e]
          · simp [e, ← ge]
      · simp only [hk, if_false]
        first | exact ⟨rfl, ha, hr⟩ | exact ⟨trivial, ha, hr⟩
  | bget x k =>
    cases hb : db (extraName s x) with
    | none =>
      simp only [step, specStep, getFrom_eq, hextra, hb, Option.map_none]
      first | exact ⟨rfl, ha, hr⟩ | exact ⟨trivial, ha, hr⟩
    | some b =>
      have hg : getFrom db (extraName s x) k = some (b k) := by simp [getFrom_eq, hb]
      simp only [step, specStep, hg, hextra, hb]
      cases b k <;> first | exact ⟨rfl, ha, hr⟩ | exact ⟨trivial, ha, hr⟩
  | bdel x k =>
    cases hb : db (extraName s x) with
    | none =>
      simp only [step, specStep, delIn_none db _ k hb, hextra, hb]
      first | exact ⟨rfl, ha, hr⟩ | exact ⟨trivial, ha, hr⟩
    | some b =>
      simp only [step, specStep, delIn_some db _ k b hb, hextra, hb]
      refine ⟨by first | rfl | trivial, ?_, fun t ht => ready_update _ _ _ t (hr t ht)⟩
      apply agree_update hS hs (Owns.extra x) _ ha
      · intro t e; simp [e]
      · obtain ⟨a1, a2, a3⟩ := abs_update_extra db s x (fun k' => if k' = k then none else b k')
        refine ⟨by rw [a1, gm], by rw [a2, gv], ?_⟩
        rw [a3]; funext x'
        by_cases e : x' = x
        · simp [e]
        · simp [e, ← ge]

/-- a restart with services from `S` is invisible to the services in `S` -/
theorem sim_restart {S : List Bytes} (hS : PairwiseIndep S) (db : Db) (l : List Bytes) (hl : ∀ t ∈ l, t ∈ S) :
    AgreeOn S (abs (startServer db l)) (abs db) := by
  intro s hs
  refine ⟨?_, ?_, ?_⟩
  · funext k; simp [abs, content_startServer]
  · simp [abs, content_startServer]
  · funext x
    simp only [abs]
    apply startServer_other
    intro t ht
    by_cases e : t = s
    · subst e; exact ⟨(main_ne_extra t x).symm, (version_ne_extra t x).symm⟩
    · have hI : Indep s t := hS s hs t (hl t ht) (fun h => e h.symm)
      exact ⟨fun h => names_disjoint hI (Owns.extra x) (h ▸ Owns.main),
             fun h => names_disjoint hI (Owns.extra x) (h ▸ Owns.version)⟩

theorem AgreeOn.trans {S : List Bytes} {a b c : Spec} (h1 : AgreeOn S a b) (h2 : AgreeOn S b c) : AgreeOn S a c :=
  fun s hs => ⟨(h1 s hs).1.trans (h2 s hs).1, (h1 s hs).2.1.trans (h2 s hs).2.1, (h1 s hs).2.2.trans (h2 s hs).2.2⟩

end C16
