import OnetVerif.Model.C19
import Mathlib.Tactic.FieldSimp
import Mathlib.Tactic.Ring
import Mathlib.Tactic.Linarith
import Mathlib.Algebra.Order.Field.Basic
import Mathlib.Algebra.BigOperators.Group.List.Basic

/-! C19 helper lemmas: the accumulator code of `Model/C19.lean` over an arbitrary linearly ordered
field `K` (ℚ, ℝ, …) with an arbitrary function in the place of `math.Sqrt`. -/
namespace C19

/-- the function used where the Go code calls `math.Sqrt` (no assumption on it) -/
class HasSqrt (K : Type) where
  sq : K → K

section field
set_option linter.unusedSectionVars false
variable {K : Type} [Field K] [LinearOrder K] [IsStrictOrderedRing K] [HasSqrt K]

/-- exact arithmetic in the place of `float64` -/
instance fieldNum : Num K where
  add := (· + ·)
  sub := (· - ·)
  mul := (· * ·)
  div := (· / ·)
  ofNat := fun n => (n : K)
  lt := fun a b => decide (a < b)
  sqrt := HasSqrt.sq

@[simp] theorem num_add (a b : K) : Num.add a b = a + b := rfl
@[simp] theorem num_sub (a b : K) : Num.sub a b = a - b := rfl
@[simp] theorem num_mul (a b : K) : Num.mul a b = a * b := rfl
@[simp] theorem num_div (a b : K) : Num.div a b = a / b := rfl
@[simp] theorem num_ofNat (n : Nat) : (Num.ofNat n : K) = (n : K) := rfl
@[simp] theorem num_lt (a b : K) : (Num.lt a b : Bool) = decide (a < b) := rfl
@[simp] theorem num_sqrt (a : K) : Num.sqrt a = HasSqrt.sq a := rfl
@[simp] theorem zero_eq : (zero : K) = 0 := by simp [zero]

/-- sum of squares -/
def sumSq (xs : List K) : K := (xs.map fun x => x * x).sum

/-- what the loop of `Value.Collect` maintains after having consumed `xs` -/
structure Inv (t : Value K) (xs : List K) : Prop where
  n : t.n = xs.length
  sum : t.sum = xs.sum
  oldM : t.oldM = t.newM
  oldS : t.oldS = t.newS
  mean : (t.n : K) * t.newM = xs.sum
  m2 : t.newS = sumSq xs - (t.n : K) * t.newM * t.newM
  dev : xs ≠ [] → t.dev = HasSqrt.sq (t.newS / ((t.n - 1 : ℕ) : K))
  minMem : xs ≠ [] → t.min ∈ xs
  minLe : ∀ x ∈ xs, t.min ≤ x
  maxMem : xs ≠ [] → t.max ∈ xs
  maxGe : ∀ x ∈ xs, x ≤ t.max

theorem inv_reset (t : Value K) : Inv t.reset [] := by
  constructor <;> simp [Value.reset, Value.new, sumSq]

theorem step_store (t : Value K) (x : K) : (t.step x).store = t.store := by
  simp only [Value.step]; split <;> rfl

theorem step_first (t : Value K) (x : K) (h : t.n = 0) :
    t.step x = { t with n := 1, min := x, max := x, oldM := x, newM := x, oldS := 0,
                        dev := HasSqrt.sq (t.newS / ((0 : ℕ) : K)), sum := t.sum + x } := by
  simp [Value.step, h]

theorem step_next (t : Value K) (x : K) (h : t.n ≠ 0) :
    t.step x =
      { t with n := t.n + 1,
               min := if x < t.min then x else t.min,
               max := if t.max < x then x else t.max,
               oldM := t.oldM + (x - t.oldM) / ((t.n + 1 : ℕ) : K),
               newM := t.oldM + (x - t.oldM) / ((t.n + 1 : ℕ) : K),
               oldS := t.oldS + (x - t.oldM) * (x - (t.oldM + (x - t.oldM) / ((t.n + 1 : ℕ) : K))),
               newS := t.oldS + (x - t.oldM) * (x - (t.oldM + (x - t.oldM) / ((t.n + 1 : ℕ) : K))),
               dev := HasSqrt.sq ((t.oldS + (x - t.oldM) * (x - (t.oldM + (x - t.oldM) / ((t.n + 1 : ℕ) : K))))
                        / ((t.n : ℕ) : K)),
               sum := t.sum + x } := by
  simp [Value.step, h]

theorem inv_step (t : Value K) (xs : List K) (x : K) (h : Inv t xs) : Inv (t.step x) (xs ++ [x]) := by
  by_cases h0 : t.n = 0
  · have hx : xs = [] := by
      have := h.n; rw [h0] at this; exact List.length_eq_zero_iff.mp this.symm
    subst hx
    have hs : t.sum = 0 := by simpa using h.sum
    have hS : t.newS = 0 := by simpa [sumSq, h0] using h.m2
    rw [step_first t x h0]
    constructor <;> simp [sumSq, hs, hS]
  · have hne : xs ≠ [] := by
      intro e; subst e; exact h0 (by simpa using h.n)
    rw [step_next t x h0]
    have hnz : ((t.n : K) + 1) ≠ 0 := by positivity
    have hn := h.n
    have hsum := h.sum
    have hoM := h.oldM
    have hoS := h.oldS
    have hmean := h.mean
    have hm2 := h.m2
    constructor
    · simp [hn]
    · simp [hsum]
    · rfl
    · rfl
    · simp only [List.sum_append, List.sum_cons, List.sum_nil, add_zero, ← hmean, hoM]
      push_cast
      field_simp
      ring
    · simp only [sumSq, List.map_append, List.sum_append, List.map_cons, List.map_nil, List.sum_cons,
        List.sum_nil, add_zero, hoS, hoM]
      rw [show (List.map (fun x => x * x) xs).sum = sumSq xs from rfl, hm2]
      push_cast
      field_simp
      ring
    · intro _
      simp
    · intro _
      dsimp only
      simp only [List.mem_append, List.mem_singleton]
      split
      · exact Or.inr rfl
      · exact Or.inl (h.minMem hne)
    · intro y hy
      simp only [List.mem_append, List.mem_singleton] at hy
      dsimp only
      split
      · next hlt =>
        rcases hy with hy | hy
        · exact le_trans (le_of_lt hlt) (h.minLe y hy)
        · exact hy ▸ le_refl _
      · next hlt =>
        rcases hy with hy | hy
        · exact h.minLe y hy
        · exact hy ▸ not_lt.mp hlt
    · intro _
      dsimp only
      simp only [List.mem_append, List.mem_singleton]
      split
      · exact Or.inr rfl
      · exact Or.inl (h.maxMem hne)
    · intro y hy
      simp only [List.mem_append, List.mem_singleton] at hy
      dsimp only
      split
      · next hlt =>
        rcases hy with hy | hy
        · exact le_trans (h.maxGe y hy) (le_of_lt hlt)
        · exact hy ▸ le_refl _
      · next hlt =>
        rcases hy with hy | hy
        · exact h.maxGe y hy
        · exact hy ▸ not_lt.mp hlt

theorem inv_foldl (xs ys : List K) (t : Value K) (h : Inv t ys) :
    Inv (xs.foldl Value.step t) (ys ++ xs) := by
  induction xs generalizing t ys with
  | nil => simpa using h
  | cons x xs ih =>
    simp only [List.foldl_cons]
    have := ih (ys ++ [x]) (t.step x) (inv_step t ys x h)
    simpa [List.append_assoc] using this

theorem foldl_step_store (xs : List K) (t : Value K) : (xs.foldl Value.step t).store = t.store := by
  induction xs generalizing t with
  | nil => rfl
  | cons x xs ih => simp [List.foldl_cons, ih, step_store]

theorem collect_store (t : Value K) : t.collect.store = t.store := by
  simp [Value.collect, foldl_step_store, Value.reset]

/-- after `Collect` the accumulators describe exactly the stored values -/
theorem inv_collect (t : Value K) : Inv t.collect t.store := by
  have := inv_foldl t.store [] t.reset (inv_reset t)
  simpa [Value.collect] using this

theorem sum_sq_dev (xs : List K) (m : K) :
    (xs.map (fun x => (x - m) * (x - m))).sum = sumSq xs - 2 * m * xs.sum + (xs.length : K) * m * m := by
  induction xs with
  | nil => simp [sumSq]
  | cons x xs ih =>
    simp only [sumSq] at ih ⊢
    simp only [List.map_cons, List.sum_cons, ih, List.length_cons]; push_cast; ring

/-- `Collect` depends on the store only -/
theorem collect_congr (t u : Value K) (h : t.store = u.store) : t.collect = u.collect := by
  simp [Value.collect, Value.reset, h]

end field
end C19
