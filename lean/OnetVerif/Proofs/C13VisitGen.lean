import OnetVerif.Model.C13
import OnetVerif.Gen.C13
/-! `TreeNode.Visit` as regenerated from tree.go (`Gen.C13.TreeNode_Visit`: generic in the state the callback threads, fuel for the
recursion) is the fold of the callback over the pre-order walk of the pointer tree, with the depth the code reports; it returns for
every fuel above the height of the tree.  Core Lean only.  (b7-xlat, round 7; `Props/C13Gen.lean` may restate it.) -/
namespace C13.VisitGen
open C13

mutual
/-- the calls `fn(depth, node)` that `t.Visit(d, fn)` makes, in order -/
def walkNode (d : Int) : Gen.C13.TreeNode → List (Int × Gen.C13.TreeNode)
  | ⟨si, ch⟩ => (d, ⟨si, ch⟩) :: walkList (d + 1) ch
def walkList (d : Int) : List Gen.C13.TreeNode → List (Int × Gen.C13.TreeNode)
  | [] => []
  | c :: r => walkNode d c ++ walkList d r
end

mutual
def heightNode : Gen.C13.TreeNode → Nat
  | ⟨_, ch⟩ => heightList ch + 1
def heightList : List Gen.C13.TreeNode → Nat
  | [] => 0
  | c :: r => max (heightNode c) (heightList r)
end

/-- the children one after the other, each with the fuel left -/
private theorem children_fold (H : HashFns) {σ : Type} (fuel : Nat) (d : Int) (fn : σ → Int → Gen.C13.TreeNode → σ)
    (ih : ∀ (t : Gen.C13.TreeNode) (st : σ), heightNode t ≤ fuel →
      Gen.C13.TreeNode_Visit H fuel t d fn st = some ((walkNode d t).foldl (fun s p => fn s p.1 p.2) st)) :
    ∀ (ch : List Gen.C13.TreeNode) (st : σ), heightList ch ≤ fuel →
      List.foldlM (fun s c => Gen.C13.TreeNode_Visit H fuel c d fn s) st ch =
        some ((walkList d ch).foldl (fun s p => fn s p.1 p.2) st)
  | [], st, _ => by simp [walkList]
  | c :: r, st, h => by
    have hc : heightNode c ≤ fuel := by simp only [heightList] at h; omega
    have hr : heightList r ≤ fuel := by simp only [heightList] at h; omega
    simp only [List.foldlM_cons, ih c st hc, walkList, List.foldl_append, Option.bind_eq_bind, Option.bind_some]
    exact children_fold H fuel d fn ih r _ hr

/-- **`TreeNode.Visit` as regenerated = the callback folded over the pre-order walk** (`fn(depth, node)` for the node, then for
every child in order with `depth + 1`), for every fuel of at least the height of the tree -/
theorem Visit_eq (H : HashFns) {σ : Type} (fn : σ → Int → Gen.C13.TreeNode → σ) :
    ∀ (fuel : Nat) (t : Gen.C13.TreeNode) (d : Int) (st : σ), heightNode t ≤ fuel →
      Gen.C13.TreeNode_Visit H fuel t d fn st = some ((walkNode d t).foldl (fun s p => fn s p.1 p.2) st)
  | 0, ⟨si, ch⟩, d, st, h => by simp [heightNode] at h
  | fuel + 1, ⟨si, ch⟩, d, st, h => by
    have hch : heightList ch ≤ fuel := by simp only [heightNode] at h; omega
    unfold Gen.C13.TreeNode_Visit
    simp only []
    rw [Gen.Rt.loop_step (fun s c => Gen.C13.TreeNode_Visit H fuel c (d + 1) fn s) none]
    · rw [children_fold H fuel (d + 1) fn (fun t st ht => Visit_eq H fn fuel t (d + 1) st ht) ch _ hch]
      simp [walkNode]
    · intro s c _
      cases Gen.C13.TreeNode_Visit H fuel c (d + 1) fn s <;> rfl

end C13.VisitGen
