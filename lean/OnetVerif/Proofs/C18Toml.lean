import OnetVerif.Model.C18Toml
/-! Lemmas for the text level of property C18 (core-only): what the writer emits is read back. -/
namespace C18.Toml

/-! ### strings -/

theorem unq_plain (c : Nat) (rest acc : Str) (h34 : c ≠ 34) (h10 : c ≠ 10) (h13 : c ≠ 13) (h92 : c ≠ 92) :
    unq (c :: rest) acc = unq rest (acc ++ [c]) := by
  rw [unq.eq_def]; simp [h34, h10, h13, h92]

theorem unq_close (rest acc : Str) : unq (34 :: rest) acc = .ok (acc, rest) := by
  rw [unq.eq_def]; simp

theorem unq_esc (e b : Nat) (rest acc : Str)
    (h : (e, b) ∈ [(116, 9), (110, 10), (114, 13), (34, 34), (92, 92), (98, 8), (102, 12)]) :
    unq (92 :: e :: rest) acc = unq rest (acc ++ [b]) := by
  rw [unq.eq_def]
  simp only [List.mem_cons, Prod.mk.injEq, List.mem_nil_iff, or_false] at h
  rcases h with ⟨rfl, rfl⟩ | ⟨rfl, rfl⟩ | ⟨rfl, rfl⟩ | ⟨rfl, rfl⟩ | ⟨rfl, rfl⟩ | ⟨rfl, rfl⟩ | ⟨rfl, rfl⟩ <;> simp

/-- **every byte string survives quoting**: the reader, started behind the opening quote of what
`writeQuoted` wrote, returns the string and stops behind the closing quote -/
theorem unq_quote : ∀ (s acc rest : Str), unq (s.flatMap esc ++ 34 :: rest) acc = .ok (acc ++ s, rest) := by
  intro s
  induction s with
  | nil => intro acc rest; simp [unq_close]
  | cons c r ih =>
    intro acc rest
    simp only [List.flatMap_cons, List.append_assoc]
    by_cases h9 : c = 9
    · subst h9; simp [esc, unq_esc 116 9 _ _ (by simp), ih]
    by_cases h10 : c = 10
    · subst h10; simp [esc, unq_esc 110 10 _ _ (by simp), ih]
    by_cases h13 : c = 13
    · subst h13; simp [esc, unq_esc 114 13 _ _ (by simp), ih]
    by_cases h34 : c = 34
    · subst h34; simp [esc, unq_esc 34 34 _ _ (by simp), ih]
    by_cases h92 : c = 92
    · subst h92; simp [esc, unq_esc 92 92 _ _ (by simp), ih]
    simp [esc, h9, h10, h13, h34, h92, unq_plain c _ _ h34 h10 h13 h92, ih]

/-- a key the writer can quote faithfully: no backslash (`maybeQuoted` escapes only `"`), no raw
line break, not empty (`panicIfInvalidKey`) -/
def KeyOK (k : Str) : Prop := k ≠ [] ∧ ∀ c ∈ k, c ≠ 92 ∧ c ≠ 10 ∧ c ≠ 13

theorem unq_quoteKey : ∀ (k acc rest : Str), (∀ c ∈ k, c ≠ 92 ∧ c ≠ 10 ∧ c ≠ 13) →
    unq (k.flatMap (fun c => if c = 34 then [92, 34] else [c]) ++ 34 :: rest) acc = .ok (acc ++ k, rest) := by
  intro k
  induction k with
  | nil => intro acc rest _; simp [unq_close]
  | cons c r ih =>
    intro acc rest h
    have hc := h c (by simp)
    have hr : ∀ x ∈ r, x ≠ 92 ∧ x ≠ 10 ∧ x ≠ 13 := fun x hx => h x (by simp [hx])
    simp only [List.flatMap_cons, List.append_assoc]
    by_cases h34 : c = 34
    · subst h34; simp [unq_esc 34 34 _ _ (by simp), ih _ _ hr]
    · simp [h34, unq_plain c _ _ h34 hc.2.1 hc.2.2 hc.1, ih _ _ hr]

/-! ### white space -/

theorem bare_not_ws {c : Nat} (h : bareKeyChar c = true) : isWs c = false := by
  unfold bareKeyChar at h
  unfold isWs
  simp only [Bool.or_eq_true, Bool.and_eq_true, decide_eq_true_eq, beq_iff_eq] at h
  have : c ≠ 32 ∧ c ≠ 9 := by omega
  simp [this.1, this.2]

theorem trimL_spaces (n : Nat) (r : Str) : trimL (spaces n ++ r) = trimL r := by
  unfold trimL spaces
  apply List.dropWhile_append_of_pos
  intro a ha
  rw [List.mem_replicate] at ha
  simp [ha.2, isWs]

theorem trimL_cons {c : Nat} (r : Str) (h : isWs c = false) : trimL (c :: r) = c :: r := by
  simp [trimL, List.dropWhile, h]

/-! ### one line -/

theorem bare_ne {c : Nat} (h : bareKeyChar c = true) :
    c ≠ 35 ∧ c ≠ 13 ∧ c ≠ 91 ∧ c ≠ 34 ∧ c ≠ 39 ∧ c ≠ 61 ∧ c ≠ 46 ∧ c ≠ 32 ∧ c ≠ 93 ∧ c ≠ 10 ∧ c ≠ 92 ∧ c ≠ 9 := by
  unfold bareKeyChar at h
  simp only [Bool.or_eq_true, Bool.and_eq_true, decide_eq_true_eq, beq_iff_eq] at h
  omega

/-- a bare key: not empty, only `A-Za-z0-9_-` -/
def BareKey (k : Str) : Prop := k ≠ [] ∧ ∀ c ∈ k, bareKeyChar c = true

theorem quote_not_triple (v : Str) : (quote v).take 3 ≠ [34, 34, 34] := by
  unfold quote
  cases v with
  | nil => simp
  | cons d r =>
    simp only [List.flatMap_cons, List.append_assoc]
    unfold esc
    split
    · simp
    · split
      · simp
      · split
        · simp
        · split
          · simp
          · split
            · simp
            · next h34 _ => simp; intro h; exact absurd h h34

theorem lineEnd_nil : lineEnd [] = true := by simp [lineEnd, trimL]

/-- a key/value line the writer emits is read as that key and that value -/
theorem classify_kv (n : Nat) (key v : Str) (hk : BareKey key) :
    classify (kvLine n (key, v)) = .ok (.kv key v) := by
  obtain ⟨hne, hb⟩ := hk
  obtain ⟨c, k', rfl⟩ : ∃ c k', key = c :: k' := by
    cases key with
    | nil => exact absurd rfl hne
    | cons c k' => exact ⟨c, k', rfl⟩
  have hc := hb c (by simp)
  have hcn := bare_ne hc
  have h32 : bareKeyChar 32 = false := by decide
  unfold classify kvLine
  simp only [List.append_assoc, trimL_spaces]
  rw [show (c :: k' ++ ([32, 61, 32] ++ quote v)) = c :: (k' ++ ([32, 61, 32] ++ quote v)) from rfl,
    trimL_cons _ (bare_not_ws hc)]
  simp only [hcn.1, hcn.2.1, hcn.2.2.1, if_false, hc, if_true]
  unfold classifyKV
  have htake : (c :: (k' ++ ([32, 61, 32] ++ quote v))).takeWhile bareKeyChar = c :: k' := by
    rw [show c :: (k' ++ ([32, 61, 32] ++ quote v)) = (c :: k') ++ (32 :: ([61, 32] ++ quote v)) from by simp,
      List.takeWhile_append_of_pos hb]
    simp [List.takeWhile, h32]
  have hdrop : (c :: (k' ++ ([32, 61, 32] ++ quote v))).dropWhile bareKeyChar = 32 :: 61 :: 32 :: quote v := by
    rw [show c :: (k' ++ ([32, 61, 32] ++ quote v)) = (c :: k') ++ (32 :: ([61, 32] ++ quote v)) from by simp,
      List.dropWhile_append_of_pos hb]
    simp [List.dropWhile, h32]
  simp only [htake, hdrop]
  have ht1 : trimL (32 :: 61 :: 32 :: quote v) = 61 :: 32 :: quote v := by
    simp [trimL, List.dropWhile, isWs]
  have ht2 : trimL (List.drop 1 (61 :: 32 :: quote v)) = quote v := by
    simp [trimL, List.dropWhile, isWs, quote]
  rw [ht1]
  simp only [List.take, if_true]
  rw [ht2]
  have hq1 : quote v ≠ [] := by simp [quote]
  have hq2 : (quote v).take 1 = [34] := by simp [quote]
  have hq3 := quote_not_triple v
  simp only [hq1, if_false, hq2, ne_eq, not_true_eq_false, hq3]
  have : List.drop 1 (quote v) = v.flatMap esc ++ 34 :: [] := by simp [quote]
  rw [this, unq_quote]
  simp [lineEnd_nil]

/-! ### table headers -/

theorem quoteKey_ne_nil {k : Str} (h : k ≠ []) : quoteKey k ≠ [] := by
  unfold quoteKey
  split
  · exact h
  · simp

/-- a component of a table name is read back, when what follows it is `.` or `]` -/
theorem pathComp_quoteKey (k : Str) (hk : KeyOK k) (d : Nat) (rest : Str) (hd : d = 46 ∨ d = 93) :
    pathComp (quoteKey k ++ d :: rest) = .ok (k, d :: rest) := by
  obtain ⟨hne, hc⟩ := hk
  have hdb : bareKeyChar d = false := by rcases hd with rfl | rfl <;> decide
  unfold quoteKey
  by_cases hall : k.all bareKeyChar = true
  · simp only [hall, if_true]
    have hb : ∀ c ∈ k, bareKeyChar c = true := by simpa using hall
    obtain ⟨c, k', rfl⟩ : ∃ c k', k = c :: k' := by
      cases k with
      | nil => exact absurd rfl hne
      | cons c k' => exact ⟨c, k', rfl⟩
    have hcb := hb c (by simp)
    have hcn := bare_ne hcb
    unfold pathComp
    simp only [List.cons_append, hcn.2.2.2.1, hcn.2.2.2.2.1, if_false, hcb, if_true]
    rw [show c :: (k' ++ d :: rest) = (c :: k') ++ (d :: rest) from rfl,
      List.takeWhile_append_of_pos hb, List.dropWhile_append_of_pos hb]
    simp [List.takeWhile, List.dropWhile, hdb]
  · simp only [hall, Bool.false_eq_true, if_false]
    unfold pathComp
    simp only [List.cons_append, List.append_assoc, List.nil_append, if_true]
    rw [unq_quoteKey k [] (d :: rest) hc]
    simp

theorem pathText_length (p : List Str) (h : ∀ k ∈ p, k ≠ []) : p.length ≤ (pathText p).length := by
  induction p with
  | nil => simp
  | cons k r ih =>
    have hk : 1 ≤ (quoteKey k).length := by
      have := quoteKey_ne_nil (h k (by simp))
      cases hq : quoteKey k with
      | nil => exact absurd hq this
      | cons _ _ => simp
    cases r with
    | nil => simpa [pathText] using hk
    | cons k2 r2 =>
      have := ih (fun x hx => h x (by simp [hx]))
      simp only [pathText, List.length_append, List.length_cons] at this ⊢
      omega

/-- a table name is read back, up to the closing bracket -/
theorem pathComps_text : ∀ (p : List Str), p ≠ [] → (∀ k ∈ p, KeyOK k) → ∀ (fuel : Nat), p.length ≤ fuel →
    ∀ e, pathComps fuel (pathText p ++ 93 :: e) = .ok (p, 93 :: e) := by
  intro p
  induction p with
  | nil => intro h; exact absurd rfl h
  | cons k r ih =>
    intro _ hk fuel hf e
    obtain ⟨f, rfl⟩ : ∃ f, fuel = f + 1 := ⟨fuel - 1, by simp at hf; omega⟩
    have hkk := hk k (by simp)
    cases r with
    | nil =>
      simp only [pathText, pathComps, pathComp_quoteKey k hkk 93 e (Or.inr rfl)]
      simp [hkk.1]
    | cons k2 r2 =>
      have hrec := ih (by simp) (fun x hx => hk x (by simp [hx])) f (by simp at hf ⊢; omega) e
      simp only [pathText, List.append_assoc, List.cons_append, pathComps,
        pathComp_quoteKey k hkk 46 _ (Or.inl rfl)]
      rw [hrec]

theorem pathText_head (p : List Str) (hp : p ≠ []) (hk : ∀ k ∈ p, KeyOK k) (x : Str) :
    (pathText p ++ x).take 1 ≠ [91] := by
  obtain ⟨k, r, rfl⟩ : ∃ k r, p = k :: r := by
    cases p with
    | nil => exact absurd rfl hp
    | cons k r => exact ⟨k, r, rfl⟩
  have hkk := hk k (by simp)
  have hq : ∃ c t, quoteKey k = c :: t ∧ c ≠ 91 := by
    unfold quoteKey
    split
    · next hall =>
      have hb : ∀ c ∈ k, bareKeyChar c = true := by simpa using hall
      cases hkc : k with
      | nil => exact absurd hkc hkk.1
      | cons c t => exact ⟨c, t, rfl, (bare_ne (hb c (by simp [hkc]))).2.2.1⟩
    · exact ⟨34, _, rfl, by decide⟩
  obtain ⟨c, t, hct, hc⟩ := hq
  cases r with
  | nil => simp [pathText, hct, hc]
  | cons k2 r2 => simp [pathText, hct, hc]

/-- the header line the writer emits for a table is read as that header -/
theorem classify_header (t : Table) (hp : t.path ≠ []) (hk : ∀ k ∈ t.path, KeyOK k) :
    classify (headerLine t) = .ok (.header t.array t.path) := by
  have hlen : ∀ x : Str, t.path.length ≤ (pathText t.path ++ x).length + 1 := by
    intro x
    have := pathText_length t.path (fun k hk' => (hk k hk').1)
    simp only [List.length_append]; omega
  unfold classify headerLine
  rw [trimL_spaces]
  cases ha : t.array with
  | true =>
    simp only [if_true]
    rw [show ([91, 91] ++ pathText t.path ++ [93, 93]) = 91 :: (91 :: (pathText t.path ++ [93, 93])) from by simp,
      trimL_cons _ (by decide)]
    simp only [show (91 : Nat) ≠ 35 from by decide, show (91 : Nat) ≠ 13 from by decide, if_false, if_true, List.take,
      List.drop]
    unfold classifyHeader
    rw [show pathText t.path ++ [93, 93] = pathText t.path ++ 93 :: [93] from rfl,
      pathComps_text t.path hp hk _ (hlen _) [93]]
    simp [lineEnd_nil]
  | false =>
    simp only [Bool.false_eq_true, if_false]
    rw [show (91 :: pathText t.path ++ [93]) = 91 :: (pathText t.path ++ [93]) from by simp,
      trimL_cons _ (by decide)]
    simp only [show (91 : Nat) ≠ 35 from by decide, show (91 : Nat) ≠ 13 from by decide, if_false, if_true,
      pathText_head t.path hp hk [93]]
    unfold classifyHeader
    rw [show pathText t.path ++ [93] = pathText t.path ++ 93 :: [] from rfl,
      pathComps_text t.path hp hk _ (hlen _) []]
    simp [lineEnd_nil]

/-! ### lines -/

theorem splitLines_line : ∀ (l : Str), 10 ∉ l → ∀ (r acc : Str),
    splitLines (l ++ 10 :: r) acc = (acc ++ l) :: splitLines r [] := by
  intro l
  induction l with
  | nil => intro _ r acc; simp [splitLines]
  | cons c t ih =>
    intro h r acc
    have hc : c ≠ 10 := fun e => h (by simp [e])
    have ht : 10 ∉ t := fun e => h (by simp [e])
    simp only [List.cons_append, splitLines, hc, if_false]
    rw [ih ht]
    simp

theorem splitLines_unlines : ∀ (ls : List Str), (∀ l ∈ ls, 10 ∉ l) → splitLines (unlines ls) [] = ls := by
  intro ls
  induction ls with
  | nil => intro _; simp [unlines, splitLines]
  | cons l r ih =>
    intro h
    have : unlines (l :: r) = l ++ 10 :: unlines r := by simp [unlines]
    rw [this, splitLines_line l (h l (by simp)), ih (fun x hx => h x (by simp [hx]))]
    simp

theorem esc_no_nl (c : Nat) : 10 ∉ esc c := by
  unfold esc
  split
  · simp
  · split
    · simp
    · split
      · simp
      · split
        · simp
        · split
          · simp
          · next h10 _ _ _ => simp; exact fun e => h10 e.symm

theorem quote_no_nl (v : Str) : 10 ∉ quote v := by
  unfold quote
  simp only [List.mem_cons, List.mem_append, List.mem_flatMap, List.mem_nil_iff, or_false, not_or]
  refine ⟨by decide, ?_, by decide⟩
  rintro ⟨c, _, hc⟩
  exact esc_no_nl c hc

theorem quoteKey_no_nl {k : Str} (hk : KeyOK k) : 10 ∉ quoteKey k := by
  unfold quoteKey
  split
  · exact fun h => (hk.2 10 h).2.1 rfl
  · simp only [List.mem_cons, List.mem_append, List.mem_flatMap, List.mem_nil_iff, or_false, not_or]
    refine ⟨by decide, ?_, by decide⟩
    rintro ⟨c, hc, h⟩
    have := hk.2 c hc
    split at h
    · simp at h
    · simp at h; exact this.2.1 h.symm

theorem pathText_no_nl : ∀ (p : List Str), (∀ k ∈ p, KeyOK k) → 10 ∉ pathText p := by
  intro p
  induction p with
  | nil => intro _; simp [pathText]
  | cons k r ih =>
    intro h
    have hk := quoteKey_no_nl (h k (by simp))
    cases r with
    | nil => simpa [pathText] using hk
    | cons k2 r2 =>
      have := ih (fun x hx => h x (by simp [hx]))
      simp only [pathText, List.mem_append, List.mem_cons, not_or]
      exact ⟨hk, by decide, this⟩

theorem spaces_no_nl (n : Nat) : 10 ∉ spaces n := by
  simp [spaces, List.mem_replicate]

theorem kvLine_no_nl (n : Nat) (kv : Str × Str) (hk : BareKey kv.1) : 10 ∉ kvLine n kv := by
  unfold kvLine
  simp only [List.mem_append, not_or]
  refine ⟨⟨⟨spaces_no_nl n, ?_⟩, by decide⟩, quote_no_nl _⟩
  exact fun h => (bare_ne (hk.2 10 h)).2.2.2.2.2.2.2.2.2.1 rfl

theorem headerLine_no_nl (t : Table) (hk : ∀ k ∈ t.path, KeyOK k) : 10 ∉ headerLine t := by
  unfold headerLine
  have := pathText_no_nl t.path hk
  split <;> simp [spaces_no_nl, this]

/-! ### documents -/

/-- a table the writer can emit: a name, components the writer quotes faithfully, bare keys, no key twice -/
def WFTable (t : Table) : Prop :=
  t.path ≠ [] ∧ (∀ k ∈ t.path, KeyOK k) ∧ (∀ kv ∈ t.kvs, BareKey kv.1) ∧ (t.kvs.map (·.1)).Nodup

/-- the root table -/
def WFRoot (t : Table) : Prop :=
  t.path = [] ∧ t.array = false ∧ (∀ kv ∈ t.kvs, BareKey kv.1) ∧ (t.kvs.map (·.1)).Nodup

theorem docLoop_kvs (n : Nat) : ∀ (kvs : List (Str × Str)) (rest : List Str) (d : Doc) (cur : Table),
    (∀ kv ∈ kvs, BareKey kv.1) → ((cur.kvs ++ kvs).map (·.1)).Nodup →
    docLoop (kvs.map (kvLine n) ++ rest) d cur = docLoop rest d { cur with kvs := cur.kvs ++ kvs } := by
  intro kvs
  induction kvs with
  | nil => intro rest d cur _ _; simp
  | cons kv r ih =>
    intro rest d cur hb hnd
    obtain ⟨k, v⟩ := kv
    have hfresh : (cur.kvs.any fun x => x.1 == k) = false := by
      rw [List.map_append, List.nodup_append] at hnd
      have h3 := hnd.2.2
      cases hany : cur.kvs.any fun x => x.1 == k with
      | false => rfl
      | true =>
        exfalso
        rw [List.any_eq_true] at hany
        obtain ⟨x, hx, hxk⟩ := hany
        have hxk' : x.1 = k := by simpa using hxk
        exact h3 x.1 (List.mem_map_of_mem hx) k (by simp) hxk'
    simp only [List.map_cons, List.cons_append, docLoop, classify_kv n k v (hb (k, v) (by simp)), docStep, addKV, hfresh,
      Bool.false_eq_true, if_false]
    rw [ih rest d _ (fun x hx => hb x (by simp [hx])) (by simpa [List.append_assoc] using hnd)]
    simp [List.append_assoc]

theorem classify_blank : classify [] = .ok .blank := by simp [classify, trimL]

theorem docLoop_table (first : Bool) (t : Table) (hwf : WFTable t) (rest : List Str) (d : Doc) (cur : Table) :
    docLoop (tableLines first t ++ rest) d cur = docLoop rest (d ++ [cur]) t := by
  obtain ⟨hp, hk, hb, hnd⟩ := hwf
  have hhead : docLoop (headerLine t :: (t.kvs.map (kvLine (2 * t.path.length)) ++ rest)) d cur =
      docLoop rest (d ++ [cur]) t := by
    simp only [docLoop, classify_header t hp hk, docStep]
    rw [docLoop_kvs _ t.kvs rest _ _ hb (by simpa using hnd)]
    have : ({ array := t.array, path := t.path, kvs := [] ++ t.kvs } : Table) = t := by cases t; simp
    simp only [List.nil_append] at this ⊢
  unfold tableLines
  simp only [hp, if_false]
  split
  · simp only [List.cons_append, List.nil_append, docLoop, classify_blank, docStep]
    exact hhead
  · simpa using hhead

theorem docLoop_tables : ∀ (tables : List Table) (first : Bool) (d : Doc) (cur : Table),
    (∀ t ∈ tables, WFTable t) → docLoop (docLines first tables) d cur = .ok (d ++ cur :: tables) := by
  intro tables
  induction tables with
  | nil => intro first d cur _; simp [docLines, docLoop]
  | cons t r ih =>
    intro first d cur h
    simp only [docLines]
    rw [docLoop_table first t (h t (by simp)), ih _ _ _ (fun x hx => h x (by simp [hx]))]
    simp

theorem tableLines_no_nl (first : Bool) (t : Table) (hk : ∀ k ∈ t.path, KeyOK k) (hb : ∀ kv ∈ t.kvs, BareKey kv.1) :
    ∀ l ∈ tableLines first t, 10 ∉ l := by
  intro l hl
  unfold tableLines at hl
  split at hl
  · obtain ⟨kv, hkv, rfl⟩ := List.mem_map.mp hl
    exact kvLine_no_nl _ kv (hb kv hkv)
  · simp only [List.mem_append, List.mem_cons, List.mem_map] at hl
    rcases hl with hl | rfl | ⟨kv, hkv, rfl⟩
    · split at hl
      · simp at hl; subst hl; simp
      · simp at hl
    · exact headerLine_no_nl t hk
    · exact kvLine_no_nl _ kv (hb kv hkv)

theorem docLines_no_nl : ∀ (tables : List Table) (first : Bool),
    (∀ t ∈ tables, (∀ k ∈ t.path, KeyOK k) ∧ ∀ kv ∈ t.kvs, BareKey kv.1) → ∀ l ∈ docLines first tables, 10 ∉ l := by
  intro tables
  induction tables with
  | nil => intro _ _ l hl; simp [docLines] at hl
  | cons t r ih =>
    intro first h l hl
    simp only [docLines, List.mem_append] at hl
    rcases hl with hl | hl
    · exact tableLines_no_nl first t (h t (by simp)).1 (h t (by simp)).2 l hl
    · exact ih _ (fun x hx => h x (by simp [hx])) l hl

/-- **what the writer emits is read back as the same document**: for every document whose table
names the writer can quote faithfully and whose keys are bare -/
theorem parseDoc_emitDoc (root : Table) (tables : List Table) (hr : WFRoot root) (ht : ∀ t ∈ tables, WFTable t) :
    parseDoc (emitDoc (root :: tables)) = .ok (root :: tables) := by
  obtain ⟨hp, ha, hb, hnd⟩ := hr
  unfold parseDoc emitDoc
  rw [splitLines_unlines]
  · simp only [docLines, tableLines, hp, if_true]
    rw [docLoop_kvs 0 root.kvs _ _ _ hb (by simpa using hnd), docLoop_tables _ _ _ _ ht]
    have : ({ array := false, path := [], kvs := root.kvs } : Table) = root := by
      cases root; simp_all
    simp [this]
  · apply docLines_no_nl
    intro t htm
    simp only [List.mem_cons] at htm
    rcases htm with rfl | htm
    · exact ⟨by simp [hp], hb⟩
    · exact ⟨(ht t htm).2.1, (ht t htm).2.2.1⟩

/-! ### the struct mapping: what the encoder walks is decoded into the same structure -/

/-- what comes back: the entries of every `Services` map in the byte order of their names -/
def normServer (t : TServer) : TServer := { t with services := t.services.map sortSvcs }
def normPriv (p : TPriv) : TPriv := { p with services := p.services.map sortSvcs }

def gRowKvs (e : TSvc) : List (Str × Str) := [(kPublic, e.pub), (kSuite, e.suite)]
def gRow (e : TSvc) : Table := { array := false, path := [kServers, kServices, e.name], kvs := gRowKvs e }

theorem sortSvcs_perm (l : List TSvc) : (sortSvcs l).Perm l := List.mergeSort_perm l _

theorem sortSvcs_names_nodup {l : List TSvc} (h : (l.map (·.name)).Nodup) : ((sortSvcs l).map (·.name)).Nodup :=
  ((sortSvcs_perm l).map _).nodup_iff.mpr h

private theorem fresh_of_nodup {α : Type} {names : List Str} {n : Str} {r : List Str}
    (f : α → Str) (l : List α) (hl : l.map f = names) (h : (names ++ n :: r).Nodup) :
    (l.any fun x => f x == n) = false := by
  cases hany : l.any fun x => f x == n with
  | false => rfl
  | true =>
    exfalso
    rw [List.any_eq_true] at hany
    obtain ⟨x, hx, hxn⟩ := hany
    have hxn' : f x = n := by simpa using hxn
    rw [List.nodup_append] at h
    exact h.2.2 (f x) (hl ▸ List.mem_map_of_mem hx) n (by simp) hxn'

theorem groupLoop_svcs : ∀ (l : List TSvc) (rest : List Table) (done : List TServer) (c : SrvB),
    c.svcSpell = some kServices → ((c.svcs.map (·.1)) ++ l.map (·.name)).Nodup →
    groupLoop (l.map gRow ++ rest) { spell := some kServers, done := done, cur := some c } =
      groupLoop rest { spell := some kServers, done := done,
                       cur := some { c with svcs := c.svcs ++ l.map fun e => (e.name, gRowKvs e) } } := by
  intro l
  induction l with
  | nil => intro rest done c _ _; simp
  | cons e r ih =>
    intro rest done c hs hnd
    have hfresh := fresh_of_nodup (fun x : Str × List (Str × Str) => x.1) c.svcs rfl hnd
    have hamb : ambiguous ((gRowKvs e).map (·.1)) = false := by simp only [gRowKvs, List.map]; decide
    have hf1 : fold kServers = kServers := by decide
    have hstep : groupStep { spell := some kServers, done := done, cur := some c } (gRow e) =
        .ok { spell := some kServers, done := done,
              cur := some { c with svcSpell := some kServices, svcs := c.svcs ++ [(e.name, gRowKvs e)] } } := by
      simp only [groupStep, gRow, hamb, Bool.false_eq_true, if_false, svcTable, hf1, ne_eq, not_true_eq_false, hs,
        Option.isSome_some, and_false, hfresh]
    simp only [List.map_cons, List.cons_append, groupLoop, hstep]
    rw [ih rest done _ (by simp) (by simpa [List.append_assoc] using hnd)]
    simp [List.append_assoc, hs]

def srvKvs (t : TServer) : List (Str × Str) :=
  [(kAddress, t.address), (kSuite, t.suite), (kPublic, t.pub), (kDescription, t.description)] ++
    (if t.url = [] then [] else [(kURL, t.url)])

/-- the state after the tables of one server -/
def builderOf (t : TServer) : SrvB :=
  match t.services with
  | none => { kvs := srvKvs t, svcSpell := none, header := false, svcs := [] }
  | some l => { kvs := srvKvs t, svcSpell := some kServices, header := true,
                svcs := (sortSvcs l).map fun e => (e.name, gRowKvs e) }

theorem srvKvs_unamb (t : TServer) : ambiguous ((srvKvs t).map (·.1)) = false := by
  unfold srvKvs
  by_cases hu : t.url = []
  · simp only [hu, if_true, List.append_nil, List.map_cons, List.map_nil]; decide
  · simp only [hu, if_false, List.cons_append, List.nil_append, List.map_cons, List.map_nil]; decide

theorem srvKvs_no_services (t : TServer) : ((srvKvs t).any fun kv => fold kv.1 == fold kServices) = false := by
  unfold srvKvs
  by_cases hu : t.url = []
  · simp only [hu, if_true, List.append_nil, List.any_cons, List.any_nil]; decide
  · simp only [hu, if_false, List.cons_append, List.nil_append, List.any_cons, List.any_nil]; decide

theorem groupLoop_server (t : TServer) (rest : List Table) (st : GSt)
    (hspell : st.spell = none ∨ st.spell = some kServers)
    (hn : ∀ l, t.services = some l → (l.map (·.name)).Nodup) :
    groupLoop (serverTables t ++ rest) st =
      groupLoop rest { spell := some kServers, done := closeCur st, cur := some (builderOf t) } := by
  have hf1 : fold kServers = kServers := by decide
  have hsp : ¬ (st.spell.isSome ∧ st.spell ≠ some kServers) := by
    rcases hspell with h | h <;> simp [h]
  have hstep : groupStep st { array := true, path := [kServers], kvs := srvKvs t } =
      .ok { spell := some kServers, done := closeCur st,
            cur := some { kvs := srvKvs t, svcSpell := none, header := false, svcs := [] } } := by
    simp only [groupStep, srvKvs_unamb, Bool.false_eq_true, if_false, hf1, ne_eq, not_true_eq_false, hsp,
      srvKvs_no_services]
  unfold serverTables builderOf
  have hk : ([(kAddress, t.address), (kSuite, t.suite), (kPublic, t.pub), (kDescription, t.description)] ++
      if t.url = [] then [] else [(kURL, t.url)]) = srvKvs t := rfl
  rw [hk]
  cases hsv : t.services with
  | none => simp only [List.cons_append, List.nil_append, groupLoop, hstep]
  | some l =>
    have hhead : groupStep ⟨some kServers, closeCur st, some ⟨srvKvs t, none, false, []⟩⟩ ⟨false, [kServers, kServices], []⟩ =
        .ok ⟨some kServers, closeCur st, some ⟨srvKvs t, some kServices, true, []⟩⟩ := by
      simp [groupStep, svcTable, ambiguous, hf1]
    simp only [List.cons_append, groupLoop, hstep, hhead]
    have := groupLoop_svcs (sortSvcs l) rest (closeCur st)
      { kvs := srvKvs t, svcSpell := some kServices, header := true, svcs := [] } rfl
      (by simpa using sortSvcs_names_nodup (hn l hsv))
    exact this

theorem field_srvKvs (t : TServer) :
    field (srvKvs t) (fold kAddress) = t.address ∧ field (srvKvs t) (fold kSuite) = t.suite ∧
    field (srvKvs t) (fold kPublic) = t.pub ∧ field (srvKvs t) (fold kDescription) = t.description ∧
    field (srvKvs t) (fold kURL) = t.url := by
  unfold srvKvs
  by_cases hu : t.url = []
  · simp [hu, field, List.find?, fold, kAddress, kSuite, kPublic, kDescription, kURL, lower]
  · simp [hu, field, List.find?, fold, kAddress, kSuite, kPublic, kDescription, kURL, lower]

theorem svcOf_gRow (e : TSvc) (h : e.priv = []) : svcOf e.name (gRowKvs e) = e := by
  cases e
  simp_all [svcOf, gRowKvs, field, List.find?, fold, kSuite, kPublic, kPrivate, lower]

theorem finish_builderOf (t : TServer) (hp : ∀ l, t.services = some l → ∀ e ∈ l, e.priv = []) :
    (builderOf t).finish = normServer t := by
  obtain ⟨f1, f2, f3, f4, f5⟩ := field_srvKvs t
  unfold builderOf normServer
  cases hsv : t.services with
  | none =>
    simp only [SrvB.finish, f1, f2, f3, f4, f5]
    cases t; simp_all
  | some l =>
    have hpl : ∀ e ∈ sortSvcs l, e.priv = [] := fun e he => hp l hsv e ((sortSvcs_perm l).mem_iff.mp he)
    have hm : ((sortSvcs l).map fun e => (e.name, gRowKvs e)).map (fun e => svcOf e.1 e.2) = sortSvcs l := by
      rw [List.map_map]
      conv => rhs; rw [← List.map_id (sortSvcs l)]
      apply List.map_congr_left
      intro e he
      simp [svcOf_gRow e (hpl e he)]
    simp only [SrvB.finish, f1, f2, f3, f4, f5, Bool.true_or, if_true, hm]
    cases t; simp_all

/-- the servers of a group the writer can handle: within one `Services` map no name twice (it is a
map), and no private keys (`ServerServiceConfig` has none) -/
def GroupOK (g : List TServer) : Prop :=
  ∀ t ∈ g, ∀ l, t.services = some l → (l.map (·.name)).Nodup ∧ ∀ e ∈ l, e.priv = []

theorem groupLoop_groupDoc : ∀ (g : List TServer) (st : GSt), (st.spell = none ∨ st.spell = some kServers) → GroupOK g →
    ∃ st', groupLoop (g.flatMap serverTables) st = .ok st' ∧ closeCur st' = closeCur st ++ g.map normServer := by
  intro g
  induction g with
  | nil => intro st _ _; exact ⟨st, by simp [groupLoop], by simp⟩
  | cons t r ih =>
    intro st hs hg
    have ht := hg t (by simp)
    simp only [List.flatMap_cons]
    rw [groupLoop_server t _ st hs (fun l hl => (ht l hl).1)]
    obtain ⟨st', h1, h2⟩ := ih { spell := some kServers, done := closeCur st, cur := some (builderOf t) } (Or.inr rfl)
      (fun x hx => hg x (by simp [hx]))
    refine ⟨st', h1, ?_⟩
    rw [h2]
    simp [closeCur, finish_builderOf t (fun l hl => (ht l hl).2)]

/-- **`GroupToml` → document → `GroupToml`** -/
theorem decodeGroup_groupDoc (g : List TServer) (hg : GroupOK g) : decodeGroup (groupDoc g) = .ok (g.map normServer) := by
  obtain ⟨st', h1, h2⟩ := groupLoop_groupDoc g { spell := none, done := [], cur := none } (Or.inl rfl) hg
  simp only [decodeGroup, groupDoc, ne_eq, not_true_eq_false, if_false, List.map_nil, ambiguous, Bool.false_eq_true,
    List.any_nil, h1, h2]
  simp [closeCur]

/-! ### the same for `CothorityConfig` -/

def pRowKvs (e : TSvc) : List (Str × Str) := [(kSuite, e.suite), (kPublic, e.pub), (kPrivate, e.priv)]
def pRow (e : TSvc) : Table := { array := false, path := [kServices, e.name], kvs := pRowKvs e }

theorem privLoop_svcs : ∀ (l : List TSvc) (rest : List Table) (svcs : List (Str × List (Str × Str))),
    ((svcs.map (·.1)) ++ l.map (·.name)).Nodup →
    privLoop (l.map pRow ++ rest) ⟨some kServices, true, svcs⟩ =
      privLoop rest ⟨some kServices, true, svcs ++ l.map fun e => (e.name, pRowKvs e)⟩ := by
  intro l
  induction l with
  | nil => intro rest svcs _; simp
  | cons e r ih =>
    intro rest svcs hnd
    have hfresh := fresh_of_nodup (fun x : Str × List (Str × Str) => x.1) svcs rfl hnd
    have hamb : ambiguous ((pRowKvs e).map (·.1)) = false := by simp only [pRowKvs, List.map]; decide
    have hstep : privStep ⟨some kServices, true, svcs⟩ (pRow e) = .ok ⟨some kServices, true, svcs ++ [(e.name, pRowKvs e)]⟩ := by
      simp only [privStep, pRow, Bool.false_eq_true, if_false, hamb, ne_eq, not_true_eq_false, Option.isSome_some, and_false,
        hfresh]
    simp only [List.map_cons, List.cons_append, privLoop, hstep]
    rw [ih rest _ (by simpa [List.append_assoc] using hnd)]
    simp [List.append_assoc]

def privKvs (p : TPriv) : List (Str × Str) :=
  [(kSuite, p.suite), (kPublic, p.pub), (kPrivate, p.priv), (kAddress, p.address), (kListenAddress, p.listen),
   (kDescription, p.description), (kURL, p.url), (kWsCert, p.wsCert), (kWsKey, p.wsKey)]

theorem svcOf_pRow (e : TSvc) : svcOf e.name (pRowKvs e) = e := by
  cases e
  simp [svcOf, pRowKvs, field, List.find?, fold, kSuite, kPublic, kPrivate, lower]

/-- **`CothorityConfig` → document → `CothorityConfig`** -/
theorem decodePrivate_privDoc (p : TPriv) (hn : ∀ l, p.services = some l → (l.map (·.name)).Nodup) :
    decodePrivate (privDoc p) = .ok (normPriv p) := by
  have hamb : ambiguous ((privKvs p).map (·.1)) = false := by simp only [privKvs, List.map]; decide
  have hnos : ((privKvs p).any fun kv => fold kv.1 == fold kServices) = false := by
    simp only [privKvs, List.any_cons, List.any_nil]; decide
  have hf : field (privKvs p) (fold kSuite) = p.suite ∧ field (privKvs p) (fold kPublic) = p.pub ∧
      field (privKvs p) (fold kPrivate) = p.priv ∧ field (privKvs p) (fold kAddress) = p.address ∧
      field (privKvs p) (fold kListenAddress) = p.listen ∧ field (privKvs p) (fold kDescription) = p.description ∧
      field (privKvs p) (fold kURL) = p.url ∧ field (privKvs p) (fold kWsCert) = p.wsCert ∧
      field (privKvs p) (fold kWsKey) = p.wsKey := by
    simp [privKvs, field, List.find?, fold, kSuite, kPublic, kPrivate, kAddress, kListenAddress, kDescription, kURL,
      kWsCert, kWsKey, lower]
  obtain ⟨f1, f2, f3, f4, f5, f6, f7, f8, f9⟩ := hf
  have hk : privDoc p = { array := false, path := [], kvs := privKvs p } ::
      (match p.services with
       | none => []
       | some l => { array := false, path := [kServices], kvs := [] } :: (sortSvcs l).map pRow) := rfl
  rw [hk]
  cases hsv : p.services with
  | none =>
    simp only [decodePrivate, ne_eq, not_true_eq_false, if_false, hamb, Bool.false_eq_true, hnos, privLoop, f1, f2, f3,
      f4, f5, f6, f7, f8, f9]
    cases p; simp_all [normPriv]
  | some l =>
    have hhead : privStep ⟨none, false, []⟩ ⟨false, [kServices], []⟩ = .ok ⟨some kServices, true, []⟩ := by
      simp [privStep, ambiguous]
    have hloop := privLoop_svcs (sortSvcs l) [] [] (by simpa using sortSvcs_names_nodup (hn l hsv))
    simp only [List.append_nil, List.nil_append] at hloop
    have hm : ((sortSvcs l).map fun e => (e.name, pRowKvs e)).map (fun e => svcOf e.1 e.2) = sortSvcs l := by
      rw [List.map_map]
      conv => rhs; rw [← List.map_id (sortSvcs l)]
      apply List.map_congr_left
      intro e _
      simp [svcOf_pRow e]
    simp only [decodePrivate, ne_eq, not_true_eq_false, if_false, hamb, Bool.false_eq_true, hnos, privLoop, hhead, hloop,
      f1, f2, f3, f4, f5, f6, f7, f8, f9, Bool.true_or, if_true, hm]
    cases p; simp_all [normPriv]

/-! ### text → structure: the two files -/

theorem keyOK_kServers : KeyOK kServers := by unfold KeyOK kServers; decide
theorem keyOK_kServices : KeyOK kServices := by unfold KeyOK kServices; decide

theorem bareKey_consts : BareKey kAddress ∧ BareKey kSuite ∧ BareKey kPublic ∧ BareKey kPrivate ∧ BareKey kDescription ∧
    BareKey kURL ∧ BareKey kListenAddress ∧ BareKey kWsCert ∧ BareKey kWsKey := by
  unfold BareKey kAddress kSuite kPublic kPrivate kDescription kURL kListenAddress kWsCert kWsKey
  decide

/-- a group the writer can emit faithfully: `GroupOK` and service names it quotes faithfully -/
def GroupTextOK (g : List TServer) : Prop :=
  GroupOK g ∧ ∀ t ∈ g, ∀ l, t.services = some l → ∀ e ∈ l, KeyOK e.name

theorem serverTables_wf (t : TServer) (hk : ∀ l, t.services = some l → ∀ e ∈ l, KeyOK e.name) :
    ∀ tb ∈ serverTables t, WFTable tb := by
  obtain ⟨b1, b2, b3, _, b5, b6, _, _, _⟩ := bareKey_consts
  have hsrv : WFTable { array := true, path := [kServers], kvs := srvKvs t } := by
    refine ⟨by simp, by simp [keyOK_kServers], ?_, ?_⟩
    · intro kv hkv
      unfold srvKvs at hkv
      by_cases hu : t.url = []
      · simp only [hu, if_true, List.append_nil, List.mem_cons, List.mem_nil_iff, or_false] at hkv
        rcases hkv with rfl | rfl | rfl | rfl <;> assumption
      · simp only [hu, if_false, List.cons_append, List.nil_append, List.mem_cons, List.mem_nil_iff, or_false] at hkv
        rcases hkv with rfl | rfl | rfl | rfl | rfl <;> assumption
    · unfold srvKvs
      by_cases hu : t.url = []
      · simp only [hu, if_true, List.append_nil, List.map_cons, List.map_nil]; decide
      · simp only [hu, if_false, List.cons_append, List.nil_append, List.map_cons, List.map_nil]; decide
  intro tb htb
  unfold serverTables at htb
  have hk' : ([(kAddress, t.address), (kSuite, t.suite), (kPublic, t.pub), (kDescription, t.description)] ++
      if t.url = [] then [] else [(kURL, t.url)]) = srvKvs t := rfl
  rw [hk'] at htb
  cases hsv : t.services with
  | none =>
    simp only [hsv, List.mem_cons, List.mem_nil_iff, or_false] at htb
    subst htb; exact hsrv
  | some l =>
    simp only [hsv, List.mem_cons, List.mem_map] at htb
    rcases htb with rfl | rfl | ⟨e, he, rfl⟩
    · exact hsrv
    · exact ⟨by simp, by simp [keyOK_kServers, keyOK_kServices], by simp, by simp⟩
    · have hek := hk l hsv e ((sortSvcs_perm l).mem_iff.mp he)
      refine ⟨by simp, ?_, ?_, by simp only [List.map_cons, List.map_nil]; decide⟩
      · intro k hkm
        simp only [List.mem_cons, List.mem_nil_iff, or_false] at hkm
        rcases hkm with rfl | rfl | rfl
        · exact keyOK_kServers
        · exact keyOK_kServices
        · exact hek
      · intro kv hkv
        simp only [List.mem_cons, List.mem_nil_iff, or_false] at hkv
        rcases hkv with rfl | rfl <;> assumption

/-- **`GroupToml.String()` read back**: the text the writer emits for a group decodes to that group
(the entries of every `Services` map in the byte order of their names) — string escaping, key
quoting, table order and indentation included -/
theorem readGroupText_emitGroup (g : List TServer) (h : GroupTextOK g) :
    readGroupText (emitGroup g) = .ok (g.map normServer) := by
  unfold readGroupText emitGroup groupDoc
  rw [parseDoc_emitDoc]
  · exact decodeGroup_groupDoc g h.1
  · exact ⟨rfl, rfl, by simp, by simp⟩
  · intro tb htb
    obtain ⟨t, ht, htt⟩ := List.mem_flatMap.mp htb
    exact serverTables_wf t (h.2 t ht) tb htt

def saveLine1 : Str :=
  [35, 32, 84, 104, 105, 115, 32, 102, 105, 108, 101, 32, 99, 111, 110, 116, 97, 105, 110, 115, 32, 121, 111, 117, 114, 32,
   112, 114, 105, 118, 97, 116, 101, 32, 107, 101, 121, 46]
def saveLine2 : Str :=
  [35, 32, 68, 111, 32, 110, 111, 116, 32, 103, 105, 118, 101, 32, 105, 116, 32, 97, 119, 97, 121, 32, 108, 105, 103, 104,
   116, 108, 121, 33]

theorem parseDoc_comment (c text : Str) (hnl : 10 ∉ c) (hc : classify c = .ok .blank) :
    parseDoc (c ++ 10 :: text) = parseDoc text := by
  unfold parseDoc
  rw [splitLines_line c hnl]
  simp [docLoop, hc, docStep]

theorem privDoc_wf (p : TPriv) (hk : ∀ l, p.services = some l → ∀ e ∈ l, KeyOK e.name) :
    WFRoot { array := false, path := [], kvs := privKvs p } ∧
    ∀ tb ∈ (match p.services with
            | none => []
            | some l => ({ array := false, path := [kServices], kvs := [] } : Table) :: (sortSvcs l).map pRow), WFTable tb := by
  obtain ⟨b1, b2, b3, b4, b5, b6, b7, b8, b9⟩ := bareKey_consts
  refine ⟨⟨rfl, rfl, ?_, by simp only [privKvs, List.map_cons, List.map_nil]; decide⟩, ?_⟩
  · intro kv hkv
    simp only [privKvs, List.mem_cons, List.mem_nil_iff, or_false] at hkv
    rcases hkv with rfl | rfl | rfl | rfl | rfl | rfl | rfl | rfl | rfl <;> assumption
  · intro tb htb
    cases hsv : p.services with
    | none => simp [hsv] at htb
    | some l =>
      simp only [hsv, List.mem_cons, List.mem_map] at htb
      rcases htb with rfl | ⟨e, he, rfl⟩
      · exact ⟨by simp, by simp [keyOK_kServices], by simp, by simp⟩
      · have hek := hk l hsv e ((sortSvcs_perm l).mem_iff.mp he)
        refine ⟨by simp [pRow], ?_, ?_, by simp only [pRow, pRowKvs, List.map_cons, List.map_nil]; decide⟩
        · intro k hkm
          simp only [pRow, List.mem_cons, List.mem_nil_iff, or_false] at hkm
          rcases hkm with rfl | rfl
          · exact keyOK_kServices
          · exact hek
        · intro kv hkv
          simp only [pRow, pRowKvs, List.mem_cons, List.mem_nil_iff, or_false] at hkv
          rcases hkv with rfl | rfl | rfl <;> assumption

/-- **`CothorityConfig.Save` read back**: the file written for a private configuration decodes to
that configuration -/
theorem readPrivateText_emitPrivate (p : TPriv)
    (hn : ∀ l, p.services = some l → (l.map (·.name)).Nodup ∧ ∀ e ∈ l, KeyOK e.name) :
    readPrivateText (emitPrivate p) = .ok (normPriv p) := by
  have hh : saveHeader = saveLine1 ++ 10 :: (saveLine2 ++ 10 :: []) := by decide
  unfold readPrivateText emitPrivate
  rw [hh, List.append_assoc, List.cons_append, List.append_assoc, List.cons_append, List.nil_append,
    parseDoc_comment saveLine1 _ (by decide) (by decide), parseDoc_comment saveLine2 _ (by decide) (by decide)]
  have hk : privDoc p = { array := false, path := [], kvs := privKvs p } ::
      (match p.services with
       | none => []
       | some l => { array := false, path := [kServices], kvs := [] } :: (sortSvcs l).map pRow) := rfl
  obtain ⟨w1, w2⟩ := privDoc_wf p (fun l hl => (hn l hl).2)
  rw [hk, parseDoc_emitDoc _ _ w1 w2, ← hk]
  exact decodePrivate_privDoc p (fun l hl => (hn l hl).1)

end C18.Toml
