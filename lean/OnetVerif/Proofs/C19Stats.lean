import OnetVerif.Model.C19
import Mathlib.Order.Defs.LinearOrder
import Mathlib.Order.Basic
import Mathlib.Tactic.Tauto

set_option linter.unusedSectionVars false
set_option linter.unusedSimpArgs false

/-! C19 helper lemmas about result sets (`Stats`): the key-ordered association list, what a
sequence of `Update`s stores where, buckets, averaging.  Measure names are elements of an arbitrary
linear order (Go: strings under `sort.Strings`); the number type is arbitrary (`Float` included). -/
namespace C19

section keys
variable {κ α : Type} [LinearOrder κ] [Num α]

/-- measure names ordered by the linear order (Go: byte-wise string comparison) -/
instance linKeyOrd : KeyOrd κ := ⟨fun a b => decide (a < b)⟩

@[simp] theorem keyord_lt (a b : κ) : (KeyOrd.lt a b : Bool) = decide (a < b) := rfl

/-- `Stats.keys` -/
def keysOf (l : List (κ × Value α)) : List κ := l.map (·.1)

/-- the values stored under a name (none if the name is unknown) -/
def lookupStore (l : List (κ × Value α)) (k : κ) : List α :=
  match l.find? (·.1 = k) with
  | some kv => kv.2.store
  | none => []

def Stats.keys (s : Stats κ α) : List κ := keysOf s.vals
def Stats.storeAt (s : Stats κ α) (k : κ) : List α := lookupStore s.vals k

/-- `keys` strictly increasing (the representation invariant `sort.Strings` maintains) -/
def SortedKeys (l : List (κ × Value α)) : Prop := (keysOf l).Pairwise (· < ·)

omit [Num α] in
theorem lookup_nil (k : κ) : lookupStore ([] : List (κ × Value α)) k = [] := rfl

omit [Num α] in
theorem lookup_cons (c : κ) (v : Value α) (l : List (κ × Value α)) (k : κ) :
    lookupStore ((c, v) :: l) k = if c = k then v.store else lookupStore l k := by
  unfold lookupStore
  by_cases h : c = k <;> simp [List.find?_cons, h]

omit [Num α] in
theorem lookup_absent (l : List (κ × Value α)) (k : κ) (h : k ∉ keysOf l) : lookupStore l k = [] := by
  induction l with
  | nil => rfl
  | cons kv l ih =>
    obtain ⟨c, v⟩ := kv
    simp only [keysOf, List.map_cons, List.mem_cons, not_or] at h
    rw [lookup_cons, if_neg (fun e => h.1 e.symm)]
    exact ih h.2

theorem mem_upsert (k : κ) (x : α) (l : List (κ × Value α)) (k' : κ) :
    k' ∈ keysOf (upsert k x l) ↔ k' = k ∨ k' ∈ keysOf l := by
  induction l with
  | nil => simp [upsert, keysOf]
  | cons kv l ih =>
    obtain ⟨c, v⟩ := kv
    unfold upsert
    by_cases h1 : k = c
    · subst h1; simp [keysOf]
    · by_cases h2 : k < c
      · simp [h1, h2, keysOf]
      · simp only [h1, if_false, keyord_lt, h2, decide_false, Bool.false_eq_true]
        simp only [keysOf, List.map_cons, List.mem_cons] at ih ⊢
        rw [ih]; tauto

theorem sorted_upsert (k : κ) (x : α) (l : List (κ × Value α)) (h : SortedKeys l) :
    SortedKeys (upsert k x l) := by
  induction l with
  | nil => simp [upsert, SortedKeys, keysOf]
  | cons kv l ih =>
    obtain ⟨c, v⟩ := kv
    have hc : ∀ y ∈ keysOf l, c < y := by
      simpa [SortedKeys, keysOf] using (List.pairwise_cons.mp h).1
    have hl : SortedKeys l := (List.pairwise_cons.mp h).2
    unfold upsert
    by_cases h1 : k = c
    · subst h1; simpa [SortedKeys, keysOf] using h
    · by_cases h2 : k < c
      · simp only [h1, if_false, keyord_lt, h2, decide_true, if_true]
        unfold SortedKeys keysOf
        simp only [List.map_cons, List.pairwise_cons, List.mem_cons]
        refine ⟨?_, ?_, ?_⟩
        · intro y hy
          rcases hy with hy | hy
          · exact hy ▸ h2
          · exact lt_trans h2 (hc y hy)
        · exact fun y hy => hc y hy
        · exact hl
      · simp only [h1, if_false, keyord_lt, h2, decide_false, Bool.false_eq_true]
        have h3 : c < k := lt_of_le_of_ne (not_lt.mp h2) (fun e => h1 e.symm)
        unfold SortedKeys
        simp only [keysOf, List.map_cons, List.pairwise_cons]
        refine ⟨?_, ih hl⟩
        intro y hy
        rcases (mem_upsert k x l y).mp hy with hy | hy
        · exact hy ▸ h3
        · exact hc y hy

theorem lookup_upsert (k : κ) (x : α) (l : List (κ × Value α)) (h : SortedKeys l) (k' : κ) :
    lookupStore (upsert k x l) k' = if k' = k then lookupStore l k ++ [x] else lookupStore l k' := by
  induction l with
  | nil =>
    by_cases e : k' = k
    · subst e; simp [upsert, lookup_cons, lookup_nil, Value.put, Value.new]
    · have e' : ¬ k = k' := fun h => e h.symm
      simp [upsert, lookup_cons, lookup_nil, e, e']
  | cons kv l ih =>
    obtain ⟨c, v⟩ := kv
    have hc : ∀ y ∈ keysOf l, c < y := by
      simpa [SortedKeys, keysOf] using (List.pairwise_cons.mp h).1
    have hl : SortedKeys l := (List.pairwise_cons.mp h).2
    unfold upsert
    by_cases h1 : k = c
    · subst h1
      simp only [if_true, lookup_cons]
      by_cases e : k = k'
      · subst e; simp [Value.put]
      · have e' : ¬ k' = k := fun h => e h.symm
        simp [e, e']
    · by_cases h2 : k < c
      · simp only [h1, if_false, keyord_lt, h2, decide_true, if_true, lookup_cons]
        have habs : k ∉ keysOf l := fun hm => lt_asymm h2 (hc k hm)
        by_cases e : k = k'
        · subst e
          have hck : ¬ c = k := fun h => h1 h.symm
          simp [hck, lookup_absent l k habs, Value.put, Value.new]
        · have e' : ¬ k' = k := fun h => e h.symm
          simp [e, e']
      · simp only [h1, if_false, keyord_lt, h2, decide_false, Bool.false_eq_true, lookup_cons]
        by_cases e : c = k'
        · subst e
          have : ¬ c = k := fun h => h1 h.symm
          simp [this]
        · simp only [e, if_false]
          rw [ih hl]
          have hck : ¬ c = k := fun h => h1 h.symm
          simp [hck]

/-- `Update` applied to a list of (name, value) pairs in arrival order -/
def Stats.updates (s : Stats κ α) (ms : List (κ × α)) : Stats κ α :=
  ms.foldl (fun s m => s.update m.1 m.2) s

/-- the values of name `k` in an arrival sequence, in arrival order -/
def storeOf (k : κ) (ms : List (κ × α)) : List α := (ms.filter (·.1 = k)).map (·.2)

theorem updates_static (s : Stats κ α) (ms : List (κ × α)) : (s.updates ms).static = s.static := by
  induction ms generalizing s with
  | nil => rfl
  | cons m ms ih => simp only [Stats.updates, List.foldl_cons] at ih ⊢; rw [ih]; rfl

theorem sorted_updates (s : Stats κ α) (ms : List (κ × α)) (h : SortedKeys s.vals) :
    SortedKeys (s.updates ms).vals := by
  induction ms generalizing s with
  | nil => exact h
  | cons m ms ih =>
    simp only [Stats.updates, List.foldl_cons]
    exact ih _ (sorted_upsert m.1 m.2 s.vals h)

theorem mem_keys_updates (s : Stats κ α) (ms : List (κ × α)) (k : κ) :
    k ∈ (s.updates ms).keys ↔ k ∈ s.keys ∨ k ∈ ms.map (·.1) := by
  induction ms generalizing s with
  | nil => simp [Stats.updates]
  | cons m ms ih =>
    simp only [Stats.updates, List.foldl_cons] at ih ⊢
    rw [ih]
    simp only [Stats.keys, Stats.update, mem_upsert, List.map_cons, List.mem_cons]
    tauto

/-- **what is stored where**: after any arrival sequence a name holds exactly the values that
arrived under that name, in arrival order, after what it held before -/
theorem storeAt_updates (s : Stats κ α) (ms : List (κ × α)) (h : SortedKeys s.vals) (k : κ) :
    (s.updates ms).storeAt k = s.storeAt k ++ storeOf k ms := by
  induction ms generalizing s with
  | nil => simp [Stats.updates, storeOf]
  | cons m ms ih =>
    simp only [Stats.updates, List.foldl_cons] at ih ⊢
    rw [ih _ (sorted_upsert m.1 m.2 s.vals h)]
    simp only [Stats.storeAt, Stats.update, lookup_upsert m.1 m.2 s.vals h, storeOf, List.filter_cons]
    by_cases e : m.1 = k
    · subst e; simp
    · have e' : ¬ k = m.1 := fun h => e h.symm
      simp [e, e']

omit [Num α] in
/-- two strictly increasing key lists with the same members are the same list -/
theorem sorted_ext : ∀ (l₁ l₂ : List κ), l₁.Pairwise (· < ·) → l₂.Pairwise (· < ·) →
    (∀ k, k ∈ l₁ ↔ k ∈ l₂) → l₁ = l₂
  | [], [], _, _, _ => rfl
  | [], b :: l₂, _, _, h => absurd ((h b).mpr (List.mem_cons_self)) (by simp)
  | a :: l₁, [], _, _, h => absurd ((h a).mp (List.mem_cons_self)) (by simp)
  | a :: l₁, b :: l₂, h₁, h₂, h => by
    have ha := List.pairwise_cons.mp h₁
    have hb := List.pairwise_cons.mp h₂
    have hab : a = b := by
      rcases List.mem_cons.mp ((h a).mp List.mem_cons_self) with e | hm
      · exact e
      · rcases List.mem_cons.mp ((h b).mpr List.mem_cons_self) with e | hm'
        · exact e.symm
        · exact absurd (hb.1 a hm) (lt_asymm (ha.1 b hm'))
    subst hab
    have : l₁ = l₂ := by
      apply sorted_ext l₁ l₂ ha.2 hb.2
      intro k
      constructor
      · intro hk
        rcases List.mem_cons.mp ((h k).mp (List.mem_cons_of_mem _ hk)) with e | hm
        · exact absurd (ha.1 k hk) (e ▸ lt_irrefl _)
        · exact hm
      · intro hk
        rcases List.mem_cons.mp ((h k).mpr (List.mem_cons_of_mem _ hk)) with e | hm
        · exact absurd (hb.1 k hk) (e ▸ lt_irrefl _)
        · exact hm
    rw [this]

omit [Num α] in
/-- in a list with distinct keys every entry is the one its key finds -/
theorem lookup_of_mem (l : List (κ × Value α)) (h : SortedKeys l) (kv : κ × Value α) (hm : kv ∈ l) :
    lookupStore l kv.1 = kv.2.store := by
  induction l with
  | nil => cases hm
  | cons a l ih =>
    obtain ⟨c, v⟩ := a
    have hc : ∀ y ∈ keysOf l, c < y := by
      simpa [SortedKeys, keysOf] using (List.pairwise_cons.mp h).1
    have hl : SortedKeys l := (List.pairwise_cons.mp h).2
    rw [lookup_cons]
    rcases List.mem_cons.mp hm with e | hm'
    · subst e; simp
    · have : kv.1 ∈ keysOf l := List.mem_map_of_mem hm'
      have hne : ¬ c = kv.1 := fun e => lt_irrefl c (e ▸ hc kv.1 this)
      rw [if_neg hne]
      exact ih hl hm'

end keys

section generic
variable {κ α : Type} [Num α]

/-! ### `Collect` only reads the store (any number type, `Float` included) -/

theorem step_store' (t : Value α) (x : α) : (t.step x).store = t.store := by
  simp only [Value.step]; split <;> rfl

theorem foldl_step_store' (xs : List α) (t : Value α) : (xs.foldl Value.step t).store = t.store := by
  induction xs generalizing t with
  | nil => rfl
  | cons x xs ih => simp [List.foldl_cons, ih, step_store']

theorem collect_store' (t : Value α) : t.collect.store = t.store := by
  simp [Value.collect, foldl_step_store', Value.reset]

theorem collect_congr' (t u : Value α) (h : t.store = u.store) : t.collect = u.collect := by
  simp [Value.collect, Value.reset, h]

theorem collect_collect (t : Value α) : t.collect.collect = t.collect :=
  collect_congr' _ _ (collect_store' t)

variable [KeyOrd κ] [DecidableEq κ]

theorem stats_collect_collect (s : Stats κ α) : s.collect.collect = s.collect := by
  simp [Stats.collect, collect_collect]

theorem collect_readout (s : Stats κ α) (r : Readout) : (s.readout r).collect = s.collect := by
  cases r <;> simp [Stats.readout, stats_collect_collect]

/-- a sequence of read-outs -/
def Stats.readouts (s : Stats κ α) (rs : List Readout) : Stats κ α := rs.foldl Stats.readout s

theorem collect_readouts (s : Stats κ α) (rs : List Readout) : (s.readouts rs).collect = s.collect := by
  induction rs generalizing s with
  | nil => rfl
  | cons r rs ih =>
    simp only [Stats.readouts, List.foldl_cons] at ih ⊢
    rw [ih, collect_readout]

theorem readouts_of_collected (s : Stats κ α) (rs : List Readout) : (s.collect.readouts rs) = s.collect := by
  induction rs with
  | nil => rfl
  | cons r rs ih =>
    simp only [Stats.readouts, List.foldl_cons] at ih ⊢
    have : s.collect.readout r = s.collect := by
      cases r <;> simp [Stats.readout, stats_collect_collect]
    rw [this, ih]

/-! ### Buckets -/

/-- the specification of a bucket's ranges: the host index is valid and lies in one of them -/
def hostIn (rr : List Rule) (h : Int) : Prop := 0 ≤ h ∧ ∃ r ∈ rr, r.low ≤ h ∧ h < r.high

theorem rulesMatch_iff (rr : List Rule) (h : Int) : rulesMatch rr h = true ↔ hostIn rr h := by
  unfold rulesMatch hostIn
  by_cases hn : h < 0
  · simp [hn]; omega
  · simp only [hn, if_false, List.any_eq_true, Rule.matches, Bool.and_eq_true, decide_eq_true_eq]
    constructor
    · rintro ⟨r, hr, h1, h2⟩; exact ⟨by omega, r, hr, h1, h2⟩
    · rintro ⟨_, r, hr, h1, h2⟩; exact ⟨r, hr, h1, h2⟩

/-- feeding an arrival sequence to the buckets -/
def BucketStats.feed (bs : BucketStats κ α) (ms : List (Measure κ α)) : BucketStats κ α :=
  ms.foldl BucketStats.update bs

/-- `Update` of a result set with the measures of an arrival sequence -/
def Stats.feed (s : Stats κ α) (ms : List (Measure κ α)) : Stats κ α :=
  ms.foldl (fun s m => s.update m.name m.val) s

theorem buckets_feed (bs : BucketStats κ α) (ms : List (Measure κ α)) :
    bs.feed ms = bs.map fun b =>
      { b with stats := b.stats.feed (ms.filter fun m => rulesMatch b.rules m.host) } := by
  induction ms generalizing bs with
  | nil =>
    simp only [BucketStats.feed, List.foldl_nil, List.filter_nil, Stats.feed]
    exact (List.map_id' bs).symm
  | cons m ms ih =>
    simp only [BucketStats.feed, List.foldl_cons] at ih ⊢
    rw [ih]
    simp only [BucketStats.update, List.map_map]
    apply List.map_congr_left
    intro b _
    simp only [Function.comp]
    by_cases h : rulesMatch b.rules m.host = true
    · simp [h, Stats.feed, List.filter_cons]
    · simp [h, Stats.feed, List.filter_cons]

/-! ### Averaging -/

theorem value_map (l : List (κ × Value α)) (f : κ × Value α → Value α) (k : κ) :
    ((l.map fun kv => (kv.1, f kv)).find? (·.1 = k)).map (·.2) = (l.find? (·.1 = k)).map f := by
  induction l with
  | nil => rfl
  | cons a l ih =>
    by_cases h : a.1 = k
    · simp [List.find?_cons, h]
    · simp only [List.map_cons, List.find?_cons, h, decide_false]
      exact ih

end generic
end C19
