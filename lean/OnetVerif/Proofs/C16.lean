import OnetVerif.Model.C16
/-! C16 helper definitions and lemmas: bucket names owned by a service, independence of service
names, the per-service specification (`Spec`), the abstraction from a database to it. Core only. -/
namespace C16

/-- `b` is neither `a ++ "version"` nor `a ++ "_" ++ x` -/
def NoExt (a b : Bytes) : Prop := b ≠ a ++ sVersion ∧ ∀ x, b ≠ a ++ [cUnderscore] ++ x

/-- the premise of the property on two service names: different, and neither is a
"version"/"_" extension of the other -/
def Indep (a b : Bytes) : Prop := a ≠ b ∧ NoExt a b ∧ NoExt b a

theorem Indep.symm {a b : Bytes} (h : Indep a b) : Indep b a := ⟨fun e => h.1 e.symm, h.2.2, h.2.1⟩

/-- the bucket names a service's context can name -/
inductive Owns (svc : Bytes) : Bytes → Prop
  | main : Owns svc (mainName svc)
  | version : Owns svc (versionName svc)
  | extra (x : Bytes) : Owns svc (extraName svc x)

theorem underscore_not_in_version : cUnderscore ∉ sVersion := by decide

private theorem version_ne_cons (x : Bytes) : sVersion ≠ cUnderscore :: x := by
  intro h
  have : cUnderscore ∈ sVersion := by rw [h]; exact List.mem_cons_self
  exact underscore_not_in_version this

private theorem version_ne_mid (w x : Bytes) : sVersion ≠ w ++ cUnderscore :: x := by
  intro h
  have : cUnderscore ∈ sVersion := by rw [h]; simp
  exact underscore_not_in_version this

/-- `a ++ "version" = b ++ "_" ++ x` forces `a` to be a "_"-extension of `b` -/
private theorem version_eq_extra {a b x : Bytes} (h : a ++ sVersion = b ++ cUnderscore :: x) :
    ∃ w, a = b ++ [cUnderscore] ++ w := by
  rcases List.append_eq_append_iff.mp h with ⟨w, hb, hv⟩ | ⟨w, ha, hx⟩
  · exact absurd hv (version_ne_mid w x)
  · cases w with
    | nil => exact absurd hx.symm (by simpa using version_ne_cons x)
    | cons c w' =>
      simp only [List.cons_append, List.cons.injEq] at hx
      exact ⟨w', by rw [ha, ← hx.1]; simp⟩

/-- `a ++ "_" ++ x = b ++ "_" ++ y` with `a ≠ b` forces one to be a "_"-extension of the other -/
private theorem extra_eq_extra {a b x y : Bytes} (hne : a ≠ b)
    (h : a ++ cUnderscore :: x = b ++ cUnderscore :: y) :
    (∃ w, b = a ++ [cUnderscore] ++ w) ∨ (∃ w, a = b ++ [cUnderscore] ++ w) := by
  rcases List.append_eq_append_iff.mp h with ⟨w, hb, hv⟩ | ⟨w, ha, hx⟩
  · cases w with
    | nil => exact absurd (by simpa using hb) (fun e : b = a => hne e.symm)
    | cons c w' =>
      simp only [List.cons_append, List.cons.injEq] at hv
      exact Or.inl ⟨w', by rw [hb, hv.1]; simp⟩
  · cases w with
    | nil => exact absurd (by simpa using ha) hne
    | cons c w' =>
      simp only [List.cons_append, List.cons.injEq] at hx
      exact Or.inr ⟨w', by rw [ha, hx.1]; simp⟩

theorem names_disjoint {a b : Bytes} (h : Indep a b) {n : Bytes} (ha : Owns a n) (hb : Owns b n) : False := by
  obtain ⟨hne, hab, hba⟩ := h
  cases ha with
  | main =>
    generalize hn : mainName a = n at hb
    cases hb with
    | main => exact hne (by simpa [mainName] using hn)
    | version => exact hba.1 (by simpa [mainName, versionName] using hn)
    | extra x => exact hba.2 x (by simpa [mainName, extraName] using hn)
  | version =>
    generalize hn : versionName a = n at hb
    cases hb with
    | main => exact hab.1 (by simpa [mainName, versionName] using hn.symm)
    | version => exact hne (by simpa [versionName] using hn)
    | extra x =>
      obtain ⟨w, hw⟩ := version_eq_extra (a := a) (b := b) (x := x) (by simpa [versionName, extraName] using hn)
      exact hba.2 w hw
  | extra x =>
    generalize hn : extraName a x = n at hb
    cases hb with
    | main => exact hab.2 x (by simpa [mainName, extraName] using hn.symm)
    | version =>
      obtain ⟨w, hw⟩ := version_eq_extra (a := b) (b := a) (x := x) (by simpa [versionName, extraName] using hn.symm)
      exact hab.2 w hw
    | extra y =>
      rcases extra_eq_extra hne (x := x) (y := y) (by simpa [extraName] using hn) with ⟨w, hw⟩ | ⟨w, hw⟩
      · exact hab.2 w hw
      · exact hba.2 w hw

/-! the names of one service are different from each other -/
theorem main_ne_version (s : Bytes) : mainName s ≠ versionName s := by
  intro h
  have := congrArg List.length h
  simp [mainName, versionName, sVersion] at this

theorem main_ne_extra (s x : Bytes) : mainName s ≠ extraName s x := by
  intro h
  have := congrArg List.length h
  simp [mainName, extraName] at this

theorem version_ne_extra (s x : Bytes) : versionName s ≠ extraName s x := by
  intro h
  simp only [versionName, extraName, List.append_assoc, List.append_cancel_left_eq] at h
  exact version_ne_cons x (by simpa using h)

theorem extra_inj (s x y : Bytes) : extraName s x = extraName s y ↔ x = y := by
  simp [extraName]

/-! ### Database updates -/

/-- replace (or create) bucket `n` -/
def update (db : Db) (n : Bytes) (b : Bucket) : Db := fun m => if m = n then some b else db m

theorem update_same (db : Db) (n : Bytes) (b : Bucket) : update db n b n = some b := by simp [update]
theorem update_other (db : Db) (n m : Bytes) (b : Bucket) (h : m ≠ n) : update db n b m = db m := by
  simp [update, h]

theorem createBucket_eq (db : Db) (n : Bytes) : createBucket db n = update db n ((db n).getD fun _ => none) := rfl

/-- what is stored under `k` in bucket `n` (nothing if the bucket does not exist) -/
def content (db : Db) (n k : Bytes) : Option Bytes := (db n).bind (· k)

theorem content_create (db : Db) (n m k : Bytes) : content (createBucket db n) m k = content db m k := by
  unfold content createBucket
  by_cases h : m = n
  · subst h; cases hdb : db m <;> simp [hdb]
  · simp [h]

theorem create_other (db : Db) (n m : Bytes) (h : m ≠ n) : createBucket db n m = db m := by
  simp [createBucket, h]

theorem create_isSome (db : Db) (n m : Bytes) (h : (db m).isSome) : (createBucket db n m).isSome := by
  unfold createBucket; by_cases e : m = n <;> simp [e, h]

/-- the main and the version bucket of the service exist (true from `newContext` on) -/
def Ready (db : Db) (s : Bytes) : Prop := (db (mainName s)).isSome ∧ (db (versionName s)).isSome

theorem ready_newContext (db : Db) (s : Bytes) : Ready (newContext db s) s := by
  constructor
  · simp [newContext, createBucket, main_ne_version]
  · simp [newContext, createBucket]

theorem ready_newContext_other (db : Db) (s t : Bytes) (h : Ready db t) : Ready (newContext db s) t :=
  ⟨create_isSome _ _ _ (create_isSome _ _ _ h.1), create_isSome _ _ _ (create_isSome _ _ _ h.2)⟩

theorem ready_startServer (db : Db) (l : List Bytes) (t : Bytes) (h : Ready db t ∨ t ∈ l) :
    Ready (startServer db l) t := by
  induction l generalizing db with
  | nil => rcases h with h | h; exact h; cases h
  | cons s l ih =>
    simp only [startServer, List.foldl_cons]
    apply ih
    rcases h with h | h
    · exact Or.inl (ready_newContext_other db s t h)
    · rcases List.mem_cons.mp h with e | h
      · subst e; exact Or.inl (ready_newContext db t)
      · exact Or.inr h

theorem content_startServer (db : Db) (l : List Bytes) (m k : Bytes) :
    content (startServer db l) m k = content db m k := by
  induction l generalizing db with
  | nil => rfl
  | cons s l ih =>
    simp only [startServer, List.foldl_cons]
    rw [show List.foldl newContext (newContext db s) l = startServer (newContext db s) l from rfl, ih]
    simp [newContext, content_create]

/-- a restart leaves alone every bucket that is not a main or version bucket of a started service -/
theorem startServer_other (db : Db) (l : List Bytes) (m : Bytes)
    (h : ∀ s ∈ l, m ≠ mainName s ∧ m ≠ versionName s) : startServer db l m = db m := by
  induction l generalizing db with
  | nil => rfl
  | cons s l ih =>
    simp only [startServer, List.foldl_cons]
    rw [show List.foldl newContext (newContext db s) l = startServer (newContext db s) l from rfl,
      ih _ (fun t ht => h t (List.mem_cons_of_mem _ ht))]
    have := h s List.mem_cons_self
    simp [newContext, create_other, this.1, this.2]

/-! ### The specification: one map (plus version cell, plus named buckets) per service -/

structure Spec where
  main : Bytes → Bytes → Option Bytes
  ver : Bytes → Option Bytes
  extra : Bytes → Bytes → Option Bucket

def validKey (k : Bytes) : Prop := ¬ (k = [] ∨ k.length > maxKeySize)
instance (k : Bytes) : Decidable (validKey k) := by unfold validKey; infer_instance

/-- the same calls on the specification -/
def specStep (known : List Bytes) (σ : Spec) (s : Bytes) : Op → Spec × Res
  | .save k raw =>
    if validKey k then
      ({ σ with main := fun s' k' => if s' = s ∧ k' = k then some raw else σ.main s' k' }, .ok)
    else (σ, .errTx)
  | .saveBad _ => (σ, .errMarshal)
  | .load k =>
    (σ, match σ.main s k with
        | none => .nothing
        | some raw => if decodable known raw then .val raw else .errUnmarshal)
  | .loadRaw k =>
    (σ, match σ.main s k with
        | none => .nothing
        | some raw => .val raw)
  | .saveVersion v => ({ σ with ver := fun s' => if s' = s then some (encodeVersion v) else σ.ver s' }, .ok)
  | .loadVersion =>
    (σ, match σ.ver s with
        | none => .ver 0
        | some [] => .ver 0
        | some b =>
          match decodeVersion b with
          | some v => .ver v
          | none => .errVersion)
  | .addBucket x =>
    ({ σ with extra := fun s' x' =>
        if s' = s ∧ x' = x then some ((σ.extra s x).getD fun _ => none) else σ.extra s' x' },
     .name (extraName s x))
  | .bput x k v =>
    match σ.extra s x with
    | none => (σ, .noBucket)
    | some b =>
      if validKey k then
        ({ σ with extra := fun s' x' =>
            if s' = s ∧ x' = x then some (fun k' => if k' = k then some v else b k') else σ.extra s' x' }, .ok)
      else (σ, .errTx)
  | .bget x k =>
    match σ.extra s x with
    | none => (σ, .noBucket)
    | some b =>
      (σ, match b k with
          | none => .nothing
          | some v => .val v)
  | .bdel x k =>
    match σ.extra s x with
    | none => (σ, .noBucket)
    | some b =>
      ({ σ with extra := fun s' x' =>
          if s' = s ∧ x' = x then some (fun k' => if k' = k then none else b k') else σ.extra s' x' }, .ok)

/-- a history on the specification: restarts are invisible -/
def specRun (known : List Bytes) (σ : Spec) : List Ev → Spec × List Res
  | [] => (σ, [])
  | .call svc op :: rest =>
    let r := specStep known σ svc op
    let r' := specRun known r.1 rest
    (r'.1, r.2 :: r'.2)
  | .restart _ :: rest => specRun known σ rest

/-- what the services see of a database -/
def abs (db : Db) : Spec where
  main := fun s k => content db (mainName s) k
  ver := fun s => content db (versionName s) dbVersionKey
  extra := fun s x => db (extraName s x)

/-- two specification states agree on the services in `S` -/
def AgreeOn (S : List Bytes) (σ₁ σ₂ : Spec) : Prop :=
  ∀ s ∈ S, σ₁.main s = σ₂.main s ∧ σ₁.ver s = σ₂.ver s ∧ σ₁.extra s = σ₂.extra s

/-- pairwise independent service names -/
def PairwiseIndep (S : List Bytes) : Prop := ∀ a ∈ S, ∀ b ∈ S, a ≠ b → Indep a b

theorem dbVersionKey_valid : validKey dbVersionKey := by decide

end C16
