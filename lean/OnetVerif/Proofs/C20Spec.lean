import OnetVerif.Model.C20
/-! Property C20 — the *independent parse* the property statement speaks of: a declarative
grammar of well-formed addresses, written without any of the index arithmetic of the code
(`Model/C20.lean`).  `Props/C20.lean` proves that the code's `Valid` accepts exactly this grammar.

Shared with the model on purpose (library behaviour, not address.go's logic): `parseIPv6`
(the IPv6 half of `net.ParseIP ≠ nil`; IPv4 literals have their own grammar here, proved equivalent
in `Proofs/C20IPv4.lean`) and `goLower` (`strings.ToLower`). -/
namespace C20

/-- no colon and no square bracket -/
def NoBr (s : Str) : Prop := ∀ c ∈ s, c ≠ 58 ∧ c ≠ 91 ∧ c ≠ 93

/-- no square bracket -/
def NoSq (s : Str) : Prop := ∀ c ∈ s, c ≠ 91 ∧ c ≠ 93

/-- `HostPort hp h p`: `hp` is `h:p` or `[h]:p`; brackets appear nowhere else, colons only inside a
bracketed host. -/
inductive HostPort : Str → Str → Str → Prop
  | plain (h p : Str) : NoBr h → NoBr p → HostPort (h ++ 58 :: p) h p
  | bracket (h p : Str) : NoSq h → NoBr p → HostPort (91 :: h ++ 93 :: 58 :: p) h p

/-- value of a decimal numeral -/
def decVal (ds : Str) : Nat := ds.foldl (fun a d => a * 10 + (d - 48)) 0

/-- a non-empty string of decimal digits -/
def Digits (ds : Str) : Prop := ds ≠ [] ∧ ∀ d ∈ ds, isDigit d = true

/-- a port in range: a decimal numeral (any number of leading zeros) of value 0..65535 with an
optional `+`; with `-` only the value 0 (that is what `strconv.Atoi` + range test accept). -/
inductive PortOk : Str → Prop
  | plain (ds : Str) : Digits ds → decVal ds ≤ 65535 → PortOk ds
  | plus (ds : Str) : Digits ds → decVal ds ≤ 65535 → PortOk (43 :: ds)
  | minus (ds : Str) : Digits ds → decVal ds = 0 → PortOk (45 :: ds)

/-- labels joined by dots -/
def joinDot : List Str → Str
  | [] => []
  | [l] => l
  | l :: l' :: ls => l ++ 46 :: joinDot (l' :: ls)

/-- `s` is the labels `ls` joined by dots (no label contains a dot) -/
def Labels (s : Str) (ls : List Str) : Prop :=
  ls ≠ [] ∧ s = joinDot ls ∧ ∀ l ∈ ls, 46 ∉ l

/-- a label of a host name: letters, digits and hyphens, not starting and not ending with a hyphen -/
def Label (l : Str) : Prop :=
  (∀ c ∈ l, isAlnum c = true ∨ c = 45) ∧ (∃ c, l.head? = some c ∧ isAlnum c = true) ∧
    (∃ c, l.getLast? = some c ∧ isAlnum c = true)

/-- the last label: alphabetic -/
def Tld (l : Str) : Prop := l ≠ [] ∧ ∀ c ∈ l, isLower c = true

/-- `s'` is `s` without one trailing dot -/
def Stripped (s s' : Str) : Prop := s = s' ++ [46] ∨ (s' = s ∧ s.getLast? ≠ some 46)

/-- the documented definition of a well-formed host name (comment of `validHostname`,
address.go:122-140): case-insensitive; at most 253 bytes not counting a trailing dot; labels of
1..63 bytes; either a single label (any bytes: "also returns true if the string doesn't have any
'.' in it") or proper labels the last of which is alphabetic. -/
def HostName (h : Str) : Prop :=
  h ≠ [] ∧ ∃ s ls, Stripped (goLower h) s ∧ s.length ≤ 253 ∧ Labels s ls ∧
    (∀ l ∈ ls, 1 ≤ l.length ∧ l.length ≤ 63) ∧
    (ls.length = 1 ∨ ((∀ l ∈ ls.dropLast, Label l) ∧ ∃ t, ls.getLast? = some t ∧ Tld t))

/-- one field of a dotted quad: 1..3 decimal digits, value ≤ 255, no leading zero -/
def Octet (f : Str) : Prop := Digits f ∧ decVal f ≤ 255 ∧ (1 < f.length → f.head? ≠ some 48)

/-- an IPv4 literal `a.b.c.d` -/
def IPv4 (s : Str) : Prop :=
  ∃ a b c d, Octet a ∧ Octet b ∧ Octet c ∧ Octet d ∧ s = a ++ 46 :: (b ++ 46 :: (c ++ 46 :: d))

/-- an IPv6 literal: a string whose first special character (of `.`, `:`, `%`) is a colon and that
the model of `netip.parseIPv6` accepts (groups of 1..4 hex digits, one optional `::`, an optional
embedded IPv4 tail, no zone).  This part of the grammar is *not* independent of the model: the IPv6
recogniser is library behaviour transcribed once and shared. -/
def IPv6Lit (s : Str) : Prop :=
  s.find? (fun c => c = 46 || c = 58 || c = 37) = some 58 ∧ parseIPv6 s = true

/-- `Parse a t na h p`: `a` is `t://na` with a known connection type `t`, no further separator, and
`na` is the host:port `h`, `p`. -/
def Parse (a t na h p : Str) : Prop :=
  a = t ++ sep ++ na ∧ (t = tcp ∨ t = tls ∨ t = localT) ∧ ¬ sep <:+: na ∧ HostPort na h p

/-- **the independent grammar of valid addresses**: known connection type, separator, host:port
whose host is empty, an IP address or a well-formed host name and whose port is in range. -/
def Spec (a : Str) : Prop :=
  ∃ t na h p, Parse a t na h p ∧ PortOk p ∧ (h = [] ∨ IPv4 h ∨ IPv6Lit h ∨ HostName h)

end C20
