import OnetVerif.Model.C09Pause
/-! Helper lemmas for the router's pause gate (`Model/C09Pause.lean`), used by Props/C09.lean and Props/C10.lean; core only. -/
namespace C09

/-- invariant of the repaired gate: a loop at the gate waits on a channel that is closed already or is the
one `Unpause` will close next; no loop is in the (removed) second lock region -/
def GateInv (s : Gate) : Prop :=
  ∀ pc ∈ s.loops, (∀ ch, pc = .wait ch → s.closedCh.contains ch = true ∨ s.paused = some ch) ∧ (∀ ch, pc ≠ .woken ch)

theorem gate_getElem?_mem {l : List GatePc} {i : Nat} {a : GatePc} (h : l[i]? = some a) : a ∈ l := by
  obtain ⟨hlt, he⟩ := List.getElem?_eq_some_iff.mp h
  exact he ▸ List.getElem_mem hlt

theorem gate_inv_step {s s' : Gate} {a : GateAct} (h : GateInv s) (hs : gateStep true s a = some s') : GateInv s' := by
  cases a with
  | launch =>
    simp only [gateStep, Option.some.injEq] at hs; subst hs
    intro pc hpc
    simp only [List.mem_append, List.mem_singleton] at hpc
    rcases hpc with hpc | rfl
    · exact h pc hpc
    · exact ⟨fun ch hc => (by cases hc), fun ch hc => (by cases hc)⟩
  | pause =>
    simp only [gateStep] at hs
    split at hs
    · simp only [Option.some.injEq] at hs; subst hs; exact h
    · rename_i hp
      simp only [Option.some.injEq] at hs; subst hs
      intro pc hpc
      refine ⟨fun ch hc => ?_, (h pc hpc).2⟩
      rcases (h pc hpc).1 ch hc with hcl | hpa
      · exact Or.inl hcl
      · rw [hp] at hpa; cases hpa
  | unpause =>
    simp only [gateStep] at hs
    split at hs
    · rename_i ch0 hp
      simp only [Option.some.injEq] at hs; subst hs
      intro pc hpc
      refine ⟨fun ch hc => Or.inl ?_, (h pc hpc).2⟩
      rcases (h pc hpc).1 ch hc with hcl | hpa
      · simp only [List.contains_cons, hcl, Bool.or_true]
      · rw [hp] at hpa
        have : ch0 = ch := by simpa using hpa
        simp [this]
    · simp only [Option.some.injEq] at hs; subst hs; exact h
  | received i =>
    simp only [gateStep] at hs
    split at hs
    · split at hs
      · rename_i ch hp
        simp only [Option.some.injEq] at hs; subst hs
        intro pc hpc
        rcases List.mem_or_eq_of_mem_set hpc with hpc | rfl
        · exact h pc hpc
        · exact ⟨fun ch' hc => (by cases hc; exact Or.inr hp), fun ch' hc => (by cases hc)⟩
      · simp only [Option.some.injEq] at hs; subst hs; exact h
    · cases hs
  | wake i =>
    simp only [gateStep] at hs
    split at hs
    · split at hs
      · simp only [if_true, Option.some.injEq] at hs; subst hs
        intro pc hpc
        rcases List.mem_or_eq_of_mem_set hpc with hpc | rfl
        · exact h pc hpc
        · exact ⟨fun ch' hc => (by cases hc), fun ch' hc => (by cases hc)⟩
      · cases hs
    · cases hs
  | reset i =>
    simp only [gateStep] at hs
    split at hs
    · rename_i ch hl
      exact absurd rfl ((h _ (gate_getElem?_mem hl)).2 ch)
    · cases hs

theorem gate_inv_run (s : Gate) (h : GateInv s) (acts : List GateAct) : GateInv (gateRun true s acts) := by
  induction acts generalizing s with
  | nil => exact h
  | cons a as ih =>
    simp only [gateRun]
    split
    · rename_i s' hs; exact ih s' (gate_inv_step h hs)
    · exact ih s h

theorem gate_inv_init : GateInv {} := by intro pc hpc; cases hpc

end C09
