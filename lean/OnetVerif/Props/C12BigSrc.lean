import OnetVerif.Props.C12BigDec
/-! Property C12 — helper file for `Props/C12Gen.lean` (no obligations are stated here): the whole loop nest of
`Roster.GenerateBigNaryTree` written with the decisions lifted from the source only (`Gen.C12Big.*`), and the proof that
the hand model `genBig` is that loop nest.  What remains hand-written is the nesting itself (which loop contains which)
and the bookkeeping statements (`used[roIndex] = true`, `roIndex = (roIndex + 1) % ilLen`, `totalNodes++`, appending the
child), which are pinned by the `+full` shape. -/
namespace C12

/-- the child count as the source computes it: `children := (nodes - totalNodes) * (i + 1) / len(levelNodes)`, capped by
`if children > N { children = N }`; `none` = the division panics (an empty level: never) -/
def childCountSrc (c : BigCfg) (L i total : Nat) : Option Nat :=
  match Gen.C12Big.children c.nodes total i (List.replicate L (0 : Int)) with
  | none => none
  | some ch => some (if Gen.C12Big.childrenCap ch c.N then (c.N : Int) else ch).toNat

theorem childCountSrc_eq (c : BigCfg) (L i total : Nat) (hL : 0 < L) (ht : total ≤ c.nodes) :
    childCountSrc c L i total = some (childCount c L i total) := by
  obtain ⟨ch, h1, _, h3⟩ := bigdec_children c (List.replicate L (0 : Int)) i total (by simpa using hL) ht
  simp only [List.length_replicate] at h3
  simp only [childCountSrc, h1, h3]
  by_cases hc : Gen.C12Big.childrenCap (ch : Int) (c.N : Int) = true
  · simp [hc]
  · simp [hc]

/-- `for n := 0; n < children; n++ { pick a server; make the child }` with the extracted loop test and the source's pick loop -/
def addChildrenSrc (c : BigCfg) (pIdx pMember children : Nat) : (fuel n : Nat) → BigSt → Level → Option (BigSt × Level)
  | 0, _, st, acc => some (st, acc)
  | fuel + 1, n, st, acc =>
    if Gen.C12Big.childCond n children then
      match pickLoopSrc c st.used (c.hosts.getD pMember 0) st.roIndex (2 * c.ilLen + 3) st.roIndex
          (c.hosts.getD st.roIndex 0) true with
      | none => none
      | some r =>
        addChildrenSrc c pIdx pMember children fuel (n + 1)
          { used := st.used.set r true, roIndex := (r + 1) % c.ilLen, total := st.total + 1 } (acc ++ [(r, pIdx)])
    else some (st, acc)

/-- the invariant of the loop nest that the decision lemmas need -/
def SrcInv (c : BigCfg) (st : BigSt) : Prop := st.used.length = c.ilLen ∧ st.roIndex < c.ilLen

theorem pickLoopSrc_lt (c : BigCfg) (used : List Bool) (ph first : Nat) (hpos : 0 < c.ilLen) :
    ∀ (fuel ro ch : Nat) (ns : Bool) (r : Nat), ro < c.ilLen → pickLoopSrc c used ph first fuel ro ch ns = some r → r < c.ilLen := by
  intro fuel
  induction fuel with
  | zero => intro ro ch ns r _ h; simp [pickLoopSrc] at h
  | succ fuel ih =>
    intro ro ch ns r hro h
    have hnext : ((Gen.C12Big.roIndexNext ro c.ilLen).getD 0).toNat < c.ilLen := by
      rw [bigdec_roIndexNext _ _ hpos]
      simp only [Option.getD_some, Int.toNat_natCast]
      exact Nat.mod_lt _ hpos
    simp only [pickLoopSrc] at h
    split at h
    · split at h
      · exact ih _ _ _ r hnext h
      · split at h
        · simp only [Option.some.injEq] at h; omega
        · exact ih _ _ _ r hnext h
    · simp only [Option.some.injEq] at h; omega

theorem addChildren_eq_src (c : BigCfg) (pIdx pMember : Nat) (hpos : 0 < c.ilLen) :
    ∀ (k n : Nat) (st : BigSt) (acc : Level), SrcInv c st →
      addChildren c pIdx pMember k st acc = addChildrenSrc c pIdx pMember (n + k) k n st acc := by
  intro k
  induction k with
  | zero => intro n st acc _; rfl
  | succ k ih =>
    intro n st acc hinv
    obtain ⟨hl, hro⟩ := hinv
    have hcond : Gen.C12Big.childCond (n : Int) ((n + (k + 1) : Nat) : Int) = true := by
      rw [bigdec_childCond]; simp
    simp only [addChildren, addChildrenSrc, hcond, if_true]
    rw [bigdec_pick_eq c st _ hl hro]
    cases hp : pickLoopSrc c st.used (c.hosts.getD pMember 0) st.roIndex (2 * c.ilLen + 3) st.roIndex
        (c.hosts.getD st.roIndex 0) true with
    | none => rfl
    | some r =>
      have hr := pickLoopSrc_lt c st.used _ st.roIndex hpos _ _ _ _ r hro hp
      simp only []
      have := ih (n + 1) { used := st.used.set r true, roIndex := (r + 1) % c.ilLen, total := st.total + 1 }
        (acc ++ [(r, pIdx)]) ⟨by simp [hl], Nat.mod_lt _ hpos⟩
      rw [this]
      have e : n + 1 + k = n + (k + 1) := by omega
      rw [e]

/-- what `addChildren` does to the bookkeeping: `k` more nodes, the invariant kept -/
theorem addChildren_inv (c : BigCfg) (pIdx pMember : Nat) (hpos : 0 < c.ilLen) :
    ∀ (k : Nat) (st : BigSt) (acc : Level) (st' : BigSt) (acc' : Level), SrcInv c st →
      addChildren c pIdx pMember k st acc = some (st', acc') → SrcInv c st' ∧ st'.total = st.total + k := by
  intro k
  induction k with
  | zero => intro st acc st' acc' hinv h; simp only [addChildren, Option.some.injEq, Prod.mk.injEq] at h; obtain ⟨rfl, _⟩ := h; exact ⟨hinv, rfl⟩
  | succ k ih =>
    intro st acc st' acc' hinv h
    obtain ⟨hl, hro⟩ := hinv
    simp only [addChildren] at h
    rw [bigdec_pick_eq c st _ hl hro] at h
    cases hp : pickLoopSrc c st.used (c.hosts.getD pMember 0) st.roIndex (2 * c.ilLen + 3) st.roIndex
        (c.hosts.getD st.roIndex 0) true with
    | none => rw [hp] at h; simp at h
    | some r =>
      rw [hp] at h
      simp only [] at h
      obtain ⟨i1, i2⟩ := ih _ _ st' acc' ⟨by simp [hl], Nat.mod_lt _ hpos⟩ h
      exact ⟨i1, by simp only [] at i2; omega⟩

/-- `for i, parent := range levelNodes { children := …; for n := 0; n < children; n++ { … } }` -/
def addLevelSrc (c : BigCfg) (L : Nat) : (parents : Level) → (i : Nat) → BigSt → Level → Option (BigSt × Level)
  | [], _, st, acc => some (st, acc)
  | (m, _) :: rest, i, st, acc =>
    match childCountSrc c L i st.total with
    | none => none
    | some ch =>
      match addChildrenSrc c i m ch ch 0 st acc with
      | none => none
      | some (st', acc') => addLevelSrc c L rest (i + 1) st' acc'

theorem addLevel_eq_src (c : BigCfg) (L : Nat) (hpos : 0 < c.ilLen) :
    ∀ (parents : Level) (i : Nat) (st : BigSt) (acc : Level), SrcInv c st → st.total ≤ c.nodes → i + parents.length ≤ L →
      addLevel c L parents i st acc = addLevelSrc c L parents i st acc ∧
      ∀ st' acc', addLevel c L parents i st acc = some (st', acc') → SrcInv c st' ∧ st'.total ≤ c.nodes ∧ st.total ≤ st'.total := by
  intro parents
  induction parents with
  | nil =>
    intro i st acc hinv ht _
    refine ⟨rfl, ?_⟩
    intro st' acc' h
    simp only [addLevel, Option.some.injEq, Prod.mk.injEq] at h
    obtain ⟨rfl, _⟩ := h
    exact ⟨hinv, ht, Nat.le_refl _⟩
  | cons p rest ih =>
    intro i st acc hinv ht hi
    obtain ⟨m, q⟩ := p
    simp only [List.length_cons] at hi
    have hL : 0 < L := by omega
    have hcc := childCountSrc_eq c L i st.total hL ht
    have hbound : childCount c L i st.total ≤ c.nodes - st.total := by
      simp only [childCount]
      apply Nat.le_trans (Nat.min_le_right _ _)
      apply Nat.div_le_of_le_mul
      rw [Nat.mul_comm L]
      exact Nat.mul_le_mul_left _ (by omega)
    have hsrc := addChildren_eq_src c i m hpos (childCount c L i st.total) 0 st acc hinv
    simp only [Nat.zero_add] at hsrc
    simp only [addLevel, addLevelSrc, hcc, ← hsrc]
    cases hac : addChildren c i m (childCount c L i st.total) st acc with
    | none => exact ⟨rfl, fun _ _ h => by simp at h⟩
    | some res =>
      obtain ⟨st1, acc1⟩ := res
      obtain ⟨inv1, tot1⟩ := addChildren_inv c i m hpos _ st acc st1 acc1 hinv hac
      obtain ⟨e, post⟩ := ih (i + 1) st1 acc1 inv1 (by omega) (by omega)
      simp only []
      refine ⟨e, ?_⟩
      intro st' acc' h
      obtain ⟨a, b, d⟩ := post st' acc' h
      exact ⟨a, b, by omega⟩

/-- `for totalNodes < nodes { … }` with the extracted loop test -/
def bigLoopSrc (c : BigCfg) : (fuel : Nat) → (levels : List Level) → (cur : Level) → BigSt → Outcome (List Level)
  | 0, levels, _, st => if Gen.C12Big.levelCond st.total c.nodes then .hang else .tree levels
  | fuel + 1, levels, cur, st =>
    if Gen.C12Big.levelCond st.total c.nodes then
      match addLevelSrc c cur.length cur 0 st [] with
      | none => .hang
      | some (st', nl) => bigLoopSrc c fuel (levels ++ [nl]) nl st'
    else .tree levels

theorem bigLoop_eq_src (c : BigCfg) (hpos : 0 < c.ilLen) :
    ∀ (fuel : Nat) (levels : List Level) (cur : Level) (st : BigSt), SrcInv c st → st.total ≤ c.nodes →
      bigLoop c fuel levels cur st = bigLoopSrc c fuel levels cur st := by
  intro fuel
  induction fuel with
  | zero =>
    intro levels cur st _ _
    simp only [bigLoop, bigLoopSrc, bigdec_levelCond, decide_eq_true_eq]
  | succ fuel ih =>
    intro levels cur st hinv ht
    simp only [bigLoop, bigLoopSrc, bigdec_levelCond, decide_eq_true_eq]
    split
    · obtain ⟨e, post⟩ := addLevel_eq_src c cur.length hpos cur 0 st [] hinv ht (by omega)
      rw [← e]
      cases hal : addLevel c cur.length cur 0 st [] with
      | none => rfl
      | some res =>
        obtain ⟨st', nl⟩ := res
        obtain ⟨a, b, _⟩ := post st' nl hal
        exact ih _ _ _ a b
    · rfl

/-- `GenerateBigNaryTree(N, nodes)` written with the source's decisions: the panic on an empty roster, `useAll` (inside the
pick loop), `roIndex := 1 % ilLen`, the level loop, the child count, the child loop, the pick loop -/
def genBigSrc (c : BigCfg) : Outcome (List Level) :=
  if c.ilLen = 0 then .panic else
  bigLoopSrc c c.nodes [[(0, 0)]] [(0, 0)]
    { used := (List.replicate c.ilLen false).set 0 true,
      roIndex := ((Gen.C12Big.roIndex0 c.ilLen).getD 0).toNat, total := 1 }

theorem genBig_eq_src (c : BigCfg) (hnodes : 1 ≤ c.nodes) : genBig c = genBigSrc c := by
  unfold genBig genBigSrc
  by_cases h0 : c.ilLen = 0
  · simp [h0]
  · have hpos : 0 < c.ilLen := by omega
    simp only [h0, if_false, bigdec_roIndex0 _ hpos, Option.getD_some, Int.toNat_natCast]
    exact bigLoop_eq_src c hpos _ _ _ _ ⟨by simp, Nat.mod_lt _ hpos⟩ hnodes

end C12
