import OnetVerif.Model.C01
import OnetVerif.Gen.C01
/-! Property C01 — the guards of `TreeNodeInstance.SendTo` regenerated from the Go source (`Gen/C01.lean`, written by
`harness/cmd/go2lean` on every check run from `treenode.go`, `"extract"`): `if to == nil` and `if n.closing` (read
under the queue mutex).  The model of the failing calls (`Model/C01Send.lean`, `Fault.fails`) lets a call fail when
the instance is closing or when the position is a bad one (a nil node, a send the overlay cannot make); this file
proves that for the faults the harness drives (op `sendx`) a call fails exactly when one of the two translated guards
fires.  The functions themselves (`Multicast`, `Broadcast`, …) are outside the translator's subset (REQUESTS.md).
Nothing imports this file. -/
namespace C01
namespace Send

/-- the two guards as read from the source -/
theorem c01_gen_sendto_guards_read (to : Option Nat) (closing : Bool) :
    Gen.C01.SendTo_nilNode to = to.isNone ∧ Gen.C01.SendTo_closing closing = closing := by
  constructor
  · cases to <;> simp [Gen.C01.SendTo_nilNode]
  · simp [Gen.C01.SendTo_closing]

/-- **a call of the model fails iff a translated guard of `SendTo` fires**: the call at position `k` of an operation,
handed the node `to` (nil or not) by an instance that is closing or not -/
theorem c01_gen_sendto_guards (closing : Bool) (to : Option Nat) (k : Nat) :
    (Gen.C01.SendTo_nilNode to || Gen.C01.SendTo_closing closing) =
      Fault.fails ⟨closing, if to.isNone then [k] else []⟩ k := by
  cases closing <;> cases to <;> simp [Gen.C01.SendTo_nilNode, Gen.C01.SendTo_closing, Fault.fails]

/-- … and then nothing is sent by that call: the outcome of a one-destination operation (`SendTo`) -/
theorem c01_gen_sendto_outcome (closing : Bool) (to : Option Nat) (j : Nat) :
    outcome .seq ⟨closing, if to.isNone then [0] else []⟩ [j] =
      if (Gen.C01.SendTo_nilNode to || Gen.C01.SendTo_closing closing) then ([], 1) else ([j], 0) := by
  cases closing <;> cases to <;>
    simp [Gen.C01.SendTo_nilNode, Gen.C01.SendTo_closing, outcome, Fault.fails, List.zipIdx_cons, List.takeWhile_cons]

end Send
end C01
