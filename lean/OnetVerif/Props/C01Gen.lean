import OnetVerif.Model.C01
import OnetVerif.Gen.C01
import OnetVerif.Gen.C01Send
/-! Property C01 — the guards of `TreeNodeInstance.SendTo` regenerated from the Go source (`Gen/C01.lean`, written by
`harness/cmd/go2lean` on every check run from `treenode.go`, `"extract"`): `if to == nil` and `if n.closing` (read
under the queue mutex).  The model of the failing calls (`Model/C01Send.lean`, `Fault.fails`) lets a call fail when
the instance is closing or when the position is a bad one (a nil node, a send the overlay cannot make); this file
proves that for the faults the harness drives (op `sendx`) a call fails exactly when one of the two translated guards
fires.  The functions themselves (`Multicast`, `Broadcast`, …) are outside the translator's subset (REQUESTS.md).
Nothing imports this file. -/
namespace C01
namespace Send

/-- the two guards as read from the source -/
theorem c01_gen_sendto_guards_read (to : Option Nat) (closing : Bool) :
    Gen.C01.SendTo_nilNode to = to.isNone ∧ Gen.C01.SendTo_closing closing = closing := by
  constructor
  · cases to <;> simp [Gen.C01.SendTo_nilNode]
  · simp [Gen.C01.SendTo_closing]

/-- **a call of the model fails iff a translated guard of `SendTo` fires**: the call at position `k` of an operation,
handed the node `to` (nil or not) by an instance that is closing or not -/
theorem c01_gen_sendto_guards (closing : Bool) (to : Option Nat) (k : Nat) :
    (Gen.C01.SendTo_nilNode to || Gen.C01.SendTo_closing closing) =
      Fault.fails ⟨closing, if to.isNone then [k] else []⟩ k := by
  cases closing <;> cases to <;> simp [Gen.C01.SendTo_nilNode, Gen.C01.SendTo_closing, Fault.fails]

/-- … and then nothing is sent by that call: the outcome of a one-destination operation (`SendTo`) -/
theorem c01_gen_sendto_outcome (closing : Bool) (to : Option Nat) (j : Nat) :
    outcome .seq ⟨closing, if to.isNone then [0] else []⟩ [j] =
      if (Gen.C01.SendTo_nilNode to || Gen.C01.SendTo_closing closing) then ([], 1) else ([j], 0) := by
  cases closing <;> cases to <;>
    simp [Gen.C01.SendTo_nilNode, Gen.C01.SendTo_closing, outcome, Fault.fails, List.zipIdx_cons, List.takeWhile_cons]

end Send
end C01

/-! ### the send operations themselves, translated (`Gen/C01Send.lean`): `Multicast`, `SendToChildren`, `SendToParent`
of `treenode.go` with `SendTo` as a callee that appends its destination to a trace (`sent`, every call whether it
fails or not) and answers `fails node`; errors are `true` values. -/
namespace C01
namespace Send

/-- the state of `Multicast`'s loop after the nodes `l`: one `true` per failing call, the trace grown by `l` -/
theorem multicast_fold (fails : Nat → Bool) (l : List Nat) (errs : List Bool) (sent : List Nat) :
    l.foldl (fun (st : List Bool × List Nat) node =>
        ((if fails node then st.1 ++ [true] else st.1), st.2 ++ [node])) (errs, sent) =
      (errs ++ (l.filter fails).map (fun _ => true), sent ++ l) := by
  induction l generalizing errs sent with
  | nil => simp
  | cons a l ih =>
    simp only [List.foldl_cons]
    rw [ih]
    cases h : fails a <;> simp [List.filter_cons, h]

/-- **`Multicast` calls `SendTo` once for every node handed in, in order, and nothing else; it returns one error per
failing call** — the translated function, for every list of nodes and every failure pattern -/
theorem c01_gen_multicast (nodes : List Nat) (fails : Nat → Bool) (sent : List Nat) :
    Gen.C01Send.Multicast () () nodes fails sent = ((nodes.filter fails).map (fun _ => true), sent ++ nodes) := by
  unfold Gen.C01Send.Multicast
  have h := Gen.Rt.loop_next (ρ := List Bool × List Nat)
    (fun (st : List Bool × List Nat) node => ((if fails node then st.1 ++ [true] else st.1), st.2 ++ [node]))
    (fun (x : List Bool × List Nat) (node : Nat) =>
      match x with
      | (errs, sent) =>
        let (t1, sent) := (fails node, sent ++ [node])
        let err : Bool := t1
        let errs := (if err then (let errs : List Bool := (errs ++ [(true)]); errs) else errs)
        Gen.Rt.Step.next (errs, sent))
    nodes ([], sent) (by intro s x _; rfl)
  simp only at h ⊢
  rw [h, multicast_fold]
  simp

/-- … which is the model's outcome for the collecting operations when the failing positions are the positions of
the failing nodes: the nodes that get the message are the non-failing ones of the trace, the errors are counted -/
theorem c01_gen_multicast_outcome (nodes : List Nat) (fails : Nat → Bool) (f : Fault)
    (hf : ∀ k j, nodes[k]? = some j → f.fails k = fails j) :
    (outcome .all f nodes).1 = (Gen.C01Send.Multicast () () nodes fails []).2.filter (fun j => !fails j) ∧
    (outcome .all f nodes).2 = (Gen.C01Send.Multicast () () nodes fails []).1.length := by
  rw [c01_gen_multicast]
  have key : ∀ (l : List Nat) (n : Nat), (∀ k j, l[k]? = some j → f.fails (n + k) = fails j) →
      ((l.zipIdx n).filter (fun p => !f.fails p.2)).map (·.1) = l.filter (fun j => !fails j) ∧
      ((l.zipIdx n).filter (fun p => f.fails p.2)).length = (l.filter fails).length := by
    intro l
    induction l with
    | nil => intro n _; simp
    | cons a l ih =>
      intro n h
      have h0 : f.fails n = fails a := by simpa using h 0 a (by simp)
      have hr := ih (n + 1) (fun k j hk => by
        have := h (k + 1) j (by simpa using hk)
        rwa [show n + (k + 1) = n + 1 + k by omega] at this)
      simp only [List.zipIdx_cons, List.filter_cons, h0]
      cases hfa : fails a <;> simp [hfa, hr.1, hr.2]
  have := key nodes 0 (by simpa using hf)
  simp only [outcome, okCalls, badCalls, List.nil_append, List.length_map]
  exact ⟨this.1, this.2⟩

/-- **`SendToChildren` stops at the first failing child**: a leaf calls nothing; otherwise the calls are the children
up to and including the first failing one, and the error is reported iff there is one -/
theorem c01_gen_send_to_children (isLeaf : Bool) (children : List Nat) (fails : Nat → Bool) (sent : List Nat) :
    Gen.C01Send.SendToChildren () () isLeaf children fails sent =
      if isLeaf then (false, sent)
      else (children.any fails,
            sent ++ children.takeWhile (fun j => !fails j) ++ ((children.dropWhile (fun j => !fails j)).take 1)) := by
  unfold Gen.C01Send.SendToChildren
  cases isLeaf
  · simp only [Bool.false_eq_true, if_false]
    induction children generalizing sent with
    | nil => simp [Gen.Rt.loop]
    | cons a l ih =>
      cases h : fails a
      · simp only [Gen.Rt.loop, h, Bool.false_eq_true, if_false]
        rw [ih (sent ++ [a])]
        simp [List.any_cons, h, List.takeWhile_cons, List.dropWhile_cons]
      · simp [Gen.Rt.loop, h, List.any_cons, List.takeWhile_cons, List.dropWhile_cons]
  · simp

/-- `SendToParent`: the root calls nothing; every other node calls `SendTo(parent)` once -/
theorem c01_gen_send_to_parent (isRoot : Bool) (parent : Nat) (fails : Nat → Bool) (sent : List Nat) :
    Gen.C01Send.SendToParent () () isRoot parent fails sent =
      if isRoot then (false, sent) else (fails parent, sent ++ [parent]) := by
  unfold Gen.C01Send.SendToParent
  cases isRoot <;> cases h : fails parent <;> simp [h]

end Send
end C01

namespace C01
namespace Send

theorem broadcast_fold (self : Nat) (fails : Nat → Bool) (l : List Nat) (errs : List Bool) (sent : List Nat) :
    l.foldl (fun (st : List Bool × List Nat) node =>
        if !(node == self) then ((if fails node then st.1 ++ [true] else st.1), st.2 ++ [node]) else st) (errs, sent) =
      (errs ++ ((l.filter (fun j => j != self)).filter fails).map (fun _ => true),
       sent ++ l.filter (fun j => j != self)) := by
  induction l generalizing errs sent with
  | nil => simp
  | cons a l ih =>
    simp only [List.foldl_cons]
    by_cases ha : a = self
    · have h1 : (a == self) = true := by simp [ha]
      have h2 : (a != self) = false := by simp [ha]
      simp only [h1, Bool.not_true, Bool.false_eq_true, if_false]
      rw [ih]
      simp [List.filter_cons, h2]
    · have h1 : (a == self) = false := by simp [ha]
      have h2 : (a != self) = true := by simp [ha]
      simp only [h1, Bool.not_false, if_true]
      rw [ih]
      cases h : fails a <;> simp [List.filter_cons, h, h2]

/-- **`Broadcast` calls `SendTo` once for every node of the tree but the sender's own, in the order of `List()`, and
returns one error per failing call** (translated function; `nodes` is `n.List()`, `self` is `n.TreeNode()`) -/
theorem c01_gen_broadcast (nodes : List Nat) (self : Nat) (fails : Nat → Bool) (sent : List Nat) :
    Gen.C01Send.Broadcast () () nodes self fails sent =
      (((nodes.filter (fun j => j != self)).filter fails).map (fun _ => true),
       sent ++ nodes.filter (fun j => j != self)) := by
  unfold Gen.C01Send.Broadcast
  have h := Gen.Rt.loop_next (ρ := List Bool × List Nat)
    (fun (st : List Bool × List Nat) node =>
      if !(node == self) then ((if fails node then st.1 ++ [true] else st.1), st.2 ++ [node]) else st)
    (fun (x : List Bool × List Nat) (node : Nat) =>
      match x with
      | (errs, sent) =>
        let (errs, sent) := (
          if (!((node == (self)))) then (
            let (t1, sent) := (fails node, sent ++ [node])
            let err : Bool := t1
            let errs := (if err then (let errs : List Bool := (errs ++ [(true)]); errs) else errs)
            (errs, sent)
          ) else (errs, sent))
        Gen.Rt.Step.next (errs, sent))
    nodes ([], sent) (by
      intro s x _
      obtain ⟨e, t⟩ := s
      by_cases hx : x = self
      · subst hx; simp
      · have : (x == self) = false := by simp [hx]
        simp [this])
  simp only at h ⊢
  rw [h, broadcast_fold]
  simp

/-- … on a tree of the model: the calls of a broadcast of node `me` are exactly `dests t me .bcast` -/
theorem c01_gen_broadcast_dests (t : Tree) (me : Nat) (fails : Nat → Bool) :
    (Gen.C01Send.Broadcast () () (List.range t.n) me fails []).2 = dests t me .bcast := by
  rw [c01_gen_broadcast]; simp [dests]

end Send
end C01
