import OnetVerif.Model.C02
import OnetVerif.Gen.C02
/-! Property C02 — the definition regenerated from the Go source (`Gen/C02.lean`, written by `harness/cmd/go2lean` on
every check run from `network/struct.go`): `ServerIdentity.Equal`, the comparison `createValueAndVerify` applies to
the identity of the claimed sender's tree node and the identity the transport attached to the message.  A
`*ServerIdentity` is read as an option (the pointer may be nil) of the struct reduced to its field `Public`, a
`kyber.Point` read as an option of the key (`Point.Equal` ↦ equality, configured callee).  The model (`Model/C02.lean`)
identifies a server with its key and tests `n.server = p` in `verify`; the theorems say that this *is* `Equal` on
identities that carry a key, that `Equal` answers `false` as soon as an identity or a key is missing, and that it
never panics.  Nothing imports this file. -/
namespace C02

/-- the identity of the server with key `k` as the translated code sees it -/
def identOf (k : Nat) : Option Gen.C02.ServerIdentity := some { Public := some k }

/-- **`ServerIdentity.Equal` never panics** (every field is read behind its nil test) -/
theorem c02_gen_Equal_total (a b : Option Gen.C02.ServerIdentity) : ∃ r, Gen.C02.ServerIdentity_Equal a b = some r := by
  unfold Gen.C02.ServerIdentity_Equal
  cases a with
  | none => exact ⟨_, rfl⟩
  | some x =>
    cases b with
    | none => exact ⟨_, rfl⟩
    | some y =>
      obtain ⟨px⟩ := x
      obtain ⟨py⟩ := y
      cases px <;> cases py <;> exact ⟨_, rfl⟩

/-- **only the key is compared**: on two identities that carry a key, `Equal` is equality of the keys -/
theorem c02_gen_Equal_keys (j k : Nat) : Gen.C02.ServerIdentity_Equal (identOf j) (identOf k) = some (j == k) := by
  simp [Gen.C02.ServerIdentity_Equal, identOf]

/-- a missing identity or a missing key never equals anything -/
theorem c02_gen_Equal_nil (a b : Option Gen.C02.ServerIdentity)
    (h : a = none ∨ b = none ∨ a = some { Public := none } ∨ b = some { Public := none }) :
    Gen.C02.ServerIdentity_Equal a b = some false := by
  unfold Gen.C02.ServerIdentity_Equal
  rcases h with h | h | h | h
  · subst h; rfl
  · subst h; cases a <;> rfl
  · subst h; cases b <;> rfl
  · subst h
    cases a with
    | none => rfl
    | some x => obtain ⟨px⟩ := x; cases px <;> rfl

/-- **the sender check of the model is the translated comparison**: `verify` accepts a message whose transport named
the peer `p`, claimed by the node `n`, exactly when `Equal` of the node's identity and the peer's identity is true -/
theorem c02_gen_verify_uses_Equal (nodes : List Node) (m : Msg) (p : Nat) (hp : m.peer = some p) :
    verify nodes m = (search nodes m.sender).bind fun n =>
      if Gen.C02.ServerIdentity_Equal (identOf n.server) (identOf p) = some true then some n else none := by
  unfold verify
  cases search nodes m.sender with
  | none => rfl
  | some n =>
    simp only [hp, Option.bind_some, c02_gen_Equal_keys]
    by_cases h : n.server = p <;> simp [h]

/-! ### the two decisions of `createValueAndVerify` (extracted, form `rich`): `tn == nil` and
`msg.ServerIdentity != nil && tn != nil && !tn.ServerIdentity.Equal(msg.ServerIdentity)` -/

/-- a node of the model as the translated code sees the result of `Tree.Search` -/
def nodeOf (n : Node) : Gen.C02.TreeNode := { ServerIdentity := identOf n.server }

/-- the message of the model as the translated code sees it: only the identity the transport attached -/
def pmsgOf (m : Msg) : Gen.C02.ProtocolMsg := { ServerIdentity := m.peer.bind identOf }

/-- the first guard fires exactly when `Tree.Search` found nothing -/
theorem c02_gen_unknownSender (tn : Option Gen.C02.TreeNode) :
    Gen.C02.createValueAndVerify_unknownSender tn = tn.isNone := by
  cases tn <;> rfl

/-- **the comparison never panics**: `tn.ServerIdentity` is read behind `tn != nil`, the message's identity behind
its own nil test, and `Equal` is total — whatever node and whatever identity (also none, also keyless) -/
theorem c02_gen_wrongPeer_total (tn : Option Gen.C02.TreeNode) (m : Gen.C02.ProtocolMsg) :
    ∃ r, Gen.C02.createValueAndVerify_wrongPeer tn (some m) = some r := by
  unfold Gen.C02.createValueAndVerify_wrongPeer
  obtain ⟨mi⟩ := m
  cases tn with
  | none => cases mi <;> exact ⟨_, rfl⟩
  | some n =>
    obtain ⟨ni⟩ := n
    cases mi with
    | none => exact ⟨_, rfl⟩
    | some x =>
      obtain ⟨r, hr⟩ := c02_gen_Equal_total ni (some x)
      simp only [Option.isNone_some, Bool.not_false, Bool.and_self, if_true, hr]
      cases r <;> exact ⟨_, rfl⟩

/-- on the model's nodes and messages: the second guard fires exactly when the transport named a peer and the
claimed node is hosted by another server -/
theorem c02_gen_wrongPeer_model (n : Node) (m : Msg) :
    Gen.C02.createValueAndVerify_wrongPeer (some (nodeOf n)) (some (pmsgOf m)) =
      some (match m.peer with | none => false | some p => !(n.server == p)) := by
  unfold Gen.C02.createValueAndVerify_wrongPeer
  cases hp : m.peer with
  | none => simp [pmsgOf, hp]
  | some p =>
    simp only [pmsgOf, hp, Option.bind_some, nodeOf]
    simp [identOf, Gen.C02.ServerIdentity_Equal]
    by_cases h : n.server = p <;> simp [h]

/-- **`verify` of the model is exactly the two translated guards**, in the order of the source: refuse when
`Search` found nothing, refuse when the second guard fires, else the node found -/
theorem c02_gen_verify_is_the_guards (nodes : List Node) (m : Msg) :
    verify nodes m =
      if Gen.C02.createValueAndVerify_unknownSender ((search nodes m.sender).map nodeOf) then none
      else (search nodes m.sender).bind fun n =>
        if Gen.C02.createValueAndVerify_wrongPeer (some (nodeOf n)) (some (pmsgOf m)) = some true then none else some n := by
  unfold verify
  cases hs : search nodes m.sender with
  | none => simp [c02_gen_unknownSender]
  | some n =>
    simp only [c02_gen_unknownSender, Option.map_some, Option.isNone_some, Option.bind_some, c02_gen_wrongPeer_model]
    cases hp : m.peer with
    | none => simp
    | some p => by_cases h : n.server = p <;> simp [h]
end C02
