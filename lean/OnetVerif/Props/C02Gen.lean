import OnetVerif.Model.C02
import OnetVerif.Gen.C02
/-! Property C02 — the definition regenerated from the Go source (`Gen/C02.lean`, written by `harness/cmd/go2lean` on
every check run from `network/struct.go`): `ServerIdentity.Equal`, the comparison `createValueAndVerify` applies to
the identity of the claimed sender's tree node and the identity the transport attached to the message.  A
`*ServerIdentity` is read as an option (the pointer may be nil) of the struct reduced to its field `Public`, a
`kyber.Point` read as an option of the key (`Point.Equal` ↦ equality, configured callee).  The model (`Model/C02.lean`)
identifies a server with its key and tests `n.server = p` in `verify`; the theorems say that this *is* `Equal` on
identities that carry a key, that `Equal` answers `false` as soon as an identity or a key is missing, and that it
never panics.  Nothing imports this file. -/
namespace C02

/-- the identity of the server with key `k` as the translated code sees it -/
def identOf (k : Nat) : Option Gen.C02.ServerIdentity := some { Public := some k }

/-- **`ServerIdentity.Equal` never panics** (every field is read behind its nil test) -/
theorem c02_gen_Equal_total (a b : Option Gen.C02.ServerIdentity) : ∃ r, Gen.C02.ServerIdentity_Equal a b = some r := by
  unfold Gen.C02.ServerIdentity_Equal
  cases a with
  | none => exact ⟨_, rfl⟩
  | some x =>
    cases b with
    | none => exact ⟨_, rfl⟩
    | some y =>
      obtain ⟨px⟩ := x
      obtain ⟨py⟩ := y
      cases px <;> cases py <;> exact ⟨_, rfl⟩

/-- **only the key is compared**: on two identities that carry a key, `Equal` is equality of the keys -/
theorem c02_gen_Equal_keys (j k : Nat) : Gen.C02.ServerIdentity_Equal (identOf j) (identOf k) = some (j == k) := by
  simp [Gen.C02.ServerIdentity_Equal, identOf]

/-- a missing identity or a missing key never equals anything -/
theorem c02_gen_Equal_nil (a b : Option Gen.C02.ServerIdentity)
    (h : a = none ∨ b = none ∨ a = some { Public := none } ∨ b = some { Public := none }) :
    Gen.C02.ServerIdentity_Equal a b = some false := by
  unfold Gen.C02.ServerIdentity_Equal
  rcases h with h | h | h | h
  · subst h; rfl
  · subst h; cases a <;> rfl
  · subst h; cases b <;> rfl
  · subst h
    cases a with
    | none => rfl
    | some x => obtain ⟨px⟩ := x; cases px <;> rfl

/-- **the sender check of the model is the translated comparison**: `verify` accepts a message whose transport named
the peer `p`, claimed by the node `n`, exactly when `Equal` of the node's identity and the peer's identity is true -/
theorem c02_gen_verify_uses_Equal (nodes : List Node) (m : Msg) (p : Nat) (hp : m.peer = some p) :
    verify nodes m = (search nodes m.sender).bind fun n =>
      if Gen.C02.ServerIdentity_Equal (identOf n.server) (identOf p) = some true then some n else none := by
  unfold verify
  cases search nodes m.sender with
  | none => rfl
  | some n =>
    simp only [hp, Option.bind_some, c02_gen_Equal_keys]
    by_cases h : n.server = p <;> simp [h]
end C02
