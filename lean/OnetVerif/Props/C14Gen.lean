import OnetVerif.Model.C14
import OnetVerif.Gen.C14
/-! Property C14 — the decisions regenerated from the Go source (`Gen/C14.lean`, written by `harness/cmd/go2lean` on every
check run from `websocket_client.go` and `processor.go`).  `ParallelOptions.Quit` is translated as a whole.
`ParallelOptions.GetList` (a channel, `rand.Perm`), `SendProtobufParallelWithDecoder` (goroutines), `RegisterRESTHandler`
(reflection, a closure), `callInterfaceFunc` (reflection) and `ProcessClientRequest` cannot be translated as functions;
their **decisions** are lifted out (`"extract"` in `meta/go2lean.json`) and the theorems below say that the model
takes exactly these decisions.  Nothing imports this file. -/
namespace C14

/-- the model's options as the generated structure (`IgnoreNodes` is left out by the translator) -/
def ParOpts.toGen (o : ParOpts) : Gen.C14.ParOpts :=
  { Parallel := o.parallel, AskNodes := o.askNodes, StartNode := o.startNode, QuitError := o.quitError,
    DontShuffle := o.dontShuffle }

/-- **`Quit` as translated is the model's `quit`**, for every options value, nil included; it never panics -/
theorem c14_gen_quit_eq (po : Option ParOpts) :
    Gen.C14.ParallelOptions_Quit (po.map ParOpts.toGen) = some (ParOpts.quit po) := by
  cases po <;> rfl

/-- the conditions as read from the source -/
theorem c14_gen_conditions (nodes : List Nat) (a p n v mn mx : Int) (b : Bool) :
    Gen.C14.GetList_askNodes0 nodes = (nodes.length : Int) ∧
    Gen.C14.GetList_fewerAsked a p = decide (a < p) ∧
    Gen.C14.Parallel_nobody n = (n == 0) ∧
    Gen.C14.RegisterREST_minAboveMax mn mx = decide (mn > mx) ∧
    Gen.C14.RegisterREST_tooEarly mn = decide (mn < 3) ∧
    Gen.C14.RegisterREST_nextVersion v mx = decide (v ≤ mx) ∧
    Gen.C14.callInterfaceFunc_streaming b = b ∧
    Gen.C14.ProcessClientRequest_unregistered b = !b := ⟨rfl, rfl, rfl, rfl, rfl, rfl, rfl, rfl⟩

/-- **the numbers of `GetList` are computed with the translated decisions**: the default number of nodes asked is the
translated `len(nodes)`, and the final cut `parallel = askNodes` happens exactly when the translated test
`askNodes < parallel` says so (a test `<=` or the cut in the other direction breaks this) -/
theorem c14_gen_getlist_numbers (nodes : List Nat) (o : ParOpts) :
    getListParams nodes.length (some o) =
      (let len := Gen.C14.GetList_askNodes0 nodes
       let parallel0 : Int := (len + 1) / 2
       let parallel := if o.parallel > 0 ∧ o.parallel < parallel0 then o.parallel else parallel0
       let startNode := if o.startNode > 0 ∧ o.startNode < len then o.startNode else 0
       let askNodes := if o.askNodes > 0 ∧ o.askNodes < len then o.askNodes else len - startNode
       (⟨if Gen.C14.GetList_fewerAsked askNodes parallel then askNodes else parallel, askNodes, startNode⟩ : ListParams)) ∧
    getListParams nodes.length none =
      (⟨(Gen.C14.GetList_askNodes0 nodes + 1) / 2, Gen.C14.GetList_askNodes0 nodes, 0⟩ : ListParams) := by
  simp [getListParams, Gen.C14.GetList_askNodes0, Gen.C14.GetList_fewerAsked, Gen.Rt.len]

/-- **nobody to ask**: the model ends the call with an error exactly when the translated test `nodesNbr == 0` on the
number of nodes in the channel says so -/
theorem c14_gen_nobody (asked : List Nat) :
    nobodyToAsk true asked = if Gen.C14.Parallel_nobody (asked.length : Int) then some .error else none := by
  unfold nobodyToAsk Gen.C14.Parallel_nobody
  by_cases h : asked.length = 0
  · simp [h]
  · have : ¬ ((asked.length : Int) = 0) := by omega
    simp

/-- a method name as the translator reads Go strings: the list of its character codes (for the names the code compares
with — GET, POST, PUT — these are its bytes; any injective reading that agrees on the three literals gives the same
decisions) -/
def codesOf (s : String) : List Nat := s.toList.map Char.toNat

theorem codesOf_inj {a b : String} : codesOf a = codesOf b ↔ a = b := by
  constructor
  · intro h
    apply String.toList_injective
    exact (List.map_inj_right (f := Char.toNat) (by intro x y hxy; exact Char.toNat_inj.mp hxy)).mp h
  · intro h; rw [h]

/-- **the checks of `RegisterRESTHandler` are the translated ones, in the order of the source**: for every function
signature, every method name and every version range the model's `registerRESTCheck` refuses the method exactly when
the translated test `method != "GET" && method != "POST" && method != "PUT"` does, then the range when `minVersion >
maxVersion`, then `minVersion < 3`, and prepares a GET handler exactly when the translated `method == "GET"` holds
(`minVersion <= 3`, a method test that lets DELETE through, or the GET preparation for POST break this) -/
theorem c14_gen_registerREST_eq (g : Sig) (method : String) (minV maxV : Nat) :
    registerRESTCheck g method minV maxV =
      if Gen.C14.RegisterREST_badMethod (codesOf method) then .error .method
      else if Gen.C14.RegisterREST_minAboveMax minV maxV then .error .minMax
      else if Gen.C14.RegisterREST_tooEarly minV then .error .minVersion
      else match registerHandlerCheck g with
        | some e => .error e
        | none =>
          if Gen.C14.RegisterREST_isGET (codesOf method) then
            match prepareHandlerGET g with
            | .ok k => .ok (some k)
            | .error e => .error e
          else .ok none := by
  have hG : (codesOf method = [71, 69, 84]) ↔ method = "GET" := by
    rw [show ([71, 69, 84] : List Nat) = codesOf "GET" by decide]; exact codesOf_inj
  have hP : (codesOf method = [80, 79, 83, 84]) ↔ method = "POST" := by
    rw [show ([80, 79, 83, 84] : List Nat) = codesOf "POST" by decide]; exact codesOf_inj
  have hU : (codesOf method = [80, 85, 84]) ↔ method = "PUT" := by
    rw [show ([80, 85, 84] : List Nat) = codesOf "PUT" by decide]; exact codesOf_inj
  have e1 : decide ((minV : Int) > (maxV : Int)) = decide (minV > maxV) := by
    by_cases h : minV > maxV
    · have : (minV : Int) > (maxV : Int) := by omega
      simp [h, this]
    · have : ¬ (minV : Int) > (maxV : Int) := by omega
      simp [h, this]
  have e2 : decide ((minV : Int) < 3) = decide (minV < 3) := by
    by_cases h : minV < 3
    · have : (minV : Int) < 3 := by omega
      simp [h, this]
    · have : ¬ (minV : Int) < 3 := by omega
      simp [h, this]
  have b1 : Gen.C14.RegisterREST_badMethod (codesOf method) = decide (method ≠ "GET" ∧ method ≠ "POST" ∧ method ≠ "PUT") := by
    unfold Gen.C14.RegisterREST_badMethod
    rw [Bool.eq_iff_iff]
    simp only [Bool.and_eq_true, bne_iff_ne, ne_eq, decide_eq_true_eq, hG, hP, hU]
    exact and_assoc
  have b2 : Gen.C14.RegisterREST_isGET (codesOf method) = decide (method = "GET") := by
    unfold Gen.C14.RegisterREST_isGET
    rw [Bool.eq_iff_iff]
    simp only [beq_iff_eq, decide_eq_true_eq, hG]
  rw [b1, b2]
  unfold registerRESTCheck Gen.C14.RegisterREST_minAboveMax Gen.C14.RegisterREST_tooEarly
  rw [e1, e2]
  simp only [decide_eq_true_eq]
  rfl

/-- non-vacuity: the four outcomes of the method and version tests on concrete registrations -/
example : registerRESTCheck {} "DELETE" 3 3 = .error .method ∧ registerRESTCheck {} "POST" 4 3 = .error .minMax ∧
    registerRESTCheck {} "PUT" 2 3 = .error .minVersion ∧ registerRESTCheck {} "POST" 3 5 = .ok none ∧
    registerRESTCheck { in0 := .ptrStruct .oneInt } "GET" 3 3 = .ok (some .int) :=
  ⟨by rfl, by rfl, by rfl, by rfl, by rfl⟩

end C14
