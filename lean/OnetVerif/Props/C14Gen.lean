import OnetVerif.Model.C14
import OnetVerif.Gen.C14
/-! Property C14 — the decisions regenerated from the Go source (`Gen/C14.lean`, written by `harness/cmd/go2lean` on every
check run from `websocket_client.go` and `processor.go`).  `ParallelOptions.Quit` is translated as a whole.
`ParallelOptions.GetList` (a channel, `rand.Perm`), `SendProtobufParallelWithDecoder` (goroutines), `RegisterRESTHandler`
(reflection, a closure), `callInterfaceFunc` (reflection) and `ProcessClientRequest` cannot be translated as functions;
their **decisions** are lifted out (`"extract"` in `meta/go2lean.json`) and the theorems below say that the model
takes exactly these decisions.  Nothing imports this file. -/
namespace C14

/-- the model's options as the generated structure (`IgnoreNodes` is left out by the translator) -/
def ParOpts.toGen (o : ParOpts) : Gen.C14.ParOpts :=
  { Parallel := o.parallel, AskNodes := o.askNodes, StartNode := o.startNode, QuitError := o.quitError,
    DontShuffle := o.dontShuffle }

/-- **`Quit` as translated is the model's `quit`**, for every options value, nil included; it never panics -/
theorem c14_gen_quit_eq (po : Option ParOpts) :
    Gen.C14.ParallelOptions_Quit (po.map ParOpts.toGen) = some (ParOpts.quit po) := by
  cases po <;> rfl

/-- the conditions as read from the source -/
theorem c14_gen_conditions (nodes : List Nat) (a p n v mn mx : Int) (b : Bool) :
    Gen.C14.GetList_askNodes0 nodes = (nodes.length : Int) ∧
    Gen.C14.GetList_fewerAsked a p = decide (a < p) ∧
    Gen.C14.Parallel_nobody n = (n == 0) ∧
    Gen.C14.RegisterREST_minAboveMax mn mx = decide (mn > mx) ∧
    Gen.C14.RegisterREST_tooEarly mn = decide (mn < 3) ∧
    Gen.C14.RegisterREST_nextVersion v mx = decide (v ≤ mx) ∧
    Gen.C14.callInterfaceFunc_streaming b = b ∧
    Gen.C14.ProcessClientRequest_unregistered b = !b := ⟨rfl, rfl, rfl, rfl, rfl, rfl, rfl, rfl⟩

/-- **the numbers of `GetList` are computed with the translated decisions**: the default number of nodes asked is the
translated `len(nodes)`, and the final cut `parallel = askNodes` happens exactly when the translated test
`askNodes < parallel` says so (a test `<=` or the cut in the other direction breaks this) -/
theorem c14_gen_getlist_numbers (nodes : List Nat) (o : ParOpts) :
    getListParams nodes.length (some o) =
      (let len := Gen.C14.GetList_askNodes0 nodes
       let parallel0 : Int := (len + 1) / 2
       let parallel := if o.parallel > 0 ∧ o.parallel < parallel0 then o.parallel else parallel0
       let startNode := if o.startNode > 0 ∧ o.startNode < len then o.startNode else 0
       let askNodes := if o.askNodes > 0 ∧ o.askNodes < len then o.askNodes else len - startNode
       (⟨if Gen.C14.GetList_fewerAsked askNodes parallel then askNodes else parallel, askNodes, startNode⟩ : ListParams)) ∧
    getListParams nodes.length none =
      (⟨(Gen.C14.GetList_askNodes0 nodes + 1) / 2, Gen.C14.GetList_askNodes0 nodes, 0⟩ : ListParams) := by
  simp [getListParams, Gen.C14.GetList_askNodes0, Gen.C14.GetList_fewerAsked, Gen.Rt.len]

/-- **nobody to ask**: the model ends the call with an error exactly when the translated test `nodesNbr == 0` on the
number of nodes in the channel says so -/
theorem c14_gen_nobody (asked : List Nat) :
    nobodyToAsk true asked = if Gen.C14.Parallel_nobody (asked.length : Int) then some .error else none := by
  unfold nobodyToAsk Gen.C14.Parallel_nobody
  by_cases h : asked.length = 0
  · simp [h]
  · have : ¬ ((asked.length : Int) = 0) := by omega
    simp

/-- a method name as the translator reads Go strings: the list of its character codes (for the names the code compares
with — GET, POST, PUT — these are its bytes; any injective reading that agrees on the three literals gives the same
decisions) -/
def codesOf (s : String) : List Nat := s.toList.map Char.toNat

theorem codesOf_inj {a b : String} : codesOf a = codesOf b ↔ a = b := by
  constructor
  · intro h
    apply String.toList_injective
    exact (List.map_inj_right (f := Char.toNat) (by intro x y hxy; exact Char.toNat_inj.mp hxy)).mp h
  · intro h; rw [h]

/-- **the checks of `RegisterRESTHandler` are the translated ones, in the order of the source**: for every function
signature, every method name and every version range the model's `registerRESTCheck` refuses the method exactly when
the translated test `method != "GET" && method != "POST" && method != "PUT"` does, then the range when `minVersion >
maxVersion`, then `minVersion < 3`, and prepares a GET handler exactly when the translated `method == "GET"` holds
(`minVersion <= 3`, a method test that lets DELETE through, or the GET preparation for POST break this) -/
theorem c14_gen_registerREST_eq (g : Sig) (method : String) (minV maxV : Nat) :
    registerRESTCheck g method minV maxV =
      if Gen.C14.RegisterREST_badMethod (codesOf method) then .error .method
      else if Gen.C14.RegisterREST_minAboveMax minV maxV then .error .minMax
      else if Gen.C14.RegisterREST_tooEarly minV then .error .minVersion
      else match registerHandlerCheck g with
        | some e => .error e
        | none =>
          if Gen.C14.RegisterREST_isGET (codesOf method) then
            match prepareHandlerGET g with
            | .ok k => .ok (some k)
            | .error e => .error e
          else .ok none := by
  have hG : (codesOf method = [71, 69, 84]) ↔ method = "GET" := by
    rw [show ([71, 69, 84] : List Nat) = codesOf "GET" by decide]; exact codesOf_inj
  have hP : (codesOf method = [80, 79, 83, 84]) ↔ method = "POST" := by
    rw [show ([80, 79, 83, 84] : List Nat) = codesOf "POST" by decide]; exact codesOf_inj
  have hU : (codesOf method = [80, 85, 84]) ↔ method = "PUT" := by
    rw [show ([80, 85, 84] : List Nat) = codesOf "PUT" by decide]; exact codesOf_inj
  have e1 : decide ((minV : Int) > (maxV : Int)) = decide (minV > maxV) := by
    by_cases h : minV > maxV
    · have : (minV : Int) > (maxV : Int) := by omega
      simp [h, this]
    · have : ¬ (minV : Int) > (maxV : Int) := by omega
      simp [h, this]
  have e2 : decide ((minV : Int) < 3) = decide (minV < 3) := by
    by_cases h : minV < 3
    · have : (minV : Int) < 3 := by omega
      simp [h, this]
    · have : ¬ (minV : Int) < 3 := by omega
      simp [h, this]
  have b1 : Gen.C14.RegisterREST_badMethod (codesOf method) = decide (method ≠ "GET" ∧ method ≠ "POST" ∧ method ≠ "PUT") := by
    unfold Gen.C14.RegisterREST_badMethod
    rw [Bool.eq_iff_iff]
    simp only [Bool.and_eq_true, bne_iff_ne, ne_eq, decide_eq_true_eq, hG, hP, hU]
    exact and_assoc
  have b2 : Gen.C14.RegisterREST_isGET (codesOf method) = decide (method = "GET") := by
    unfold Gen.C14.RegisterREST_isGET
    rw [Bool.eq_iff_iff]
    simp only [beq_iff_eq, decide_eq_true_eq, hG]
  rw [b1, b2]
  unfold registerRESTCheck Gen.C14.RegisterREST_minAboveMax Gen.C14.RegisterREST_tooEarly
  rw [e1, e2]
  simp only [decide_eq_true_eq]
  rfl

/-- non-vacuity: the four outcomes of the method and version tests on concrete registrations -/
example : registerRESTCheck {} "DELETE" 3 3 = .error .method ∧ registerRESTCheck {} "POST" 4 3 = .error .minMax ∧
    registerRESTCheck {} "PUT" 2 3 = .error .minVersion ∧ registerRESTCheck {} "POST" 3 5 = .ok none ∧
    registerRESTCheck { in0 := .ptrStruct .oneInt } "GET" 3 3 = .ok (some .int) :=
  ⟨by rfl, by rfl, by rfl, by rfl, by rfl⟩


theorem tdiv_two (a : Nat) : Int.tdiv ((a : Int) + 1) 2 = ((a : Int) + 1) / 2 := by
  rw [Int.tdiv_eq_ediv_of_nonneg (by omega)]

/-- **all the numbers of `GetList` are computed with the translated decisions** (round 7, the translator's
`"rich"` extracts): the default `(len(nodes)+1)/2`, the three option tests `po.Parallel > 0 && po.Parallel <
parallel`, `po.StartNode > 0 && po.StartNode < len(nodes)`, `po.AskNodes > 0 && po.AskNodes < len(nodes)` —
none of which panics for a non-nil `po` — and the final cut; nothing of `getListParams` is a hand
transcription any more (`>= 0`, `<=`, a swapped field, `len(nodes)/2` break it) -/
theorem c14_gen_getlist_numbers_full (nodes : List Nat) (o : ParOpts) :
    Gen.C14.GetList_parallel0 nodes = some (((nodes.length : Int) + 1) / 2) ∧
    (∃ b1 b2 b3, Gen.C14.GetList_takeParallel (some o.toGen) (((nodes.length : Int) + 1) / 2) = some b1 ∧
      Gen.C14.GetList_takeStart (some o.toGen) nodes = some b2 ∧
      Gen.C14.GetList_takeAsk (some o.toGen) nodes = some b3 ∧
      getListParams nodes.length (some o) =
        (let parallel0 : Int := ((nodes.length : Int) + 1) / 2
         let parallel := if b1 then o.parallel else parallel0
         let startNode := if b2 then o.startNode else 0
         let askNodes := if b3 then o.askNodes else (nodes.length : Int) - startNode
         (⟨if Gen.C14.GetList_fewerAsked askNodes parallel then askNodes else parallel, askNodes, startNode⟩ : ListParams))) := by
  refine ⟨?_, ?_⟩
  · simp only [Gen.C14.GetList_parallel0, Gen.Rt.idiv, Gen.Rt.len, Int.ofNat_eq_natCast]
    rw [if_neg (by decide), tdiv_two]
  · refine ⟨decide (o.parallel > 0 ∧ o.parallel < ((nodes.length : Int) + 1) / 2),
      decide (o.startNode > 0 ∧ o.startNode < (nodes.length : Int)),
      decide (o.askNodes > 0 ∧ o.askNodes < (nodes.length : Int)), ?_, ?_, ?_, ?_⟩
    · simp only [Gen.C14.GetList_takeParallel, ParOpts.toGen]
      by_cases h1 : o.parallel > 0 <;> by_cases h2 : o.parallel < ((nodes.length : Int) + 1) / 2 <;> simp [h1, h2]
    · simp only [Gen.C14.GetList_takeStart, ParOpts.toGen, Gen.Rt.len, Int.ofNat_eq_natCast]
      by_cases h1 : o.startNode > 0 <;> by_cases h2 : o.startNode < (nodes.length : Int) <;> simp [h1, h2]
    · simp only [Gen.C14.GetList_takeAsk, ParOpts.toGen, Gen.Rt.len, Int.ofNat_eq_natCast]
      by_cases h1 : o.askNodes > 0 <;> by_cases h2 : o.askNodes < (nodes.length : Int) <;> simp [h1, h2]
    · simp [getListParams, Gen.C14.GetList_fewerAsked]

/-- **the walk of `collect` is the translated index expression**: for a start inside the roster and a
permutation entry `perm[i] = p`, the translated `nodes[(startNode+perm[i])%len(nodes)]` does not panic
and is the node `collect` takes -/
theorem c14_gen_walk (nodes : List Nat) (start p : Nat) (perm : List Int) (i : Nat)
    (hi : perm[i]? = some (p : Int)) (hn : 0 < nodes.length) :
    Gen.C14.GetList_node nodes (start : Int) perm (i : Int) =
      some (nodes.getD ((start + p) % nodes.length) 0) := by
  have hidx : Gen.Rt.idx perm (i : Int) = some (p : Int) := by
    unfold Gen.Rt.idx; rw [if_neg (by omega)]; simpa using hi
  have hlen : Gen.Rt.len nodes = (nodes.length : Int) := rfl
  have hmod : Gen.Rt.imod ((start : Int) + (p : Int)) (Gen.Rt.len nodes) = some (((start + p) % nodes.length : Nat) : Int) := by
    unfold Gen.Rt.imod
    rw [hlen]
    have hne : ¬ ((nodes.length : Int) = 0) := by omega
    rw [if_neg hne, Int.tmod_eq_emod_of_nonneg (by omega)]
    congr 1
  have hlt : (start + p) % nodes.length < nodes.length := Nat.mod_lt _ hn
  have hget : Gen.Rt.idx nodes (((start + p) % nodes.length : Nat) : Int) = some (nodes.getD ((start + p) % nodes.length) 0) := by
    unfold Gen.Rt.idx
    rw [if_neg (by omega)]
    simp only [Int.toNat_natCast, List.getElem?_eq_getElem hlt, List.getD_eq_getElem?_getD, Option.getD_some]
  unfold Gen.C14.GetList_node
  rw [hidx]; simp only
  rw [hmod]; simp only
  rw [hget]

/-- the final slash of a route: exactly the two GET kinds with a resource identifier (the `iota` constants
as evaluated by the translator: `intGET = 2`, `sliceGET = 3`) -/
theorem c14_gen_final_slash (k : Int) :
    Gen.C14.RegisterREST_finalSlash k = decide (k = 2 ∨ k = 3) ∧ Gen.C14.intGET = 2 ∧ Gen.C14.sliceGET = 3 := by
  refine ⟨?_, rfl, rfl⟩
  simp only [Gen.C14.RegisterREST_finalSlash, Gen.C14.intGET, Gen.C14.sliceGET]
  by_cases h2 : k = 2 <;> by_cases h3 : k = 3 <;> simp [h2, h3]

/-- **the connection table forgets and dials by the translated decisions**: `mSend` dials exactly when the
translated `!connected` of `newConnIfNotExist` holds for "a connection is stored under the key", and drops
the connection after the request exactly when the translated `if failed` of `Send`'s deferred function or
the translated `if !c.keep` of `closeSingleUseConn` says so (keeping after a failure — the defect fixed in
5b2df0e —, or closing kept connections, breaks this) -/
theorem c14_gen_connection_table {K D : Type} [DecidableEq K] (key : D → K) (keep : Bool) (c : MCl K D) (d : D) (ok : Bool) :
    let c1 : MCl K D := if Gen.C14.newConn_dials (c.find (key d)).isSome then ⟨(key d, d) :: c.conns⟩ else c
    (mSend key keep c d ok).1 =
      (if Gen.C14.Send_forgetsFailed (!ok) || Gen.C14.closeSingleUse_closes ⟨keep⟩ then c1.drop (key d) else c1) := by
  simp only [mSend, Gen.C14.newConn_dials, Gen.C14.Send_forgetsFailed, Gen.C14.closeSingleUse_closes]
  cases hf : c.find (key d) <;> cases ok <;> cases keep <;> simp
/-- **a lock object is made exactly when none exists** (`newConnIfNotExist`: `if !exists { c.connectionsLock[dest] =
&sync.Mutex{} }`, the translated test): the step of a caller that enters `Send` in the client model `KCl` adds a lock
object iff the translated `!exists` holds of "the destination has a lock object" — never a second one (two lock
objects for one connection let two callers interleave: `c14_client_lock_deleted_with_connection_swaps`) -/
theorem c14_gen_lock_object (v : KVariant) (respond : Bytes → Option Bytes) (y : KCl) (i : Nat) (q : Bytes)
    (h : y.callers[i]? = some (q, .start)) :
    (kStep v respond y (.caller i)).map (fun y' => y'.locks.length) =
      some (if Gen.C14.newConn_makesLock y.curLock.isSome then y.locks.length + 1 else y.locks.length) := by
  simp only [kStep, h, Gen.C14.newConn_makesLock]
  cases y.curLock <;> simp

end C14
