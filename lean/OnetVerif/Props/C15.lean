import OnetVerif.Model.C15
/-! Property C15 — property theorems, negation witnesses, `_partial` variants and non-vacuity
examples only (helper lemmas that need Mathlib go to OnetVerif/Proofs/). -/
namespace C15

end C15
