import OnetVerif.Model.C15
import OnetVerif.Shapes
/-! Property C15 — streams deliver everything in order and end cleanly whoever leaves first.
Property theorems, negation witnesses, `_partial` variants, non-vacuity examples and the lemmas they
need. -/
namespace C15

/-! ### bookkeeping lemmas -/

/-- the forwarder of a channel is still running -/
def live (st : Stream) : Bool := st.fwd != .done

theorem countP_set' {α : Type} {p : α → Bool} {l : List α} {i : Nat} {t t' : α} (h : l[i]? = some t) :
    (l.set i t').countP p + (if p t then 1 else 0) = l.countP p + (if p t' then 1 else 0) := by
  have hi : i < l.length := by
    rcases Nat.lt_or_ge i l.length with h' | h'
    · exact h'
    · simp [List.getElem?_eq_none h'] at h
  have ht : l[i] = t := by simpa [List.getElem?_eq_getElem hi] using h
  have := List.boole_getElem_le_countP (p := p) hi
  rw [List.countP_set hi, ht] at *
  omega

theorem mem_set_cases {α : Type} {l : List α} {i : Nat} {a b : α} (h : a ∈ l.set i b) : a ∈ l ∨ a = b :=
  List.mem_or_eq_of_mem_set h

theorem getElem?_set_cases {α : Type} (l : List α) (i j : Nat) (a b : α) (h : (l.set i a)[j]? = some b) :
    (i = j ∧ b = a) ∨ (i ≠ j ∧ l[j]? = some b) := by
  by_cases hij : i = j
  · subst hij
    by_cases hl : i < l.length
    · rw [List.getElem?_set_self hl] at h; exact Or.inl ⟨rfl, by simpa using h.symm⟩
    · rw [List.set_eq_of_length_le (by omega)] at h
      rw [List.getElem?_eq_none (by omega)] at h; simp at h
  · rw [List.getElem?_set_ne hij] at h; exact Or.inr ⟨hij, h⟩

/-- the stopper of the code as it is: a nil stop channel is left alone -/
theorem stopChan_fixed (s : St) (k : Nat) (st : Stream) :
    stopChan .fixed s k st = { s with streams := s.streams.set k { st with stopClosed := true } } := by
  simp [stopChan, Variant.fixed]

/-! ### the server never crashes (code as it is, every schedule) -/

/-- invariant behind "no send on, no close of a closed channel" -/
structure Inv (s : St) : Prop where
  nopanic : s.panic = none
  noextra : ∀ st ∈ s.streams, st.extra = []
  count : s.fcount = s.streams.countP live
  closedZero : s.outClosed = true → s.fcount = 0
  rdone : s.inClosed = true ↔ s.rpc = .done

theorem inv_init (m : CMsg) : Inv (init m) := by
  constructor <;> simp [init]

theorem getFwd_zero (st : Stream) (h : st.extra = []) (f : Nat) (pc : FPc) (hf : getFwd st f = some pc) :
    f = 0 ∧ st.fwd = pc := by
  unfold getFwd at hf
  split at hf
  · exact ⟨by assumption, by simpa using hf⟩
  · simp [h] at hf

theorem live_pos {l : List Stream} {k : Nat} {st : Stream} (h : l[k]? = some st) (hl : live st = true) :
    0 < l.countP live :=
  List.countP_pos_iff.mpr ⟨st, List.mem_of_getElem? h, hl⟩

/-- replacing the forwarder state of channel `k` -/
theorem inv_setFwd {s : St} (hI : Inv s) {k : Nat} {st : Stream} (hk : s.streams[k]? = some st)
    (st' : Stream) (hx : st'.extra = []) :
    (∀ u ∈ s.streams.set k st', u.extra = []) ∧
    (s.streams.set k st').countP live + (if live st then 1 else 0) = s.fcount + (if live st' then 1 else 0) := by
  refine ⟨?_, ?_⟩
  · intro u hu
    rcases mem_set_cases hu with hu | rfl
    · exact hI.noextra u hu
    · exact hx
  · rw [hI.count]; exact countP_set' hk

/-- count bookkeeping when channel `k` goes from `st` to `st'` -/
theorem count_move {s : St} (hI : Inv s) {k : Nat} {st : Stream} (hk : s.streams[k]? = some st)
    (st' : Stream) (a b : Nat) (ha : a = if st.fwd = .done then 0 else 1)
    (hb : b = if st'.fwd = .done then 0 else 1) :
    (s.streams.set k st').countP live + a = s.fcount + b := by
  have := countP_set' (p := live) (t' := st') hk
  rw [hI.count, ha, hb]
  have e1 : (if live st = true then 1 else 0) = (if st.fwd = .done then 0 else 1) := by
    by_cases h : st.fwd = .done <;> simp [live, h]
  have e2 : (if live st' = true then 1 else 0) = (if st'.fwd = .done then 0 else 1) := by
    by_cases h : st'.fwd = .done <;> simp [live, h]
  omega

theorem extra_set {s : St} (hI : Inv s) {k : Nat} (st' : Stream) (hx : st'.extra = []) :
    ∀ u ∈ s.streams.set k st', u.extra = [] := by
  intro u hu
  rcases mem_set_cases hu with hu | rfl
  · exact hI.noextra u hu
  · exact hx

theorem inv_step (caps : Caps) (s s' : St) (a : Act) (hI : Inv s) (h : step .fixed caps s a = some s') :
    Inv s' := by
  have hps : s.panic.isSome = false := by simp [hI.nopanic]
  unfold step at h
  simp only [hps, Bool.false_eq_true, if_false] at h
  cases a with
  | cSend m =>
    simp only at h
    split at h
    · simp at h
    · simp only [Option.some.injEq] at h; subst h; exact ⟨hI.1, hI.2, hI.3, hI.4, hI.5⟩
  | cLeave =>
    simp only at h
    split at h
    · simp at h
    · simp only [Option.some.injEq] at h; subst h; exact ⟨hI.1, hI.2, hI.3, hI.4, hI.5⟩
  | rStep =>
    simp only at h
    split at h
    · -- read
      rename_i hr
      split at h
      · simp only [readerExit, Variant.fixed, if_true, Option.some.injEq] at h; subst h
        exact ⟨hI.1, hI.2, hI.3, hI.4, by simp⟩
      · split at h
        · simp only [Option.some.injEq] at h; subst h
          refine ⟨hI.1, hI.2, hI.3, hI.4, ?_⟩
          have := hI.rdone
          simp only [hr] at this
          simp [this]
        · split at h
          · simp only [readerExit, Variant.fixed, if_true, Option.some.injEq] at h; subst h
            exact ⟨hI.1, hI.2, hI.3, hI.4, by simp⟩
          · simp at h
    · -- hold
      rename_i m hr
      have hnc : s.inClosed = false := by
        cases hc : s.inClosed with
        | false => rfl
        | true => have := hI.rdone.mp hc; rw [hr] at this; simp at this
      simp only [hnc, Bool.false_eq_true, if_false] at h
      split at h
      · simp only [Option.some.injEq] at h; subst h
        exact ⟨hI.1, hI.2, hI.3, hI.4, by simp⟩
      · simp at h
    · simp at h
  | rLeave =>
    simp only at h
    split at h
    · split at h
      · simp only [readerExit, Variant.fixed, if_true, Option.some.injEq] at h; subst h
        exact ⟨hI.1, hI.2, hI.3, hI.4, by simp⟩
      · simp at h
    · simp at h
  | aStep =>
    simp only at h
    split at h
    · simp at h
    · split at h
      · split at h
        · simp only [Option.some.injEq] at h; subst h; exact ⟨hI.1, hI.2, hI.3, hI.4, hI.5⟩
        · simp at h
      · rename_i m rest hq
        split at h
        · simp only [Option.some.injEq] at h; subst h; exact ⟨hI.1, hI.2, hI.3, hI.4, hI.5⟩
        · have hfail : ∀ c, Inv (adapterFail .fixed { s with inq := rest, calls := c }) := by
            intro c
            simp only [adapterFail, Variant.fixed, if_true]
            refine ⟨hI.1, hI.2, hI.3, ?_, hI.5⟩
            intro hc
            simp only [Bool.or_eq_true, beq_iff_eq] at hc
            rcases hc with hc | hc
            · exact hI.closedZero hc
            · exact hc
          have hnew : ∀ c (t : Stream), t.extra = [] → t.fwd = .recv →
              Inv (newStream .fixed { s with inq := rest, calls := c } t) := by
            intro c t htx htf
            simp only [newStream, Variant.fixed, if_true]
            split
            · refine ⟨hI.1, ?_, ?_, hI.4, hI.5⟩
              · intro u hu
                simp only [List.mem_append, List.mem_singleton] at hu
                rcases hu with hu | rfl
                · exact hI.noextra u hu
                · exact htx
              · simp [List.countP_append, live, hI.count]
            · rename_i hoc
              refine ⟨hI.1, ?_, ?_, ?_, hI.5⟩
              · intro u hu
                simp only [List.mem_append, List.mem_singleton] at hu
                rcases hu with hu | rfl
                · exact hI.noextra u hu
                · exact htx
              · simp [List.countP_append, live, hI.count, htf]
              · intro hc; simp [hoc] at hc
          have hnil : ∀ c, Inv (nilOut .fixed { s with inq := rest, calls := c }) := by
            intro c
            simp only [nilOut, adapterFail, Variant.fixed, if_true]
            refine ⟨hI.1, ?_, ?_, ?_, hI.5⟩
            · intro u hu
              simp only [List.mem_append, List.mem_singleton] at hu
              rcases hu with hu | rfl
              · exact hI.noextra u hu
              · rfl
            · simp [List.countP_append, live, hI.count]
            · intro hc
              simp only [Bool.or_eq_true, beq_iff_eq] at hc
              rcases hc with hc | hc
              · exact hI.closedZero hc
              · exact hc
          cases m with
          | garbage => simp only [Option.some.injEq] at h; subst h; exact hfail s.calls
          | failing => simp only [Option.some.injEq] at h; subst h; exact hfail (s.calls + 1)
          | fresh => simp only [Option.some.injEq] at h; subst h; exact hnew (s.calls + 1) {} rfl rfl
          | nostop => simp only [Option.some.injEq] at h; subst h; exact hnew (s.calls + 1) _ rfl rfl
          | noout => simp only [Option.some.injEq] at h; subst h; exact hnil (s.calls + 1)
          | reuse j =>
            simp only at h
            split at h
            · simp only [Option.some.injEq] at h; subst h; exact hnew (s.calls + 1) {} rfl rfl
            · simp only [Variant.fixed, if_true, Option.some.injEq] at h; subst h
              exact ⟨hI.1, hI.2, hI.3, hI.4, hI.5⟩
  | emit k f x =>
    simp only at h
    split at h
    · simp at h
    · rename_i st hk
      split at h
      · simp at h
      · split at h
        · rename_i hg
          have hx := hI.noextra st (List.mem_of_getElem? hk)
          obtain ⟨rfl, hfw⟩ := getFwd_zero st hx f _ hg
          simp only [Option.some.injEq] at h; subst h
          have h2 := count_move hI hk (setFwd { st with emitted := st.emitted ++ [x] } 0 (.hold x)) 1 1
            (by simp [hfw]) (by simp [setFwd])
          exact ⟨hI.1, extra_set hI _ (by simp [setFwd, hx]), by simp only; omega, hI.4, hI.5⟩
        · simp at h
  | emitBad k f =>
    simp only at h
    split at h
    · simp at h
    · rename_i st hk
      have hx := hI.noextra st (List.mem_of_getElem? hk)
      split at h
      · simp at h
      · split at h
        · rename_i hg
          obtain ⟨rfl, hfw⟩ := getFwd_zero st hx f _ hg
          simp only [fwdExit, Variant.fixed, if_true, Option.some.injEq] at h; subst h
          have h2 := count_move hI hk (setFwd st 0 .done) 1 0 (by simp [hfw]) (by simp [setFwd])
          have hpos := live_pos hk (by simp [live, hfw])
          rw [← hI.count] at hpos
          refine ⟨hI.1, extra_set hI _ (by simp [setFwd, hx]), by simp only; omega, ?_, hI.5⟩
          intro hc
          simp only [Bool.or_eq_true, beq_iff_eq] at hc
          rcases hc with hc | hc
          · have := hI.closedZero hc; omega
          · exact hc
        · simp at h
  | svcClose k =>
    simp only at h
    split at h
    · simp at h
    · rename_i st hk
      split at h
      · simp at h
      · simp only [Option.some.injEq] at h; subst h
        have hx := hI.noextra st (List.mem_of_getElem? hk)
        have h2 := count_move hI hk { st with chanClosed := true } _ _ rfl rfl
        exact ⟨hI.1, extra_set hI _ (by simp [hx]), by simp only at h2 ⊢; omega, hI.4, hI.5⟩
  | fStep k f =>
    simp only at h
    split at h
    · simp at h
    · rename_i st hk
      have hx := hI.noextra st (List.mem_of_getElem? hk)
      split at h
      · -- recv
        rename_i hg
        obtain ⟨rfl, hfw⟩ := getFwd_zero st hx f _ hg
        split at h
        · simp only [fwdExit, Variant.fixed, if_true, Option.some.injEq] at h; subst h
          have h2 := count_move hI hk (setFwd st 0 .done) 1 0 (by simp [hfw]) (by simp [setFwd])
          have hpos := live_pos hk (by simp [live, hfw])
          rw [← hI.count] at hpos
          refine ⟨hI.1, extra_set hI _ (by simp [setFwd, hx]), by simp only; omega, ?_, hI.5⟩
          intro hc
          simp only [Bool.or_eq_true, beq_iff_eq] at hc
          rcases hc with hc | hc
          · have := hI.closedZero hc; omega
          · exact hc
        · simp at h
      · -- hold
        rename_i y hg
        obtain ⟨rfl, hfw⟩ := getFwd_zero st hx f _ hg
        have hpos := live_pos hk (by simp [live, hfw])
        rw [← hI.count] at hpos
        have hoc : s.outClosed = false := by
          cases hc : s.outClosed with
          | false => rfl
          | true => have := hI.closedZero hc; omega
        simp only [hoc, Bool.false_eq_true, if_false] at h
        split at h
        · simp only [Option.some.injEq] at h; subst h
          have h2 := count_move hI hk (setFwd st 0 .recv) 1 1 (by simp [hfw]) (by simp [setFwd])
          refine ⟨hI.1, extra_set hI _ (by simp [setFwd, hx]), by simp only; omega, ?_, hI.5⟩
          intro hc; simp at hc
        · simp at h
      · simp at h
  | fDrop k f =>
    simp only at h
    split at h
    · simp at h
    · rename_i st hk
      have hx := hI.noextra st (List.mem_of_getElem? hk)
      split at h
      · rename_i y hg
        obtain ⟨rfl, hfw⟩ := getFwd_zero st hx f _ hg
        split at h
        · simp only [fwdExit, Variant.fixed, if_true, Option.some.injEq] at h; subst h
          have h2 := count_move hI hk (setFwd st 0 .done) 1 0 (by simp [hfw]) (by simp [setFwd])
          have hpos := live_pos hk (by simp [live, hfw])
          rw [← hI.count] at hpos
          refine ⟨hI.1, extra_set hI _ (by simp [setFwd, hx]), by simp only; omega, ?_, hI.5⟩
          intro hc
          simp only [Bool.or_eq_true, beq_iff_eq] at hc
          rcases hc with hc | hc
          · have := hI.closedZero hc; omega
          · exact hc
        · simp at h
      · simp at h
  | stop k =>
    simp only at h
    split at h
    · simp at h
    · rename_i st hk
      split at h
      · simp only [stopChan_fixed, Option.some.injEq] at h; subst h
        have hx := hI.noextra st (List.mem_of_getElem? hk)
        have h2 := count_move hI hk { st with stopClosed := true } _ _ rfl rfl
        exact ⟨hI.1, extra_set hI _ (by simp [hx]), by simp only at h2 ⊢; omega, hI.4, hI.5⟩
      · simp at h
  | wOut =>
    simp only at h
    split at h
    · simp at h
    · split at h
      · simp only [Option.some.injEq] at h; subst h; exact ⟨hI.1, hI.2, hI.3, hI.4, hI.5⟩
      · split at h
        · simp only [writerLeave, Variant.fixed, if_true, Bool.false_eq_true, if_false, Option.some.injEq] at h
          subst h; exact ⟨hI.1, hI.2, hI.3, hI.4, hI.5⟩
        · simp at h
  | wClosing =>
    simp only at h
    split at h
    · simp at h
    · split at h
      · simp only [writerLeave, Variant.fixed, if_true, Option.some.injEq] at h
        subst h; exact ⟨hI.1, hI.2, hI.3, hI.4, hI.5⟩
      · simp at h
  | wOutFail =>
    simp only at h
    split at h
    · simp at h
    · split at h
      · split at h
        · simp only [writerLeave, Variant.fixed, if_true, Bool.false_eq_true, if_false, Option.some.injEq] at h
          subst h; exact ⟨hI.1, hI.2, hI.3, hI.4, hI.5⟩
        · simp at h
      · simp at h

theorem inv_run (caps : Caps) (s : St) (hI : Inv s) (sched : List Act) : Inv (run .fixed caps s sched) := by
  induction sched generalizing s with
  | nil => exact hI
  | cons a as ih =>
    simp only [run]
    split
    · rename_i s' hs; exact ih s' (inv_step caps s s' a hI hs)
    · exact ih s hI

/-- **the server never sends on, or closes, a closed channel**: whatever the client's first
message, whatever further messages it sends (valid, reusing a channel, undecodable, failing),
whenever it leaves, whatever the service emits and whenever it closes its channels, for every
interleaving of the reader, the write loop, the adapter, the forwarders and the stoppers and every
channel capacity. -/
theorem c15_no_panic (caps : Caps) (m₀ : CMsg) (sched : List Act) :
    (run .fixed caps (init m₀) sched).panic = none :=
  (inv_run caps _ (inv_init m₀) sched).nopanic

/-! ### when the client leaves, the service is told to stop and nobody of onet's is stuck -/

/-- second invariant: who may have ended, and why -/
structure Inv2 (s : St) : Prop where
  adone : s.adone = true → s.stopAll = true ∧ s.inClosed = true ∧ s.inq = []
  leaving : s.leaving = true → s.wdone = true
  rexit : s.rpc = .done → s.closing = true ∨ s.wdone = true

theorem inv2_init (m : CMsg) : Inv2 (init m) := by
  constructor <;> simp [init]

theorem inv2_step (caps : Caps) (s s' : St) (a : Act) (hI : Inv s) (hJ : Inv2 s)
    (h : step .fixed caps s a = some s') : Inv2 s' := by
  have hps : s.panic.isSome = false := by simp [hI.nopanic]
  unfold step at h
  simp only [hps, Bool.false_eq_true, if_false] at h
  cases a with
  | cSend m =>
    simp only at h
    split at h
    · simp at h
    · simp only [Option.some.injEq] at h; subst h; exact ⟨hJ.1, hJ.2, hJ.3⟩
  | cLeave =>
    simp only at h
    split at h
    · simp at h
    · simp only [Option.some.injEq] at h; subst h; exact ⟨hJ.1, hJ.2, hJ.3⟩
  | rStep =>
    simp only at h
    split at h
    · rename_i hr
      split at h
      · simp only [readerExit, Variant.fixed, if_true, Option.some.injEq] at h; subst h
        exact ⟨fun ha => ⟨(hJ.1 ha).1, rfl, (hJ.1 ha).2.2⟩, hJ.2, fun _ => Or.inl rfl⟩
      · split at h
        · simp only [Option.some.injEq] at h; subst h
          exact ⟨hJ.1, hJ.2, fun hd => by simp at hd⟩
        · split at h
          · simp only [readerExit, Variant.fixed, if_true, Option.some.injEq] at h; subst h
            exact ⟨fun ha => ⟨(hJ.1 ha).1, rfl, (hJ.1 ha).2.2⟩, hJ.2, fun _ => Or.inl rfl⟩
          · simp at h
    · rename_i m hr
      have hnc : s.inClosed = false := by
        cases hc : s.inClosed with
        | false => rfl
        | true => have := hI.rdone.mp hc; rw [hr] at this; simp at this
      simp only [hnc, Bool.false_eq_true, if_false] at h
      split at h
      · simp only [Option.some.injEq] at h; subst h
        refine ⟨fun ha => ?_, hJ.2, fun hd => by simp at hd⟩
        have := (hJ.1 ha).2.1; simp [hnc] at this
      · simp at h
    · simp at h
  | rLeave =>
    simp only at h
    split at h
    · split at h
      · rename_i hl
        simp only [Variant.fixed, Bool.true_and] at hl
        simp only [readerExit, Variant.fixed, if_true, Option.some.injEq] at h; subst h
        exact ⟨fun ha => ⟨(hJ.1 ha).1, rfl, (hJ.1 ha).2.2⟩, hJ.2, fun _ => Or.inr (hJ.2 hl)⟩
      · simp at h
    · simp at h
  | aStep =>
    simp only at h
    split at h
    · simp at h
    · rename_i hnd
      have hnd' : s.adone = false := by simpa using hnd
      split at h
      · rename_i hq
        split at h
        · rename_i hc
          simp only [Option.some.injEq] at h; subst h
          exact ⟨fun _ => ⟨rfl, hc, hq⟩, hJ.2, hJ.3⟩
        · simp at h
      · rename_i m rest hq
        split at h
        · simp only [Option.some.injEq] at h; subst h
          exact ⟨fun ha => by simp [hnd'] at ha, hJ.2, hJ.3⟩
        · have hfail : ∀ c, Inv2 (adapterFail .fixed { s with inq := rest, calls := c }) := by
            intro c
            simp only [adapterFail, Variant.fixed, if_true]
            exact ⟨fun ha => by simp [hnd'] at ha, hJ.2, hJ.3⟩
          have hnew : ∀ c (t : Stream), Inv2 (newStream .fixed { s with inq := rest, calls := c } t) := by
            intro c t
            simp only [newStream, Variant.fixed, if_true]
            split <;> exact ⟨fun ha => by simp [hnd'] at ha, hJ.2, hJ.3⟩
          have hnil : ∀ c, Inv2 (nilOut .fixed { s with inq := rest, calls := c }) := by
            intro c
            simp only [nilOut, adapterFail, Variant.fixed, if_true]
            exact ⟨fun ha => by simp [hnd'] at ha, hJ.2, hJ.3⟩
          cases m with
          | garbage => simp only [Option.some.injEq] at h; subst h; exact hfail s.calls
          | failing => simp only [Option.some.injEq] at h; subst h; exact hfail (s.calls + 1)
          | fresh => simp only [Option.some.injEq] at h; subst h; exact hnew (s.calls + 1) {}
          | nostop => simp only [Option.some.injEq] at h; subst h; exact hnew (s.calls + 1) _
          | noout => simp only [Option.some.injEq] at h; subst h; exact hnil (s.calls + 1)
          | reuse j =>
            simp only at h
            split at h
            · simp only [Option.some.injEq] at h; subst h; exact hnew (s.calls + 1) {}
            · simp only [Variant.fixed, if_true, Option.some.injEq] at h; subst h
              exact ⟨fun ha => by simp [hnd'] at ha, hJ.2, hJ.3⟩
  | emit k f x =>
    simp only at h
    split at h
    · simp at h
    · split at h
      · simp at h
      · split at h
        · simp only [Option.some.injEq] at h; subst h; exact ⟨hJ.1, hJ.2, hJ.3⟩
        · simp at h
  | emitBad k f =>
    simp only at h
    split at h
    · simp at h
    · rename_i st hk
      have hx := hI.noextra st (List.mem_of_getElem? hk)
      split at h
      · simp at h
      · split at h
        · rename_i hg
          obtain ⟨rfl, hfw⟩ := getFwd_zero st hx f _ hg
          simp only [fwdExit, Variant.fixed, if_true, Option.some.injEq] at h; subst h
          exact ⟨hJ.1, hJ.2, hJ.3⟩
        · simp at h
  | svcClose k =>
    simp only at h
    split at h
    · simp at h
    · split at h
      · simp at h
      · simp only [Option.some.injEq] at h; subst h; exact ⟨hJ.1, hJ.2, hJ.3⟩
  | fStep k f =>
    simp only at h
    split at h
    · simp at h
    · split at h
      · split at h
        · simp only [fwdExit, Variant.fixed, if_true, Option.some.injEq] at h; subst h
          exact ⟨hJ.1, hJ.2, hJ.3⟩
        · simp at h
      · split at h
        · simp only [Option.some.injEq] at h; subst h; exact ⟨hJ.1, hJ.2, hJ.3⟩
        · split at h
          · simp only [Option.some.injEq] at h; subst h; exact ⟨hJ.1, hJ.2, hJ.3⟩
          · simp at h
      · simp at h
  | fDrop k f =>
    simp only at h
    split at h
    · simp at h
    · split at h
      · split at h
        · simp only [fwdExit, Variant.fixed, if_true, Option.some.injEq] at h; subst h
          exact ⟨hJ.1, hJ.2, hJ.3⟩
        · simp at h
      · simp at h
  | stop k =>
    simp only at h
    split at h
    · simp at h
    · split at h
      · simp only [stopChan_fixed, Option.some.injEq] at h; subst h; exact ⟨hJ.1, hJ.2, hJ.3⟩
      · simp at h
  | wOut =>
    simp only at h
    split at h
    · simp at h
    · split at h
      · simp only [Option.some.injEq] at h; subst h; exact ⟨hJ.1, hJ.2, hJ.3⟩
      · split at h
        · simp only [writerLeave, Variant.fixed, if_true, Bool.false_eq_true, if_false, Option.some.injEq] at h
          subst h; exact ⟨hJ.1, fun _ => rfl, fun _ => Or.inr rfl⟩
        · simp at h
  | wClosing =>
    simp only at h
    split at h
    · simp at h
    · split at h
      · simp only [writerLeave, Variant.fixed, if_true, Option.some.injEq] at h
        subst h; exact ⟨hJ.1, fun _ => rfl, fun _ => Or.inr rfl⟩
      · simp at h
  | wOutFail =>
    simp only at h
    split at h
    · simp at h
    · split at h
      · split at h
        · simp only [writerLeave, Variant.fixed, if_true, Bool.false_eq_true, if_false, Option.some.injEq] at h
          subst h; exact ⟨hJ.1, fun _ => rfl, fun _ => Or.inr rfl⟩
        · simp at h
      · simp at h

theorem inv12_run (caps : Caps) (s : St) (hI : Inv s) (hJ : Inv2 s) (sched : List Act) :
    Inv (run .fixed caps s sched) ∧ Inv2 (run .fixed caps s sched) := by
  induction sched generalizing s with
  | nil => exact ⟨hI, hJ⟩
  | cons a as ih =>
    simp only [run]
    split
    · rename_i s' hs; exact ih s' (inv_step caps s s' a hI hs) (inv2_step caps s s' a hI hJ hs)
    · exact ih s hI hJ

/-- none of onet's own goroutines of this connection can move: reader, adapter, write loop, the
stopper and the forwarder of every channel -/
def Quiet (caps : Caps) (s : St) : Prop :=
  step .fixed caps s .rStep = none ∧ step .fixed caps s .rLeave = none ∧
  step .fixed caps s .aStep = none ∧
  step .fixed caps s .wOut = none ∧ step .fixed caps s .wClosing = none ∧
  step .fixed caps s .wOutFail = none ∧
  (∀ k, step .fixed caps s (.stop k) = none) ∧
  (∀ k, step .fixed caps s (.fStep k 0) = none ∧ step .fixed caps s (.fDrop k 0) = none)

/-- the quiescence analysis behind `c15_client_leaves` and `c15_server_tears_down`: once the client
is gone **or the server has closed the socket**, a state in which none of onet's goroutines can
move has everything ended and every service told to stop -/
theorem quiet_teardown (caps : Caps) (hcap : 0 < caps.inCap) (s : St) (hI : Inv s) (hJ : Inv2 s)
    (hgone : s.cGone = true ∨ s.wsClosed = true) (hq : Quiet caps s) :
      s.rpc = .done ∧ s.adone = true ∧ s.wdone = true ∧ s.stopAll = true ∧
      (∀ st ∈ s.streams, st.stopClosed = true) ∧
      (∀ st ∈ s.streams, st.fwd = .done ∨ (st.fwd = .recv ∧ st.chanClosed = false)) := by
  have hps : s.panic.isSome = false := by simp [hI.nopanic]
  obtain ⟨qr, ql, qa, qwo, qwc, qwf, qs, qf⟩ := hq
  -- the adapter can always take a queued message
  have aenabled : s.adone = false → s.inq ≠ [] → False := by
    intro hnd hne
    cases hq : s.inq with
    | nil => exact hne hq
    | cons m rest =>
      have : (step .fixed caps s .aStep).isSome = true := by
        unfold step
        simp only [hps, Bool.false_eq_true, if_false, hnd, hq]
        split
        · rfl
        · cases m with
          | garbage => rfl
          | failing => rfl
          | fresh => rfl
          | nostop => rfl
          | noout => rfl
          | reuse j => simp only []; split <;> simp [Variant.fixed]
      rw [qa] at this; simp at this
  -- the reader has ended
  have hr : s.rpc = .done := by
    unfold step at qr
    simp only [hps, Bool.false_eq_true, if_false] at qr
    cases hrp : s.rpc with
    | done => rfl
    | read =>
      simp only [hrp] at qr
      split at qr
      · simp at qr
      · rename_i hws
        split at qr
        · simp at qr
        · rcases hgone with hg | hg
          · simp [hg] at qr
          · exact absurd hg hws
    | hold m =>
      exfalso
      simp only [hrp] at qr
      have hnc : s.inClosed = false := by
        cases hc : s.inClosed with
        | false => rfl
        | true => have := hI.rdone.mp hc; rw [hrp] at this; simp at this
      simp only [hnc, Bool.false_eq_true, if_false] at qr
      split at qr
      · simp at qr
      · rename_i hfull
        have hne : s.inq ≠ [] := by
          intro he; rw [he] at hfull; simp at hfull; omega
        cases had : s.adone with
        | false => exact aenabled had hne
        | true => exact hne (hJ.adone had).2.2
  have hic : s.inClosed = true := hI.rdone.mpr hr
  -- the adapter has ended
  have ha : s.adone = true := by
    cases had : s.adone with
    | true => rfl
    | false =>
      exfalso
      cases hq : s.inq with
      | cons m rest => exact aenabled had (by simp [hq])
      | nil =>
        unfold step at qa
        simp [hps, had, hq, hic] at qa
  have hstop := (hJ.adone ha).1
  -- the write loop has been left
  have hw : s.wdone = true := by
    cases hwd : s.wdone with
    | true => rfl
    | false =>
      exfalso
      rcases hJ.rexit hr with hc | hc
      · unfold step at qwc
        simp [hps, hwd, hc] at qwc
      · simp [hwd] at hc
  refine ⟨hr, ha, hw, hstop, ?_, ?_⟩
  · intro st hst
    obtain ⟨k, hk⟩ := List.getElem?_of_mem hst
    have := qs k
    unfold step at this
    simp only [hps, Bool.false_eq_true, if_false, hk, hstop, Bool.true_or, Bool.true_and] at this
    cases hsc : st.stopClosed with
    | true => rfl
    | false => simp [hsc] at this
  · intro st hst
    obtain ⟨k, hk⟩ := List.getElem?_of_mem hst
    have hx := hI.noextra st hst
    obtain ⟨q1, q2⟩ := qf k
    unfold step at q1 q2
    simp only [hps, Bool.false_eq_true, if_false, hk, getFwd, if_true] at q1 q2
    cases hf : st.fwd with
    | done => exact Or.inl rfl
    | recv =>
      right
      refine ⟨rfl, ?_⟩
      simp only [hf] at q1
      cases hcc : st.chanClosed with
      | false => rfl
      | true => simp [hcc] at q1
    | hold x =>
      exfalso
      simp only [hf, Variant.fixed, hstop, Bool.and_self, if_true] at q2
      simp at q2

/-- **when the client closes or disappears first, the service is told to stop**: in every
reachable state in which the client is gone and onet's goroutines have nothing left to do, the
reader, the adapter and the write loop have all ended, `stopAll` and the stop channel of every
stream are closed, and a forwarder that is still there waits for a channel its service has not
closed yet — for every client behaviour before leaving, every service behaviour, every interleaving. -/
theorem c15_client_leaves (caps : Caps) (hcap : 0 < caps.inCap) (m₀ : CMsg) (sched : List Act) :
    let s := run .fixed caps (init m₀) sched
    s.cGone = true → Quiet caps s →
      s.rpc = .done ∧ s.adone = true ∧ s.wdone = true ∧ s.stopAll = true ∧
      (∀ st ∈ s.streams, st.stopClosed = true) ∧
      (∀ st ∈ s.streams, st.fwd = .done ∨ (st.fwd = .recv ∧ st.chanClosed = false)) := by
  intro s hgone hq
  obtain ⟨hI, hJ⟩ := inv12_run caps _ (inv_init m₀) (inv2_init m₀) sched
  exact quiet_teardown caps hcap s hI hJ (Or.inl hgone) hq

/-! ### the stream of a client that just listens -/

/-- the values of the data frames, in order -/
def dataOf : List Frame → List Nat
  | [] => []
  | .data _ v :: l => v :: dataOf l
  | _ :: l => dataOf l

def heldOf : FPc → List Nat
  | .hold v => [v]
  | _ => []

theorem dataOf_append (l₁ l₂ : List Frame) : dataOf (l₁ ++ l₂) = dataOf l₁ ++ dataOf l₂ := by
  induction l₁ with
  | nil => rfl
  | cons f l ih => cases f <;> simp [dataOf, ih]

/-- the client neither sends further messages nor leaves -/
def passive : Act → Bool
  | .cSend _ => false
  | .cLeave => false
  | .emitBad _ _ => false   -- (the service hands out values that can be encoded)
  | _ => true

/-- invariant of a stream opened by one valid request whose client only listens -/
structure HInv (s : St) : Prop where
  c2s : s.c2s = []
  here : s.cGone = false
  nohold : s.rpc = .read ∨ s.rpc = .done
  notended : s.ended = false
  shape : (s.inq = [.fresh] ∧ s.streams = []) ∨ (s.inq = [] ∧ ∃ st, s.streams = [st])
  pre : s.streams = [] → s.s2c = [] ∧ s.outq = [] ∧ s.outClosed = false
  closingW : s.closing = true → s.wdone = true
  stopW : s.stopAll = true → s.wdone = true
  inclosedW : s.inClosed = true → s.wdone = true
  wsW : s.wsClosed = true → s.wdone = true
  order : ∀ st, s.streams = [st] → st.emitted = dataOf s.s2c ++ s.outq.map (·.2) ++ heldOf st.fwd
  noerr : Frame.closeError ∉ s.s2c
  wdoneIff : s.wdone = true ↔ Frame.closeNormal ∈ s.s2c
  wdoneAll : s.wdone = true → s.outq = [] ∧ ∀ st, s.streams = [st] → st.fwd = .done
  doneClosed : ∀ st, s.streams = [st] → st.fwd = .done → st.chanClosed = true

theorem hinv_init : HInv (init .fresh) := by
  constructor <;> simp [init, dataOf]

theorem single_set {l : List Stream} {st st0 st' : Stream} {k : Nat} (hl : l = [st]) (hk : l[k]? = some st0) :
    k = 0 ∧ st0 = st ∧ l.set k st' = [st'] := by
  subst hl
  cases k with
  | zero => simp at hk; exact ⟨rfl, hk.symm, rfl⟩
  | succ n => simp at hk

theorem hinv_step (caps : Caps) (s s' : St) (a : Act) (hI : Inv s) (hH : HInv s) (hpa : passive a = true)
    (h : step .fixed caps s a = some s') : HInv s' := by
  have hps : s.panic.isSome = false := by simp [hI.nopanic]
  unfold step at h
  simp only [hps, Bool.false_eq_true, if_false] at h
  -- facts about the single stream
  have hstream : ∀ k st0, s.streams[k]? = some st0 → s.streams = [st0] ∧ k = 0 := by
    intro k st0 hk
    rcases hH.shape with ⟨_, he⟩ | ⟨_, st, he⟩
    · rw [he] at hk; simp at hk
    · obtain ⟨h0, h1, _⟩ := single_set (st' := st) he hk
      exact ⟨by rw [he, h1], h0⟩
  cases a with
  | cSend m => simp [passive] at hpa
  | cLeave => simp [passive] at hpa
  | rStep =>
    simp only at h
    split at h
    · rename_i hr
      split at h
      · rename_i hws
        simp only [readerExit, Variant.fixed, if_true, Option.some.injEq] at h; subst h
        have hw := hH.wsW hws
        exact ⟨hH.c2s, hH.here, Or.inr rfl, hH.notended, hH.shape, hH.pre, fun _ => hw, hH.stopW, fun _ => hw,
          hH.wsW, hH.order, hH.noerr, hH.wdoneIff, hH.wdoneAll, hH.doneClosed⟩
      · simp [hH.c2s, hH.here] at h
    · rename_i m hr
      rcases hH.nohold with h1 | h1 <;> simp [hr] at h1
    · simp at h
  | rLeave =>
    simp only at h
    split at h
    · rename_i m hr
      rcases hH.nohold with h1 | h1 <;> simp [hr] at h1
    · simp at h
  | aStep =>
    simp only at h
    split at h
    · simp at h
    · split at h
      · rename_i hq
        split at h
        · rename_i hc
          simp only [Option.some.injEq] at h; subst h
          have hw := hH.inclosedW hc
          exact ⟨hH.c2s, hH.here, hH.nohold, hH.notended, hH.shape, hH.pre, hH.closingW, fun _ => hw,
            hH.inclosedW, hH.wsW, hH.order, hH.noerr, hH.wdoneIff, hH.wdoneAll, hH.doneClosed⟩
        · simp at h
      · rename_i m rest hq
        rcases hH.shape with ⟨hi, he⟩ | ⟨hi, _⟩
        · rw [hi] at hq
          simp only [List.cons.injEq] at hq
          obtain ⟨rfl, rfl⟩ := hq
          simp only [hH.notended, Bool.false_eq_true, if_false, newStream, Variant.fixed, if_true,
            (hH.pre he).2.2, Option.some.injEq] at h
          subst h
          obtain ⟨p1, p2, p3⟩ := hH.pre he
          refine ⟨hH.c2s, hH.here, hH.nohold, rfl, Or.inr ⟨rfl, {}, by simp [he]⟩, by simp [he],
            hH.closingW, hH.stopW, hH.inclosedW, hH.wsW, ?_, hH.noerr, hH.wdoneIff, ?_, ?_⟩
          · intro st hst
            simp only [he, List.nil_append, List.cons.injEq, and_true] at hst
            subst hst
            simp [p1, p2, dataOf, heldOf]
          · intro hw
            refine ⟨(hH.wdoneAll hw).1, ?_⟩
            have := (hH.wdoneIff.mp hw); simp [p1] at this
          · intro st hst hd
            simp only [he, List.nil_append, List.cons.injEq, and_true] at hst
            subst hst
            simp at hd
        · rw [hi] at hq; simp at hq
  | emit k f x =>
    simp only at h
    split at h
    · simp at h
    · rename_i st0 hk
      obtain ⟨hs1, rfl⟩ := hstream k st0 hk
      split at h
      · simp at h
      · split at h
        · rename_i hg
          have hx := hI.noextra st0 (List.mem_of_getElem? hk)
          obtain ⟨rfl, hfw⟩ := getFwd_zero st0 hx f _ hg
          simp only [Option.some.injEq] at h; subst h
          have hset : s.streams.set 0 (setFwd { st0 with emitted := st0.emitted ++ [x] } 0 (.hold x))
              = [setFwd { st0 with emitted := st0.emitted ++ [x] } 0 (.hold x)] := by rw [hs1]; rfl
          have hnw : s.wdone = false := by
            cases hw : s.wdone with
            | false => rfl
            | true => have := (hH.wdoneAll hw).2 st0 hs1; rw [hfw] at this; simp at this
          refine ⟨hH.c2s, hH.here, hH.nohold, hH.notended, ?_, ?_, hH.closingW, hH.stopW, hH.inclosedW, hH.wsW,
            ?_, hH.noerr, hH.wdoneIff, ?_, ?_⟩
          · rcases hH.shape with ⟨_, he⟩ | ⟨hi, _⟩
            · rw [he] at hs1; simp at hs1
            · exact Or.inr ⟨hi, _, hset⟩
          · intro he; simp only [hset] at he; simp at he
          · intro st hst
            simp only [hset, List.cons.injEq, and_true] at hst
            subst hst
            have := hH.order st0 hs1
            simp only [hfw, heldOf, List.append_nil] at this
            simp [setFwd, heldOf, this]
          · intro hw; simp [hnw] at hw
          · intro st hst hd
            simp only [hset, List.cons.injEq, and_true] at hst
            subst hst
            simp [setFwd] at hd
        · simp at h
  | emitBad k f => simp [passive] at hpa
  | svcClose k =>
    simp only at h
    split at h
    · simp at h
    · rename_i st0 hk
      obtain ⟨hs1, rfl⟩ := hstream k st0 hk
      split at h
      · simp at h
      · simp only [Option.some.injEq] at h; subst h
        have hset : s.streams.set 0 { st0 with chanClosed := true } = [{ st0 with chanClosed := true }] := by
          rw [hs1]; rfl
        refine ⟨hH.c2s, hH.here, hH.nohold, hH.notended, ?_, ?_, hH.closingW, hH.stopW, hH.inclosedW, hH.wsW,
          ?_, hH.noerr, hH.wdoneIff, ?_, ?_⟩
        · rcases hH.shape with ⟨_, he⟩ | ⟨hi, _⟩
          · rw [he] at hs1; simp at hs1
          · exact Or.inr ⟨hi, _, hset⟩
        · intro he; simp only [hset] at he; simp at he
        · intro st hst
          simp only [hset, List.cons.injEq, and_true] at hst
          subst hst
          exact hH.order st0 hs1
        · intro hw
          refine ⟨(hH.wdoneAll hw).1, ?_⟩
          intro st hst
          simp only [hset, List.cons.injEq, and_true] at hst
          subst hst
          exact (hH.wdoneAll hw).2 st0 hs1
        · intro st hst _
          simp only [hset, List.cons.injEq, and_true] at hst
          subst hst
          rfl
  | fStep k f =>
    simp only at h
    split at h
    · simp at h
    · rename_i st0 hk
      obtain ⟨hs1, rfl⟩ := hstream k st0 hk
      have hx := hI.noextra st0 (List.mem_of_getElem? hk)
      split at h
      · rename_i hg
        obtain ⟨rfl, hfw⟩ := getFwd_zero st0 hx f _ hg
        split at h
        · rename_i hcc
          simp only [fwdExit, Variant.fixed, if_true, Option.some.injEq] at h; subst h
          have hset : s.streams.set 0 (setFwd st0 0 .done) = [setFwd st0 0 .done] := by rw [hs1]; rfl
          have hnw : s.wdone = false := by
            cases hw : s.wdone with
            | false => rfl
            | true => have := (hH.wdoneAll hw).2 st0 hs1; rw [hfw] at this; simp at this
          refine ⟨hH.c2s, hH.here, hH.nohold, hH.notended, ?_, ?_, hH.closingW, hH.stopW, hH.inclosedW, hH.wsW,
            ?_, hH.noerr, hH.wdoneIff, ?_, ?_⟩
          · rcases hH.shape with ⟨_, he⟩ | ⟨hi, _⟩
            · rw [he] at hs1; simp at hs1
            · exact Or.inr ⟨hi, _, hset⟩
          · intro he; simp only [hset] at he; simp at he
          · intro st hst
            simp only [hset, List.cons.injEq, and_true] at hst
            subst hst
            have := hH.order st0 hs1
            simp only [hfw, heldOf, List.append_nil] at this
            simp [setFwd, heldOf, this]
          · intro hw; simp [hnw] at hw
          · intro st hst _
            simp only [hset, List.cons.injEq, and_true] at hst
            subst hst
            simpa [setFwd] using hcc
        · simp at h
      · rename_i y hg
        obtain ⟨rfl, hfw⟩ := getFwd_zero st0 hx f _ hg
        have hpos := live_pos hk (by simp [live, hfw])
        rw [← hI.count] at hpos
        have hoc : s.outClosed = false := by
          cases hc : s.outClosed with
          | false => rfl
          | true => have := hI.closedZero hc; omega
        simp only [hoc, Bool.false_eq_true, if_false] at h
        split at h
        · simp only [Option.some.injEq] at h; subst h
          have hset : s.streams.set 0 (setFwd st0 0 .recv) = [setFwd st0 0 .recv] := by rw [hs1]; rfl
          have hnw : s.wdone = false := by
            cases hw : s.wdone with
            | false => rfl
            | true => have := (hH.wdoneAll hw).2 st0 hs1; rw [hfw] at this; simp at this
          refine ⟨hH.c2s, hH.here, hH.nohold, hH.notended, ?_, ?_, hH.closingW, hH.stopW, hH.inclosedW, hH.wsW,
            ?_, hH.noerr, hH.wdoneIff, ?_, ?_⟩
          · rcases hH.shape with ⟨_, he⟩ | ⟨hi, _⟩
            · rw [he] at hs1; simp at hs1
            · exact Or.inr ⟨hi, _, hset⟩
          · intro he; simp only [hset] at he; simp at he
          · intro st hst
            simp only [hset, List.cons.injEq, and_true] at hst
            subst hst
            have := hH.order st0 hs1
            simp only [hfw, heldOf] at this
            simp [setFwd, heldOf, this]
          · intro hw; simp [hnw] at hw
          · intro st hst hd
            simp only [hset, List.cons.injEq, and_true] at hst
            subst hst
            simp [setFwd] at hd
        · simp at h
      · simp at h
  | fDrop k f =>
    simp only at h
    split at h
    · simp at h
    · rename_i st0 hk
      obtain ⟨hs1, rfl⟩ := hstream k st0 hk
      have hx := hI.noextra st0 (List.mem_of_getElem? hk)
      split at h
      · rename_i y hg
        obtain ⟨rfl, hfw⟩ := getFwd_zero st0 hx f _ hg
        split at h
        · rename_i hst
          simp only [Variant.fixed, Bool.true_and] at hst
          have := (hH.wdoneAll (hH.stopW hst)).2 st0 hs1
          rw [hfw] at this; simp at this
        · simp at h
      · simp at h
  | stop k =>
    simp only at h
    split at h
    · simp at h
    · rename_i st0 hk
      obtain ⟨hs1, rfl⟩ := hstream k st0 hk
      split at h
      · simp only [stopChan_fixed, Option.some.injEq] at h; subst h
        have hset : s.streams.set 0 { st0 with stopClosed := true } = [{ st0 with stopClosed := true }] := by
          rw [hs1]; rfl
        refine ⟨hH.c2s, hH.here, hH.nohold, hH.notended, ?_, ?_, hH.closingW, hH.stopW, hH.inclosedW, hH.wsW,
          ?_, hH.noerr, hH.wdoneIff, ?_, ?_⟩
        · rcases hH.shape with ⟨_, he⟩ | ⟨hi, _⟩
          · rw [he] at hs1; simp at hs1
          · exact Or.inr ⟨hi, _, hset⟩
        · intro he; simp only [hset] at he; simp at he
        · intro st hst
          simp only [hset, List.cons.injEq, and_true] at hst
          subst hst
          exact hH.order st0 hs1
        · intro hw
          refine ⟨(hH.wdoneAll hw).1, ?_⟩
          intro st hst
          simp only [hset, List.cons.injEq, and_true] at hst
          subst hst
          exact (hH.wdoneAll hw).2 st0 hs1
        · intro st hst hd
          simp only [hset, List.cons.injEq, and_true] at hst
          subst hst
          exact hH.doneClosed st0 hs1 hd
      · simp at h
  | wOut =>
    simp only at h
    split at h
    · simp at h
    · rename_i hnw
      have hnw' : s.wdone = false := by simpa using hnw
      split at h
      · rename_i k x rest hq
        simp only [Option.some.injEq] at h; subst h
        refine ⟨hH.c2s, hH.here, hH.nohold, hH.notended, hH.shape, ?_, hH.closingW, hH.stopW, hH.inclosedW, hH.wsW,
          ?_, ?_, ?_, ?_, hH.doneClosed⟩
        · intro he; have := (hH.pre he).2.1; simp [hq] at this
        · intro st hst
          have := hH.order st hst
          simp only [hq, List.map_cons] at this
          simp [dataOf_append, dataOf, this]
        · simp only [List.mem_append, List.mem_singleton, not_or]
          exact ⟨hH.noerr, by simp⟩
        · simp only [List.mem_append, List.mem_singleton]
          constructor
          · intro hw; simp [hnw'] at hw
          · intro hm
            rcases hm with hm | hm
            · exact hH.wdoneIff.mpr hm
            · simp at hm
        · intro hw; simp [hnw'] at hw
      · rename_i hq
        split at h
        · rename_i hoc
          simp only [writerLeave, Variant.fixed, if_true, Bool.false_eq_true, if_false, Option.some.injEq] at h
          subst h
          have hz := hI.closedZero hoc
          refine ⟨hH.c2s, hH.here, hH.nohold, hH.notended, hH.shape, ?_, fun _ => rfl, fun _ => rfl, fun _ => rfl,
            fun _ => rfl, ?_, ?_, ?_, ?_, hH.doneClosed⟩
          · intro he; have := (hH.pre he).2.2; simp [hoc] at this
          · intro st hst
            simp [dataOf_append, dataOf, hH.order st hst]
          · simp only [List.mem_append, List.mem_singleton, not_or]
            exact ⟨hH.noerr, by simp⟩
          · simp
          · intro _
            refine ⟨hq, ?_⟩
            intro st hst
            have hc := hI.count
            rw [hz, hst] at hc
            simp only [List.countP_cons, List.countP_nil, live] at hc
            cases hf : st.fwd <;> simp [hf] at hc ⊢
        · simp at h
  | wClosing =>
    simp only at h
    split at h
    · simp at h
    · rename_i hnw
      split at h
      · rename_i hc
        have := hH.closingW hc
        simp [this] at hnw
      · simp at h
  | wOutFail =>
    simp only at h
    split at h
    · simp at h
    · split at h
      · simp [hH.here] at h
      · simp at h

theorem hinv_run (caps : Caps) (s : St) (hI : Inv s) (hH : HInv s) (sched : List Act)
    (hp : ∀ a ∈ sched, passive a = true) : Inv (run .fixed caps s sched) ∧ HInv (run .fixed caps s sched) := by
  induction sched generalizing s with
  | nil => exact ⟨hI, hH⟩
  | cons a as ih =>
    simp only [run]
    have hpa := hp a (by simp)
    have hpas : ∀ b ∈ as, passive b = true := fun b hb => hp b (by simp [hb])
    split
    · rename_i s' hs
      exact ih s' (inv_step caps s s' a hI hs) (hinv_step caps s s' a hI hH hpa hs) hpas
    · exact ih s hI hH hpas

/-- **a client that only listens gets exactly what the service emitted, in order, then a normal
close** (the statement's first sentence, in the strongest form; `_partial` name kept: it is the
single-request case of `c15_full_fixed`, with equality instead of a prefix at every moment): for
every number of emitted values, every point at which the service closes its channel, every
interleaving and all channel capacities,
* at every moment the values emitted so far are: those already written to the client, then those
  queued in `outChan`, then the one the forwarder holds — nothing lost, nothing reordered;
* no error close is ever written;
* once the close frame is written it is a normal close, everything emitted was written before it,
  and the service had closed its channel. -/
theorem c15_happy_order_partial (caps : Caps) (sched : List Act) (hp : ∀ a ∈ sched, passive a = true) :
    let s := run .fixed caps (init .fresh) sched
    s.panic = none ∧
    (∀ st, s.streams = [st] → st.emitted = dataOf s.s2c ++ s.outq.map (·.2) ++ heldOf st.fwd) ∧
    Frame.closeError ∉ s.s2c ∧
    (Frame.closeNormal ∈ s.s2c → s.outq = [] ∧ ∃ st, s.streams = [st] ∧ st.emitted = dataOf s.s2c ∧ st.chanClosed = true) := by
  intro s
  obtain ⟨hI, hH⟩ := hinv_run caps _ (inv_init .fresh) hinv_init sched hp
  change Inv s at hI
  change HInv s at hH
  refine ⟨hI.nopanic, hH.order, hH.noerr, ?_⟩
  intro hc
  have hw := hH.wdoneIff.mpr hc
  obtain ⟨hq, hd⟩ := hH.wdoneAll hw
  rcases hH.shape with ⟨_, he⟩ | ⟨_, st, he⟩
  · have := (hH.pre he).1; simp [this] at hc
  · refine ⟨hq, st, he, ?_, hH.doneClosed st he (hd st he)⟩
    have := hH.order st he
    simpa [hq, hd st he, heldOf] using this

/-! ### the full statement, and why the code before the repairs did not satisfy it -/

/-- the values of channel `k` among the frames written / queued in `outChan` -/
def dataOfK (k : Nat) : List Frame → List Nat
  | [] => []
  | .data j v :: l => if j = k then v :: dataOfK k l else dataOfK k l
  | _ :: l => dataOfK k l

def outqK (k : Nat) (q : List (Nat × Nat)) : List Nat := (q.filter (fun p => p.1 == k)).map (·.2)

/-- actions of onet's own goroutines (everything but the client and the service) -/
def internal : Act → Bool
  | .cSend _ => false
  | .cLeave => false
  | .emit _ _ _ => false
  | .emitBad _ _ => false
  | .svcClose _ => false
  | _ => true

/-- The full property for the code variant `v`: for every first message, every schedule of client,
service and goroutines, all capacities —
1. the server does not crash;
2. while the client is there, per channel: what was written to the client, then what is queued, then
   what the forwarder holds is, in this order, a prefix of what the service emitted;
3. clean end: client still there, no bad message, a normal close written ⇒ every emitted value of
   every channel was written before it;
4. client gone and nothing left to do for onet's goroutines ⇒ reader, adapter and write loop have
   ended and every stream's stop channel is closed. -/
def C15_full (v : Variant) : Prop :=
  ∀ (caps : Caps) (m₀ : CMsg) (sched : List Act), 0 < caps.inCap →
    let s := run v caps (init m₀) sched
    s.panic = none ∧
    (s.cGone = false → ∀ (k : Nat) st, s.streams[k]? = some st →
      (dataOfK k s.s2c ++ outqK k s.outq ++ heldOf st.fwd) <+: st.emitted) ∧
    (s.cGone = false → s.ended = false → Frame.closeNormal ∈ s.s2c →
      ∀ (k : Nat) st, s.streams[k]? = some st → st.emitted = dataOfK k s.s2c) ∧
    (s.cGone = true → (∀ a, internal a = true → step v caps s a = none) →
      s.rpc = .done ∧ s.adone = true ∧ s.wdone = true ∧ ∀ st ∈ s.streams, st.stopClosed = true)

def caps10 : Caps := ⟨10, 100⟩

/-- (a) **an undecodable second client message on a stream kills the old server**: the adapter
closes `outChan` while the first request's forwarder is running; its next value is a send on a
closed channel … -/
theorem c15_old_undecodable_second_message_crashes :
    (run .old caps10 (init .fresh)
      [.aStep, .cSend .garbage, .rStep, .rStep, .aStep, .emit 0 0 7, .fStep 0 0]).panic
      = some .sendOnClosedOut := by decide

/-- … and if the service closes its channel instead, the forwarder's deferred close is a close of a
closed channel -/
theorem c15_old_undecodable_second_message_double_close :
    (run .old caps10 (init .fresh)
      [.aStep, .cSend .garbage, .rStep, .rStep, .aStep, .svcClose 0, .fStep 0 0]).panic
      = some .closeOfClosedOut := by decide

/-- (b) **a second valid request whose stream ends first**: its forwarder closes the shared
`outChan`; the client is sent a normal close although the first stream goes on (cut short), and the
first stream's next value is a send on a closed channel -/
theorem c15_old_second_stream_ends_first :
    let s := run .old caps10 (init .fresh)
      [.aStep, .cSend .fresh, .rStep, .rStep, .aStep, .emit 0 0 1, .svcClose 1, .fStep 1 0, .wOut]
    s.s2c = [.closeNormal] ∧ (s.streams[0]?.map (·.emitted)) = some [1] ∧
    (run .old caps10 s [.fStep 0 0]).panic = some .sendOnClosedOut := by decide

/-- (c) **the reader forwards into a just-closed `clientInputs`**: it has read a further client
message when the service ends the stream; the write loop closes `clientInputs` on its way out -/
theorem c15_old_reader_races_close :
    (run .old caps10 (init .fresh)
      [.aStep, .cSend .fresh, .rStep, .svcClose 0, .fStep 0 0, .wOut, .rStep]).panic
      = some .sendOnClosedInputs := by decide

/-- (d) found while modelling: **a channel handed out for two requests gets two forwarders and its
values can overtake each other** (the service emitted 1 then 2, the client receives 2 then 1) -/
theorem c15_old_shared_channel_reorders :
    let s := run .old caps10 (init .fresh)
      [.aStep, .cSend (.reuse 0), .rStep, .rStep, .aStep, .emit 0 0 1, .emit 0 1 2, .fStep 0 1, .fStep 0 0,
       .wOut, .wOut]
    s.panic = none ∧ (s.streams[0]?.map (·.emitted)) = some [1, 2] ∧ s.s2c = [.data 0 2, .data 0 1] := by
  decide

/-- each repair is needed on its own (the other two in place) -/
theorem c15_each_repair_needed :
    (run ⟨false, true, true, true⟩ caps10 (init .fresh)
      [.aStep, .cSend .garbage, .rStep, .rStep, .aStep, .emit 0 0 7, .fStep 0 0]).panic = some .sendOnClosedOut ∧
    (run ⟨true, false, true, true⟩ caps10 (init .fresh)
      [.aStep, .cSend .fresh, .rStep, .svcClose 0, .fStep 0 0, .wOut, .rStep]).panic = some .sendOnClosedInputs ∧
    (run ⟨true, true, false, true⟩ caps10 (init .fresh)
      [.aStep, .cSend (.reuse 0), .rStep, .rStep, .aStep, .emit 0 0 1, .emit 0 1 2, .fStep 0 1, .fStep 0 0,
       .wOut, .wOut]).s2c = [.data 0 2, .data 0 1] := by decide

/-- **one forwarder per distinct channel, also when a channel is revisited**: the client asks for
channel 0, channel 1, then channel 0 again.  If that third request starts a forwarder of its own
(here: no `dedupe` at all; the same happens when only the previous request's channel is remembered),
two values of channel 0 overtake each other; with the code as it is the second forwarder does not
exist, the same schedule delivers in order. -/
theorem c15_revisited_channel_needs_one_forwarder :
    (run ⟨true, true, false, true⟩ caps10 (init .fresh)
      [.aStep, .cSend .fresh, .rStep, .rStep, .aStep, .cSend (.reuse 0), .rStep, .rStep, .aStep,
       .emit 0 0 1, .emit 0 1 2, .fStep 0 1, .fStep 0 0, .wOut, .wOut]).s2c = [.data 0 2, .data 0 1] ∧
    (run .fixed caps10 (init .fresh)
      [.aStep, .cSend .fresh, .rStep, .rStep, .aStep, .cSend (.reuse 0), .rStep, .rStep, .aStep,
       .emit 0 0 1, .emit 0 1 2, .fStep 0 1, .fStep 0 0, .wOut, .wOut]).s2c = [.data 0 1] ∧
    ((run .fixed caps10 (init .fresh)
      [.aStep, .cSend .fresh, .rStep, .rStep, .aStep, .cSend (.reuse 0), .rStep, .rStep, .aStep]).streams.map
        (fun st => (st.fwd, st.extra))) = [(.recv, []), (.recv, [])] := by decide

/-- **the full statement fails for the code before the repairs** (witness (a)) -/
theorem c15_full_fails_old : ¬ C15_full .old := by
  intro h
  have := (h caps10 .fresh [.aStep, .cSend .garbage, .rStep, .rStep, .aStep, .emit 0 0 7, .fStep 0 0] (by decide)).1
  rw [c15_old_undecodable_second_message_crashes] at this
  cases this

/-- the same schedules on the code as it is: no crash, the stream ends, the services are stopped -/
example :
    let s := run .fixed caps10 (init .fresh)
      [.aStep, .cSend .garbage, .rStep, .rStep, .aStep, .emit 0 0 7, .fStep 0 0, .svcClose 0, .fStep 0 0,
       .wOut, .wOut, .stop 0, .rStep, .aStep]
    s.panic = none ∧ s.s2c = [.data 0 7, .closeNormal] ∧ s.adone = true ∧
    (s.streams.map (·.stopClosed)) = [true] := by decide

example :
    (run .fixed caps10 (init .fresh)
      [.aStep, .cSend .fresh, .rStep, .svcClose 0, .fStep 0 0, .wOut, .rStep, .rLeave]).panic = none := by decide

/-- non-vacuity of `c15_client_leaves`: a reachable state in which the client is gone and nothing
is left to do -/
example :
    let s := run .fixed caps10 (init .fresh)
      [.aStep, .emit 0 0 5, .fStep 0 0, .cLeave, .rStep, .aStep, .wClosing, .stop 0, .svcClose 0, .fStep 0 0]
    s.cGone = true ∧ s.rpc = .done ∧ s.adone = true ∧ s.wdone = true ∧
    (s.streams.map (fun st => (st.stopClosed, st.fwd))) = [(true, .done)] := by decide

/-- non-vacuity of `c15_happy_order_partial`: three values, delivered in order, normal close -/
example :
    (run .fixed caps10 (init .fresh)
      [.aStep, .emit 0 0 1, .fStep 0 0, .emit 0 0 2, .wOut, .fStep 0 0, .emit 0 0 3, .fStep 0 0, .svcClose 0,
       .wOut, .fStep 0 0, .wOut, .wOut]).s2c = [.data 0 1, .data 0 2, .data 0 3, .closeNormal] := by decide

/-! ### order and completeness with several channels and further client messages (code as it is) -/

theorem dataOfK_append (k : Nat) (l₁ l₂ : List Frame) : dataOfK k (l₁ ++ l₂) = dataOfK k l₁ ++ dataOfK k l₂ := by
  induction l₁ with
  | nil => rfl
  | cons f l ih =>
    cases f with
    | data j v => by_cases h : j = k <;> simp [dataOfK, h, ih]
    | closeNormal => simp [dataOfK, ih]
    | closeError => simp [dataOfK, ih]

theorem outqK_append (k : Nat) (q₁ q₂ : List (Nat × Nat)) : outqK k (q₁ ++ q₂) = outqK k q₁ ++ outqK k q₂ := by
  simp [outqK, List.filter_append]

theorem outqK_cons_same (k x : Nat) (q : List (Nat × Nat)) : outqK k ((k, x) :: q) = x :: outqK k q := by
  simp [outqK]

theorem outqK_cons_other {k j : Nat} (x : Nat) (q : List (Nat × Nat)) (h : j ≠ k) : outqK k ((j, x) :: q) = outqK k q := by
  simp [outqK, h]

theorem outqK_single_same (k x : Nat) : outqK k [(k, x)] = [x] := by simp [outqK]
theorem outqK_single_other {k j : Nat} (x : Nat) (h : j ≠ k) : outqK k [(j, x)] = [] := by simp [outqK, h]

theorem dataOfK_single_same (k x : Nat) : dataOfK k [.data k x] = [x] := by simp [dataOfK]
theorem dataOfK_single_other {k j : Nat} (x : Nat) (h : j ≠ k) : dataOfK k [.data j x] = [] := by simp [dataOfK, h]

theorem outqK_none {n : Nat} {q : List (Nat × Nat)} (h : ∀ p ∈ q, p.1 < n) : outqK n q = [] := by
  simp only [outqK, List.map_eq_nil_iff, List.filter_eq_nil_iff]
  intro p hp hc
  have := h p hp
  simp at hc
  omega

theorem dataOfK_none {n : Nat} {l : List Frame} (h : ∀ k v, Frame.data k v ∈ l → k < n) : dataOfK n l = [] := by
  induction l with
  | nil => rfl
  | cons f l ih =>
    have ih' := ih (fun k v hm => h k v (List.mem_cons_of_mem _ hm))
    cases f with
    | data j v =>
      have := h j v (by simp)
      have hne : j ≠ n := by omega
      simp [dataOfK, hne, ih']
    | closeNormal => simp [dataOfK, ih']
    | closeError => simp [dataOfK, ih']

/-- per channel: exact accounting while the forwarder runs, a prefix once it has ended -/
def OrdK (s2c : List Frame) (outq : List (Nat × Nat)) (k : Nat) (st : Stream) : Prop :=
  (st.fwd = .done → (dataOfK k s2c ++ outqK k outq) <+: st.emitted) ∧
  (st.fwd ≠ .done → st.emitted = dataOfK k s2c ++ outqK k outq ++ heldOf st.fwd)

def ExactK (s2c : List Frame) (outq : List (Nat × Nat)) (k : Nat) (st : Stream) : Prop :=
  st.emitted = dataOfK k s2c ++ outqK k outq ++ heldOf st.fwd

structure GInv (s : St) : Prop where
  tagsQ : ∀ p ∈ s.outq, p.1 < s.streams.length
  tagsF : ∀ k v, Frame.data k v ∈ s.s2c → k < s.streams.length
  wsW : s.wsClosed = true → s.wdone = true
  cnW : Frame.closeNormal ∈ s.s2c → s.wdone = true
  closingW : s.cGone = false → s.closing = true → s.wdone = true
  inclosedW : s.cGone = false → s.inClosed = true → s.wdone = true
  stopW : s.cGone = false → s.ended = false → s.stopAll = true → s.wdone = true
  wdoneQ : s.cGone = false → s.wdone = true → s.outClosed = true ∧ s.outq = []
  ord : s.cGone = false → ∀ (k : Nat) st, s.streams[k]? = some st → OrdK s.s2c s.outq k st
  exact : s.cGone = false → s.ended = false → ∀ (k : Nat) st, s.streams[k]? = some st → ExactK s.s2c s.outq k st

theorem ginv_init (m : CMsg) : GInv (init m) := by
  constructor <;> simp [init]

theorem all_done_of_closed {s : St} (hI : Inv s) (hc : s.outClosed = true) :
    ∀ st ∈ s.streams, st.fwd = .done := by
  intro st hst
  have hz := hI.closedZero hc
  have hcnt := hI.count
  rw [hz] at hcnt
  have := (List.countP_eq_zero.mp hcnt.symm) st hst
  simpa [live] using this

theorem get_set_cases {l : List Stream} {k k' : Nat} {st st' : Stream} (h : (l.set k st')[k']? = some st) :
    (k = k' ∧ st = st') ∨ (k ≠ k' ∧ l[k']? = some st) := getElem?_set_cases l k k' st' st h

theorem get_append_cases {l : List Stream} {n st : Stream} {k' : Nat} (h : (l ++ [n])[k']? = some st) :
    l[k']? = some st ∨ (k' = l.length ∧ st = n) := by
  by_cases hk : k' < l.length
  · left; rw [List.getElem?_append_left hk] at h; exact h
  · right
    rw [List.getElem?_append_right (by omega)] at h
    have : k' - l.length = 0 := by
      cases hd : k' - l.length with
      | zero => rfl
      | succ n' => rw [hd] at h; simp at h
    rw [this] at h
    simp at h
    exact ⟨by omega, h.symm⟩

/-- a step that leaves queue, frames, channels' forwarders and emitted values alone -/
theorem ginv_same {s s' : St} (hG : GInv s)
    (h1 : s'.outq = s.outq) (h2 : s'.s2c = s.s2c) (h3 : s'.streams = s.streams) (h4 : s'.cGone = s.cGone)
    (h5 : s'.wsClosed = s.wsClosed) (h6 : s'.wdone = s.wdone) (h7 : s.outClosed = true → s'.outClosed = true)
    (hcl : s'.cGone = false → s'.closing = true → s'.wdone = true)
    (hin : s'.cGone = false → s'.inClosed = true → s'.wdone = true)
    (hst : s'.cGone = false → s'.ended = false → s'.stopAll = true → s'.wdone = true)
    (hen : s'.ended = false → s.ended = false) : GInv s' := by
  refine ⟨?_, ?_, ?_, ?_, hcl, hin, hst, ?_, ?_, ?_⟩
  · rw [h1, h3]; exact hG.tagsQ
  · rw [h2, h3]; exact hG.tagsF
  · rw [h5, h6]; exact hG.wsW
  · rw [h2, h6]; exact hG.cnW
  · rw [h4, h6, h1]; intro hc hw; exact ⟨h7 (hG.wdoneQ hc hw).1, (hG.wdoneQ hc hw).2⟩
  · rw [h4, h3, h2, h1]; exact hG.ord
  · intro hc he; rw [h3, h2, h1]; exact hG.exact (h4 ▸ hc) (hen he)

/-- a step that replaces channel `k` by `st'` (same queue and frames) -/
theorem ginv_set {s : St} (hG : GInv s) {k : Nat} {st st' : Stream} (hk : s.streams[k]? = some st)
    (s' : St) (h1 : s'.outq = s.outq) (h2 : s'.s2c = s.s2c) (h3 : s'.streams = s.streams.set k st')
    (h4 : s'.cGone = s.cGone) (h5 : s'.wsClosed = s.wsClosed) (h6 : s'.wdone = s.wdone)
    (h7' : s.outClosed = true → s'.outClosed = true)
    (h8 : s'.closing = s.closing) (h9 : s'.inClosed = s.inClosed) (h10 : s'.stopAll = s.stopAll)
    (h11 : s'.ended = s.ended)
    (ho : s.cGone = false → OrdK s.s2c s.outq k st → OrdK s.s2c s.outq k st')
    (he : s.cGone = false → s.ended = false → ExactK s.s2c s.outq k st → ExactK s.s2c s.outq k st') : GInv s' := by
  have hlen : (s.streams.set k st').length = s.streams.length := by simp
  refine ⟨?_, ?_, ?_, ?_, ?_, ?_, ?_, ?_, ?_, ?_⟩
  · rw [h1, h3, hlen]; exact hG.tagsQ
  · rw [h2, h3, hlen]; exact hG.tagsF
  · rw [h5, h6]; exact hG.wsW
  · rw [h2, h6]; exact hG.cnW
  · rw [h4, h8, h6]; exact hG.closingW
  · rw [h4, h9, h6]; exact hG.inclosedW
  · rw [h4, h11, h10, h6]; exact hG.stopW
  · rw [h4, h6, h1]
    intro hc hw
    exact ⟨h7' (hG.wdoneQ hc hw).1, (hG.wdoneQ hc hw).2⟩
  · rw [h4, h3, h2, h1]
    intro hc k' u hu
    rcases get_set_cases hu with ⟨rfl, rfl⟩ | ⟨_, hu⟩
    · exact ho hc (hG.ord hc k st hk)
    · exact hG.ord hc k' u hu
  · rw [h4, h11, h3, h2, h1]
    intro hc hen k' u hu
    rcases get_set_cases hu with ⟨rfl, rfl⟩ | ⟨_, hu⟩
    · exact he hc hen (hG.exact hc hen k st hk)
    · exact hG.exact hc hen k' u hu

theorem dataOfK_snoc_close (k : Nat) (l : List Frame) (f : Frame) (hf : f = .closeNormal ∨ f = .closeError) :
    dataOfK k (l ++ [f]) = dataOfK k l := by
  rw [dataOfK_append]
  rcases hf with rfl | rfl <;> simp [dataOfK]

theorem mem_snoc_data {l : List Frame} {f : Frame} (hf : f = .closeNormal ∨ f = .closeError) {k v : Nat}
    (h : Frame.data k v ∈ l ++ [f]) : Frame.data k v ∈ l := by
  simp only [List.mem_append, List.mem_singleton] at h
  rcases h with h | h
  · exact h
  · rcases hf with rfl | rfl <;> cases h

theorem ginv_step (caps : Caps) (s s' : St) (a : Act) (hI : Inv s) (hJ : Inv2 s) (hG : GInv s)
    (h : step .fixed caps s a = some s') : GInv s' := by
  have hps : s.panic.isSome = false := by simp [hI.nopanic]
  unfold step at h
  simp only [hps, Bool.false_eq_true, if_false] at h
  cases a with
  | cSend m =>
    simp only at h
    split at h
    · simp at h
    · simp only [Option.some.injEq] at h; subst h
      exact ginv_same hG rfl rfl rfl rfl rfl rfl id hG.closingW hG.inclosedW hG.stopW id
  | cLeave =>
    simp only at h
    split at h
    · simp at h
    · simp only [Option.some.injEq] at h; subst h
      exact ⟨hG.tagsQ, hG.tagsF, hG.wsW, hG.cnW, by simp, by simp, by simp, by simp, by simp, by simp⟩
  | rStep =>
    simp only at h
    split at h
    · split at h
      · rename_i hws
        simp only [readerExit, Variant.fixed, if_true, Option.some.injEq] at h; subst h
        have hw := hG.wsW hws
        exact ginv_same hG rfl rfl rfl rfl rfl rfl id (fun _ _ => hw) (fun _ _ => hw) hG.stopW id
      · split at h
        · simp only [Option.some.injEq] at h; subst h
          exact ginv_same hG rfl rfl rfl rfl rfl rfl id hG.closingW hG.inclosedW hG.stopW id
        · split at h
          · rename_i hg
            simp only [readerExit, Variant.fixed, if_true, Option.some.injEq] at h; subst h
            exact ginv_same hG rfl rfl rfl rfl rfl rfl id (fun hc => by simp [hg] at hc)
              (fun hc => by simp [hg] at hc) hG.stopW id
          · simp at h
    · rename_i m hr
      have hnc : s.inClosed = false := by
        cases hc : s.inClosed with
        | false => rfl
        | true => have := hI.rdone.mp hc; rw [hr] at this; simp at this
      simp only [hnc, Bool.false_eq_true, if_false] at h
      split at h
      · simp only [Option.some.injEq] at h; subst h
        exact ginv_same hG rfl rfl rfl rfl rfl rfl id hG.closingW
          (fun hc hi => by simp at hi) hG.stopW id
      · simp at h
    · simp at h
  | rLeave =>
    simp only at h
    split at h
    · split at h
      · rename_i hl
        simp only [Variant.fixed, Bool.true_and] at hl
        simp only [readerExit, Variant.fixed, if_true, Option.some.injEq] at h; subst h
        have hw := hJ.leaving hl
        exact ginv_same hG rfl rfl rfl rfl rfl rfl id hG.closingW (fun _ _ => hw) hG.stopW id
      · simp at h
    · simp at h
  | aStep =>
    simp only at h
    split at h
    · simp at h
    · split at h
      · split at h
        · rename_i hc
          simp only [Option.some.injEq] at h; subst h
          exact ginv_same hG rfl rfl rfl rfl rfl rfl id hG.closingW hG.inclosedW
            (fun hg _ _ => hG.inclosedW hg hc) id
        · simp at h
      · rename_i m rest hq
        split at h
        · simp only [Option.some.injEq] at h; subst h
          exact ginv_same hG rfl rfl rfl rfl rfl rfl id hG.closingW hG.inclosedW hG.stopW id
        · have hfail : ∀ c, GInv (adapterFail .fixed { s with inq := rest, calls := c }) := by
            intro c
            simp only [adapterFail, Variant.fixed, if_true]
            exact ginv_same hG rfl rfl rfl rfl rfl rfl (fun hc => by simp [hc]) hG.closingW hG.inclosedW
              (fun _ he => by simp at he) (fun he => by simp at he)
          have happ : ∀ (s₁ : St) (n : Stream), s₁.outq = s.outq → s₁.s2c = s.s2c → s₁.streams = s.streams ++ [n] →
              s₁.cGone = s.cGone → s₁.wsClosed = s.wsClosed → s₁.wdone = s.wdone → s₁.outClosed = s.outClosed →
              s₁.closing = s.closing → s₁.inClosed = s.inClosed → s₁.stopAll = s.stopAll → s₁.ended = s.ended →
              n.emitted = [] → heldOf n.fwd = [] → GInv s₁ := by
            intro s₁ n h1 h2 h3 h4 h5 h6 h7 h8 h9 h10 h11 hne hnh
            have hnew : ∀ (k' : Nat) u, (s.streams ++ [n])[k']? = some u →
                s.streams[k']? = some u ∨ (k' = s.streams.length ∧ u = n) := fun k' u hu => get_append_cases hu
            have hD : dataOfK s.streams.length s.s2c = [] := dataOfK_none hG.tagsF
            have hQ : outqK s.streams.length s.outq = [] := outqK_none hG.tagsQ
            refine ⟨?_, ?_, ?_, ?_, ?_, ?_, ?_, ?_, ?_, ?_⟩
            · rw [h1, h3]; intro p hp; have := hG.tagsQ p hp; simp; omega
            · rw [h2, h3]; intro k v hm; have := hG.tagsF k v hm; simp; omega
            · rw [h5, h6]; exact hG.wsW
            · rw [h2, h6]; exact hG.cnW
            · rw [h4, h8, h6]; exact hG.closingW
            · rw [h4, h9, h6]; exact hG.inclosedW
            · rw [h4, h11, h10, h6]; exact hG.stopW
            · rw [h4, h6, h7, h1]; exact hG.wdoneQ
            · rw [h4, h3, h2, h1]
              intro hc k' u hu
              rcases hnew k' u hu with hu | ⟨rfl, rfl⟩
              · exact hG.ord hc k' u hu
              · refine ⟨fun _ => ?_, fun _ => ?_⟩
                · rw [hD, hQ, hne]; exact List.prefix_refl _
                · rw [hD, hQ, hne, hnh]; rfl
            · rw [h4, h11, h3, h2, h1]
              intro hc hen k' u hu
              rcases hnew k' u hu with hu | ⟨rfl, rfl⟩
              · exact hG.exact hc hen k' u hu
              · simp only [ExactK]; rw [hD, hQ, hne, hnh]; rfl
          have hnewS : ∀ c (t : Stream), t.emitted = [] → heldOf t.fwd = [] →
              GInv (newStream .fixed { s with inq := rest, calls := c } t) := by
            intro c t ht1 ht2
            simp only [newStream, Variant.fixed, if_true]
            split
            · exact happ _ { t with refused := true, fwd := .done } rfl rfl rfl rfl rfl rfl rfl rfl rfl rfl rfl ht1 rfl
            · exact happ _ t rfl rfl rfl rfl rfl rfl rfl rfl rfl rfl rfl ht1 ht2
          have hnil : ∀ c, GInv (nilOut .fixed { s with inq := rest, calls := c }) := by
            intro c
            let n : Stream := { refused := true, fwd := .done, noOut := true }
            have h1 : GInv { s with inq := rest, calls := c, streams := s.streams ++ [n] } :=
              happ _ n rfl rfl rfl rfl rfl rfl rfl rfl rfl rfl rfl rfl rfl
            simp only [nilOut, adapterFail, Variant.fixed, if_true]
            exact ginv_same h1 rfl rfl rfl rfl rfl rfl (fun hc => by simp; exact Or.inl hc) h1.closingW h1.inclosedW
              (fun _ he => by simp at he) (fun he => by simp at he)
          cases m with
          | garbage => simp only [Option.some.injEq] at h; subst h; exact hfail s.calls
          | failing => simp only [Option.some.injEq] at h; subst h; exact hfail (s.calls + 1)
          | fresh => simp only [Option.some.injEq] at h; subst h; exact hnewS (s.calls + 1) {} rfl rfl
          | nostop => simp only [Option.some.injEq] at h; subst h; exact hnewS (s.calls + 1) _ rfl rfl
          | noout => simp only [Option.some.injEq] at h; subst h; exact hnil (s.calls + 1)
          | reuse j =>
            simp only at h
            split at h
            · simp only [Option.some.injEq] at h; subst h; exact hnewS (s.calls + 1) {} rfl rfl
            · simp only [Variant.fixed, if_true, Option.some.injEq] at h; subst h
              exact ginv_same hG rfl rfl rfl rfl rfl rfl id hG.closingW hG.inclosedW hG.stopW id
  | emit k f x =>
    simp only at h
    split at h
    · simp at h
    · rename_i st hk
      split at h
      · simp at h
      · split at h
        · rename_i hg
          have hx := hI.noextra st (List.mem_of_getElem? hk)
          obtain ⟨rfl, hfw⟩ := getFwd_zero st hx f _ hg
          simp only [Option.some.injEq] at h; subst h
          refine ginv_set hG hk _ rfl rfl rfl rfl rfl rfl id rfl rfl rfl rfl ?_ ?_
          · intro _ ho
            have := ho.2 (by simp [hfw])
            simp only [hfw, heldOf, List.append_nil] at this
            exact ⟨fun hd => by simp [setFwd] at hd, fun _ => by simp [setFwd, heldOf, this]⟩
          · intro _ _ he
            simp only [ExactK, hfw, heldOf, List.append_nil] at he
            simp [ExactK, setFwd, heldOf, he]
        · simp at h
  | emitBad k f =>
    simp only at h
    split at h
    · simp at h
    · rename_i st hk
      have hx := hI.noextra st (List.mem_of_getElem? hk)
      split at h
      · simp at h
      · split at h
        · rename_i hg
          obtain ⟨rfl, hfw⟩ := getFwd_zero st hx f _ hg
          simp only [fwdExit, Variant.fixed, if_true, Option.some.injEq] at h; subst h
          refine ginv_set hG hk _ rfl rfl rfl rfl rfl rfl (fun hc => by simp [hc]) rfl rfl rfl rfl ?_ ?_
          · intro _ ho
            have := ho.2 (by simp [hfw])
            simp only [hfw, heldOf, List.append_nil] at this
            exact ⟨fun _ => by simp [setFwd, this], fun hd => by simp [setFwd] at hd⟩
          · intro _ _ he
            simp only [ExactK, hfw, heldOf, List.append_nil] at he
            simp [ExactK, setFwd, heldOf, he]
        · simp at h
  | svcClose k =>
    simp only at h
    split at h
    · simp at h
    · rename_i st hk
      split at h
      · simp at h
      · simp only [Option.some.injEq] at h; subst h
        exact ginv_set hG hk _ rfl rfl rfl rfl rfl rfl id rfl rfl rfl rfl (fun _ ho => ho) (fun _ _ he => he)
  | fStep k f =>
    simp only at h
    split at h
    · simp at h
    · rename_i st hk
      have hx := hI.noextra st (List.mem_of_getElem? hk)
      split at h
      · rename_i hg
        obtain ⟨rfl, hfw⟩ := getFwd_zero st hx f _ hg
        split at h
        · simp only [fwdExit, Variant.fixed, if_true, Option.some.injEq] at h; subst h
          refine ginv_set hG hk _ rfl rfl rfl rfl rfl rfl (fun hc => by simp [hc]) rfl rfl rfl rfl ?_ ?_
          · intro _ ho
            have := ho.2 (by simp [hfw])
            simp only [hfw, heldOf, List.append_nil] at this
            exact ⟨fun _ => by simp [setFwd, this], fun hd => by simp [setFwd] at hd⟩
          · intro _ _ he
            simp only [ExactK, hfw, heldOf, List.append_nil] at he
            simp [ExactK, setFwd, heldOf, he]
        · simp at h
      · rename_i y hg
        obtain ⟨rfl, hfw⟩ := getFwd_zero st hx f _ hg
        have hpos := live_pos hk (by simp [live, hfw])
        rw [← hI.count] at hpos
        have hoc : s.outClosed = false := by
          cases hc : s.outClosed with
          | false => rfl
          | true => have := hI.closedZero hc; omega
        simp only [hoc, Bool.false_eq_true, if_false] at h
        split at h
        · simp only [Option.some.injEq] at h; subst h
          have hklt : k < s.streams.length := (List.getElem?_eq_some_iff.mp hk).1
          refine ⟨?_, ?_, hG.wsW, hG.cnW, hG.closingW, hG.inclosedW, hG.stopW, ?_, ?_, ?_⟩
          · intro p hp
            simp only [List.mem_append, List.mem_singleton] at hp
            simp only [List.length_set]
            rcases hp with hp | rfl
            · exact hG.tagsQ p hp
            · exact hklt
          · simp only [List.length_set]; exact hG.tagsF
          · intro hc hw
            have := (hG.wdoneQ hc hw).1
            simp [hoc] at this
          · intro hc k' u hu
            rcases get_set_cases hu with ⟨rfl, rfl⟩ | ⟨hne, hu⟩
            · have := (hG.ord hc k st hk).2 (by simp [hfw])
              simp only [hfw, heldOf] at this
              refine ⟨fun hd => by simp [setFwd] at hd, fun _ => ?_⟩
              simp [setFwd, heldOf, outqK_append, outqK_single_same, this]
            · have := hG.ord hc k' u hu
              simpa [OrdK, outqK_append, outqK_single_other y hne] using this
          · intro hc hen k' u hu
            rcases get_set_cases hu with ⟨rfl, rfl⟩ | ⟨hne, hu⟩
            · have := hG.exact hc hen k st hk
              simp only [ExactK, hfw, heldOf] at this
              simp [ExactK, setFwd, heldOf, outqK_append, outqK_single_same, this]
            · have := hG.exact hc hen k' u hu
              simpa [ExactK, outqK_append, outqK_single_other y hne] using this
        · simp at h
      · simp at h
  | fDrop k f =>
    simp only at h
    split at h
    · simp at h
    · rename_i st hk
      have hx := hI.noextra st (List.mem_of_getElem? hk)
      split at h
      · rename_i y hg
        obtain ⟨rfl, hfw⟩ := getFwd_zero st hx f _ hg
        split at h
        · rename_i hsa
          simp only [Variant.fixed, Bool.true_and] at hsa
          simp only [fwdExit, Variant.fixed, if_true, Option.some.injEq] at h; subst h
          refine ginv_set hG hk _ rfl rfl rfl rfl rfl rfl (fun hc => by simp [hc]) rfl rfl rfl rfl ?_ ?_
          · intro _ ho
            have := ho.2 (by simp [hfw])
            simp only [hfw, heldOf] at this
            exact ⟨fun _ => by simp [setFwd, this], fun hd => by simp [setFwd] at hd⟩
          · intro hc hen _
            exfalso
            have hw := hG.stopW hc hen hsa
            have hcl := (hG.wdoneQ hc hw).1
            have := all_done_of_closed hI hcl st (List.mem_of_getElem? hk)
            rw [hfw] at this; simp at this
        · simp at h
      · simp at h
  | stop k =>
    simp only at h
    split at h
    · simp at h
    · rename_i st hk
      split at h
      · simp only [stopChan_fixed, Option.some.injEq] at h; subst h
        exact ginv_set hG hk _ rfl rfl rfl rfl rfl rfl id rfl rfl rfl rfl (fun _ ho => ho) (fun _ _ he => he)
      · simp at h
  | wOut =>
    simp only at h
    split at h
    · simp at h
    · rename_i hnw
      have hnw' : s.wdone = false := by simpa using hnw
      split at h
      · rename_i k x rest hq
        simp only [Option.some.injEq] at h; subst h
        have hkq : k < s.streams.length := hG.tagsQ (k, x) (by simp [hq])
        refine ⟨?_, ?_, hG.wsW, ?_, hG.closingW, hG.inclosedW, hG.stopW, ?_, ?_, ?_⟩
        · intro p hp; exact hG.tagsQ p (by simp [hq, hp])
        · intro j v hm
          simp only [List.mem_append, List.mem_singleton] at hm
          rcases hm with hm | hm
          · exact hG.tagsF j v hm
          · cases hm; exact hkq
        · intro hm
          simp only [List.mem_append, List.mem_singleton] at hm
          rcases hm with hm | hm
          · exact hG.cnW hm
          · cases hm
        · intro _ hw; simp [hnw'] at hw
        · intro hc k' u hu
          have := hG.ord hc k' u hu
          simp only [OrdK, hq] at this
          by_cases hkk : k = k'
          · subst hkk
            simpa [OrdK, dataOfK_append, dataOfK_single_same, outqK_cons_same] using this
          · simpa [OrdK, dataOfK_append, dataOfK_single_other x hkk, outqK_cons_other x rest hkk] using this
        · intro hc hen k' u hu
          have := hG.exact hc hen k' u hu
          simp only [ExactK, hq] at this
          by_cases hkk : k = k'
          · subst hkk
            simpa [ExactK, dataOfK_append, dataOfK_single_same, outqK_cons_same] using this
          · simpa [ExactK, dataOfK_append, dataOfK_single_other x hkk, outqK_cons_other x rest hkk] using this
      · rename_i hq
        split at h
        · rename_i hoc
          simp only [writerLeave, Variant.fixed, if_true, Bool.false_eq_true, if_false, Option.some.injEq] at h
          subst h
          refine ⟨hG.tagsQ, fun k v hm => hG.tagsF k v (mem_snoc_data (Or.inl rfl) hm), fun _ => rfl, fun _ => rfl,
            fun _ _ => rfl, fun _ _ => rfl, fun _ _ _ => rfl, fun _ _ => ⟨hoc, hq⟩, ?_, ?_⟩
          · intro hc k' u hu
            have := hG.ord hc k' u hu
            simpa [OrdK, dataOfK_snoc_close k' s.s2c .closeNormal (Or.inl rfl)] using this
          · intro hc hen k' u hu
            have := hG.exact hc hen k' u hu
            simpa [ExactK, dataOfK_snoc_close k' s.s2c .closeNormal (Or.inl rfl)] using this
        · simp at h
  | wClosing =>
    simp only at h
    split at h
    · simp at h
    · rename_i hnw
      have hnw' : s.wdone = false := by simpa using hnw
      split at h
      · rename_i hcl
        simp only [writerLeave, Variant.fixed, if_true, Option.some.injEq] at h
        subst h
        refine ⟨hG.tagsQ, fun k v hm => hG.tagsF k v (mem_snoc_data (Or.inr rfl) hm), fun _ => rfl, fun _ => rfl,
          fun _ _ => rfl, fun _ _ => rfl, fun _ _ _ => rfl, ?_, ?_, ?_⟩
        · intro hc _
          have := hG.closingW hc hcl
          simp [hnw'] at this
        · intro hc k' u hu
          have := hG.ord hc k' u hu
          simpa [OrdK, dataOfK_snoc_close k' s.s2c .closeError (Or.inr rfl)] using this
        · intro hc hen k' u hu
          have := hG.exact hc hen k' u hu
          simpa [ExactK, dataOfK_snoc_close k' s.s2c .closeError (Or.inr rfl)] using this
      · simp at h
  | wOutFail =>
    simp only at h
    split at h
    · simp at h
    · split at h
      · rename_i p rest hq
        split at h
        · rename_i hg
          simp only [writerLeave, Variant.fixed, if_true, Bool.false_eq_true, if_false, Option.some.injEq] at h
          subst h
          refine ⟨fun p hp => hG.tagsQ p (by simp [hq, hp]),
            fun k v hm => hG.tagsF k v (mem_snoc_data (Or.inr rfl) hm), fun _ => rfl, fun _ => rfl,
            fun _ _ => rfl, fun _ _ => rfl, fun _ _ _ => rfl, ?_, ?_, ?_⟩
          · intro hc; simp [hg] at hc
          · intro hc; simp [hg] at hc
          · intro hc; simp [hg] at hc
        · simp at h
      · simp at h

theorem all_run (caps : Caps) (s : St) (hI : Inv s) (hJ : Inv2 s) (hG : GInv s) (sched : List Act) :
    Inv (run .fixed caps s sched) ∧ Inv2 (run .fixed caps s sched) ∧ GInv (run .fixed caps s sched) := by
  induction sched generalizing s with
  | nil => exact ⟨hI, hJ, hG⟩
  | cons a as ih =>
    simp only [run]
    split
    · rename_i s' hs
      exact ih s' (inv_step caps s s' a hI hs) (inv2_step caps s s' a hI hJ hs) (ginv_step caps s s' a hI hJ hG hs)
    · exact ih s hI hJ hG

/-- **per channel, in emission order, nothing invented** (any number of channels, any further
client messages, any schedule): while the client is there, what was written to it for channel `k`,
then what is queued, then what the forwarder holds is a prefix of what the service emitted on `k` -/
theorem c15_order_per_channel (caps : Caps) (m₀ : CMsg) (sched : List Act) :
    let s := run .fixed caps (init m₀) sched
    s.cGone = false → ∀ (k : Nat) st, s.streams[k]? = some st →
      (dataOfK k s.s2c ++ outqK k s.outq ++ heldOf st.fwd) <+: st.emitted := by
  intro s hc k st hk
  obtain ⟨_, _, hG⟩ := all_run caps _ (inv_init m₀) (inv2_init m₀) (ginv_init m₀) sched
  have ho := hG.ord hc k st hk
  by_cases hd : st.fwd = .done
  · simpa [hd, heldOf] using ho.1 hd
  · rw [← ho.2 hd]; exact List.prefix_refl _

/-- **complete at a normal end**: the client is still there, never sent a bad message, and a
normal close has been written ⇒ every value the service emitted on every channel was written
before it -/
theorem c15_complete_at_normal_close (caps : Caps) (m₀ : CMsg) (sched : List Act) :
    let s := run .fixed caps (init m₀) sched
    s.cGone = false → s.ended = false → Frame.closeNormal ∈ s.s2c →
      ∀ (k : Nat) st, s.streams[k]? = some st → st.emitted = dataOfK k s.s2c := by
  intro s hc hen hcn k st hk
  obtain ⟨hI, _, hG⟩ := all_run caps _ (inv_init m₀) (inv2_init m₀) (ginv_init m₀) sched
  change Inv s at hI
  change GInv s at hG
  have hw := hG.cnW hcn
  obtain ⟨hoc, hq⟩ := hG.wdoneQ hc hw
  have hd := all_done_of_closed hI hoc st (List.mem_of_getElem? hk)
  have := hG.exact hc hen k st hk
  simpa [ExactK, hq, hd, heldOf, outqK] using this

/-- **the full statement holds for the code as it is** -/
theorem c15_full_fixed : C15_full .fixed := by
  intro caps m₀ sched hcap
  refine ⟨c15_no_panic caps m₀ sched, c15_order_per_channel caps m₀ sched,
    c15_complete_at_normal_close caps m₀ sched, ?_⟩
  intro hg hq
  have := c15_client_leaves caps hcap m₀ sched hg
    ⟨hq _ rfl, hq _ rfl, hq _ rfl, hq _ rfl, hq _ rfl, hq _ rfl, fun k => hq _ rfl, fun k => ⟨hq _ rfl, hq _ rfl⟩⟩
  exact ⟨this.1, this.2.1, this.2.2.1, this.2.2.2.2.1⟩

/-! ### the service ends the stream; nothing of onet's is ever stuck -/

/-- third invariant: the write loop's exit closes the socket; a client that is still there gets
the normal close; the stream ends with its last forwarder -/
structure Inv3 (s : St) : Prop where
  wdW : s.wdone = true → s.wsClosed = true
  cnN : s.cGone = false → s.wdone = true → Frame.closeNormal ∈ s.s2c
  lastF : ∀ st ∈ s.streams, st.refused = false → s.fcount = 0 → s.outClosed = true

theorem inv3_init (m : CMsg) : Inv3 (init m) := by
  constructor <;> simp [init]

theorem setFwd_refused (st : Stream) (f : Nat) (pc : FPc) : (setFwd st f pc).refused = st.refused := by
  unfold setFwd; split <;> rfl

theorem refused_set {l : List Stream} {k : Nat} {st st' : Stream} (hk : l[k]? = some st)
    (hr : st.refused = st'.refused) : ∀ x ∈ l.set k st', ∃ y ∈ l, y.refused = x.refused := by
  intro x hx
  rcases mem_set_cases hx with h | h
  · exact ⟨x, h, rfl⟩
  · subst h; exact ⟨st, List.mem_of_getElem? hk, hr⟩

/-- a step that leaves the write loop, the socket and the forwarder count alone -/
theorem inv3_same {s s' : St} (hK : Inv3 s) (h1 : s'.wdone = s.wdone) (h2 : s'.wsClosed = s.wsClosed)
    (h3 : s'.cGone = false → s.cGone = false) (h4 : ∀ f ∈ s.s2c, f ∈ s'.s2c) (h5 : s'.fcount = s.fcount)
    (h6 : s'.outClosed = s.outClosed) (h7 : ∀ x ∈ s'.streams, ∃ y ∈ s.streams, y.refused = x.refused) :
    Inv3 s' := by
  refine ⟨?_, ?_, ?_⟩
  · rw [h1, h2]; exact hK.wdW
  · intro hc hw; rw [h1] at hw; exact h4 _ (hK.cnN (h3 hc) hw)
  · intro x hx hr hf
    obtain ⟨y, hy, hyr⟩ := h7 x hx
    rw [h6]; rw [h5] at hf
    exact hK.lastF y hy (by rw [hyr]; exact hr) hf

/-- a forwarder ends -/
theorem inv3_fwdExit {s : St} (hK : Inv3 s) {k : Nat} {st : Stream} (_hk : s.streams[k]? = some st) (f : Nat) :
    Inv3 (fwdExit .fixed { s with streams := s.streams.set k (setFwd st f .done) }) := by
  simp only [fwdExit, Variant.fixed, if_true]
  refine ⟨hK.wdW, hK.cnN, ?_⟩
  intro x hx hr hf
  simp only at hf
  simp [hf]

/-- the write loop is left -/
theorem inv3_writerLeave {s : St} (hK : Inv3 s) (via : Bool) (f : Frame) (q : List (Nat × Nat))
    (hf : s.cGone = false → f = .closeNormal) :
    Inv3 (writerLeave .fixed via f { s with outq := q }) := by
  have : ∀ t : St, t.wdone = true → t.wsClosed = true → t.cGone = s.cGone → t.s2c = s.s2c ++ [f] →
      t.fcount = s.fcount → t.outClosed = s.outClosed → t.streams = s.streams → Inv3 t := by
    intro t h1 h2 h3 h4 h5 h6 h7
    refine ⟨fun _ => h2, ?_, ?_⟩
    · intro hc _; rw [h3] at hc; rw [h4, hf hc]; simp
    · intro x hx hr hfc; rw [h7] at hx; rw [h5] at hfc; rw [h6]; exact hK.lastF x hx hr hfc
  simp only [writerLeave, Variant.fixed, if_true]
  split <;> exact this _ rfl rfl rfl rfl rfl rfl rfl

theorem inv3_step (caps : Caps) (s s' : St) (a : Act) (hI : Inv s) (hG : GInv s) (hK : Inv3 s)
    (h : step .fixed caps s a = some s') : Inv3 s' := by
  have hps : s.panic.isSome = false := by simp [hI.nopanic]
  have same : ∀ t : St, t.wdone = s.wdone → t.wsClosed = s.wsClosed → t.cGone = s.cGone → t.s2c = s.s2c →
      t.fcount = s.fcount → t.outClosed = s.outClosed → t.streams = s.streams → Inv3 t := by
    intro t h1 h2 h3 h4 h5 h6 h7
    exact inv3_same hK h1 h2 (fun hc => by rw [← h3]; exact hc) (fun f hf => by rw [h4]; exact hf) h5 h6
      (fun x hx => ⟨x, by rw [← h7]; exact hx, rfl⟩)
  have sameS : ∀ (k : Nat) (st st' : Stream), s.streams[k]? = some st → st.refused = st'.refused →
      Inv3 { s with streams := s.streams.set k st' } := by
    intro k st st' hk hr
    exact inv3_same hK rfl rfl (fun hc => hc) (fun f hf => hf) rfl rfl (refused_set hk hr)
  unfold step at h
  simp only [hps, Bool.false_eq_true, if_false] at h
  cases a with
  | cSend m =>
    simp only at h
    split at h
    · simp at h
    · simp only [Option.some.injEq] at h; subst h; exact same _ rfl rfl rfl rfl rfl rfl rfl
  | cLeave =>
    simp only at h
    split at h
    · simp at h
    · simp only [Option.some.injEq] at h; subst h
      exact inv3_same hK rfl rfl (fun hc => by simp at hc) (fun f hf => hf) rfl rfl (fun x hx => ⟨x, hx, rfl⟩)
  | rStep =>
    simp only at h
    split at h
    · split at h
      · simp only [readerExit, Variant.fixed, if_true, Option.some.injEq] at h; subst h
        exact same _ rfl rfl rfl rfl rfl rfl rfl
      · split at h
        · simp only [Option.some.injEq] at h; subst h; exact same _ rfl rfl rfl rfl rfl rfl rfl
        · split at h
          · simp only [readerExit, Variant.fixed, if_true, Option.some.injEq] at h; subst h
            exact same _ rfl rfl rfl rfl rfl rfl rfl
          · simp at h
    · split at h
      · simp only [Option.some.injEq] at h; subst h; exact same _ rfl rfl rfl rfl rfl rfl rfl
      · split at h
        · simp only [Option.some.injEq] at h; subst h; exact same _ rfl rfl rfl rfl rfl rfl rfl
        · simp at h
    · simp at h
  | rLeave =>
    simp only at h
    split at h
    · split at h
      · simp only [readerExit, Variant.fixed, if_true, Option.some.injEq] at h; subst h
        exact same _ rfl rfl rfl rfl rfl rfl rfl
      · simp at h
    · simp at h
  | aStep =>
    simp only at h
    split at h
    · simp at h
    · split at h
      · split at h
        · simp only [Option.some.injEq] at h; subst h; exact same _ rfl rfl rfl rfl rfl rfl rfl
        · simp at h
      · rename_i m rest hq
        split at h
        · simp only [Option.some.injEq] at h; subst h; exact same _ rfl rfl rfl rfl rfl rfl rfl
        · have hfail : ∀ c, Inv3 (adapterFail .fixed { s with inq := rest, calls := c }) := by
            intro c
            simp only [adapterFail, Variant.fixed, if_true]
            refine ⟨hK.wdW, hK.cnN, ?_⟩
            intro x hx hr hf
            simp only at hf
            simp [hf]
          have hnil : ∀ c, Inv3 (nilOut .fixed { s with inq := rest, calls := c }) := by
            intro c
            simp only [nilOut, adapterFail, Variant.fixed, if_true]
            refine ⟨hK.wdW, hK.cnN, ?_⟩
            intro x hx hr hf
            simp only at hf
            simp [hf]
          have hnew : ∀ c (t : Stream), Inv3 (newStream .fixed { s with inq := rest, calls := c } t) := by
            intro c t
            simp only [newStream, Variant.fixed, if_true]
            split
            · rename_i hoc
              refine ⟨hK.wdW, hK.cnN, ?_⟩
              intro x hx hr hf
              exact hoc
            · refine ⟨hK.wdW, hK.cnN, ?_⟩
              intro x hx hr hf
              simp at hf
          cases m with
          | garbage => simp only [Option.some.injEq] at h; subst h; exact hfail s.calls
          | failing => simp only [Option.some.injEq] at h; subst h; exact hfail (s.calls + 1)
          | fresh => simp only [Option.some.injEq] at h; subst h; exact hnew (s.calls + 1) {}
          | nostop => simp only [Option.some.injEq] at h; subst h; exact hnew (s.calls + 1) _
          | noout => simp only [Option.some.injEq] at h; subst h; exact hnil (s.calls + 1)
          | reuse j =>
            simp only at h
            split at h
            · simp only [Option.some.injEq] at h; subst h; exact hnew (s.calls + 1) {}
            · simp only [Variant.fixed, if_true, Option.some.injEq] at h; subst h
              exact same _ rfl rfl rfl rfl rfl rfl rfl
  | emit k f x =>
    simp only at h
    split at h
    · simp at h
    · rename_i st hk
      split at h
      · simp at h
      · split at h
        · simp only [Option.some.injEq] at h; subst h
          exact sameS k st _ hk (by rw [setFwd_refused])
        · simp at h
  | emitBad k f =>
    simp only at h
    split at h
    · simp at h
    · rename_i st hk
      have hx := hI.noextra st (List.mem_of_getElem? hk)
      split at h
      · simp at h
      · split at h
        · rename_i hg
          obtain ⟨rfl, hfw⟩ := getFwd_zero st hx f _ hg
          simp only [Option.some.injEq] at h; subst h; exact inv3_fwdExit hK hk 0
        · simp at h
  | svcClose k =>
    simp only at h
    split at h
    · simp at h
    · rename_i st hk
      split at h
      · simp at h
      · simp only [Option.some.injEq] at h; subst h; exact sameS k st _ hk rfl
  | fStep k f =>
    simp only at h
    split at h
    · simp at h
    · rename_i st hk
      split at h
      · split at h
        · simp only [Option.some.injEq] at h; subst h; exact inv3_fwdExit hK hk f
        · simp at h
      · split at h
        · simp only [Option.some.injEq] at h; subst h; exact same _ rfl rfl rfl rfl rfl rfl rfl
        · split at h
          · simp only [Option.some.injEq] at h; subst h
            exact inv3_same hK rfl rfl (fun hc => hc) (fun f hf => hf) rfl rfl
              (refused_set hk (by rw [setFwd_refused]))
          · simp at h
      · simp at h
  | fDrop k f =>
    simp only at h
    split at h
    · simp at h
    · rename_i st hk
      split at h
      · split at h
        · simp only [Option.some.injEq] at h; subst h; exact inv3_fwdExit hK hk f
        · simp at h
      · simp at h
  | stop k =>
    simp only at h
    split at h
    · simp at h
    · rename_i st hk
      split at h
      · simp only [stopChan_fixed, Option.some.injEq] at h; subst h; exact sameS k st _ hk rfl
      · simp at h
  | wOut =>
    simp only at h
    split at h
    · simp at h
    · split at h
      · simp only [Option.some.injEq] at h; subst h
        exact inv3_same hK rfl rfl (fun hc => hc) (fun f hf => by simp [hf]) rfl rfl (fun x hx => ⟨x, hx, rfl⟩)
      · split at h
        · simp only [Option.some.injEq] at h; subst h
          exact inv3_writerLeave hK false .closeNormal s.outq (fun _ => rfl)
        · simp at h
  | wClosing =>
    simp only at h
    split at h
    · simp at h
    · rename_i hwd
      split at h
      · rename_i hcl
        simp only [Option.some.injEq] at h; subst h
        refine inv3_writerLeave hK true .closeError s.outq (fun hc => ?_)
        have := hG.closingW hc hcl
        simp [this] at hwd
      · simp at h
  | wOutFail =>
    simp only at h
    split at h
    · simp at h
    · split at h
      · rename_i rest hq
        split at h
        · rename_i hg
          simp only [Option.some.injEq] at h; subst h
          exact inv3_writerLeave hK false .closeError rest (fun hc => by simp [hg] at hc)
        · simp at h
      · simp at h


theorem all4_run (caps : Caps) (s : St) (hI : Inv s) (hJ : Inv2 s) (hG : GInv s) (hK : Inv3 s) (sched : List Act) :
    Inv (run .fixed caps s sched) ∧ Inv2 (run .fixed caps s sched) ∧ GInv (run .fixed caps s sched) ∧
      Inv3 (run .fixed caps s sched) := by
  induction sched generalizing s with
  | nil => exact ⟨hI, hJ, hG, hK⟩
  | cons a as ih =>
    simp only [run]
    split
    · rename_i s' hs
      exact ih s' (inv_step caps s s' a hI hs) (inv2_step caps s s' a hI hJ hs) (ginv_step caps s s' a hI hJ hG hs)
        (inv3_step caps s s' a hI hG hK hs)
    · exact ih s hI hJ hG hK

/-- the adapter can always take a queued message -/
theorem adapter_enabled (caps : Caps) (s : St) (hI : Inv s) (hnd : s.adone = false) (hne : s.inq ≠ []) :
    (step .fixed caps s .aStep).isSome = true := by
  have hps : s.panic.isSome = false := by simp [hI.nopanic]
  cases hq : s.inq with
  | nil => exact absurd hq hne
  | cons m rest =>
    unfold step
    simp only [hps, Bool.false_eq_true, if_false, hnd, hq]
    split
    · rfl
    · cases m with
      | garbage => rfl
      | failing => rfl
      | fresh => rfl
      | nostop => rfl
      | noout => rfl
      | reuse j => simp only []; split <;> simp [Variant.fixed]

/-- **nothing of onet's is ever stuck**: in every reachable state in which none of onet's goroutines
of the connection can move, each of them has ended or waits for the one event it is there for —
the reader for the client, the adapter for the reader, the write loop for the service's output or
the reader's signal, a forwarder for its service — and once the write loop has been left (whoever
caused it, whatever the client does afterwards — also nothing at all) the socket is closed, reader and
adapter have ended and every service has been told to stop.  For every client and service
behaviour, every interleaving, all (positive) capacities. -/
theorem c15_nothing_stuck (caps : Caps) (hin : 0 < caps.inCap) (hout : 0 < caps.outCap) (m₀ : CMsg)
    (sched : List Act) :
    let s := run .fixed caps (init m₀) sched
    Quiet caps s →
      (s.rpc = .done ∨ (s.rpc = .read ∧ s.c2s = [] ∧ s.cGone = false ∧ s.wsClosed = false)) ∧
      (s.adone = true ∨ (s.inq = [] ∧ s.inClosed = false)) ∧
      (s.wdone = true ∨ (s.outq = [] ∧ s.outClosed = false ∧ s.closing = false)) ∧
      (∀ st ∈ s.streams, st.fwd = .done ∨ (st.fwd = .recv ∧ st.chanClosed = false)) ∧
      (∀ st ∈ s.streams, s.stopAll = true ∨ st.refused = true → st.stopClosed = true) ∧
      (s.wdone = true → s.wsClosed = true ∧ s.rpc = .done ∧ s.adone = true ∧ s.stopAll = true) := by
  intro s hq
  obtain ⟨hI, hJ, _, hK⟩ := all4_run caps _ (inv_init m₀) (inv2_init m₀) (ginv_init m₀) (inv3_init m₀) sched
  change Inv s at hI
  change Inv2 s at hJ
  change Inv3 s at hK
  have hps : s.panic.isSome = false := by simp [hI.nopanic]
  have hq' := hq
  obtain ⟨qr, _, qa, qwo, qwc, _, qs, qf⟩ := hq
  have tear : s.wdone = true → s.wsClosed = true ∧ s.rpc = .done ∧ s.adone = true ∧ s.stopAll = true := by
    intro hw
    have hws := hK.wdW hw
    have := quiet_teardown caps hin s hI hJ (Or.inr hws) hq'
    exact ⟨hws, this.1, this.2.1, this.2.2.2.1⟩
  refine ⟨?_, ?_, ?_, ?_, ?_, tear⟩
  · -- the reader
    unfold step at qr
    simp only [hps, Bool.false_eq_true, if_false] at qr
    cases hrp : s.rpc with
    | done => exact Or.inl rfl
    | read =>
      right
      simp only [hrp] at qr
      split at qr
      · simp at qr
      · rename_i hws
        split at qr
        · simp at qr
        · rename_i hc2
          split at qr
          · simp at qr
          · rename_i hg
            exact ⟨rfl, hc2, by simpa using hg, by simpa using hws⟩
    | hold m =>
      exfalso
      simp only [hrp] at qr
      have hnc : s.inClosed = false := by
        cases hc : s.inClosed with
        | false => rfl
        | true => have := hI.rdone.mp hc; rw [hrp] at this; simp at this
      simp only [hnc, Bool.false_eq_true, if_false] at qr
      split at qr
      · simp at qr
      · rename_i hfull
        have hne : s.inq ≠ [] := by
          intro he; rw [he] at hfull; simp at hfull; omega
        cases had : s.adone with
        | false => have := adapter_enabled caps s hI had hne; rw [qa] at this; simp at this
        | true => exact hne (hJ.adone had).2.2
  · -- the adapter
    cases had : s.adone with
    | true => exact Or.inl rfl
    | false =>
      right
      cases hiq : s.inq with
      | cons m rest =>
        have := adapter_enabled caps s hI had (by simp [hiq]); rw [qa] at this; simp at this
      | nil =>
        refine ⟨rfl, ?_⟩
        cases hic : s.inClosed with
        | false => rfl
        | true =>
          unfold step at qa
          simp [hps, had, hiq, hic] at qa
  · -- the write loop
    cases hwd : s.wdone with
    | true => exact Or.inl rfl
    | false =>
      right
      unfold step at qwo qwc
      simp only [hps, Bool.false_eq_true, if_false, hwd] at qwo qwc
      cases hoq : s.outq with
      | cons p rest => simp [hoq] at qwo
      | nil =>
        simp only [hoq] at qwo
        refine ⟨rfl, ?_, ?_⟩
        · cases hoc : s.outClosed with
          | false => rfl
          | true => simp [hoc] at qwo
        · cases hcl : s.closing with
          | false => rfl
          | true => simp [hcl] at qwc
  · -- the forwarders
    intro st hst
    obtain ⟨k, hk⟩ := List.getElem?_of_mem hst
    obtain ⟨q1, q2⟩ := qf k
    unfold step at q1 q2
    simp only [hps, Bool.false_eq_true, if_false, hk, getFwd, if_true] at q1 q2
    cases hf : st.fwd with
    | done => exact Or.inl rfl
    | recv =>
      right
      refine ⟨rfl, ?_⟩
      simp only [hf] at q1
      cases hcc : st.chanClosed with
      | false => rfl
      | true => simp [hcc] at q1
    | hold x =>
      exfalso
      simp only [hf] at q1 q2
      split at q1
      · simp at q1
      · split at q1
        · simp at q1
        · rename_i hfull
          have hne : s.outq ≠ [] := by
            intro he; rw [he] at hfull; simp at hfull; omega
          cases hwd : s.wdone with
          | false =>
            unfold step at qwo
            simp only [hps, Bool.false_eq_true, if_false, hwd] at qwo
            cases hoq : s.outq with
            | nil => exact hne hoq
            | cons p rest => simp [hoq] at qwo
          | true =>
            have hsa := (tear hwd).2.2.2
            simp [Variant.fixed, hsa] at q2
  · -- the stoppers
    intro st hst hor
    obtain ⟨k, hk⟩ := List.getElem?_of_mem hst
    have := qs k
    unfold step at this
    simp only [hps, Bool.false_eq_true, if_false, hk] at this
    cases hsc : st.stopClosed with
    | true => rfl
    | false =>
      rcases hor with h | h <;> simp [hsc, h] at this

/-- **after the service ended the stream the server tears the connection down on its own**: once
the write loop has been left — here: the service closed its channels, the normal close was written —
nothing waits for the client any more.  In every quiescent state in which at least one request was
served and the service has closed every channel: the write loop is left, the socket closed, reader and
adapter ended, every stop channel closed, every forwarder gone; and a client that is still there
(listening or silent) has been sent the normal close, after every value the service emitted if it
never sent a bad message. -/
theorem c15_service_ends_stream (caps : Caps) (hin : 0 < caps.inCap) (hout : 0 < caps.outCap) (m₀ : CMsg)
    (sched : List Act) :
    let s := run .fixed caps (init m₀) sched
    Quiet caps s → (∃ st ∈ s.streams, st.refused = false) → (∀ st ∈ s.streams, st.chanClosed = true) →
      s.wdone = true ∧ s.wsClosed = true ∧ s.rpc = .done ∧ s.adone = true ∧
      (∀ st ∈ s.streams, st.stopClosed = true ∧ st.fwd = .done) ∧
      (s.cGone = false → Frame.closeNormal ∈ s.s2c ∧
        (s.ended = false → ∀ (k : Nat) st, s.streams[k]? = some st → st.emitted = dataOfK k s.s2c)) := by
  intro s hq hex hcl
  have hns := c15_nothing_stuck caps hin hout m₀ sched hq
  obtain ⟨hI, hJ, hG, hK⟩ := all4_run caps _ (inv_init m₀) (inv2_init m₀) (ginv_init m₀) (inv3_init m₀) sched
  change Inv s at hI
  change GInv s at hG
  change Inv3 s at hK
  obtain ⟨_, _, hw, hf, hst, htear⟩ := hns
  have hdone : ∀ st ∈ s.streams, st.fwd = .done := by
    intro st hst'
    rcases hf st hst' with h | ⟨_, h⟩
    · exact h
    · rw [hcl st hst'] at h; cases h
  have hwd : s.wdone = true := by
    rcases hw with h | ⟨_, hoc, _⟩
    · exact h
    · exfalso
      have hc0 : s.fcount = 0 := by
        rw [hI.count]
        apply List.countP_eq_zero.mpr
        intro st hst'
        simp [live, hdone st hst']
      obtain ⟨st, hst', hr⟩ := hex
      have := hK.lastF st hst' hr hc0
      rw [hoc] at this; cases this
  obtain ⟨hws, hr, ha, hsa⟩ := htear hwd
  refine ⟨hwd, hws, hr, ha, fun st hst' => ⟨hst st hst' (Or.inl hsa), hdone st hst'⟩, ?_⟩
  intro hc
  have hcn := hK.cnN hc hwd
  refine ⟨hcn, ?_⟩
  intro hen k st hk
  obtain ⟨_, hqe⟩ := hG.wdoneQ hc hwd
  have := hG.exact hc hen k st hk
  simpa [ExactK, hqe, hdone st (List.mem_of_getElem? hk), heldOf, outqK] using this

theorem step_stream_none (v : Variant) (caps : Caps) (s : St) (k : Nat) (h : s.streams.length ≤ k) :
    step v caps s (.stop k) = none ∧ step v caps s (.fStep k 0) = none ∧ step v caps s (.fDrop k 0) = none := by
  have hn : s.streams[k]? = none := List.getElem?_eq_none h
  unfold step
  refine ⟨?_, ?_, ?_⟩ <;> (split; rfl; simp [hn])

/-- non-vacuity of `c15_service_ends_stream` and `c15_nothing_stuck`: a reachable quiescent state in
which the service has closed its only channel and the client is still connected -/
example :
    let s := run .fixed caps10 (init .fresh) [.aStep, .emit 0 0 1, .fStep 0 0, .wOut, .svcClose 0, .fStep 0 0, .wOut,
      .rStep, .aStep, .stop 0, .wOut]
    Quiet caps10 s ∧ s.cGone = false ∧ (∃ st ∈ s.streams, st.refused = false) ∧
      (∀ st ∈ s.streams, st.chanClosed = true) := by
  intro s
  have hl : s.streams.length = 1 := by decide
  refine ⟨⟨by decide, by decide, by decide, by decide, by decide, by decide, ?_, ?_⟩, by decide, by decide, by decide⟩
  · intro k
    cases k with
    | zero => decide
    | succ k => exact (step_stream_none _ _ s (k + 1) (by omega)).1
  · intro k
    cases k with
    | zero => decide
    | succ k => exact ⟨(step_stream_none _ _ s (k + 1) (by omega)).2.1, (step_stream_none _ _ s (k + 1) (by omega)).2.2⟩

/-! ### streaming handlers that hand back nil channels

A streaming handler returns `(chan T, chan bool, error)`.  With a nil error nothing forces either
channel to be non-nil.  Until round 5 a **nil stop channel** ended the whole server at the end of
the stream (`close of nil channel` in the stopper), and a **nil output channel** got a forwarder
that waits for ever in `reflect.Select` — it survives the client, and because it counts as a running
forwarder `outChan` is never closed: a client that stays is never sent a close.  `c15_no_panic`,
`c15_nothing_stuck`, … above quantify over the messages `nostop` and `noout` too (they hold for the
repaired code); what follows is the part of the statement that is specific to them. -/

/-- no forwarder is ever started on a nil channel; such a request is refused (its service is told
to stop at once) -/
def NilL (l : List Stream) : Prop := ∀ st ∈ l, st.noOut = true → st.fwd = .done ∧ st.refused = true

theorem nilL_set {l : List Stream} (hN : NilL l) (k : Nat) (st' : Stream)
    (h' : st'.noOut = true → st'.fwd = .done ∧ st'.refused = true) : NilL (l.set k st') := by
  intro u hu
  rcases mem_set_cases hu with hu | rfl
  · exact hN u hu
  · exact h'

theorem nilL_append {l : List Stream} (hN : NilL l) (t : Stream)
    (h' : t.noOut = true → t.fwd = .done ∧ t.refused = true) : NilL (l ++ [t]) := by
  intro u hu
  simp only [List.mem_append, List.mem_singleton] at hu
  rcases hu with hu | rfl
  · exact hN u hu
  · exact h'

/-- a stream whose forwarder is running is not a nil channel -/
theorem nilL_running {l : List Stream} (hN : NilL l) {k : Nat} {st : Stream} (hk : l[k]? = some st)
    (hf : st.fwd ≠ .done) : st.noOut = false := by
  cases hno : st.noOut with
  | false => rfl
  | true => exact absurd (hN st (List.mem_of_getElem? hk) hno).1 hf

theorem nil_step (caps : Caps) (s s' : St) (a : Act) (hI : Inv s) (hN : NilL s.streams)
    (h : step .fixed caps s a = some s') : NilL s'.streams := by
  have hps : s.panic.isSome = false := by simp [hI.nopanic]
  unfold step at h
  simp only [hps, Bool.false_eq_true, if_false] at h
  -- replacing the forwarder state of a running forwarder
  have hset : ∀ (k f : Nat) (st base : Stream) (pc pc' : FPc), s.streams[k]? = some st → getFwd st f = some pc →
      pc ≠ .done → base.noOut = st.noOut → base.extra = st.extra → NilL (s.streams.set k (setFwd base f pc')) := by
    intro k f st base pc pc' hk hg hpc hb hbx
    have hx := hI.noextra st (List.mem_of_getElem? hk)
    obtain ⟨rfl, hfw⟩ := getFwd_zero st hx f _ hg
    have hno := nilL_running hN hk (by rw [hfw]; exact hpc)
    refine nilL_set hN k _ (fun hn => ?_)
    simp [setFwd, hb, hno] at hn
  cases a with
  | cSend m =>
    simp only at h
    split at h
    · simp at h
    · simp only [Option.some.injEq] at h; subst h; exact hN
  | cLeave =>
    simp only at h
    split at h
    · simp at h
    · simp only [Option.some.injEq] at h; subst h; exact hN
  | rStep =>
    simp only at h
    split at h
    · split at h
      · simp only [readerExit, Variant.fixed, if_true, Option.some.injEq] at h; subst h; exact hN
      · split at h
        · simp only [Option.some.injEq] at h; subst h; exact hN
        · split at h
          · simp only [readerExit, Variant.fixed, if_true, Option.some.injEq] at h; subst h; exact hN
          · simp at h
    · split at h
      · simp only [Option.some.injEq] at h; subst h; exact hN
      · split at h
        · simp only [Option.some.injEq] at h; subst h; exact hN
        · simp at h
    · simp at h
  | rLeave =>
    simp only at h
    split at h
    · split at h
      · simp only [readerExit, Variant.fixed, if_true, Option.some.injEq] at h; subst h; exact hN
      · simp at h
    · simp at h
  | aStep =>
    simp only at h
    split at h
    · simp at h
    · split at h
      · split at h
        · simp only [Option.some.injEq] at h; subst h; exact hN
        · simp at h
      · rename_i m rest hq
        split at h
        · simp only [Option.some.injEq] at h; subst h; exact hN
        · have hfail : ∀ c, NilL (adapterFail .fixed { s with inq := rest, calls := c }).streams := by
            intro c
            simp only [adapterFail, Variant.fixed, if_true]
            exact hN
          have hnew : ∀ c (t : Stream), t.noOut = false →
              NilL (newStream .fixed { s with inq := rest, calls := c } t).streams := by
            intro c t ht
            simp only [newStream, Variant.fixed, if_true]
            split
            · exact nilL_append hN _ (fun hn => by simp [ht] at hn)
            · exact nilL_append hN _ (fun hn => by simp [ht] at hn)
          cases m with
          | garbage => simp only [Option.some.injEq] at h; subst h; exact hfail s.calls
          | failing => simp only [Option.some.injEq] at h; subst h; exact hfail (s.calls + 1)
          | fresh => simp only [Option.some.injEq] at h; subst h; exact hnew (s.calls + 1) {} rfl
          | nostop => simp only [Option.some.injEq] at h; subst h; exact hnew (s.calls + 1) _ rfl
          | noout =>
            simp only [nilOut, adapterFail, Variant.fixed, if_true, Option.some.injEq] at h; subst h
            exact nilL_append hN _ (fun _ => ⟨rfl, rfl⟩)
          | reuse j =>
            simp only at h
            split at h
            · simp only [Option.some.injEq] at h; subst h; exact hnew (s.calls + 1) {} rfl
            · simp only [Variant.fixed, if_true, Option.some.injEq] at h; subst h; exact hN
  | emit k f x =>
    simp only at h
    split at h
    · simp at h
    · rename_i st hk
      split at h
      · simp at h
      · split at h
        · rename_i hg
          simp only [Option.some.injEq] at h; subst h
          exact hset k f st _ _ _ hk hg (by simp) rfl rfl
        · simp at h
  | emitBad k f =>
    simp only at h
    split at h
    · simp at h
    · rename_i st hk
      have hx := hI.noextra st (List.mem_of_getElem? hk)
      split at h
      · simp at h
      · split at h
        · rename_i hg
          obtain ⟨rfl, hfw⟩ := getFwd_zero st hx f _ hg
          simp only [fwdExit, Variant.fixed, if_true, Option.some.injEq] at h; subst h
          exact hset k 0 st _ _ _ hk hg (by simp) rfl rfl
        · simp at h
  | svcClose k =>
    simp only at h
    split at h
    · simp at h
    · rename_i st hk
      split at h
      · simp at h
      · rename_i hc
        simp only [Option.some.injEq] at h; subst h
        refine nilL_set hN k _ (fun hn => ?_)
        simp only [Bool.or_eq_true, not_or] at hc
        exact absurd hn hc.2
  | fStep k f =>
    simp only at h
    split at h
    · simp at h
    · rename_i st hk
      split at h
      · rename_i hg
        split at h
        · simp only [fwdExit, Variant.fixed, if_true, Option.some.injEq] at h; subst h
          exact hset k f st _ _ _ hk hg (by simp) rfl rfl
        · simp at h
      · rename_i y hg
        split at h
        · simp only [Option.some.injEq] at h; subst h; exact hN
        · split at h
          · simp only [Option.some.injEq] at h; subst h
            exact hset k f st _ _ _ hk hg (by simp) rfl rfl
          · simp at h
      · simp at h
  | fDrop k f =>
    simp only at h
    split at h
    · simp at h
    · rename_i st hk
      split at h
      · rename_i y hg
        split at h
        · simp only [fwdExit, Variant.fixed, if_true, Option.some.injEq] at h; subst h
          exact hset k f st _ _ _ hk hg (by simp) rfl rfl
        · simp at h
      · simp at h
  | stop k =>
    simp only at h
    split at h
    · simp at h
    · rename_i st hk
      split at h
      · simp only [stopChan_fixed, Option.some.injEq] at h; subst h
        exact nilL_set hN k _ (fun hn => hN st (List.mem_of_getElem? hk) hn)
      · simp at h
  | wOut =>
    simp only at h
    split at h
    · simp at h
    · split at h
      · simp only [Option.some.injEq] at h; subst h; exact hN
      · split at h
        · simp only [writerLeave, Variant.fixed, if_true, Bool.false_eq_true, if_false, Option.some.injEq] at h
          subst h; exact hN
        · simp at h
  | wClosing =>
    simp only at h
    split at h
    · simp at h
    · split at h
      · simp only [writerLeave, Variant.fixed, if_true, Option.some.injEq] at h
        subst h; exact hN
      · simp at h
  | wOutFail =>
    simp only at h
    split at h
    · simp at h
    · split at h
      · split at h
        · simp only [writerLeave, Variant.fixed, if_true, Bool.false_eq_true, if_false, Option.some.injEq] at h
          subst h; exact hN
        · simp at h
      · simp at h

theorem nil_run (caps : Caps) (s : St) (hI : Inv s) (hN : NilL s.streams) (sched : List Act) :
    NilL (run .fixed caps s sched).streams := by
  induction sched generalizing s with
  | nil => exact hN
  | cons a as ih =>
    simp only [run]
    split
    · rename_i s' hs; exact ih s' (inv_step caps s s' a hI hs) (nil_step caps s s' a hI hN hs)
    · exact ih s hI hN

/-- **no routine of onet's ever waits on a nil channel**: whatever the handler hands back for
whichever request, in every reachable state a nil output channel has no forwarder and its request
has been refused (so by `c15_nothing_stuck` its stopper has run as soon as onet is quiescent); every
forwarder that is still waiting waits on a real channel, which its service can close. -/
theorem c15_no_forwarder_on_nil_channel (caps : Caps) (m₀ : CMsg) (sched : List Act) :
    let s := run .fixed caps (init m₀) sched
    (∀ st ∈ s.streams, st.noOut = true → st.fwd = .done ∧ st.refused = true) ∧
    (∀ st ∈ s.streams, st.fwd ≠ .done → st.noOut = false) := by
  intro s
  have hN : NilL s.streams := nil_run caps _ (inv_init m₀) (by simp [NilL, init]) sched
  refine ⟨hN, fun st hst hf => ?_⟩
  obtain ⟨k, hk⟩ := List.getElem?_of_mem hst
  exact nilL_running hN hk hf

/-- **whoever still waits, waits for something that can happen** (`c15_nothing_stuck` with the nil
channels excluded): in every reachable quiescent state a forwarder has ended or waits on a real
channel its service has not closed yet — never on a nil channel, never with a value in its hands —
and the stopper of every refused request (a nil channel's included) has run. -/
theorem c15_waiting_forwarders_wait_on_real_channels (caps : Caps) (hin : 0 < caps.inCap) (hout : 0 < caps.outCap)
    (m₀ : CMsg) (sched : List Act) :
    let s := run .fixed caps (init m₀) sched
    Quiet caps s →
      (∀ st ∈ s.streams, st.fwd = .done ∨ (st.fwd = .recv ∧ st.chanClosed = false ∧ st.noOut = false)) ∧
      (∀ st ∈ s.streams, st.noOut = true → st.fwd = .done ∧ st.stopClosed = true) := by
  intro s hq
  obtain ⟨_, _, _, hf, hst, _⟩ := c15_nothing_stuck caps hin hout m₀ sched hq
  obtain ⟨hn1, hn2⟩ := c15_no_forwarder_on_nil_channel caps m₀ sched
  refine ⟨fun st hm => ?_, fun st hm hno => ?_⟩
  · rcases hf st hm with h | ⟨h1, h2⟩
    · exact Or.inl h
    · exact Or.inr ⟨h1, h2, hn2 st hm (by rw [h1]; simp)⟩
  · obtain ⟨hd, hr⟩ := hn1 st hm hno
    exact ⟨hd, hst st hm (Or.inr hr)⟩

/-- non-vacuity: a quiescent state with a healthy waiting forwarder and a refused nil channel -/
example :
    let s := run .fixed caps10 (init .fresh) [.aStep, .cSend .noout, .rStep, .rStep, .aStep, .stop 0, .stop 1]
    (s.streams.map (fun st => (st.fwd, st.noOut, st.stopClosed))) = [(.recv, false, true), (.done, true, true)] ∧
    s.ended = true ∧ s.outClosed = false ∧
    step .fixed caps10 s .rStep = none ∧ step .fixed caps10 s .aStep = none ∧ step .fixed caps10 s .wOut = none ∧
    step .fixed caps10 s (.fStep 0 0) = none ∧ step .fixed caps10 s (.stop 0) = none ∧ step .fixed caps10 s (.stop 1) = none := by
  decide

/-- the actions of onet's goroutines on a connection with one channel -/
def internal1 : List Act := [.rStep, .rLeave, .aStep, .wOut, .wClosing, .wOutFail, .stop 0, .fStep 0 0, .fDrop 0 0]

/-- the code as it is but for the handling of nil channels -/
def Variant.nilUnsafe : Variant := ⟨true, true, true, false⟩

/-- **a nil stop channel killed the server at the end of the stream** (seeding round 5; reproduced
by `notes/probes/onet_c15_nil_channels_probe_test.go.txt`): the handler returns its channel and no
stop channel; the values arrive, the service closes its channel, the client is sent the normal
close, the connection is torn down — and the stopper, woken by `stopAll`, closes the nil channel.
The code as it is survives the same schedule with everything torn down. -/
theorem c15_old_nil_stop_channel_crashes :
    let sched : List Act := [.aStep, .emit 0 0 7, .fStep 0 0, .wOut, .svcClose 0, .fStep 0 0, .wOut, .rStep, .aStep,
      .stop 0]
    let o := run .nilUnsafe caps10 (init .nostop) sched
    let s := run .fixed caps10 (init .nostop) sched
    o.s2c = [.data 0 7, .closeNormal] ∧ o.panic = some .closeOfNilStop ∧
    s.s2c = [.data 0 7, .closeNormal] ∧ s.panic = none ∧ s.wdone = true ∧ s.adone = true ∧ s.rpc = .done ∧
      (∀ a ∈ internal1, step .fixed caps10 s a = none) := by decide

/-- … the same when the client leaves first, or when a later request of a healthy stream is the one
without a stop channel -/
theorem c15_old_nil_stop_channel_crashes_client_leaves :
    (run .nilUnsafe caps10 (init .nostop) [.aStep, .cLeave, .rStep, .aStep, .stop 0]).panic = some .closeOfNilStop ∧
    (run .nilUnsafe caps10 (init .fresh) [.aStep, .cSend .nostop, .rStep, .rStep, .aStep, .cLeave, .rStep, .aStep,
      .stop 0, .stop 1]).panic = some .closeOfNilStop ∧
    (run .fixed caps10 (init .fresh) [.aStep, .cSend .nostop, .rStep, .rStep, .aStep, .cLeave, .rStep, .aStep,
      .stop 0, .stop 1]).panic = none := by decide

/-- **a nil output channel left a forwarder behind for ever** (same probe): after the client has
left and everything else is torn down the forwarder still waits, and nothing the service can do
(`emit`, `svcClose` are impossible on a nil channel) will ever end it; while the client stays,
`outChan` is never closed (the forwarder counts as running), so the client is never sent a close.
The code as it is ends the stream at once: the client is sent the close, the service is told to
stop, no routine is left. -/
theorem c15_old_nil_out_channel_forwarder_stuck :
    let o := run .nilUnsafe caps10 (init .noout) [.aStep, .cLeave, .rStep, .aStep, .wClosing, .stop 0]
    let w := run .nilUnsafe caps10 (init .noout) [.aStep]
    let s := run .fixed caps10 (init .noout) [.aStep, .stop 0, .wOut, .rStep, .aStep]
    (o.cGone = true ∧ o.rpc = .done ∧ o.adone = true ∧ o.wdone = true ∧
      (o.streams.map (fun st => (st.stopClosed, st.fwd, st.noOut))) = [(true, .recv, true)] ∧ o.fcount = 1 ∧
      (∀ a ∈ internal1, step .nilUnsafe caps10 o a = none) ∧
      step .nilUnsafe caps10 o (.svcClose 0) = none ∧ (∀ v, step .nilUnsafe caps10 o (.emit 0 0 v) = none)) ∧
    (w.s2c = [] ∧ w.outClosed = false ∧ (∀ a ∈ internal1, step .nilUnsafe caps10 w a = none) ∧
      step .nilUnsafe caps10 w (.svcClose 0) = none) ∧
    (s.s2c = [.closeNormal] ∧ s.panic = none ∧ s.fcount = 0 ∧ s.wdone = true ∧ s.adone = true ∧ s.rpc = .done ∧
      (s.streams.map (fun st => (st.stopClosed, st.fwd, st.noOut))) = [(true, .done, true)] ∧
      (∀ a ∈ internal1, step .fixed caps10 s a = none)) := by
  refine ⟨⟨by decide, by decide, by decide, by decide, by decide, by decide, by decide, by decide, ?_⟩,
    by decide, by decide⟩
  intro v
  rfl

/-- the nil-channel repair is needed on its own (the other three in place): the full statement
fails without it -/
theorem c15_full_fails_nil_unsafe : ¬ C15_full .nilUnsafe := by
  intro h
  have := (h caps10 .nostop [.aStep, .cLeave, .rStep, .aStep, .stop 0] (by decide)).1
  rw [c15_old_nil_stop_channel_crashes_client_leaves.1] at this
  cases this

/-! ### a value the service emits that cannot be encoded -/

/-- **what a value `protobuf.Encode` refuses does to a stream** (processor.go:631-635; all theorems
above hold with the action `emitBad` among the service's — no crash, order, completeness of what can
be delivered, tear-down): the forwarder of that channel ends.  With one channel the stream then ends
with the *normal* close although the service has not closed its channel, and the service is told to
stop at tear-down.  With two channels the stream goes on for the other one; the first channel's
service is neither drained (no value of it is taken any more, whatever it emits) nor told to stop
as long as the stream lives — it is told when the stream ends. -/
theorem c15_unencodable_value_ends_its_forwarder :
    let one := run .fixed caps10 (init .fresh)
      [.aStep, .emit 0 0 1, .fStep 0 0, .emitBad 0 0, .wOut, .wOut, .rStep, .aStep, .stop 0]
    let two := run .fixed caps10 (init .fresh)
      [.aStep, .cSend .fresh, .rStep, .rStep, .aStep, .emitBad 0 0, .emit 1 0 5, .fStep 1 0, .wOut, .stop 0]
    let fin := run .fixed caps10 two [.svcClose 1, .fStep 1 0, .wOut, .rStep, .aStep, .stop 0, .stop 1]
    (one.s2c = [.data 0 1, .closeNormal] ∧ one.panic = none ∧
      (one.streams.map (fun st => (st.chanClosed, st.fwd, st.stopClosed))) = [(false, .done, true)]) ∧
    (two.s2c = [.data 1 5] ∧ two.wdone = false ∧ two.stopAll = false ∧
      (two.streams.map (fun st => (st.chanClosed, st.fwd, st.stopClosed))) = [(false, .done, false), (false, .recv, false)] ∧
      step .fixed caps10 two (.stop 0) = none ∧ (∀ v, step .fixed caps10 two (.emit 0 0 v) = none)) ∧
    (fin.s2c = [.data 1 5, .closeNormal] ∧ (fin.streams.map (·.stopClosed)) = [true, true]) := by
  refine ⟨by decide, ⟨by decide, by decide, by decide, by decide, by decide, ?_⟩, by decide⟩
  intro v
  rfl

/-! ### the client's read options are per read -/

/-- a read without deadline on a live connection never times out, whatever reads came before it:
with a frame there it returns that frame, otherwise it waits -/
theorem c15_client_plain_read_never_times_out (c : CConn) (hd : c.dead = false) :
    (cRead false c none).2 ≠ .timedOut ∧ (cRead false c none).2 ≠ .failed ∧ (cRead false c none).1.dead = false ∧
    (cRead false c none).1.deadline = none ∧
    (∀ f rest, c.inbox = f :: rest → cRead false c none = ({ c with deadline := none, inbox := rest }, .frame f)) := by
  simp only [cRead, hd, Bool.false_eq_true, if_false]
  cases hi : c.inbox with
  | nil => simp [hd]
  | cons f rest => simp [hd]

/-- **a deadline belongs to the read it was given to** (seed C15r6-B): for every history of arriving
frames, passing time and reads with or without deadlines, the connection dies only by a read that ran
into *its own* deadline — when no read of the history reports `timedOut`, the connection is alive at
the end and no read reports `failed`. -/
theorem c15_client_deadline_is_per_read (hist : List CAct) (c : CConn) (hd : c.dead = false)
    (hno : ROut.timedOut ∉ (cRun false c hist).2) :
    (cRun false c hist).1.dead = false ∧ ROut.failed ∉ (cRun false c hist).2 := by
  induction hist generalizing c with
  | nil => simp [cRun, hd]
  | cons a as ih =>
    simp only [cRun, List.mem_append, not_or] at hno ⊢
    obtain ⟨h1, h2⟩ := hno
    have key : (cStep false c a).1.dead = false ∧ ROut.failed ∉ (cStep false c a).2 := by
      cases a with
      | tick d => simp [cStep, hd]
      | arrive f => simp [cStep, hd]
      | read dl =>
        simp only [cStep, List.mem_singleton] at h1 ⊢
        simp only [cRead, hd, Bool.false_eq_true, if_false] at h1 ⊢
        cases dl with
        | none => cases hi : c.inbox <;> simp [hd]
        | some r =>
          simp only at h1 ⊢
          by_cases ht : c.now + r ≤ c.now
          · simp [ht] at h1
          · cases hi : c.inbox <;> simp [ht, hd]
    obtain ⟨k1, k2⟩ := key
    obtain ⟨i1, i2⟩ := ih (cStep false c a).1 k1 h2
    exact ⟨i1, k2, i2⟩

/-- a read with a positive deadline and a frame already there returns the frame (so the histories
of `c15_client_deadline_is_per_read` exist: the correspondence run only issues such reads) -/
theorem c15_client_read_with_frame (c : CConn) (hd : c.dead = false) (f : Frame) (rest : List Frame)
    (hi : c.inbox = f :: rest) (r : Nat) (hr : 0 < r) :
    cRead false c (some r) = ({ c with deadline := some (c.now + r), inbox := rest }, .frame f) := by
  have : ¬ c.now + r ≤ c.now := by omega
  simp [cRead, hd, hi, this]

/-- … and the variant that leaves the deadline of an earlier read armed does not have the property:
a read with a deadline of 5 that succeeds, a quiet period of 10, a frame, a plain read — the stale
deadline fires, the read fails for good, the frames that follow and the normal close never reach
the caller; the code as it is delivers all of them -/
theorem c15_client_sticky_deadline_kills_stream :
    let hist : List CAct := [.arrive (.data 0 1), .read (some 5), .tick 10, .arrive (.data 0 2), .read none,
      .arrive .closeNormal, .read none]
    (cRun true {} hist).2 = [.frame (.data 0 1), .timedOut, .failed] ∧ (cRun true {} hist).1.dead = true ∧
    (cRun false {} hist).2 = [.frame (.data 0 1), .frame (.data 0 2), .frame .closeNormal] ∧
    (cRun false {} hist).1.dead = false := by decide

/-! ### several connections on one server: other clients are unaffected -/

theorem run_cons_none {v : Variant} {caps : Caps} {s : St} {a : Act} (as : List Act) (h : step v caps s a = none) :
    run v caps s (a :: as) = run v caps s as := by
  simp [run, h]

theorem run_cons_some {v : Variant} {caps : Caps} {s s' : St} {a : Act} (as : List Act) (h : step v caps s a = some s') :
    run v caps s (a :: as) = run v caps s' as := by
  simp [run, h]

theorem proj_cons_same (i : Nat) (a : Act) (rest : List (Nat × Act)) : proj i ((i, a) :: rest) = a :: proj i rest := by
  simp [proj]

theorem proj_cons_other {i j : Nat} (a : Act) (rest : List (Nat × Act)) (h : j ≠ i) :
    proj i ((j, a) :: rest) = proj i rest := by
  simp [proj, h]

theorem not_panicked {y : Srv} (h : ∀ s ∈ y.conns, Inv s) : y.panicked = false := by
  simp only [Srv.panicked, List.any_eq_false]
  intro s hs
  simp [(h s hs).nopanic]

/-- general form: from any server state whose connections satisfy the no-crash invariant -/
theorem srvRun_proj (caps : Caps) (sched : List (Nat × Act)) (y : Srv) (hy : ∀ s ∈ y.conns, Inv s) :
    (∀ s ∈ (srvRun .fixed caps y sched).conns, Inv s) ∧
    ∀ i, (srvRun .fixed caps y sched).conns[i]? = (y.conns[i]?).map (fun s => run .fixed caps s (proj i sched)) := by
  induction sched generalizing y with
  | nil => refine ⟨hy, fun i => ?_⟩; cases h : y.conns[i]? <;> simp [srvRun, proj, run, h]
  | cons p rest ih =>
    obtain ⟨j, a⟩ := p
    simp only [srvRun]
    have hnp := not_panicked hy
    cases hj : y.conns[j]? with
    | none =>
      have : srvStep .fixed caps y j a = none := by simp [srvStep, hnp, hj]
      rw [this]
      refine ⟨(ih y hy).1, fun i => ?_⟩
      rw [(ih y hy).2 i]
      by_cases hij : j = i
      · subst hij; simp [hj]
      · rw [proj_cons_other a rest hij]
    | some s =>
      cases hst : step .fixed caps s a with
      | none =>
        have : srvStep .fixed caps y j a = none := by simp [srvStep, hnp, hj, hst]
        rw [this]
        refine ⟨(ih y hy).1, fun i => ?_⟩
        rw [(ih y hy).2 i]
        by_cases hij : j = i
        · subst hij; simp only [hj, Option.map_some, proj_cons_same]; rw [run_cons_none _ hst]
        · rw [proj_cons_other a rest hij]
      | some s' =>
        have : srvStep .fixed caps y j a = some { conns := y.conns.set j s' } := by simp [srvStep, hnp, hj, hst]
        rw [this]
        have hy' : ∀ t ∈ ({ conns := y.conns.set j s' } : Srv).conns, Inv t := by
          intro t ht
          rcases mem_set_cases ht with h | h
          · exact hy t h
          · subst h; exact inv_step caps s _ a (hy s (List.mem_of_getElem? hj)) hst
        refine ⟨(ih _ hy').1, fun i => ?_⟩
        rw [(ih _ hy').2 i]
        by_cases hij : j = i
        · subst hij
          have hlt : j < y.conns.length := by
            rcases Nat.lt_or_ge j y.conns.length with h | h
            · exact h
            · rw [List.getElem?_eq_none h] at hj; cases hj
          simp only [List.getElem?_set_self hlt, hj, Option.map_some, proj_cons_same]
          rw [run_cons_some _ hst]
        · simp only [List.getElem?_set_ne hij]
          rw [proj_cons_other a rest hij]

/-- **other clients are unaffected** — any number of streaming connections on one server, any
interleaving of all their clients, services and goroutines: the process never crashes, and every
connection is at every moment in exactly the state it would be in if it were alone on the server
and only its own actions had happened (so everything proved for one connection — order,
completeness, clean end, tear-down — holds for each of them whatever the others do, bad messages,
disconnects and failing handlers included). -/
theorem c15_other_clients_unaffected (caps : Caps) (ms : List CMsg) (sched : List (Nat × Act)) :
    let y := srvRun .fixed caps ⟨ms.map init⟩ sched
    y.panicked = false ∧
    ∀ i, y.conns[i]? = (ms[i]?).map (fun m => run .fixed caps (init m) (proj i sched)) := by
  intro y
  have hy : ∀ s ∈ (⟨ms.map init⟩ : Srv).conns, Inv s := by
    intro s hs
    simp only [List.mem_map] at hs
    obtain ⟨m, _, rfl⟩ := hs
    exact inv_init m
  obtain ⟨h1, h2⟩ := srvRun_proj caps sched ⟨ms.map init⟩ hy
  refine ⟨not_panicked h1, fun i => ?_⟩
  rw [h2 i]
  simp only [List.getElem?_map]
  cases ms[i]? <;> rfl

/-- … and this is what the repairs bought: with the code before them a bad message on one
connection took every other client's stream down with it (connection 1 only listens to a healthy
stream; connection 0's undecodable second message kills the process; the value connection 1's
service emits afterwards is never delivered) -/
theorem c15_old_crash_takes_other_clients_down :
    let sched : List (Nat × Act) :=
      [(0, .aStep), (1, .aStep), (0, .cSend .garbage), (0, .rStep), (0, .rStep), (0, .aStep), (0, .emit 0 0 7),
       (0, .fStep 0 0), (1, .emit 0 0 5), (1, .fStep 0 0), (1, .wOut), (0, .wOut)]
    ((srvRun .old caps10 ⟨[init .fresh, init .fresh]⟩ sched).conns.map (·.s2c)) = [[], []] ∧
    (srvRun .old caps10 ⟨[init .fresh, init .fresh]⟩ sched).panicked = true ∧
    ((srvRun .fixed caps10 ⟨[init .fresh, init .fresh]⟩ sched).conns.map (·.s2c)) = [[.data 0 7], [.data 0 5]] := by
  decide

/-! ### a write loop that waits for the client's answer to its close frame -/

/-- **waiting for the reader after the normal close blocks on a silent client**: the service ends
the stream, the normal close is written; the client is still connected but sends nothing more (it
does not answer the close frame).  With the write loop waiting for the reader routine
(`stepWaiting`) no goroutine of onet can move any more and the connection stays open, the reader, the
adapter and the write loop never end, the service's stop channel is never closed; the code as it is
reaches, on the same schedule, the torn-down state `c15_service_ends_stream` promises. -/
theorem c15_waiting_for_silent_client_blocks :
    let sched : List Act := [.aStep, .emit 0 0 1, .fStep 0 0, .wOut, .svcClose 0, .fStep 0 0, .wOut,
      .rStep, .aStep, .stop 0, .wOut]
    let w := runWaiting caps10 (init .fresh) sched
    let s := run .fixed caps10 (init .fresh) sched
    (w.s2c = [.data 0 1, .closeNormal] ∧ w.cGone = false ∧ (∀ a ∈ internal1, stepWaiting caps10 w a = none) ∧
      w.wdone = false ∧ w.wsClosed = false ∧ w.rpc = .read ∧ w.adone = false ∧
      (w.streams.map (·.stopClosed)) = [false]) ∧
    (s.s2c = [.data 0 1, .closeNormal] ∧ (∀ a ∈ internal1, step .fixed caps10 s a = none) ∧
      s.wdone = true ∧ s.wsClosed = true ∧ s.rpc = .done ∧ s.adone = true ∧
      (s.streams.map (·.stopClosed)) = [true]) := by
  decide


/-! ### the whole statement in one proposition (round 7) -/

/-- `Quiet` for a code variant -/
def QuietV (v : Variant) (caps : Caps) (s : St) : Prop :=
  step v caps s .rStep = none ∧ step v caps s .rLeave = none ∧
  step v caps s .aStep = none ∧
  step v caps s .wOut = none ∧ step v caps s .wClosing = none ∧
  step v caps s .wOutFail = none ∧
  (∀ k, step v caps s (.stop k) = none) ∧
  (∀ k, step v caps s (.fStep k 0) = none ∧ step v caps s (.fDrop k 0) = none)

/-- **the property, all clauses, for a code variant**: `C15_full` (no crash; order per channel; complete at
the normal close; tear-down when the client has gone) and, for every first message, schedule and
(positive) capacities —
5. whatever channels a handler hands back: a nil output channel has no forwarder and its request is
   refused (nobody of onet's ever waits on something that cannot happen);
6. nothing is stuck: when none of onet's goroutines can move, every forwarder has ended or waits, with
   empty hands, on a real channel its service has not closed; once the write loop has been left the
   socket is closed, reader and adapter have ended, every service has been told to stop;
7. the service ends the stream: if, at such a moment, some request was served and every channel has been
   closed by its service, the write loop has been left and a client that is still there has been sent
   the normal close;
8. other clients: any number of connections on one server, any interleaving — nobody crashes and each
   connection is in the state its own actions alone lead to. -/
def C15_statement (v : Variant) : Prop :=
  C15_full v ∧
  (∀ (caps : Caps) (m₀ : CMsg) (sched : List Act), 0 < caps.inCap → 0 < caps.outCap →
    let s := run v caps (init m₀) sched
    (∀ st ∈ s.streams, st.noOut = true → st.fwd = .done ∧ st.refused = true) ∧
    (QuietV v caps s →
      (∀ st ∈ s.streams, st.fwd = .done ∨ (st.fwd = .recv ∧ st.chanClosed = false ∧ st.noOut = false)) ∧
      (s.wdone = true → s.wsClosed = true ∧ s.rpc = .done ∧ s.adone = true ∧ s.stopAll = true ∧
        ∀ st ∈ s.streams, st.stopClosed = true) ∧
      ((∃ st ∈ s.streams, st.refused = false) → (∀ st ∈ s.streams, st.chanClosed = true) →
        s.wdone = true ∧ (s.cGone = false → Frame.closeNormal ∈ s.s2c)))) ∧
  (∀ (caps : Caps) (ms : List CMsg) (sched : List (Nat × Act)),
    let y := srvRun v caps ⟨ms.map init⟩ sched
    y.panicked = false ∧ ∀ i, y.conns[i]? = (ms[i]?).map (fun m => run v caps (init m) (proj i sched)))

/-- **the whole statement holds for the code as it is** -/
theorem c15_statement_fixed : C15_statement .fixed := by
  refine ⟨c15_full_fixed, ?_, fun caps ms sched => c15_other_clients_unaffected caps ms sched⟩
  intro caps m₀ sched hin hout s
  refine ⟨(c15_no_forwarder_on_nil_channel caps m₀ sched).1, fun hq => ?_⟩
  have hq' : Quiet caps s := hq
  obtain ⟨hw1, _⟩ := c15_waiting_forwarders_wait_on_real_channels caps hin hout m₀ sched hq'
  obtain ⟨_, _, _, _, hst, htear⟩ := c15_nothing_stuck caps hin hout m₀ sched hq'
  refine ⟨hw1, fun hw => ?_, fun hex hcl => ?_⟩
  · obtain ⟨a, b, c, d⟩ := htear hw
    exact ⟨a, b, c, d, fun st hm => hst st hm (Or.inl d)⟩
  · obtain ⟨a, _, _, _, _, f⟩ := c15_service_ends_stream caps hin hout m₀ sched hq' hex hcl
    exact ⟨a, fun hc => (f hc).1⟩

/-- **… and fails without the nil-channel repair by the nil-channel clause itself** (not only by the crash on
a nil stop channel, `c15_full_fails_nil_unsafe`): a handler that hands back a nil output channel gets a
forwarder that waits on it for ever -/
theorem c15_statement_fails_nil_unsafe_by_stuck_forwarder :
    ¬ (∀ (caps : Caps) (m₀ : CMsg) (sched : List Act), 0 < caps.inCap → 0 < caps.outCap →
        ∀ st ∈ (run .nilUnsafe caps (init m₀) sched).streams, st.noOut = true → st.fwd = .done ∧ st.refused = true) := by
  intro h
  have := h caps10 .noout [.aStep] (by decide) (by decide)
  revert this
  decide

theorem c15_statement_fails_nil_unsafe : ¬ C15_statement .nilUnsafe := fun h => c15_full_fails_nil_unsafe h.1

theorem c15_statement_fails_old : ¬ C15_statement .old := fun h => c15_full_fails_old h.1

/-! ### the client's side: what the read loop of onet's client hands to its caller -/

theorem closeOut_fr (s : St) : (closeOut s).s2c = s.s2c ∧ (closeOut s).wdone = s.wdone := by
  unfold closeOut; split <;> exact ⟨rfl, rfl⟩
theorem fwdExit_fr (v : Variant) (s : St) : (fwdExit v s).s2c = s.s2c ∧ (fwdExit v s).wdone = s.wdone := by
  unfold fwdExit
  split
  · exact ⟨rfl, rfl⟩
  · split
    · exact ⟨rfl, rfl⟩
    · exact closeOut_fr _
theorem adapterFail_fr (v : Variant) (s : St) : (adapterFail v s).s2c = s.s2c ∧ (adapterFail v s).wdone = s.wdone := by
  unfold adapterFail
  split
  · exact ⟨rfl, rfl⟩
  · exact closeOut_fr s
theorem newStream_fr (v : Variant) (s : St) (t : Stream) : (newStream v s t).s2c = s.s2c ∧ (newStream v s t).wdone = s.wdone := by
  unfold newStream
  split
  · split <;> exact ⟨rfl, rfl⟩
  · exact ⟨rfl, rfl⟩
theorem nilOut_fr (v : Variant) (s : St) : (nilOut v s).s2c = s.s2c ∧ (nilOut v s).wdone = s.wdone := by
  unfold nilOut
  split
  · exact adapterFail_fr _ _
  · exact newStream_fr _ _ _
theorem stopChan_fr (v : Variant) (s : St) (k : Nat) (st : Stream) : (stopChan v s k st).s2c = s.s2c ∧ (stopChan v s k st).wdone = s.wdone := by
  unfold stopChan; split <;> exact ⟨rfl, rfl⟩
theorem extraFwd_fr (v : Variant) (s : St) (j : Nat) (st : Stream) : (extraFwd v s j st).s2c = s.s2c ∧ (extraFwd v s j st).wdone = s.wdone := by
  unfold extraFwd; split <;> exact ⟨rfl, rfl⟩
theorem readerExit_fr (v : Variant) (s : St) : (readerExit v s).s2c = s.s2c ∧ (readerExit v s).wdone = s.wdone := by
  unfold readerExit; split <;> exact ⟨rfl, rfl⟩

/-- what a step does to the frames on the wire: nothing, or — the write loop not yet left — one more data
frame, or one close frame with which the write loop is left -/
def FrStep (s s' : St) : Prop :=
  (s'.s2c = s.s2c ∧ s'.wdone = s.wdone) ∨
  (s.wdone = false ∧ ∃ f, s'.s2c = s.s2c ++ [f] ∧ s'.wdone = !f.isData)

theorem writerLeave_fr (v : Variant) (b : Bool) (f : Frame) (s : St) :
    (writerLeave v b f s).s2c = s.s2c ++ [f] ∧ (writerLeave v b f s).wdone = true := by
  unfold writerLeave
  simp only
  split
  · split <;> exact ⟨rfl, rfl⟩
  · exact ⟨rfl, rfl⟩

theorem step_frames (v : Variant) (caps : Caps) (s s' : St) (a : Act) (h : step v caps s a = some s') :
    FrStep s s' := by
  unfold step at h
  split at h
  · simp at h
  cases a with
  | cSend m => simp only at h; split at h <;> simp at h; subst h; exact Or.inl ⟨rfl, rfl⟩
  | cLeave => simp only at h; split at h <;> simp at h; subst h; exact Or.inl ⟨rfl, rfl⟩
  | rStep =>
    simp only at h
    repeat' split at h
    all_goals first
      | (simp at h; done)
      | (simp only [Option.some.injEq] at h; subst h; first | exact Or.inl ⟨rfl, rfl⟩ | exact Or.inl (readerExit_fr _ _))
  | rLeave =>
    simp only at h
    repeat' split at h
    all_goals first
      | (simp at h; done)
      | (simp only [Option.some.injEq] at h; subst h; first | exact Or.inl ⟨rfl, rfl⟩ | exact Or.inl (readerExit_fr _ _))
  | aStep =>
    simp only at h
    repeat' split at h
    all_goals first
      | (simp at h; done)
      | (simp only [Option.some.injEq] at h; subst h
         first | exact Or.inl ⟨rfl, rfl⟩ | exact Or.inl (adapterFail_fr _ _) | exact Or.inl (newStream_fr _ _ _)
               | exact Or.inl (nilOut_fr _ _) | exact Or.inl (extraFwd_fr _ _ _ _))
  | emit k f x =>
    simp only at h
    repeat' split at h
    all_goals first
      | (simp at h; done)
      | (simp only [Option.some.injEq] at h; subst h; exact Or.inl ⟨rfl, rfl⟩)
  | emitBad k f =>
    simp only at h
    repeat' split at h
    all_goals first
      | (simp at h; done)
      | (simp only [Option.some.injEq] at h; subst h; first | exact Or.inl ⟨rfl, rfl⟩ | exact Or.inl (fwdExit_fr _ _))
  | svcClose k =>
    simp only at h
    repeat' split at h
    all_goals first
      | (simp at h; done)
      | (simp only [Option.some.injEq] at h; subst h; exact Or.inl ⟨rfl, rfl⟩)
  | fStep k f =>
    simp only at h
    repeat' split at h
    all_goals first
      | (simp at h; done)
      | (simp only [Option.some.injEq] at h; subst h; first | exact Or.inl ⟨rfl, rfl⟩ | exact Or.inl (fwdExit_fr _ _))
  | fDrop k f =>
    simp only at h
    repeat' split at h
    all_goals first
      | (simp at h; done)
      | (simp only [Option.some.injEq] at h; subst h; first | exact Or.inl ⟨rfl, rfl⟩ | exact Or.inl (fwdExit_fr _ _))
  | stop k =>
    simp only at h
    repeat' split at h
    all_goals first
      | (simp at h; done)
      | (simp only [Option.some.injEq] at h; subst h; first | exact Or.inl ⟨rfl, rfl⟩ | exact Or.inl (stopChan_fr _ _ _ _))
  | wOut =>
    simp only at h
    split at h
    · simp at h
    · rename_i hw
      have hw' : s.wdone = false := by simpa using hw
      split at h
      · simp only [Option.some.injEq] at h; subst h
        exact Or.inr ⟨hw', _, rfl, by simp [Frame.isData, hw']⟩
      · split at h
        · simp only [Option.some.injEq] at h; subst h
          exact Or.inr ⟨hw', _, (writerLeave_fr _ _ _ _).1, by simp [Frame.isData, (writerLeave_fr _ _ _ _).2]⟩
        · simp at h
  | wClosing =>
    simp only at h
    split at h
    · simp at h
    · rename_i hw
      have hw' : s.wdone = false := by simpa using hw
      split at h
      · simp only [Option.some.injEq] at h; subst h
        exact Or.inr ⟨hw', _, (writerLeave_fr _ _ _ _).1, by simp [Frame.isData, (writerLeave_fr _ _ _ _).2]⟩
      · simp at h
  | wOutFail =>
    simp only at h
    split at h
    · simp at h
    · rename_i hw
      have hw' : s.wdone = false := by simpa using hw
      split at h
      · split at h
        · simp only [Option.some.injEq] at h; subst h
          exact Or.inr ⟨hw', _, (writerLeave_fr _ _ _ _).1, by simp [Frame.isData, (writerLeave_fr _ _ _ _).2]⟩
        · simp at h
      · simp at h


/-- the frames on the wire: data frames and — exactly when the write loop has been left — one close frame
behind them, nothing after it (any code variant) -/
def WellFramed (s : St) : Prop :=
  (s.wdone = false → ∀ f ∈ s.s2c, f.isData = true) ∧
  (s.wdone = true → ∃ ds f, s.s2c = ds ++ [f] ∧ (∀ g ∈ ds, g.isData = true) ∧ f.isData = false)

theorem wellFramed_step {s s' : St} (h : FrStep s s') (hw : WellFramed s) : WellFramed s' := by
  rcases h with ⟨h1, h2⟩ | ⟨h0, f, h1, h2⟩
  · unfold WellFramed; rw [h1, h2]; exact hw
  · have hall := hw.1 h0
    cases hf : f.isData with
    | true =>
      rw [hf] at h2
      refine ⟨fun _ g hg => ?_, fun hc => ?_⟩
      · rw [h1] at hg
        rcases List.mem_append.mp hg with hg | hg
        · exact hall g hg
        · simp at hg; rw [hg]; exact hf
      · rw [h2] at hc; simp at hc
    | false =>
      rw [hf] at h2
      refine ⟨fun hc => ?_, fun _ => ⟨s.s2c, f, h1, hall, hf⟩⟩
      rw [h2] at hc; simp at hc

theorem wellFramed_run (v : Variant) (caps : Caps) (s : St) (hw : WellFramed s) (sched : List Act) :
    WellFramed (run v caps s sched) := by
  induction sched generalizing s with
  | nil => exact hw
  | cons a as ih =>
    simp only [run]
    split
    · rename_i s' hs; exact ih s' (wellFramed_step (step_frames v caps s s' a hs) hw)
    · exact ih s hw

theorem wellFramed_init (m : CMsg) : WellFramed (init m) := by
  refine ⟨fun _ f hf => ?_, fun h => ?_⟩ <;> simp [init] at *

theorem clientLoop_all_data : ∀ (fs : List Frame), (∀ f ∈ fs, f.isData = true) →
    (clientLoop fs).2 = .waiting ∧ ∀ k, outqK k (clientLoop fs).1 = dataOfK k fs
  | [], _ => ⟨rfl, fun _ => rfl⟩
  | .data j v :: rest, h => by
    obtain ⟨h1, h2⟩ := clientLoop_all_data rest (fun f hf => h f (List.mem_cons_of_mem _ hf))
    refine ⟨h1, fun k => ?_⟩
    simp only [clientLoop, dataOfK, outqK, List.filter_cons]
    have := h2 k
    simp only [outqK] at this
    by_cases hj : j = k
    · simp [hj, this]
    · have hb : (j == k) = false := by simpa using hj
      simp [hj, hb, this]
  | .closeNormal :: _, h => by have := h _ List.mem_cons_self; simp [Frame.isData] at this
  | .closeError :: _, h => by have := h _ List.mem_cons_self; simp [Frame.isData] at this

theorem clientLoop_closed : ∀ (ds : List Frame) (f : Frame), (∀ g ∈ ds, g.isData = true) → f.isData = false →
    (clientLoop (ds ++ [f])).2 = .closed (f == .closeNormal) ∧
    ∀ k, outqK k (clientLoop (ds ++ [f])).1 = dataOfK k (ds ++ [f])
  | [], f, _, hf => by
    cases f with
    | data k v => simp [Frame.isData] at hf
    | closeNormal => exact ⟨rfl, fun _ => rfl⟩
    | closeError => exact ⟨rfl, fun _ => rfl⟩
  | .data j v :: rest, f, h, hf => by
    obtain ⟨h1, h2⟩ := clientLoop_closed rest f (fun g hg => h g (List.mem_cons_of_mem _ hg)) hf
    refine ⟨h1, fun k => ?_⟩
    have := h2 k
    simp only [outqK] at this
    simp only [List.cons_append, clientLoop, dataOfK, outqK, List.filter_cons]
    by_cases hj : j = k
    · simp [hj, this]
    · have hb : (j == k) = false := by simpa using hj
      simp [hj, hb, this]
  | .closeNormal :: _, _, h, _ => by have := h _ List.mem_cons_self; simp [Frame.isData] at this
  | .closeError :: _, _, h, _ => by have := h _ List.mem_cons_self; simp [Frame.isData] at this

/-- **the read loop, whatever the server does**: for every list of frames — any server behaviour — the
loop hands its caller exactly the data frames that precede the first close frame, in their order, one per
`ReadMessage`, and ends at that close frame with its code (the caller is never handed anything that was
written behind a close frame, never the same frame twice, never out of order) -/
theorem c15_client_loop_any_server (fs : List Frame) :
    (clientLoop fs).1 = (fs.takeWhile Frame.isData).filterMap (fun f => match f with | .data k v => some (k, v) | _ => none) ∧
    ((clientLoop fs).2 = .waiting ↔ ∀ f ∈ fs, f.isData = true) ∧
    (∀ b, (clientLoop fs).2 = .closed b ↔ ∃ ds rest, fs = ds ++ (if b then Frame.closeNormal else Frame.closeError) :: rest ∧
      ∀ g ∈ ds, g.isData = true) ∧
    clientReads fs ≤ fs.length := by
  induction fs with
  | nil => refine ⟨rfl, by simp [clientLoop], fun b => ?_, by simp [clientReads, clientLoop]⟩
           simp [clientLoop]
  | cons f rest ih =>
    obtain ⟨i1, i2, i3, i4⟩ := ih
    cases f with
    | data k v =>
      refine ⟨by simp [clientLoop, Frame.isData, List.takeWhile_cons, i1], ?_, fun b => ?_, ?_⟩
      · simp only [clientLoop, i2, List.mem_cons, forall_eq_or_imp, Frame.isData, true_and]
      · simp only [clientLoop, i3 b]
        constructor
        · rintro ⟨ds, r, h1, h2⟩
          exact ⟨.data k v :: ds, r, by rw [h1]; rfl, fun g hg => by
            rcases List.mem_cons.mp hg with rfl | hg
            · rfl
            · exact h2 g hg⟩
        · rintro ⟨ds, r, h1, h2⟩
          cases ds with
          | nil => simp at h1; split at h1 <;> simp at h1
          | cons d ds' =>
            simp only [List.cons_append, List.cons.injEq] at h1
            exact ⟨ds', r, h1.2, fun g hg => h2 g (List.mem_cons_of_mem _ hg)⟩
      · simp only [clientReads, clientLoop, List.length_cons] at i4 ⊢; omega
    | closeNormal =>
      refine ⟨by simp [clientLoop, Frame.isData], by simp [clientLoop, Frame.isData], fun b => ?_,
        by simp [clientReads, clientLoop]⟩
      cases b with
      | true => simp only [clientLoop, if_true, true_iff]; exact ⟨[], rest, rfl, by simp⟩
      | false =>
        simp only [clientLoop, CEnd.closed.injEq, Bool.true_eq_false, false_iff, Bool.false_eq_true, if_false]
        rintro ⟨ds, r, h1, h2⟩
        cases ds with
        | nil => simp at h1
        | cons d ds' =>
          simp only [List.cons_append, List.cons.injEq] at h1
          have := h2 d List.mem_cons_self
          rw [← h1.1] at this; simp [Frame.isData] at this
    | closeError =>
      refine ⟨by simp [clientLoop, Frame.isData], by simp [clientLoop, Frame.isData], fun b => ?_,
        by simp [clientReads, clientLoop]⟩
      cases b with
      | false => simp only [clientLoop, Bool.false_eq_true, if_false, true_iff]; exact ⟨[], rest, rfl, by simp⟩
      | true =>
        simp only [clientLoop, CEnd.closed.injEq, Bool.false_eq_true, false_iff, if_true]
        rintro ⟨ds, r, h1, h2⟩
        cases ds with
        | nil => simp at h1
        | cons d ds' =>
          simp only [List.cons_append, List.cons.injEq] at h1
          have := h2 d List.mem_cons_self
          rw [← h1.1] at this; simp [Frame.isData] at this

/-- **end to end — the client of onet's own library receives every message the service emitted, in emission
order, then the normal close**: for the code as it is, every first message, every schedule of client,
service and goroutines, all capacities.  `r` is what the client's read loop has been handed from the frames
written so far.  (1) per channel the values handed to the caller are a prefix, in order, of what the service
emitted; (2) the loop has ended iff the server's write loop has been left — a client that reads never waits
for a server that has gone, nor is it cut off while the server still writes; (3) when it ended with the normal
close (no bad message on the stream) the caller has been handed *everything* every channel emitted. -/
theorem c15_client_receives_in_order_and_complete (caps : Caps) (m₀ : CMsg) (sched : List Act) :
    let s := run .fixed caps (init m₀) sched
    let r := clientLoop s.s2c
    (s.cGone = false → ∀ (k : Nat) st, s.streams[k]? = some st → outqK k r.1 <+: st.emitted) ∧
    (r.2 = .waiting ↔ s.wdone = false) ∧
    (s.cGone = false → s.ended = false → r.2 = .closed true →
      ∀ (k : Nat) st, s.streams[k]? = some st → outqK k r.1 = st.emitted) := by
  intro s r
  have hW : WellFramed s := wellFramed_run .fixed caps _ (wellFramed_init m₀) sched
  have hval : ∀ k, outqK k r.1 = dataOfK k s.s2c := by
    intro k
    cases hw : s.wdone with
    | false => exact (clientLoop_all_data s.s2c (hW.1 hw)).2 k
    | true =>
      obtain ⟨ds, f, h1, h2, h3⟩ := hW.2 hw
      have := (clientLoop_closed ds f h2 h3).2 k
      simp only [r, h1]; exact this
  have hord := c15_order_per_channel caps m₀ sched
  refine ⟨fun hc k st hk => ?_, ?_, fun hc he hr k st hk => ?_⟩
  · rw [hval k]
    have := hord hc k st hk
    exact List.IsPrefix.trans ⟨outqK k s.outq ++ heldOf st.fwd, by rw [List.append_assoc]⟩ this
  · cases hw : s.wdone with
    | false => simp [r, (clientLoop_all_data s.s2c (hW.1 hw)).1]
    | true =>
      obtain ⟨ds, f, h1, h2, h3⟩ := hW.2 hw
      simp [r, h1, (clientLoop_closed ds f h2 h3).1]
  · rw [hval k]
    have hcn : Frame.closeNormal ∈ s.s2c := by
      cases hw : s.wdone with
      | false => rw [(clientLoop_all_data s.s2c (hW.1 hw)).1] at hr; cases hr
      | true =>
        obtain ⟨ds, f, h1, h2, h3⟩ := hW.2 hw
        have hr' : (clientLoop (ds ++ [f])).2 = .closed true := by rw [← h1]; exact hr
        rw [(clientLoop_closed ds f h2 h3).1] at hr'
        simp only [CEnd.closed.injEq, beq_iff_eq] at hr'
        rw [h1, hr']; simp
    exact (c15_complete_at_normal_close caps m₀ sched hc he hcn k st hk).symm

/-- non-vacuity: three values, the service closes, the client's loop has been handed all three and the
normal close; and a server that gives up (client message that does not decode … then the client drops) -/
example :
    let s := run .fixed caps10 (init .fresh)
      [.aStep, .emit 0 0 1, .fStep 0 0, .emit 0 0 2, .fStep 0 0, .wOut, .emit 0 0 3, .fStep 0 0, .svcClose 0, .fStep 0 0,
       .wOut, .wOut, .wOut]
    clientLoop s.s2c = ([(0, 1), (0, 2), (0, 3)], .closed true) ∧ clientReads s.s2c = 4 := by decide

/-- what the frame discipline excludes: a write loop that goes on after its close frame (or writes the close
twice) — the caller is handed neither the value behind the close nor a second close -/
theorem c15_client_loop_stops_at_the_first_close :
    clientLoop [.data 0 1, .closeNormal, .data 0 2, .closeNormal] = ([(0, 1)], .closed true) ∧
    clientLoop [.data 0 1, .closeError, .data 0 2] = ([(0, 1)], .closed false) ∧
    clientLoop [.data 0 1, .data 1 7] = ([(0, 1), (1, 7)], .waiting) := by decide

/-! ### a message whose encoding is empty (seed C15r7-B) -/

/-- **the empty message is a message**: `outChan` carries byte slices and the write loop tells the end of
the stream by the channel being closed (`!ok`, lifted from the source in `Props/C15Gen.lean`), not by what
a slice holds.  The driver maps the message with the empty encoding to value 0 of channel 0 — every
theorem above quantifies over it; here the concrete run: it is written in its place, the stream goes on,
the normal close comes only after the service closed its channel, and the client's loop hands over all
three values.  (A write loop that tests `reply == nil` ends the stream at the second frame: the run
`corpus:empty-message` then shows `c15:incomplete`.) -/
theorem c15_empty_message_is_a_message :
    let mid := run .fixed caps10 (init .fresh)
      [.aStep, .emit 0 0 1, .fStep 0 0, .wOut, .emit 0 0 0, .fStep 0 0, .wOut]
    let s := run .fixed caps10 mid [.emit 0 0 2, .fStep 0 0, .wOut, .svcClose 0, .fStep 0 0, .wOut]
    mid.s2c = [.data 0 1, .data 0 0] ∧ mid.wdone = false ∧ mid.outClosed = false ∧ mid.stopAll = false ∧
    s.s2c = [.data 0 1, .data 0 0, .data 0 2, .closeNormal] ∧
    clientLoop s.s2c = ([(0, 1), (0, 0), (0, 2)], .closed true) ∧
    (s.streams.map (·.emitted)) = [[1, 0, 2]] := by decide

/-- **liveness for the client, at quiescence**: the service has ended the stream (some request was served, every
channel closed by its service, no bad message), the client is still there and none of onet's goroutines can
move — then the client's read loop **has** ended, with the normal close, and **has** been handed, per channel,
exactly what the service emitted.  Nothing is still on its way, nothing was dropped, for every schedule that
leads there and all (positive) capacities. -/
theorem c15_client_has_everything_when_the_service_ended (caps : Caps) (hin : 0 < caps.inCap) (hout : 0 < caps.outCap)
    (m₀ : CMsg) (sched : List Act) :
    let s := run .fixed caps (init m₀) sched
    Quiet caps s → (∃ st ∈ s.streams, st.refused = false) → (∀ st ∈ s.streams, st.chanClosed = true) →
    s.cGone = false → s.ended = false →
      (clientLoop s.s2c).2 = .closed true ∧
      ∀ (k : Nat) st, s.streams[k]? = some st → outqK k (clientLoop s.s2c).1 = st.emitted := by
  intro s hq hex hcl hc he
  obtain ⟨hw, _, _, _, _, hcn⟩ := c15_service_ends_stream caps hin hout m₀ sched hq hex hcl
  have hcn' := (hcn hc).1
  have hW : WellFramed s := wellFramed_run .fixed caps _ (wellFramed_init m₀) sched
  obtain ⟨ds, f, h1, h2, h3⟩ := hW.2 hw
  have hf : f = .closeNormal := by
    rw [h1] at hcn'
    rcases List.mem_append.mp hcn' with hm | hm
    · have := h2 _ hm; simp [Frame.isData] at this
    · simp only [List.mem_singleton] at hm; exact hm.symm
  have hend : (clientLoop s.s2c).2 = .closed true := by
    rw [h1, (clientLoop_closed ds f h2 h3).1, hf]; rfl
  exact ⟨hend, (c15_client_receives_in_order_and_complete caps m₀ sched).2.2 hc he hend⟩

/-- non-vacuity: such a state is reached (two values, the service closes, everything runs to rest) -/
example :
    let s := run .fixed caps10 (init .fresh)
      [.aStep, .emit 0 0 1, .fStep 0 0, .emit 0 0 2, .fStep 0 0, .svcClose 0, .fStep 0 0, .wOut, .wOut, .wOut, .rStep, .aStep, .stop 0]
    (∀ a ∈ internal1, step .fixed caps10 s a = none) ∧ s.cGone = false ∧ s.ended = false ∧
    (s.streams.map (fun st => (st.refused, st.chanClosed))) = [(false, true)] ∧
    clientLoop s.s2c = ([(0, 1), (0, 2)], .closed true) := by decide

/-! ### the code regions the model stands for
Regenerated from /repo's source on every run (`harness/cmd/astfacts` → `OnetVerif/Shapes.lean`): the
calls that matter for synchronisation and data flow, the lock regions and (for decision logic) the
conditions, in source order.  A re-ordering, a dropped call or a changed condition breaks these
obligations even when no sampled input or schedule shows a difference; the check then searches for
a failing input. -/
theorem c15_shape_ServiceProcessor_ProcessClientStreamRequest :
    Shapes.processor_ServiceProcessor_ProcessClientStreamRequest =
   ["assign:outChan:=make(conv,100)", "assign:mh,ok:=p.handlers[path]", "if:!ok",
     "assign:err:=xerrors.New(((\"\"+\"\")+path))", "return:nil,err",
     "assign:stopAll:=make(conv)", "assign:closing:=sync.Mutex{}", "assign:forwarders:=0",
     "assign:outClosed:=false", "verifC15Point", "close:stopAll", "stopAllOnce.Do",
     "outLock.Lock", "if:((forwarders==0)&&!outClosed)", "assign:outClosed=true",
     "close:outChan", "outLock.Unlock", "assign:endStream:=func", "go{", "assign:ended:=false",
     "assign:forwarded:=make(conv)", "range:buf,:=clientInputs{", "verifC15Point", "if:ended",
     "continue", "assign:msg:=reflect.New().Interface()", "server.Suite",
     "network.DefaultConstructors", "protobuf.DecodeWithConstructors",
     "assign:err:=protobuf.DecodeWithConstructors(buf,msg,network.DefaultConstructors(p.Context.server.Suite()))",
     "if:(err!=nil)", "assign:ended=true", "endStream", "continue", "callInterfaceFunc",
     "assign:reply,stopServiceChan,err:=callInterfaceFunc(mh.handler,msg,mh.streaming)",
     "if:(err!=nil)", "if:(stopServiceChan!=nil)", "close:stopServiceChan", "assign:ended=true",
     "endStream", "continue", "assign:inChan:=reflect.ValueOf(reply)", "inChan.IsNil",
     "assign:noChan:=inChan.IsNil()", "if:noChan", "assign:ended=true", "endStream",
     "assign:known:=forwarded[reply]", "assign:forwarded[reply]=true", "outLock.Lock",
     "assign:refused:=(outClosed||noChan)", "if:(!refused&&!known)", "assign:forwarders++",
     "outLock.Unlock", "go{", "if:!refused", "recv:stopAll", "if:(stopServiceChan==nil)",
     "return:", "closing.Lock", "defer:closing.Unlock", "recv:stopServiceChan", "return:",
     "close:stopServiceChan", "}", "if:(refused||known)", "continue", "go{",
     "assign:cases:=conv{{Dir:reflect.SelectRecv,Chan:inChan}}", "defer{", "verifC15Point",
     "outLock.Lock", "assign:forwarders--", "if:((forwarders==0)&&!outClosed)",
     "assign:outClosed=true", "close:outChan", "outLock.Unlock", "}", "for:{",
     "assign:chosen,v,ok:=reflect.Select(cases)", "if:!ok", "return:", "if:(chosen==0)",
     "v.Interface", "protobuf.Encode", "assign:buf,err:=protobuf.Encode(v.Interface())",
     "if:(err!=nil)", "return:", "verifC15Point", "send:outChan", "recv:stopAll", "return:",
     "else", "}", "}", "}", "close:stopAll", "stopAllOnce.Do", "}", "return:outChan,nil"] := rfl

theorem c15_shape_wsHandler_ServeHTTP :
    Shapes.websocket_wsHandler_ServeHTTP =
   ["assign:rx:=0", "assign:tx:=0", "assign:n:=0", "defer{", "}", "return:true",
     "assign:u:=websocket.Upgrader{EnableCompression:false,CheckOrigin:func}", "u.Upgrade",
     "assign:ws,err:=u.Upgrade(w,r,http.Header{})", "if:(err!=nil)", "return:", "defer:ws.Close",
     "for:(err==nil){", "ws.ReadMessage", "assign:mt,buf,rerr:=ws.ReadMessage()",
     "if:(rerr!=nil)", "assign:err=rerr", "break", "assign:rx+=len(buf)", "assign:n++",
     "assign:s:=t.service",
     "assign:path:=strings.TrimPrefix(r.URL.Path,((\"\"+t.serviceName)+\"\"))",
     "assign:isStreaming:=false", "assign:bidirectionalStreamer,ok:=s.(BidirectionalStreamer)",
     "if:ok", "bidirectionalStreamer.IsStreaming",
     "assign:isStreaming,err=bidirectionalStreamer.IsStreaming(path)", "if:(err!=nil)",
     "continue", "if:!isStreaming", "s.ProcessClientRequest",
     "assign:reply,_,err=s.ProcessClientRequest(r,path,buf)", "if:(err!=nil)", "continue",
     "assign:tx+=len(reply)", "time.Now", "Now().Add", "ws.SetWriteDeadline",
     "assign:err=ws.SetWriteDeadline(time.Now().Add((5*time.Minute)))", "if:(err!=nil)", "break",
     "ws.WriteMessage", "assign:err=ws.WriteMessage(mt,reply)", "if:(err!=nil)", "break",
     "continue", "assign:clientInputs:=make(conv,10)", "send:clientInputs",
     "bidirectionalStreamer.ProcessClientStreamRequest",
     "assign:outChan,err=bidirectionalStreamer.ProcessClientStreamRequest(r,path,clientInputs)",
     "if:(err!=nil)", "continue", "assign:closing:=make(conv)", "assign:leaving:=make(conv)",
     "go{", "defer:close:clientInputs", "defer:verifC15Point", "for:{", "ws.ReadMessage",
     "assign:_,buf,err:=ws.ReadMessage()", "if:(err!=nil)", "close:closing", "return:",
     "verifC15Point", "send:clientInputs", "recv:leaving", "return:", "}", "}", "for:{",
     "recv:closing", "break", "recv:outChan", "assign:reply,ok:=<-outChan", "if:!ok",
     "websocket.FormatCloseMessage", "time.Now", "Now().Add", "ws.WriteControl", "verifC15Point",
     "close:leaving", "return:", "assign:tx+=len(reply)", "time.Now", "Now().Add",
     "ws.SetWriteDeadline", "assign:err=ws.SetWriteDeadline(time.Now().Add((5*time.Minute)))",
     "if:(err!=nil)", "verifC15Point", "close:leaving", "break", "ws.WriteMessage",
     "assign:err=ws.WriteMessage(mt,reply)", "if:(err!=nil)", "verifC15Point", "close:leaving",
     "break", "}", "}", "assign:errMessage:=\"\"", "if:(err!=nil)", "err.Error",
     "assign:errMessage+=err.Error()", "websocket.FormatCloseMessage", "time.Now", "Now().Add",
     "ws.WriteControl", "return:"] := rfl


end C15
