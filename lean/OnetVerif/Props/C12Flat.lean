import OnetVerif.Model.C12
/-! Property C12 — helper file (no obligations here): a tree in creation order (`Nodes`: roster index and position of
the parent) read as a *rooted tree* — the children of a position, the recursion `Tree.IsNary` performs over them —
and the proof that on a well-formed list (every parent precedes its child) that recursion from the root decides the
flat predicate `isNary` of `Model/C12.lean` (every position has `M` children or none).  `Props/C12Gen.lean` uses it to
equate the translated `Tree.IsNary` on the pointer tree built from the list with the model's `isNary`. -/
namespace C12

/-- the parent position of node `j + 1`, for every `j` (the root has no entry) -/
def parentsOf (t : Nodes) : List Nat := (t.drop 1).map (·.2)

theorem arity_eq_count (t : Nodes) (p : Nat) : arity t p = (parentsOf t).count p := rfl

/-- the children of position `p`, in creation order (`Children` of the Go node: `AddChild` appends) -/
def kidsP (par : List Nat) (p : Nat) : List Nat :=
  ((List.range par.length).filter fun j => par.getD j 0 == p).map (· + 1)

/-- every parent precedes its child -/
def WFP (par : List Nat) : Prop := ∀ j, j < par.length → par.getD j 0 ≤ j

def okP (par : List Nat) (M p : Nat) : Bool := par.count p == M || par.count p == 0

/-- the recursion of `Tree.IsNary(root, M)` over positions, `f` levels deep -/
def naryAtP (par : List Nat) (M : Nat) : Nat → Nat → Bool
  | 0, _ => true
  | f + 1, p => okP par M p && (kidsP par p).all (naryAtP par M f)

/-- the flat predicate: every position has `M` children or none -/
def allOkP (par : List Nat) (M : Nat) : Bool := (List.range (par.length + 1)).all (okP par M)

theorem kidsP_length (par : List Nat) (p : Nat) : (kidsP par p).length = par.count p := by
  have hl : par = (List.range par.length).map (fun j => par.getD j 0) := by
    apply List.ext_getElem
    · simp
    · intro i h1 h2
      simp [List.getD_eq_getElem?_getD, List.getElem?_eq_getElem h1]
  simp only [kidsP, List.length_map]
  conv => rhs; rw [hl]
  rw [List.count_eq_countP, List.countP_map, List.countP_eq_length_filter]
  rfl

theorem mem_kidsP {par : List Nat} {p q : Nat} :
    q ∈ kidsP par p ↔ ∃ j, j < par.length ∧ par.getD j 0 = p ∧ q = j + 1 := by
  simp only [kidsP, List.mem_map, List.mem_filter, List.mem_range, beq_iff_eq]
  constructor
  · rintro ⟨j, ⟨h1, h2⟩, rfl⟩; exact ⟨j, h1, h2, rfl⟩
  · rintro ⟨j, h1, h2, rfl⟩; exact ⟨j, ⟨h1, h2⟩, rfl⟩

/-- flat ⇒ recursive, from every position, with any fuel -/
theorem naryAtP_of_allOk (par : List Nat) (M : Nat) (h : allOkP par M = true) :
    ∀ (f p : Nat), p ≤ par.length → naryAtP par M f p = true := by
  intro f
  induction f with
  | zero => intro p _; rfl
  | succ f ih =>
    intro p hp
    simp only [naryAtP, Bool.and_eq_true, List.all_eq_true]
    refine ⟨?_, ?_⟩
    · simp only [allOkP, List.all_eq_true, List.mem_range] at h
      exact h p (by omega)
    · intro q hq
      obtain ⟨j, hj, _, rfl⟩ := mem_kidsP.mp hq
      exact ih (j + 1) (by omega)

/-- recursive from the root with enough fuel ⇒ every position is visited: position `p` at some depth `d ≤ p` -/
theorem naryAtP_reaches (par : List Nat) (M F : Nat) (wf : WFP par) (hF : par.length + 1 ≤ F)
    (h : naryAtP par M F 0 = true) :
    ∀ p, p ≤ par.length → ∃ d, d ≤ p ∧ naryAtP par M (F - d) p = true := by
  intro p
  induction p using Nat.strongRecOn with
  | _ p ih =>
    intro hp
    cases p with
    | zero => exact ⟨0, Nat.le_refl _, by simpa using h⟩
    | succ j =>
      have hj : j < par.length := by omega
      have hr := wf j hj
      obtain ⟨d, hd, hn⟩ := ih (par.getD j 0) (by omega) (by omega)
      obtain ⟨g, hg⟩ : ∃ g, F - d = g + 1 := ⟨F - d - 1, by omega⟩
      rw [hg] at hn
      simp only [naryAtP, Bool.and_eq_true, List.all_eq_true] at hn
      have := hn.2 (j + 1) (mem_kidsP.mpr ⟨j, hj, rfl, rfl⟩)
      refine ⟨d + 1, by omega, ?_⟩
      have hge : F - (d + 1) = g := by omega
      rw [hge]; exact this

/-- **on a well-formed list the recursion from the root decides the flat predicate** (fuel: one more than the
number of nodes is always enough) -/
theorem naryAtP_root_eq (par : List Nat) (M F : Nat) (wf : WFP par) (hF : par.length + 1 ≤ F) :
    naryAtP par M F 0 = allOkP par M := by
  rw [Bool.eq_iff_iff]
  constructor
  · intro h
    simp only [allOkP, List.all_eq_true, List.mem_range]
    intro p hp
    obtain ⟨d, hd, hn⟩ := naryAtP_reaches par M F wf hF h p (by omega)
    obtain ⟨g, hg⟩ : ∃ g, F - d = g + 1 := ⟨F - d - 1, by omega⟩
    rw [hg] at hn
    simp only [naryAtP, Bool.and_eq_true] at hn
    exact hn.1
  · intro h
    exact naryAtP_of_allOk par M h F 0 (Nat.zero_le _)

/-- the model's `isNary` is the flat predicate over the parent list -/
theorem isNary_eq_allOkP (t : Nodes) (hne : t ≠ []) (M : Nat) : isNary t M = allOkP (parentsOf t) M := by
  have hl : t.length = (parentsOf t).length + 1 := by
    cases t with
    | nil => exact absurd rfl hne
    | cons a r => simp [parentsOf]
  unfold isNary allOkP
  rw [hl]
  rfl

/-- well-formedness of the parent list from the statement about the node list (`c12_nary_shape`, fourth clause) -/
theorem wfp_of_nodes (t : Nodes) (h : ∀ i m p, 1 ≤ i → t[i]? = some (m, p) → p < i) : WFP (parentsOf t) := by
  intro j hj
  simp only [parentsOf, List.length_map, List.length_drop] at hj
  have hlt : j + 1 < t.length := by omega
  have hget : (parentsOf t).getD j 0 = (t[j + 1]'hlt).2 := by
    simp [parentsOf, List.getD_eq_getElem?_getD, List.getElem?_map,
      List.getElem?_eq_getElem hlt]
  rw [hget]
  have := h (j + 1) (t[j + 1]'hlt).1 (t[j + 1]'hlt).2 (by omega) (by simp [List.getElem?_eq_getElem hlt])
  omega

end C12
