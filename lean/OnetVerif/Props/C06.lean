import OnetVerif.Model.C06
import OnetVerif.Shapes
/-! Property C06 — a tree learnt from a peer or rebuilt from its serialised form is the same tree.
Property theorems, the negation witness of the one statement the code does not meet, `_partial`
variants, non-vacuity examples and the lemmas they need (core Lean only). -/
namespace C06

/-! ### tree part: flatten to ids, rebuild against the roster -/

/-- every node sits at a valid roster position that holds exactly its server -/
def NodesOK (ro : List Server) : TN → Prop
  | .nil => True
  | .node _ sid key idx _ c s => ro[idx]? = some ⟨sid, key⟩ ∧ NodesOK ro c ∧ NodesOK ro s

/-- a tree as the constructors and generators make it: it carries roster `ro`, has one root, its
nodes point at their servers' roster positions and its aggregates are the computed ones -/
def Tree.WF (t : Tree) (ro : Roster) : Prop :=
  t.roster = some ro ∧ (copyTree t.root).len = 1 ∧ NodesOK ro.list t.root ∧ (aggregate t.root).1 = t.root

/-- the servers of a roster are pairwise distinct -/
def Roster.Distinct (ro : Roster) : Prop := (ro.list.map (·.sid)).Nodup

private theorem search_of_distinct : ∀ (l : List Server) (idx : Nat) (e : Server),
    (l.map (·.sid)).Nodup → l[idx]? = some e → search l e.sid = some (idx, e) := by
  intro l
  induction l with
  | nil => intro idx e _ h; simp at h
  | cons x xs ih =>
    intro idx e hn h
    simp only [List.map_cons, List.nodup_cons] at hn
    cases idx with
    | zero =>
      simp only [List.getElem?_cons_zero, Option.some.injEq] at h
      subst h
      simp [search]
    | succ i =>
      simp only [List.getElem?_cons_succ] at h
      have hne : x.sid ≠ e.sid := by
        intro heq
        apply hn.1
        rw [heq]
        exact List.mem_map_of_mem (List.mem_of_getElem? h)
      simp [search, hne, ih i e hn.2 h]

/-- the forest with every aggregate field cleared -/
def clearAgg : TN → TN
  | .nil => .nil
  | .node nid sid key idx _ c s => .node nid sid key idx 0 (clearAgg c) (clearAgg s)

private theorem aggregate_clearAgg (f : TN) : aggregate (clearAgg f) = aggregate f := by
  induction f with
  | nil => rfl
  | node nid sid key idx agg c s ihc ihs => simp [clearAgg, aggregate, ihc, ihs]

private theorem makeForest_copyTree (ro : List Server) (hd : (ro.map (·.sid)).Nodup) :
    ∀ f, NodesOK ro f → makeForest ro (copyTree f) = some (clearAgg f) := by
  intro f
  induction f with
  | nil => intro _; rfl
  | node nid sid key idx agg c s ihc ihs =>
    intro h
    obtain ⟨h1, h2, h3⟩ := h
    have := search_of_distinct ro idx ⟨sid, key⟩ hd h1
    simp only at this
    simp [copyTree, makeForest, this, ihc h2, ihs h3, clearAgg]

/-- **round trip**: for every tree over a roster of pairwise distinct servers, flattening it to
identifiers (`MakeTreeMarshal`) and rebuilding it against the roster (`MakeTree`) gives back the
very same tree: tree id, roster, node ids, structure, child order, roster positions and every
subtree aggregate. -/
theorem c06_roundtrip (t : Tree) (ro : Roster) (hd : ro.Distinct) (h : t.WF ro) :
    makeTree (makeTreeMarshal t) (some ro) = .ok t := by
  obtain ⟨h1, h2, h3, h4⟩ := h
  cases t with
  | mk id roster root =>
    simp only at h1 h2 h3 h4
    subst h1
    simp only [makeTree, makeTreeMarshal, ne_eq, not_true_eq_false, if_false, h2,
      makeForest_copyTree ro.list hd root h3, aggregate_clearAgg, h4]

/-- the same through the serialised form, `Marshal` / `NewTreeFromMarshal`, for any codec whose
decoder inverts its encoder -/
theorem c06_marshal_roundtrip {B} (cd : Codec B) (hcodec : ∀ x, cd.decTM (cd.encTM x) = some x)
    (t : Tree) (ro : Roster) (hd : ro.Distinct) (h : t.WF ro) :
    newTreeFromMarshal cd (marshal cd t) (some ro) = .ok t := by
  simp only [newTreeFromMarshal, marshal, hcodec]
  exact c06_roundtrip t ro hd h

/-- and through the binary form that carries the roster along, `BinaryMarshaler` /
`BinaryUnmarshaler` -/
theorem c06_binary_roundtrip {B} (cd : Codec B) (hcodec : ∀ x, cd.decTM (cd.encTM x) = some x)
    (hcodec2 : ∀ x, cd.decTBM (cd.encTBM x) = some x)
    (t : Tree) (ro : Roster) (hd : ro.Distinct) (h : t.WF ro) :
    binaryUnmarshal cd (binaryMarshal cd t) = .ok t := by
  simp only [binaryUnmarshal, binaryMarshal, hcodec2, h.1]
  exact c06_marshal_roundtrip cd hcodec t ro hd h

/-- the servers a description names -/
def sidsOf : TM → List Nat
  | .nil => []
  | .node _ sid c s => sid :: (sidsOf c ++ sidsOf s)

private theorem makeForest_unknown (ro : List Server) :
    ∀ f, (∃ sid ∈ sidsOf f, search ro sid = none) → makeForest ro f = none := by
  intro f
  induction f with
  | nil => intro ⟨_, h, _⟩; simp [sidsOf] at h
  | node nid sid c s ihc ihs =>
    intro ⟨x, hx, hs⟩
    simp only [sidsOf, List.mem_cons, List.mem_append] at hx
    simp only [makeForest]
    rcases hx with hx | hx | hx
    · subst hx; simp [hs]
    · rw [ihc ⟨x, hx, hs⟩]; split <;> simp_all
    · rw [ihs ⟨x, hx, hs⟩]; split <;> simp_all

/-- **malformed and mismatching descriptions are refused with an error** (there is no other
outcome: no tree, no panic): a missing roster, a roster with another id, a description without
exactly one root, a description naming a server that is not in the roster. -/
theorem c06_reject_malformed (tm : TreeMarshal) :
    makeTree tm none = .error .noRoster ∧
    (∀ ro : Roster, ro.id ≠ tm.rosterId → makeTree tm (some ro) = .error .rosterId) ∧
    (∀ ro : Roster, ro.id = tm.rosterId → tm.children.len ≠ 1 → makeTree tm (some ro) = .error .notOneRoot) ∧
    (∀ ro : Roster, ro.id = tm.rosterId → tm.children.len = 1 →
      (∃ sid ∈ sidsOf tm.children, search ro.list sid = none) → makeTree tm (some ro) = .error .unknownServer) := by
  refine ⟨rfl, ?_, ?_, ?_⟩
  · intro ro h; simp [makeTree, h]
  · intro ro h1 h2; simp [makeTree, h1, h2]
  · intro ro h1 h2 h3; simp [makeTree, h1, h2, makeForest_unknown ro.list _ h3]

/-- whatever `MakeTree` accepts carries the identifiers of the description and the roster given -/
theorem makeTree_ok {tm : TreeMarshal} {ro : Option Roster} {t : Tree} (h : makeTree tm ro = .ok t) :
    t.id = tm.treeId ∧ t.roster = ro ∧ ∃ r, ro = some r ∧ r.id = tm.rosterId := by
  unfold makeTree at h
  split at h
  · simp at h
  · next r =>
    split at h
    · simp at h
    · next hid =>
      split at h
      · simp at h
      · split at h
        · simp at h
        · simp only [Except.ok.injEq] at h
          subst h
          exact ⟨rfl, rfl, r, rfl, by simpa using hid⟩

/-! ### the aggregates are the sums the property speaks of -/

/-- sum of the keys of all nodes of a forest -/
def keySum : TN → Nat
  | .nil => 0
  | .node _ _ key _ _ c s => key + keySum c + keySum s

private theorem aggregate_sum (f : TN) : (aggregate f).2 = keySum f := by
  induction f with
  | nil => rfl
  | node nid sid key idx agg c s ihc ihs => simp [aggregate, keySum, ihc, ihs]

/-- `computeSubtreeAggregate` stores at every node the sum of the keys of its subtree -/
theorem aggregate_root (nid sid key idx agg : Nat) (c s : TN) :
    ∃ c' s', (aggregate (.node nid sid key idx agg c s)).1 = .node nid sid key idx (key + keySum c) c' s' := by
  exact ⟨(aggregate c).1, (aggregate s).1, by simp [aggregate, aggregate_sum]⟩

private theorem aggregate_idem (f : TN) : aggregate (aggregate f).1 = aggregate f := by
  induction f with
  | nil => rfl
  | node nid sid key idx agg c s ihc ihs => simp [aggregate, ihc, ihs]

private theorem copyTree_aggregate (f : TN) : copyTree (aggregate f).1 = copyTree f := by
  induction f with
  | nil => rfl
  | node nid sid key idx agg c s ihc ihs => simp [aggregate, copyTree, ihc, ihs]

private theorem nodesOK_aggregate (ro : List Server) (f : TN) (h : NodesOK ro f) : NodesOK ro (aggregate f).1 := by
  induction f with
  | nil => trivial
  | node nid sid key idx agg c s ihc ihs => exact ⟨h.1, ihc h.2.1, ihs h.2.2⟩

/-- non-vacuity: every tree made by `NewTree` from nodes that point at their servers is well formed -/
theorem newTree_wf (id : Nat) (ro : Roster) (root : TN) (h1 : (copyTree root).len = 1) (h2 : NodesOK ro.list root) :
    (newTree id ro root).WF ro :=
  ⟨rfl, by simp [newTree, copyTree_aggregate, h1], nodesOK_aggregate _ _ h2, by simp [newTree, aggregate_idem]⟩

example : ∃ (t : Tree) (ro : Roster), ro.Distinct ∧ t.WF ro ∧ makeTree (makeTreeMarshal t) (some ro) = .ok t := by
  let ro : Roster := { id := 9, list := [⟨3, 4⟩, ⟨5, 6⟩, ⟨7, 8⟩] }
  let root : TN := .node 3 3 4 0 0 (.node 5 5 6 1 0 .nil (.node 7 7 8 2 0 .nil .nil)) .nil
  have hd : ro.Distinct := by unfold Roster.Distinct; decide
  have hw : (newTree 1 ro root).WF ro := newTree_wf 1 ro root (by decide) (by simp [NodesOK, ro, root])
  exact ⟨_, ro, hd, hw, c06_roundtrip _ ro hd hw⟩

/-- the premise "pairwise distinct servers" is needed: with a server listed twice, a node placed on
the second occurrence comes back at the first (`Roster.Search` returns the first match) -/
example : ∃ (t t' : Tree) (ro : Roster), t.WF ro ∧ makeTree (makeTreeMarshal t) (some ro) = .ok t' ∧ t' ≠ t := by
  refine ⟨newTree 1 { id := 9, list := [⟨3, 4⟩, ⟨3, 4⟩] } (.node 3 3 4 1 0 .nil .nil), _,
    { id := 9, list := [⟨3, 4⟩, ⟨3, 4⟩] }, newTree_wf _ _ _ (by decide) (by simp [NodesOK]), rfl, by decide⟩


/-! ### history part: the tree store under arbitrary sequences of control messages -/

private theorem lookup_insert_self {α} (l : List (Nat × α)) (k : Nat) (v : α) : lookup (insert l k v) k = some v := by
  induction l with
  | nil => simp [insert, lookup]
  | cons p rest ih =>
    obtain ⟨k', v'⟩ := p
    by_cases h : k' = k
    · simp [insert, lookup, h]
    · simp [insert, lookup, h, ih]

private theorem lookup_insert_ne {α} (l : List (Nat × α)) (k k' : Nat) (v : α) (h : k' ≠ k) :
    lookup (insert l k v) k' = lookup l k' := by
  induction l with
  | nil => simp [insert, lookup, Ne.symm h]
  | cons p rest ih =>
    obtain ⟨k2, v2⟩ := p
    by_cases h2 : k2 = k
    · subst h2; simp [insert, lookup, Ne.symm h]
    · by_cases h3 : k2 = k'
      · subst h3; simp [insert, lookup, h2]
      · simp [insert, lookup, h2, h3, ih]

private theorem lookup_erase_self {α} (l : List (Nat × α)) (k : Nat) : lookup (erase l k) k = none := by
  unfold erase
  induction l with
  | nil => rfl
  | cons p rest ih =>
    obtain ⟨k', v'⟩ := p
    by_cases h : k' = k
    · simp [h]; simpa using ih
    · simp [h, lookup]; simpa using ih

private theorem lookup_erase_ne {α} (l : List (Nat × α)) (k k' : Nat) (h : k' ≠ k) :
    lookup (erase l k) k' = lookup l k' := by
  unfold erase
  induction l with
  | nil => rfl
  | cons p rest ih =>
    obtain ⟨k2, v2⟩ := p
    by_cases h2 : k2 = k
    · subst h2
      have : ¬ k2 = k' := fun e => h e.symm
      simp [lookup, this]; simpa using ih
    · by_cases h3 : k2 = k'
      · subst h3; simp [h2, lookup]
      · simp [h2, lookup, h3]; simpa using ih

private theorem get_setTree_self (o : Ovl) (t : Tree) : (o.setTree t).get t.id = some t := by
  simp [Ovl.get, Ovl.setTree, lookup_insert_self]

private theorem lookup_setTree_ne (o : Ovl) (t : Tree) (id : Nat) (h : id ≠ t.id) :
    lookup (o.setTree t).store id = lookup o.store id := by
  simp [Ovl.setTree, lookup_insert_ne _ _ _ _ h]

private theorem get_setTree_ne (o : Ovl) (t : Tree) (id : Nat) (h : id ≠ t.id) : (o.setTree t).get id = o.get id := by
  simp [Ovl.get, lookup_setTree_ne o t id h]

private theorem requested_get (o : Ovl) (id : Nat) (h : o.isRequested id = true) : o.get id = none := by
  simp only [Ovl.isRequested, beq_iff_eq] at h
  simp [Ovl.get, h]

/-- what `handleSendTree` can do: nothing, or store the tree rebuilt from a description whose id
is non-nil and waiting (requested and empty) -/
private theorem handleSendTree_cases (o : Ovl) (tm : Option TreeMarshal) (ro : Option Roster) :
    handleSendTree o tm ro = o ∨
    ∃ tm' r t, tm = some tm' ∧ ro = some r ∧ tm'.treeId ≠ 0 ∧ o.isRequested tm'.treeId = true ∧
      makeTree tm' (some r) = .ok t ∧ handleSendTree o tm ro = o.setTree t := by
  unfold handleSendTree
  cases tm with
  | none => exact Or.inl rfl
  | some tm' =>
    simp only
    by_cases h0 : tm'.treeId = 0
    · simp [h0]
    · simp only [h0, if_false]
      cases ro with
      | none => exact Or.inl rfl
      | some r =>
        simp only
        cases hr : o.isRequested tm'.treeId with
        | false => simp
        | true =>
          simp only [Bool.not_true, Bool.false_eq_true, if_false]
          cases hm : makeTree tm' (some r) with
          | error e => exact Or.inl rfl
          | ok t => exact Or.inr ⟨tm', r, t, rfl, rfl, h0, hr, hm, rfl⟩

private theorem checkPending_eq (o : Ovl) (ro : Roster) :
    checkPending o ro = match lookup o.pending ro.id with
      | none => o
      | some sl => { sl.foldl (pendStep ro) o with pending := erase (sl.foldl (pendStep ro) o).pending ro.id } := by
  unfold checkPending
  cases lookup o.pending ro.id <;> rfl

private theorem pendStep_cases (ro : Roster) (o : Ovl) (tm : TreeMarshal) :
    pendStep ro o tm = o ∨ ∃ t, o.get tm.treeId = none ∧ makeTree tm (some ro) = .ok t ∧ pendStep ro o tm = o.setTree t := by
  unfold pendStep
  cases hg : o.get tm.treeId with
  | some t0 => simp
  | none =>
    simp only [Option.isSome_none, Bool.false_eq_true, if_false]
    cases hm : makeTree tm (some ro) with
    | error e => exact Or.inl rfl
    | ok t => exact Or.inr ⟨t, by simp, rfl, rfl⟩

/-- a property of the overlay state that survives storing a tree into an empty slot survives the
whole roster handler -/
private theorem fold_pendStep_inv (P : Ovl → Prop) (ro : Roster)
    (hstep : ∀ o tm t, P o → o.get tm.treeId = none → makeTree tm (some ro) = .ok t → P (o.setTree t)) :
    ∀ (sl : List TreeMarshal) (o : Ovl), P o → P (sl.foldl (pendStep ro) o) := by
  intro sl
  induction sl with
  | nil => intro o h; exact h
  | cons tm rest ih =>
    intro o h
    simp only [List.foldl_cons]
    apply ih
    rcases pendStep_cases ro o tm with e | ⟨t, h1, h2, e⟩
    · rw [e]; exact h
    · rw [e]; exact hstep o tm t h h1 h2

/-- **a message from a peer never replaces a tree that is stored** — whatever the message (solicited
or not, repeated, with a matching or a foreign roster, in the deprecated roster-then-tree form). -/
theorem c06_never_replaces (o : Ovl) (m : Msg) (id : Nat) (t : Tree) (h : o.get id = some t) :
    (handle o m).1.get id = some t := by
  have hst : ∀ (tm : Option TreeMarshal) (ro : Option Roster), (handleSendTree o tm ro).get id = some t := by
    intro tm ro
    rcases handleSendTree_cases o tm ro with e | ⟨tm', r, t', _, _, _, hreq, hmk, e⟩
    · rw [e]; exact h
    · rw [e, get_setTree_ne _ _ _ ?_]; exact h
      intro heq
      have := requested_get o tm'.treeId hreq
      rw [← (makeTree_ok hmk).1, ← heq, h] at this
      simp at this
  cases m with
  | requestTree tid v =>
    simp only [handle]
    split
    · exact h
    · split <;> exact h
  | responseTree tm ro => exact hst tm ro
  | treeMarshal tm =>
    simp only [handle]
    split
    · exact h
    · split
      · exact h
      · split
        · simpa [Ovl.get] using h
        · exact hst _ _
  | requestRoster rid => exact h
  | sendRoster ro =>
    simp only [handle]
    split
    · exact h
    · rw [checkPending_eq]
      split
      · exact h
      · next sl _ =>
        apply fold_pendStep_inv (fun o => o.get id = some t) ro _ sl o h
        intro o' tm t' hP hnone hmk
        rw [get_setTree_ne _ _ _ ?_]; exact hP
        intro heq
        rw [← (makeTree_ok hmk).1, ← heq, hP] at hnone
        simp at hnone

/-- **a tree sent in a `ResponseTree`, or in the deprecated `TreeMarshal` form with a roster known
from a live instance, is stored only into a slot that is requested and still empty** -/
theorem c06_only_requested_partial (o : Ovl) (id : Nat) :
    (∀ tm ro, (handle o (.responseTree tm ro)).1.get id ≠ o.get id → o.isRequested id = true) ∧
    (∀ tm, (handle o (.treeMarshal tm)).1.get id ≠ o.get id → o.isRequested id = true) := by
  have hst : ∀ (tm : Option TreeMarshal) (ro : Option Roster),
      (handleSendTree o tm ro).get id ≠ o.get id → o.isRequested id = true := by
    intro tm ro hne
    rcases handleSendTree_cases o tm ro with e | ⟨tm', r, t', _, _, _, hreq, hmk, e⟩
    · rw [e] at hne; exact absurd rfl hne
    · by_cases hid : id = t'.id
      · rw [hid, (makeTree_ok hmk).1]; exact hreq
      · rw [e, get_setTree_ne _ _ _ hid] at hne; exact absurd rfl hne
  refine ⟨fun tm ro => hst tm ro, ?_⟩
  intro tm hne
  simp only [handle] at hne
  split at hne
  · exact absurd rfl hne
  · split at hne
    · exact absurd rfl hne
    · split at hne
      · exact absurd (by simp [Ovl.get]) hne
      · exact hst _ _ hne

/-- the roster handler (`checkPendingTreeMarshal`) fills only empty slots, and only with trees whose
description was parked for that roster id -/
theorem c06_roster_fills_empty_partial (o : Ovl) (ro : Roster) (id : Nat)
    (hne : (handle o (.sendRoster ro)).1.get id ≠ o.get id) :
    o.get id = none ∧ ∃ sl, lookup o.pending ro.id = some sl ∧ ∃ tm ∈ sl, tm.treeId = id := by
  simp only [handle] at hne
  split at hne
  · exact absurd rfl hne
  · rw [checkPending_eq] at hne
    split at hne
    · exact absurd rfl hne
    · next sl hsl =>
      refine ⟨?_, sl, hsl, ?_⟩
      · cases hg : o.get id with
        | none => rfl
        | some t =>
          exfalso
          have := c06_never_replaces o (.sendRoster ro) id t hg
          simp only [handle] at this
          rw [if_neg (by assumption), checkPending_eq, hsl] at this
          exact hne (by rw [this, hg])
      · -- some step of the fold changed slot `id`
        have key : ∀ (l : List TreeMarshal) (o' : Ovl), (l.foldl (pendStep ro) o').get id ≠ o'.get id →
            ∃ tm ∈ l, tm.treeId = id := by
          intro l
          induction l with
          | nil => intro o' h; exact absurd rfl h
          | cons tm rest ih =>
            intro o' h
            simp only [List.foldl_cons] at h
            by_cases hstep : (pendStep ro o' tm).get id = o'.get id
            · rw [← hstep] at h
              obtain ⟨x, hx, e⟩ := ih _ h
              exact ⟨x, List.mem_cons_of_mem _ hx, e⟩
            · rcases pendStep_cases ro o' tm with e | ⟨t, _, hmk, e⟩
              · rw [e] at hstep; exact absurd rfl hstep
              · refine ⟨tm, List.mem_cons_self, ?_⟩
                apply Classical.byContradiction
                intro hid
                rw [e, get_setTree_ne _ _ _ (by rw [(makeTree_ok hmk).1]; exact fun h => hid h.symm)] at hstep
                exact hstep rfl
        exact key sl o hne

/-- a description that `MakeTree` refuses is not stored, whichever message brings it -/
theorem c06_malformed_not_stored (o : Ovl) (tm : TreeMarshal) (ro : Option Roster) (e : Err)
    (h : makeTree tm ro = .error e) : (handle o (.responseTree (some tm) ro)).1 = o := by
  simp only [handle]
  rcases handleSendTree_cases o (some tm) ro with e' | ⟨tm', r, t, h1, h2, _, _, hmk, _⟩
  · exact e'
  · simp only [Option.some.injEq] at h1
    subst h1; subst h2
    rw [h] at hmk; simp at hmk

/-- a repeated roster message stores nothing: the descriptions parked for its id were forgotten
when the first one was handled (6793864) -/
theorem c06_repeated_roster_noop (o : Ovl) (ro : Roster) :
    (handle (handle o (.sendRoster ro)).1 (.sendRoster ro)).1 = (handle o (.sendRoster ro)).1 := by
  have hnone : lookup (checkPending o ro).pending ro.id = none := by
    rw [checkPending_eq]
    cases h : lookup o.pending ro.id with
    | none => simpa using h
    | some sl => simp [lookup_erase_self]
  simp only [handle]
  split
  · rfl
  · show checkPending (checkPending o ro) ro = checkPending o ro
    rw [checkPending_eq (checkPending o ro) ro, hnone]

/-! #### everything stored was asked for at some point, or registered locally -/

/-- the invariant: stored trees, waiting slots and parked descriptions all carry identifiers that
were requested by this server at some point (or, for stored trees, registered locally) -/
def StoreInv (o : Ovl) : Prop :=
  (∀ id t, o.get id = some t → id ∈ o.everReq ∨ id ∈ o.locals) ∧
  (∀ id, o.isRequested id = true → id ∈ o.everReq) ∧
  (∀ rid sl tm, lookup o.pending rid = some sl → tm ∈ sl → tm.treeId ∈ o.everReq)

private theorem setTree_inv (o : Ovl) (t : Tree) (h : StoreInv o) (ht : t.id ∈ o.everReq ∨ t.id ∈ o.locals) :
    StoreInv (o.setTree t) := by
  obtain ⟨h1, h2, h3⟩ := h
  refine ⟨?_, ?_, h3⟩
  · intro id t' hg
    by_cases hid : id = t.id
    · subst hid; exact ht
    · rw [get_setTree_ne _ _ _ hid] at hg; exact h1 id t' hg
  · intro id hr
    by_cases hid : id = t.id
    · subst hid
      simp [Ovl.isRequested, Ovl.setTree, lookup_insert_self] at hr
    · apply h2 id
      simpa [Ovl.isRequested, lookup_setTree_ne o t id hid] using hr

private theorem handleSendTree_inv (o : Ovl) (tm : Option TreeMarshal) (ro : Option Roster) (h : StoreInv o) :
    StoreInv (handleSendTree o tm ro) := by
  rcases handleSendTree_cases o tm ro with e | ⟨tm', r, t, _, _, _, hreq, hmk, e⟩
  · rw [e]; exact h
  · rw [e]
    apply setTree_inv o t h
    rw [(makeTree_ok hmk).1]
    exact Or.inl (h.2.1 _ hreq)

private theorem handle_inv (o : Ovl) (m : Msg) (h : StoreInv o) : StoreInv (handle o m).1 := by
  cases m with
  | requestTree tid v =>
    simp only [handle]
    split
    · exact h
    · split <;> exact h
  | responseTree tm ro => exact handleSendTree_inv o tm ro h
  | treeMarshal tm =>
    simp only [handle]
    split
    · exact h
    · next hnz =>
      split
      · exact h
      · next hreq =>
        have hreq' : o.isRequested tm.treeId = true := by simpa using hreq
        split
        · obtain ⟨h1, h2, h3⟩ := h
          refine ⟨h1, h2, ?_⟩
          intro rid sl tm' hl hm
          by_cases hr : rid = tm.rosterId
          · subst hr
            simp only [lookup_insert_self, Option.some.injEq] at hl
            subst hl
            simp only [List.mem_append, List.mem_singleton] at hm
            rcases hm with hm | hm
            · cases hold : lookup o.pending tm.rosterId with
              | none => simp [hold] at hm
              | some l => simp [hold] at hm; exact h3 _ l tm' hold hm
            · subst hm; exact h2 _ hreq'
          · rw [lookup_insert_ne _ _ _ _ hr] at hl
            exact h3 rid sl tm' hl hm
        · exact handleSendTree_inv o _ _ h
  | requestRoster rid => exact h
  | sendRoster ro =>
    simp only [handle]
    split
    · exact h
    · rw [checkPending_eq]
      split
      · exact h
      · next sl hsl =>
        -- the fold keeps the invariant and does not touch `pending`, `everReq`
        have hfold : StoreInv (sl.foldl (pendStep ro) o) ∧ (sl.foldl (pendStep ro) o).pending = o.pending := by
          have hall : ∀ tm ∈ sl, tm.treeId ∈ o.everReq := fun tm hm => h.2.2 _ sl tm hsl hm
          clear hsl
          induction sl generalizing o with
          | nil => exact ⟨h, rfl⟩
          | cons tm rest ih =>
            simp only [List.foldl_cons]
            rcases pendStep_cases ro o tm with e | ⟨t, _, hmk, e⟩
            · rw [e]; exact ih o h (fun x hx => hall x (List.mem_cons_of_mem _ hx))
            · rw [e]
              have hi : StoreInv (o.setTree t) := setTree_inv o t h (by
                rw [(makeTree_ok hmk).1]; exact Or.inl (hall tm List.mem_cons_self))
              have := ih (o.setTree t) hi (fun x hx => hall x (List.mem_cons_of_mem _ hx))
              exact ⟨this.1, this.2⟩
        obtain ⟨⟨f1, f2, f3⟩, fp⟩ := hfold
        refine ⟨f1, f2, ?_⟩
        intro rid sl' tm hl hm
        simp only at hl
        by_cases hr : rid = ro.id
        · subst hr; rw [lookup_erase_self] at hl; simp at hl
        · rw [lookup_erase_ne _ _ _ hr] at hl
          exact f3 rid sl' tm hl hm

private theorem localStep_inv (o : Ovl) (l : Local) (h : StoreInv o) : StoreInv (localStep o l) := by
  obtain ⟨h1, h2, h3⟩ := h
  cases l with
  | reqSend id =>
    simp only [localStep]
    split
    · next hw =>
      have hs : ¬ (lookup o.store id).isSome = true := by simpa [Ovl.wouldRequest] using hw
      refine ⟨?_, ?_, ?_⟩
      · intro id' t hg
        have : o.get id' = some t := by
          by_cases hid : id' = id
          · subst hid; simp [Ovl.get, lookup_insert_self] at hg
          · simpa [Ovl.get, lookup_insert_ne _ _ _ _ hid] using hg
        rcases h1 id' t this with h | h
        · exact Or.inl (List.mem_cons_of_mem _ h)
        · exact Or.inr h
      · intro id' hr
        by_cases hid : id' = id
        · subst hid; exact List.mem_cons_self
        · apply List.mem_cons_of_mem
          apply h2
          simpa [Ovl.isRequested, lookup_insert_ne _ _ _ _ hid] using hr
      · intro rid sl tm hl hm; exact List.mem_cons_of_mem _ (h3 rid sl tm hl hm)
    · exact ⟨h1, h2, h3⟩
  | reqFail id =>
    simp only [localStep]
    split
    · exact ⟨fun id' t hg => (h1 id' t hg).elim (fun h => Or.inl (List.mem_cons_of_mem _ h)) Or.inr,
        fun id' hr => List.mem_cons_of_mem _ (h2 id' hr),
        fun rid sl tm hl hm => List.mem_cons_of_mem _ (h3 rid sl tm hl hm)⟩
    · exact ⟨h1, h2, h3⟩
  | request id =>
    simp only [localStep]
    refine ⟨?_, ?_, ?_⟩
    · intro id' t hg
      have : o.get id' = some t := by
        by_cases hs : (lookup o.store id).isSome
        · simpa [Ovl.get, hs] using hg
        · by_cases hid : id' = id
          · subst hid; simp [Ovl.get, hs, lookup_insert_self] at hg
          · simpa [Ovl.get, hs, lookup_insert_ne _ _ _ _ hid] using hg
      rcases h1 id' t this with h | h
      · exact Or.inl (List.mem_cons_of_mem _ h)
      · exact Or.inr h
    · intro id' hr
      by_cases hid : id' = id
      · subst hid; exact List.mem_cons_self
      · apply List.mem_cons_of_mem
        apply h2
        by_cases hs : (lookup o.store id).isSome
        · simpa [Ovl.isRequested, hs] using hr
        · simpa [Ovl.isRequested, hs, lookup_insert_ne _ _ _ _ hid] using hr
    · intro rid sl tm hl hm; exact List.mem_cons_of_mem _ (h3 rid sl tm hl hm)
  | unrequest id =>
    simp only [localStep]
    split
    · refine ⟨?_, ?_, h3⟩
      · intro id' t hg
        by_cases hid : id' = id
        · subst hid; simp [Ovl.get, lookup_erase_self] at hg
        · exact h1 id' t (by simpa [Ovl.get, lookup_erase_ne _ _ _ hid] using hg)
      · intro id' hr
        by_cases hid : id' = id
        · subst hid; simp [Ovl.isRequested, lookup_erase_self] at hr
        · exact h2 id' (by simpa [Ovl.isRequested, lookup_erase_ne _ _ _ hid] using hr)
    · exact ⟨h1, h2, h3⟩
  | register t =>
    simp only [localStep]
    have := setTree_inv { o with locals := t.id :: o.locals } t
      ⟨fun id t' hg => (h1 id t' hg).elim Or.inl (fun h => Or.inr (List.mem_cons_of_mem _ h)), h2, h3⟩
      (Or.inr List.mem_cons_self)
    exact this
  | «instance» t =>
    simp only [localStep]
    split
    · have := setTree_inv { o with locals := t.id :: o.locals } t
        ⟨fun id t' hg => (h1 id t' hg).elim Or.inl (fun h => Or.inr (List.mem_cons_of_mem _ h)), h2, h3⟩
        (Or.inr List.mem_cons_self)
      exact this
    · exact ⟨h1, h2, h3⟩
  | expire id =>
    simp only [localStep]
    refine ⟨?_, ?_, h3⟩
    · intro id' t hg
      by_cases hid : id' = id
      · subst hid; simp [Ovl.get, lookup_erase_self] at hg
      · exact h1 id' t (by simpa [Ovl.get, lookup_erase_ne _ _ _ hid] using hg)
    · intro id' hr
      by_cases hid : id' = id
      · subst hid; simp [Ovl.isRequested, lookup_erase_self] at hr
      · exact h2 id' (by simpa [Ovl.isRequested, lookup_erase_ne _ _ _ hid] using hr)

/-- **never a tree the server did not ask for** (as far as the code enforces it): after any
history of peer messages and local events, every stored tree carries an identifier this server
requested at some point or registered itself -/
theorem c06_stored_was_requested_partial (evs : List Ev) :
    ∀ id t, (runEv {} evs).get id = some t → id ∈ (runEv {} evs).everReq ∨ id ∈ (runEv {} evs).locals := by
  have h0 : StoreInv ({} : Ovl) := ⟨by intro id t h; simp [Ovl.get, lookup] at h,
    by intro id h; simp [Ovl.isRequested, lookup] at h, by intro rid sl tm h; simp [lookup] at h⟩
  have : ∀ (evs : List Ev) (o : Ovl), StoreInv o → StoreInv (runEv o evs) := by
    intro evs
    induction evs with
    | nil => intro o h; exact h
    | cons e rest ih =>
      intro o h
      simp only [runEv, List.foldl_cons]
      apply ih
      cases e with
      | peer m => exact handle_inv o m h
      | loc l => exact localStep_inv o l h
  exact (this evs {} h0).1

/-! #### the full-strength statement, and the one history it fails on -/

/-- the statement asked for: a message from a peer changes what is stored under an identifier only
if that identifier is, at that moment, requested and still empty -/
def C06_only_requested_full : Prop :=
  ∀ (evs : List Ev) (m : Msg) (id : Nat),
    (handle (runEv {} evs) m).1.get id ≠ (runEv {} evs).get id → (runEv {} evs).isRequested id = true

/-- the witness: request tree 1, receive its description in the deprecated form (roster unknown:
parked), withdraw the request (it could not be sent), receive the roster -/
def replayWitness : List Ev × Msg :=
  let ro : Roster := { id := 1, list := [⟨3, 4⟩, ⟨5, 6⟩, ⟨7, 8⟩] }
  let tm : TreeMarshal := { treeId := 1, rosterId := 1, children := .node 3 3 (.node 5 5 .nil (.node 7 7 .nil .nil)) .nil }
  ([.loc (.request 1), .peer (.treeMarshal tm), .loc (.unrequest 1)], .sendRoster ro)

/-- **it does not hold on the code as it is**: a description parked while its tree was requested is
stored when its roster arrives, even though the request has been withdrawn in between (the roster
handler tests "not present", not "requested").  Replayed against the real overlay by the harness
(`witness-replay`). -/
theorem c06_only_requested_full_fails : ¬ C06_only_requested_full := by
  intro h
  have := h replayWitness.1 replayWitness.2 1 (by decide)
  exact absurd this (by decide)

/-! #### a tree learnt from a peer is the sender's tree -/

/-- **request / response**: a server that holds `t` answers a version-1 request with the description
and the roster; a server waiting for `t.id` that handles this answer stores exactly `t`.
**Deprecated form**: a version-0 request is answered with the description alone; the receiver,
knowing no roster with that id, parks it and asks for the roster; the sender answers from its store;
the receiver then stores exactly `t`. -/
theorem c06_peer_learns_same (snd rcv : Ovl) (t : Tree) (ro : Roster) (hd : ro.Distinct) (hw : t.WF ro)
    (hid : t.id ≠ 0) (hrid : ro.id ≠ 0) (hs : snd.get t.id = some t) (hr : rcv.isRequested t.id = true) :
    (∀ v, v ≠ 0 →
      (handle snd (.requestTree t.id v)).2 = [.responseTree (makeTreeMarshal t) (some ro)] ∧
      (handle rcv (.responseTree (some (makeTreeMarshal t)) (some ro))).1.get t.id = some t) ∧
    ((handle snd (.requestTree t.id 0)).2 = [.treeMarshal (makeTreeMarshal t)] ∧
      (rcv.insts.filter (fun r => r.id = ro.id) = [] → lookup rcv.pending ro.id = none →
        snd.getRoster ro.id = some ro →
        (handle rcv (.treeMarshal (makeTreeMarshal t))).2 = [.requestRoster ro.id] ∧
        (handle snd (.requestRoster ro.id)).2 = [.roster (some ro)] ∧
        (handle (handle rcv (.treeMarshal (makeTreeMarshal t))).1 (.sendRoster ro)).1.get t.id = some t)) := by
  have hmk := c06_roundtrip t ro hd hw
  have htm : (makeTreeMarshal t).treeId = t.id ∧ (makeTreeMarshal t).rosterId = ro.id := by
    simp [makeTreeMarshal, hw.1]
  have hstore : (handleSendTree rcv (some (makeTreeMarshal t)) (some ro)).get t.id = some t := by
    simp only [handleSendTree, htm.1, hid, if_false, hr, Bool.not_true, Bool.false_eq_true, hmk]
    exact get_setTree_self rcv t
  refine ⟨?_, ?_, ?_⟩
  · intro v hv
    exact ⟨by simp [handle, hs, hv, hw.1], hstore⟩
  · simp [handle, hs]
  · intro hinst hpend hros
    have hpark : (handle rcv (.treeMarshal (makeTreeMarshal t))) =
        ({ rcv with pending := insert rcv.pending ro.id [makeTreeMarshal t] }, [.requestRoster ro.id]) := by
      simp [handle, htm.1, htm.2, hid, hr, hinst, hpend]
    refine ⟨by rw [hpark], by simp [handle, hros], ?_⟩
    rw [hpark]
    simp only [handle, hrid, if_false]
    rw [checkPending_eq]
    simp only [lookup_insert_self, List.foldl_cons, List.foldl_nil]
    have hnone : ({ rcv with pending := insert rcv.pending ro.id [makeTreeMarshal t] } : Ovl).get (makeTreeMarshal t).treeId = none := by
      rw [htm.1]; simpa [Ovl.get] using requested_get rcv t.id hr
    simp only [pendStep, hnone, Option.isSome_none, Bool.false_eq_true, if_false, hmk]
    simp [Ovl.get, Ovl.setTree, lookup_insert_self]

/-- non-vacuity of `c06_peer_learns_same`: a sender that registered a well-formed tree, a receiver
that requested it -/
example : ∃ (snd rcv : Ovl) (t : Tree) (ro : Roster), ro.Distinct ∧ t.WF ro ∧ t.id ≠ 0 ∧ ro.id ≠ 0 ∧
    snd.get t.id = some t ∧ rcv.isRequested t.id = true ∧ snd.getRoster ro.id = some ro := by
  let ro : Roster := { id := 9, list := [⟨3, 4⟩, ⟨5, 6⟩] }
  let t := newTree 1 ro (.node 3 3 4 0 0 (.node 5 5 6 1 0 .nil .nil) .nil)
  exact ⟨localStep {} (.register t), localStep {} (.request 1), t, ro, by unfold Roster.Distinct; decide,
    newTree_wf 1 ro _ (by decide) (by simp [NodesOK, ro]), by decide, by decide, by decide, by decide, by decide⟩

/-- a request that cannot be sent leaves no requested marker behind: afterwards a tree pushed by any
peer under that id is not stored (unless the id was already waiting before) -/
theorem c06_failed_request_leaves_no_marker (o : Ovl) (id : Nat) (tm : Option TreeMarshal) (ro : Option Roster)
    (h : o.isRequested id = false) :
    (localStep o (.reqFail id)).isRequested id = false ∧
    (handle (localStep o (.reqFail id)) (.responseTree tm ro)).1.get id = o.get id := by
  have hst : (localStep o (.reqFail id)).store = o.store := by
    simp only [localStep]; split <;> rfl
  have hreq : (localStep o (.reqFail id)).isRequested id = false := by
    simp only [Ovl.isRequested, hst]; simpa [Ovl.isRequested] using h
  refine ⟨hreq, ?_⟩
  have hget : (localStep o (.reqFail id)).get id = o.get id := by simp [Ovl.get, hst]
  apply Classical.byContradiction
  intro hne
  have := (c06_only_requested_partial (localStep o (.reqFail id)) id).1 tm ro (by rw [hget]; exact hne)
  rw [hreq] at this
  exact absurd this (by simp)

/-- every node's aggregate is its key plus the keys of everything below it -/
def AggOK : TN → Prop
  | .nil => True
  | .node _ _ key _ agg c s => agg = key + keySum c ∧ AggOK c ∧ AggOK s

private theorem keySum_aggregate (f : TN) : keySum (aggregate f).1 = keySum f := by
  induction f with
  | nil => rfl
  | node nid sid key idx agg c s ihc ihs => simp [aggregate, keySum, ihc, ihs]

/-- **`NewTree` always computes the aggregates from the structure it is given**, whatever the
aggregate fields of the (possibly re-used) nodes held before: afterwards every node carries the sum
over its subtree.  So a tree made over nodes re-used from an earlier tree whose children changed
since has the same aggregates as the tree a receiver rebuilds from its description. -/
theorem c06_newtree_aggregates_are_subtree_sums (id : Nat) (ro : Roster) (root : TN) :
    AggOK (newTree id ro root).root ∧
    (newTree id ro root).root = (newTree id ro (clearAgg root)).root := by
  constructor
  · simp only [newTree]
    induction root with
    | nil => trivial
    | node nid sid key idx agg c s ihc ihs =>
      exact ⟨by simp [aggregate_sum, keySum_aggregate], ihc, ihs⟩
  · simp [newTree, aggregate_clearAgg]

/-! ### the code regions the model stands for
Regenerated from /repo's source on every run (`harness/cmd/astfacts` → `OnetVerif/Shapes.lean`): the
calls that matter for synchronisation and data flow, the lock regions and (for decision logic) the
conditions, in source order.  A re-ordering, a dropped call or a changed condition breaks these
obligations even when no sampled input or schedule shows a difference; the check then searches for
a failing input. -/
theorem c06_shape_Tree_MakeTreeMarshal :
    Shapes.tree_Tree_MakeTreeMarshal =
   ["TreeMarshalCopyTree"] := rfl

theorem c06_shape_TreeMarshalCopyTree :
    Shapes.tree_TreeMarshalCopyTree =
   ["TreeMarshalCopyTree"] := rfl

theorem c06_shape_TreeMarshal_MakeTree :
    Shapes.tree_TreeMarshal_MakeTree =
   ["if:(ro==nil)", "return:nil,xerrors.New(\"\")", "if:!ro.ID.Equal(tm.RosterID)",
     "return:nil,xerrors.New(\"\")", "if:((len(tm.Children)!=1)||(tm.Children[]==nil))",
     "return:nil,xerrors.New(\"\")", "Children[].MakeTreeFromList", "if:(err!=nil)",
     "return:nil,xerrors.Errorf(\"\",err)", "tree.computeSubtreeAggregate", "return:tree,nil"] := rfl

theorem c06_shape_TreeMarshal_MakeTreeFromList :
    Shapes.tree_TreeMarshal_MakeTreeFromList =
   ["ro.Search", "if:(idx<0)", "return:nil,xerrors.New(\"\")", "if:(ent.Public==nil)",
     "return:nil,xerrors.New(\"\")", "c.MakeTreeFromList", "if:(err!=nil)",
     "return:nil,xerrors.Errorf(\"\",err)", "return:tn,nil"] := rfl

theorem c06_shape_Overlay_handleSendTree :
    Shapes.overlay_Overlay_handleSendTree =
   ["if:((rt.TreeMarshal==nil)||rt.TreeMarshal.TreeID.IsNil())", "return:",
     "if:(rt.Roster==nil)", "return:", "if:!o.treeStorage.IsRequested(rt.TreeMarshal.TreeID)",
     "return:", "TreeMarshal.MakeTree", "if:(err!=nil)", "return:", "o.RegisterTree"] := rfl

theorem c06_shape_Overlay_handleSendTreeMarshal :
    Shapes.overlay_Overlay_handleSendTreeMarshal =
   ["if:tm.TreeID.IsNil()", "return:", "if:!o.treeStorage.IsRequested(tm.TreeID)", "return:",
     "instancesLock.Lock", "treeStorage.Get",
     "if:(((tree!=nil)&&(tree.Roster!=nil))&&tree.Roster.ID.Equal(tm.RosterID))",
     "instancesLock.Unlock", "if:(ro==nil)", "io.Wrap", "if:(err!=nil)", "server.Send",
     "if:(err!=nil)", "o.addPendingTreeMarshal", "return:", "o.handleSendTree"] := rfl

theorem c06_shape_Overlay_checkPendingTreeMarshal :
    Shapes.overlay_Overlay_checkPendingTreeMarshal =
   ["pendingTreeLock.Lock", "if:!ok", "pendingTreeLock.Unlock", "return:",
     "if:(o.treeStorage.Get(tm.TreeID)!=nil)", "tm.MakeTree", "if:(err!=nil)", "o.RegisterTree",
     "pendingTreeLock.Unlock"] := rfl

theorem c06_shape_Overlay_handleRequestTree :
    Shapes.overlay_Overlay_handleRequestTree =
   ["treeStorage.Get", "tree.MakeTreeMarshal", "o.handleRequestTreeDeprecated", "io.Wrap",
     "server.Send"] := rfl

theorem c06_shape_Overlay_handleSendRoster :
    Shapes.overlay_Overlay_handleSendRoster =
   ["ID.IsNil", "o.checkPendingTreeMarshal"] := rfl

theorem c06_shape_treeStorage_IsRequested :
    Shapes.treestorage_treeStorage_IsRequested =
   ["ts.Lock", "defer:ts.Unlock", "return:(ok&&(tree==nil))"] := rfl

theorem c06_shape_treeStorage_Set :
    Shapes.treestorage_treeStorage_Set =
   ["ts.Lock", "defer:ts.Unlock", "ts.cancelDeletion"] := rfl

theorem c06_shape_Overlay_requestTree :
    Shapes.overlay_Overlay_requestTree =
   ["o.savePendingMsg", "verifPoint:rt.parked", "treeStorage.Get", "if:(tree!=nil)",
     "o.checkPendingMessages", "return:nil", "verifPoint:rt.recheck-miss", "io.Wrap",
     "if:(err!=nil)", "return:xerrors.Errorf(\"\",err)",
     "if:o.treeStorage.IsRegistered(onetMsg.To.TreeID)", "return:nil",
     "verifPoint:rt.unregistered", "treeStorage.Register", "verifPoint:rt.registered",
     "server.Send", "if:(err!=nil)", "treeStorage.Unregister", "return:xerrors.Errorf(\"\",err)",
     "return:nil"] := rfl

theorem c06_shape_treeStorage_Register :
    Shapes.treestorage_treeStorage_Register =
   ["ts.Lock", "if:!ok", "ts.Unlock"] := rfl

theorem c06_shape_treeStorage_Unregister :
    Shapes.treestorage_treeStorage_Unregister =
   ["ts.Lock", "defer:ts.Unlock", "if:(tree==nil)"] := rfl

theorem c06_shape_Tree_computeSubtreeAggregate :
    Shapes.tree_Tree_computeSubtreeAggregate =
   ["Public.Clone", "t.computeSubtreeAggregate", "agg.Add", "return:agg"] := rfl

theorem c06_shape_NewTreeFromMarshal :
    Shapes.tree_NewTreeFromMarshal =
   ["network.Unmarshal", "if:(err!=nil)", "return:nil,err", "if:!tp.Equal(TreeMarshalTypeID)",
     "return:nil,xerrors.New(\"\")", "?.MakeTree", "if:(err!=nil)",
     "return:nil,xerrors.Errorf(\"\",err)", "t.computeSubtreeAggregate", "return:t,nil"] := rfl

theorem c06_shape_Tree_BinaryUnmarshaler :
    Shapes.tree_Tree_BinaryUnmarshaler =
   ["network.Unmarshal", "if:!ok", "return:xerrors.New(\"\")", "NewTreeFromMarshal",
     "if:(err!=nil)", "return:xerrors.Errorf(\"\",err)", "return:nil"] := rfl


end C06
