import OnetVerif.Model.C06
import OnetVerif.Model.C06Net
import OnetVerif.Shapes
/-! Property C06 — a tree learnt from a peer or rebuilt from its serialised form is the same tree.
Property theorems, the negation witness of the one statement the code does not meet, `_partial`
variants, non-vacuity examples and the lemmas they need (core Lean only). -/
namespace C06

/-! ### tree part: flatten to ids, rebuild against the roster -/

/-- every node sits at a valid roster position that holds exactly its server (with a public key) -/
def NodesOK (ro : List Server) : TN → Prop
  | .nil => True
  | .node _ sid key idx _ c s => ro[idx]? = some ⟨sid, key, false⟩ ∧ NodesOK ro c ∧ NodesOK ro s

/-- a tree as the constructors and generators make it: it carries roster `ro`, has one root, its
nodes point at their servers' roster positions and its aggregates are the computed ones -/
def Tree.WF (t : Tree) (ro : Roster) : Prop :=
  t.roster = some ro ∧ (copyTree t.root).len = 1 ∧ NodesOK ro.list t.root ∧ (aggregate t.root).1 = t.root

/-- the servers of a roster are pairwise distinct -/
def Roster.Distinct (ro : Roster) : Prop := (ro.list.map (·.sid)).Nodup

private theorem search_of_distinct : ∀ (l : List Server) (idx : Nat) (e : Server),
    (l.map (·.sid)).Nodup → l[idx]? = some e → search l e.sid = some (idx, e) := by
  intro l
  induction l with
  | nil => intro idx e _ h; simp at h
  | cons x xs ih =>
    intro idx e hn h
    simp only [List.map_cons, List.nodup_cons] at hn
    cases idx with
    | zero =>
      simp only [List.getElem?_cons_zero, Option.some.injEq] at h
      subst h
      simp [search]
    | succ i =>
      simp only [List.getElem?_cons_succ] at h
      have hne : x.sid ≠ e.sid := by
        intro heq
        apply hn.1
        rw [heq]
        exact List.mem_map_of_mem (List.mem_of_getElem? h)
      simp [search, hne, ih i e hn.2 h]

/-- what `Roster.Search` returns is an entry of the list, at the position returned, with the
identifier asked for — and no earlier entry has that identifier (first match) -/
theorem search_spec : ∀ (l : List Server) (sid idx : Nat) (e : Server), search l sid = some (idx, e) →
    l[idx]? = some e ∧ e.sid = sid ∧ ∀ j, j < idx → ∀ x, l[j]? = some x → x.sid ≠ sid := by
  intro l
  induction l with
  | nil => intro sid idx e h; simp [search] at h
  | cons x xs ih =>
    intro sid idx e h
    simp only [search] at h
    split at h
    · next hx =>
      simp only [Option.some.injEq, Prod.mk.injEq] at h
      obtain ⟨h1, h2⟩ := h
      subst h1; subst h2
      exact ⟨rfl, hx, fun j hj => absurd hj (Nat.not_lt_zero j)⟩
    · next hx =>
      cases hs : search xs sid with
      | none => simp [hs] at h
      | some p =>
        obtain ⟨i, e'⟩ := p
        simp only [hs, Option.map_some, Option.some.injEq, Prod.mk.injEq] at h
        obtain ⟨h1, h2⟩ := h
        subst h1; subst h2
        obtain ⟨a1, a2, a3⟩ := ih sid i e' hs
        refine ⟨by simpa using a1, a2, ?_⟩
        intro j hj y hy
        cases j with
        | zero => simp only [List.getElem?_cons_zero, Option.some.injEq] at hy; subst hy; exact hx
        | succ j' => exact a3 j' (by omega) y (by simpa using hy)

/-- the forest with every aggregate field cleared -/
def clearAgg : TN → TN
  | .nil => .nil
  | .node nid sid key idx _ c s => .node nid sid key idx 0 (clearAgg c) (clearAgg s)

private theorem aggregate_clearAgg (f : TN) : aggregate (clearAgg f) = aggregate f := by
  induction f with
  | nil => rfl
  | node nid sid key idx agg c s ihc ihs => simp [clearAgg, aggregate, ihc, ihs]

private theorem makeForest_copyTree (ro : List Server) (hd : (ro.map (·.sid)).Nodup) :
    ∀ f, NodesOK ro f → makeForest ro (copyTree f) = .ok (clearAgg f) := by
  intro f
  induction f with
  | nil => intro _; rfl
  | node nid sid key idx agg c s ihc ihs =>
    intro h
    obtain ⟨h1, h2, h3⟩ := h
    have := search_of_distinct ro idx ⟨sid, key, false⟩ hd h1
    simp only at this
    simp [copyTree, makeForest, this, ihc h2, ihs h3, clearAgg]

/-- **round trip**: for every tree over a roster of pairwise distinct servers, flattening it to
identifiers (`MakeTreeMarshal`) and rebuilding it against the roster (`MakeTree`) gives back the
very same tree: tree id, roster, node ids, structure, child order, roster positions and every
subtree aggregate.  (One server may hold any number of nodes.) -/
theorem c06_roundtrip (t : Tree) (ro : Roster) (hd : ro.Distinct) (h : t.WF ro) :
    makeTree (makeTreeMarshal t) (some ro) = .ok t := by
  obtain ⟨h1, h2, h3, h4⟩ := h
  cases t with
  | mk id roster root =>
    simp only at h1 h2 h3 h4
    subst h1
    simp only [makeTree, makeTreeMarshal, ne_eq, not_true_eq_false, if_false, h2,
      makeForest_copyTree ro.list hd root h3, aggregate_clearAgg, h4]

/-- the same through the serialised form, `Marshal` / `NewTreeFromMarshal`, for any codec whose
decoder inverts its encoder -/
theorem c06_marshal_roundtrip {B} (cd : Codec B) (hcodec : ∀ x, cd.decTM (cd.encTM x) = some x)
    (t : Tree) (ro : Roster) (hd : ro.Distinct) (h : t.WF ro) :
    newTreeFromMarshal cd (marshal cd t) (some ro) = .ok t := by
  simp only [newTreeFromMarshal, marshal, hcodec]
  exact c06_roundtrip t ro hd h

/-- and through the binary form that carries the roster along, `BinaryMarshaler` /
`BinaryUnmarshaler` -/
theorem c06_binary_roundtrip {B} (cd : Codec B) (hcodec : ∀ x, cd.decTM (cd.encTM x) = some x)
    (hcodec2 : ∀ x, cd.decTBM (cd.encTBM x) = some x)
    (t : Tree) (ro : Roster) (hd : ro.Distinct) (h : t.WF ro) :
    binaryUnmarshal cd (binaryMarshal cd t) = .ok t := by
  simp only [binaryUnmarshal, binaryMarshal, hcodec2, h.1]
  exact c06_marshal_roundtrip cd hcodec t ro hd h

/-- bytes that are no tree description (or no binary form) are refused with an error, whatever the
roster: nothing is built from them -/
theorem c06_undecodable_rejected {B} (cd : Codec B) (buf : B) (ro : Option Roster) :
    (cd.decTM buf = none → newTreeFromMarshal cd buf ro = .error .codec) ∧
    (cd.decTBM buf = none → binaryUnmarshal cd buf = .error .codec) := by
  constructor
  · intro h; simp [newTreeFromMarshal, h]
  · intro h; simp [binaryUnmarshal, h]

/-- the servers a description names -/
def sidsOf : TM → List Nat
  | .nil => []
  | .node _ sid c s => sid :: (sidsOf c ++ sidsOf s)

/-- the roster has an entry for the server and that entry carries a public key -/
def Usable (ro : List Server) (sid : Nat) : Prop := ∃ idx e, search ro sid = some (idx, e) ∧ e.nokey = false

/-- every node of a rebuilt forest carries what `Roster.Search` says about its server: the position
of the first entry with that identifier, and that entry's key -/
def Placed (ro : List Server) : TN → Prop
  | .nil => True
  | .node _ sid key idx _ c s =>
    (∃ e, search ro sid = some (idx, e) ∧ e.key = key ∧ e.nokey = false) ∧ Placed ro c ∧ Placed ro s

/-- sum of the keys of all nodes of a forest -/
def keySum : TN → Nat
  | .nil => 0
  | .node _ _ key _ _ c s => key + keySum c + keySum s

/-- every node's aggregate is its key plus the keys of everything below it -/
def AggOK : TN → Prop
  | .nil => True
  | .node _ _ key _ agg c s => agg = key + keySum c ∧ AggOK c ∧ AggOK s

/-- the errors of `MakeTreeFromList` are the two of its own, and it succeeds exactly when every
server named is usable -/
theorem makeForest_ok_iff (ro : List Server) :
    ∀ f, (∃ f', makeForest ro f = .ok f') ↔ ∀ sid ∈ sidsOf f, Usable ro sid := by
  intro f
  induction f with
  | nil => simp [makeForest, sidsOf]
  | node nid sid c s ihc ihs =>
    simp only [makeForest, sidsOf, List.mem_cons, List.mem_append]
    constructor
    · intro ⟨f', h⟩
      cases hs : search ro sid with
      | none => simp [hs] at h
      | some p =>
        obtain ⟨idx, e⟩ := p
        simp only [hs] at h
        cases hk : e.nokey with
        | true => simp [hk] at h
        | false =>
          simp only [hk, Bool.false_eq_true, if_false] at h
          cases hc : makeForest ro c with
          | error x => simp [hc] at h
          | ok c' =>
            simp only [hc] at h
            cases hss : makeForest ro s with
            | error x => simp [hss] at h
            | ok s' =>
              intro x hx
              rcases hx with hx | hx | hx
              · subst hx; exact ⟨idx, e, hs, hk⟩
              · exact ihc.mp ⟨c', hc⟩ x hx
              · exact ihs.mp ⟨s', hss⟩ x hx
    · intro h
      obtain ⟨idx, e, hs, hk⟩ := h sid (Or.inl rfl)
      obtain ⟨c', hc⟩ := ihc.mpr (fun x hx => h x (Or.inr (Or.inl hx)))
      obtain ⟨s', hss⟩ := ihs.mpr (fun x hx => h x (Or.inr (Or.inr hx)))
      exact ⟨.node nid sid e.key idx 0 c' s', by simp [hs, hk, hc, hss]⟩

theorem makeForest_error (ro : List Server) :
    ∀ f e, makeForest ro f = .error e →
      (e = .unknownServer ∨ e = .noKey) ∧ (e = .noKey → ∃ s ∈ ro, s.nokey = true) := by
  intro f
  induction f with
  | nil => intro e h; simp [makeForest] at h
  | node nid sid c s ihc ihs =>
    intro e h
    simp only [makeForest] at h
    cases hs : search ro sid with
    | none =>
      simp only [hs, Except.error.injEq] at h
      subst h
      exact ⟨Or.inl rfl, fun h => by simp at h⟩
    | some p =>
      obtain ⟨idx, en⟩ := p
      simp only [hs] at h
      cases hk : en.nokey with
      | true =>
        simp only [hk, if_true, Except.error.injEq] at h
        subst h
        exact ⟨Or.inr rfl, fun _ => ⟨en, List.mem_of_getElem? (search_spec ro sid idx en hs).1, hk⟩⟩
      | false =>
        simp only [hk, Bool.false_eq_true, if_false] at h
        cases hc : makeForest ro c with
        | error x =>
          simp only [hc, Except.error.injEq] at h
          subst h; exact ihc x hc
        | ok c' =>
          simp only [hc] at h
          cases hss : makeForest ro s with
          | error x =>
            simp only [hss, Except.error.injEq] at h
            subst h; exact ihs x hss
          | ok s' => simp [hss] at h

/-- what `MakeTreeFromList` builds: the nodes of the description, in its structure and order, each
placed where `Roster.Search` finds its server -/
theorem makeForest_spec (ro : List Server) :
    ∀ f f', makeForest ro f = .ok f' → copyTree f' = f ∧ Placed ro f' := by
  intro f
  induction f with
  | nil => intro f' h; simp only [makeForest, Except.ok.injEq] at h; subst h; exact ⟨rfl, trivial⟩
  | node nid sid c s ihc ihs =>
    intro f' h
    simp only [makeForest] at h
    cases hs : search ro sid with
    | none => simp [hs] at h
    | some p =>
      obtain ⟨idx, e⟩ := p
      simp only [hs] at h
      cases hk : e.nokey with
      | true => simp [hk] at h
      | false =>
        simp only [hk, Bool.false_eq_true, if_false] at h
        cases hc : makeForest ro c with
        | error x => simp [hc] at h
        | ok c' =>
          simp only [hc] at h
          cases hss : makeForest ro s with
          | error x => simp [hss] at h
          | ok s' =>
            simp only [hss, Except.ok.injEq] at h
            subst h
            obtain ⟨c1, c2⟩ := ihc c' hc
            obtain ⟨s1, s2⟩ := ihs s' hss
            exact ⟨by simp [copyTree, c1, s1], ⟨e, hs, rfl, hk⟩, c2, s2⟩

/-- **malformed and mismatching descriptions are refused with an error** (there is no other
outcome: no tree, no panic): a missing roster, a roster with another id, a description without
exactly one root, a description naming a server that is not in the roster or whose roster entry has
no public key (the error is that of the first such node in depth-first order). -/
theorem c06_reject_malformed (tm : TreeMarshal) :
    makeTree tm none = .error .noRoster ∧
    (∀ ro : Roster, ro.id ≠ tm.rosterId → makeTree tm (some ro) = .error .rosterId) ∧
    (∀ ro : Roster, ro.id = tm.rosterId → tm.children.len ≠ 1 → makeTree tm (some ro) = .error .notOneRoot) ∧
    (∀ ro : Roster, ro.id = tm.rosterId → tm.children.len = 1 →
      (∃ sid ∈ sidsOf tm.children, ¬ Usable ro.list sid) →
      (makeTree tm (some ro) = .error .unknownServer ∨ makeTree tm (some ro) = .error .noKey) ∧
      ((∀ s ∈ ro.list, s.nokey = false) → makeTree tm (some ro) = .error .unknownServer)) := by
  refine ⟨rfl, ?_, ?_, ?_⟩
  · intro ro h; simp [makeTree, h]
  · intro ro h1 h2; simp [makeTree, h1, h2]
  · intro ro h1 h2 ⟨sid, hm, hu⟩
    cases hf : makeForest ro.list tm.children with
    | ok f' => exact absurd ((makeForest_ok_iff ro.list tm.children).mp ⟨f', hf⟩ sid hm) hu
    | error e =>
      have he := makeForest_error ro.list tm.children e hf
      have hmt : makeTree tm (some ro) = .error e := by simp [makeTree, h1, h2, hf]
      rw [hmt]
      constructor
      · rcases he.1 with h | h <;> simp [h]
      · intro hall
        rcases he.1 with h | h
        · rw [h]
        · obtain ⟨s, hs, hk⟩ := he.2 h
          rw [hall s hs] at hk; simp at hk

/-- **exactly which descriptions are accepted**: a roster is given, it carries the roster id the
description names, the description has exactly one root, and every server it names is in the roster
with a public key.  (The rule the harness's acceptance oracle applies to the real `MakeTree`.) -/
theorem c06_maketree_accepts_iff (tm : TreeMarshal) (ro : Option Roster) :
    (∃ t, makeTree tm ro = .ok t) ↔
      ∃ r, ro = some r ∧ r.id = tm.rosterId ∧ tm.children.len = 1 ∧ ∀ sid ∈ sidsOf tm.children, Usable r.list sid := by
  cases ro with
  | none => simp [makeTree]
  | some r =>
    simp only [makeTree, Option.some.injEq, exists_eq_left']
    by_cases h1 : r.id = tm.rosterId
    · by_cases h2 : tm.children.len = 1
      · simp only [h1, ne_eq, not_true_eq_false, if_false, h2, true_and]
        rw [← makeForest_ok_iff]
        cases makeForest r.list tm.children with
        | error e => simp
        | ok f => simp
      · simp [h1, h2]
    · simp [h1]

/-- whatever `MakeTree` accepts carries the identifiers of the description and the roster given -/
theorem makeTree_ok {tm : TreeMarshal} {ro : Option Roster} {t : Tree} (h : makeTree tm ro = .ok t) :
    t.id = tm.treeId ∧ t.roster = ro ∧ ∃ r, ro = some r ∧ r.id = tm.rosterId := by
  unfold makeTree at h
  split at h
  · simp at h
  · next r =>
    split at h
    · simp at h
    · next hid =>
      split at h
      · simp at h
      · split at h
        · simp at h
        · simp only [Except.ok.injEq] at h
          subst h
          exact ⟨rfl, rfl, r, rfl, by simpa using hid⟩

/-! ### the aggregates are the sums the property speaks of -/

private theorem aggregate_sum (f : TN) : (aggregate f).2 = keySum f := by
  induction f with
  | nil => rfl
  | node nid sid key idx agg c s ihc ihs => simp [aggregate, keySum, ihc, ihs]

/-- `computeSubtreeAggregate` stores at every node the sum of the keys of its subtree -/
theorem aggregate_root (nid sid key idx agg : Nat) (c s : TN) :
    ∃ c' s', (aggregate (.node nid sid key idx agg c s)).1 = .node nid sid key idx (key + keySum c) c' s' := by
  exact ⟨(aggregate c).1, (aggregate s).1, by simp [aggregate, aggregate_sum]⟩

private theorem aggregate_idem (f : TN) : aggregate (aggregate f).1 = aggregate f := by
  induction f with
  | nil => rfl
  | node nid sid key idx agg c s ihc ihs => simp [aggregate, ihc, ihs]

private theorem copyTree_aggregate (f : TN) : copyTree (aggregate f).1 = copyTree f := by
  induction f with
  | nil => rfl
  | node nid sid key idx agg c s ihc ihs => simp [aggregate, copyTree, ihc, ihs]

private theorem nodesOK_aggregate (ro : List Server) (f : TN) (h : NodesOK ro f) : NodesOK ro (aggregate f).1 := by
  induction f with
  | nil => trivial
  | node nid sid key idx agg c s ihc ihs => exact ⟨h.1, ihc h.2.1, ihs h.2.2⟩

private theorem placed_aggregate (ro : List Server) (f : TN) (h : Placed ro f) : Placed ro (aggregate f).1 := by
  induction f with
  | nil => trivial
  | node nid sid key idx agg c s ihc ihs => exact ⟨h.1, ihc h.2.1, ihs h.2.2⟩

private theorem keySum_aggregate (f : TN) : keySum (aggregate f).1 = keySum f := by
  induction f with
  | nil => rfl
  | node nid sid key idx agg c s ihc ihs => simp [aggregate, keySum, ihc, ihs]

private theorem aggOK_aggregate (f : TN) : AggOK (aggregate f).1 := by
  induction f with
  | nil => trivial
  | node nid sid key idx agg c s ihc ihs =>
    exact ⟨by simp [aggregate_sum, keySum_aggregate], ihc, ihs⟩

/-- **what a rebuilt tree is, for any description that is accepted** — also one that no well-formed
sender tree produced: it carries the tree id and roster given, its nodes are those of the
description (node ids, server ids, parent/child structure, child order), every node sits at the
position `Roster.Search` finds for its server and carries that entry's key, and every aggregate is
the sum over the subtree. -/
theorem c06_rebuilt_is_canonical {tm : TreeMarshal} {ro : Roster} {t : Tree} (h : makeTree tm (some ro) = .ok t) :
    t.id = tm.treeId ∧ t.roster = some ro ∧ copyTree t.root = tm.children ∧ Placed ro.list t.root ∧ AggOK t.root := by
  have hk := makeTree_ok h
  refine ⟨hk.1, hk.2.1, ?_⟩
  unfold makeTree at h
  simp only at h
  split at h
  · simp at h
  · split at h
    · simp at h
    · cases hf : makeForest ro.list tm.children with
      | error e => simp [hf] at h
      | ok f =>
        simp only [hf, Except.ok.injEq] at h
        subst h
        obtain ⟨a, b⟩ := makeForest_spec ro.list _ f hf
        exact ⟨by simp [copyTree_aggregate, a], placed_aggregate _ _ b, aggOK_aggregate f⟩

/-- … and these conditions leave no choice: two forests with the same description, both placed by
the roster and both carrying the subtree sums, are equal in every field -/
theorem c06_canonical_unique (ro : List Server) : ∀ a b : TN,
    copyTree a = copyTree b → Placed ro a → Placed ro b → AggOK a → AggOK b → a = b := by
  intro a
  induction a with
  | nil => intro b h _ _ _ _; cases b with
    | nil => rfl
    | node _ _ _ _ _ _ _ => simp [copyTree] at h
  | node nid sid key idx agg c s ihc ihs =>
    intro b h pa pb ga gb
    cases b with
    | nil => simp [copyTree] at h
    | node nid' sid' key' idx' agg' c' s' =>
      simp only [copyTree, TM.node.injEq] at h
      obtain ⟨h1, h2, h3, h4⟩ := h
      subst h1; subst h2
      obtain ⟨⟨e, pe, pk, _⟩, pc, ps⟩ := pa
      obtain ⟨⟨e', pe', pk', _⟩, pc', ps'⟩ := pb
      rw [pe] at pe'
      simp only [Option.some.injEq, Prod.mk.injEq] at pe'
      obtain ⟨hi, he⟩ := pe'
      subst hi; subst he
      have hc := ihc c' h3 pc pc' ga.2.1 gb.2.1
      have hs := ihs s' h4 ps ps' ga.2.2 gb.2.2
      subst hc; subst hs
      subst pk; subst pk'
      rw [ga.1, gb.1]

/-- so the receiver's tree is a function of the description and the roster alone: whoever rebuilds
the same description over the same roster holds the same tree -/
theorem c06_rebuilt_determined (tm : TreeMarshal) (ro : Roster) (t t' : Tree)
    (h : makeTree tm (some ro) = .ok t) (h' : t'.id = tm.treeId ∧ t'.roster = some ro ∧
      copyTree t'.root = tm.children ∧ Placed ro.list t'.root ∧ AggOK t'.root) : t' = t := by
  obtain ⟨a1, a2, a3, a4, a5⟩ := c06_rebuilt_is_canonical h
  obtain ⟨b1, b2, b3, b4, b5⟩ := h'
  have := c06_canonical_unique ro.list t'.root t.root (by rw [a3, b3]) b4 a4 b5 a5
  cases t; cases t'
  simp_all

/-- non-vacuity: every tree made by `NewTree` from nodes that point at their servers is well formed -/
theorem newTree_wf (id : Nat) (ro : Roster) (root : TN) (h1 : (copyTree root).len = 1) (h2 : NodesOK ro.list root) :
    (newTree id ro root).WF ro :=
  ⟨rfl, by simp [newTree, copyTree_aggregate, h1], nodesOK_aggregate _ _ h2, by simp [newTree, aggregate_idem]⟩

example : ∃ (t : Tree) (ro : Roster), ro.Distinct ∧ t.WF ro ∧ makeTree (makeTreeMarshal t) (some ro) = .ok t := by
  let ro : Roster := { id := 9, list := [⟨3, 4, false⟩, ⟨5, 6, false⟩, ⟨7, 8, false⟩] }
  let root : TN := .node 3 3 4 0 0 (.node 5 5 6 1 0 .nil (.node 7 7 8 2 0 .nil .nil)) .nil
  have hd : ro.Distinct := by unfold Roster.Distinct; decide
  have hw : (newTree 1 ro root).WF ro := newTree_wf 1 ro root (by decide) (by simp [NodesOK, ro, root])
  exact ⟨_, ro, hd, hw, c06_roundtrip _ ro hd hw⟩

/-- non-vacuity with **one server holding several nodes** (their node ids coincide, as in the code:
a node id is a hash of the server's key): server 5 is the root and two of the leaves -/
example : ∃ (t : Tree) (ro : Roster), ro.Distinct ∧ t.WF ro ∧ makeTree (makeTreeMarshal t) (some ro) = .ok t ∧
    t.root = .node 5 5 6 1 22 (.node 3 3 4 0 10 (.node 5 5 6 1 6 .nil .nil) (.node 5 5 6 1 6 .nil .nil)) .nil := by
  let ro : Roster := { id := 9, list := [⟨3, 4, false⟩, ⟨5, 6, false⟩] }
  let root : TN := .node 5 5 6 1 0 (.node 3 3 4 0 0 (.node 5 5 6 1 0 .nil .nil) (.node 5 5 6 1 0 .nil .nil)) .nil
  have hd : ro.Distinct := by unfold Roster.Distinct; decide
  have hw : (newTree 1 ro root).WF ro := newTree_wf 1 ro root (by decide) (by simp [NodesOK, ro, root])
  exact ⟨_, ro, hd, hw, c06_roundtrip _ ro hd hw, by decide⟩

/-- the premise "pairwise distinct servers" is needed: with a server listed twice, a node placed on
the second occurrence comes back at the first (`Roster.Search` returns the first match) -/
example : ∃ (t t' : Tree) (ro : Roster), t.WF ro ∧ makeTree (makeTreeMarshal t) (some ro) = .ok t' ∧ t' ≠ t := by
  refine ⟨newTree 1 { id := 9, list := [⟨3, 4, false⟩, ⟨3, 4, false⟩] } (.node 3 3 4 1 0 .nil .nil), _,
    { id := 9, list := [⟨3, 4, false⟩, ⟨3, 4, false⟩] }, newTree_wf _ _ _ (by decide) (by simp [NodesOK]), rfl, by decide⟩

/-- and so is "the nodes point at their servers' roster positions": `NewTreeNode` stores whatever
index it is given; a hand-made tree whose nodes all carry index 0 comes back with the true positions
(the rebuilt tree is the canonical one, the sender's was not) -/
example : ∃ (t t' : Tree) (ro : Roster), ro.Distinct ∧ t.roster = some ro ∧
    makeTree (makeTreeMarshal t) (some ro) = .ok t' ∧ t' ≠ t ∧ copyTree t'.root = copyTree t.root := by
  let ro : Roster := { id := 9, list := [⟨3, 4, false⟩, ⟨5, 6, false⟩] }
  exact ⟨newTree 1 ro (.node 3 3 4 0 0 (.node 5 5 6 0 0 .nil .nil) .nil),
    newTree 1 ro (.node 3 3 4 0 0 (.node 5 5 6 1 0 .nil .nil) .nil), ro,
    by unfold Roster.Distinct; decide, rfl, rfl, by decide, by decide⟩

/-! ### `Tree.Equal` compares exactly what a description carries -/

theorem nodeEqual_iff : ∀ a b : TN, nodeEqual a b = true ↔ copyTree a = copyTree b := by
  intro a
  induction a with
  | nil => intro b; cases b <;> simp [nodeEqual, copyTree]
  | node nid sid key idx agg c s ihc ihs =>
    intro b
    cases b with
    | nil => simp [nodeEqual, copyTree]
    | node nid' sid' key' idx' agg' c' s' =>
      simp only [nodeEqual, copyTree, Bool.and_eq_true, beq_iff_eq, ihc c', ihs s', TM.node.injEq]
      constructor
      · intro ⟨⟨⟨a, b⟩, c⟩, d⟩; exact ⟨a, b, c, d⟩
      · intro ⟨a, b, c, d⟩; exact ⟨⟨⟨a, b⟩, c⟩, d⟩

/-- **`Tree.Equal` holds exactly when the two trees have the same description** (`MakeTreeMarshal`):
tree id, roster id, node ids, server ids, structure and child order.  It does not look at keys,
roster positions or aggregates — the harness's oracle compares those separately. -/
theorem c06_equal_iff_same_description (t t' : Tree) (ro ro' : Roster) (h : t.roster = some ro) (h' : t'.roster = some ro') :
    treeEqual t t' = some true ↔ makeTreeMarshal t = makeTreeMarshal t' := by
  simp only [treeEqual, makeTreeMarshal, h, h', Option.some.injEq, Bool.and_eq_true, beq_iff_eq,
    nodeEqual_iff, TreeMarshal.mk.injEq]
  constructor
  · intro ⟨⟨a, b⟩, c⟩; exact ⟨a, b, c⟩
  · intro ⟨a, b, c⟩; exact ⟨⟨a, b⟩, c⟩

/-- whatever is rebuilt from a tree's own description over its own roster is `Equal` to it — also
when the tree is not well formed (stale roster positions, stale aggregates) and the rebuilt one
therefore differs from it in those fields -/
theorem c06_rebuilt_equal_original (t t' : Tree) (ro : Roster) (h : t.roster = some ro)
    (hm : makeTree (makeTreeMarshal t) (some ro) = .ok t') : treeEqual t t' = some true := by
  obtain ⟨a1, a2, a3, _, _⟩ := c06_rebuilt_is_canonical hm
  rw [c06_equal_iff_same_description t t' ro ro h a2]
  simp only [makeTreeMarshal, h] at a1 a3
  simp only [makeTreeMarshal, h, a2, a1, a3]

/-! ### history part: the tree store under arbitrary sequences of control messages -/

private theorem lookup_insert_self {α} (l : List (Nat × α)) (k : Nat) (v : α) : lookup (insert l k v) k = some v := by
  induction l with
  | nil => simp [insert, lookup]
  | cons p rest ih =>
    obtain ⟨k', v'⟩ := p
    by_cases h : k' = k
    · simp [insert, lookup, h]
    · simp [insert, lookup, h, ih]

private theorem lookup_insert_ne {α} (l : List (Nat × α)) (k k' : Nat) (v : α) (h : k' ≠ k) :
    lookup (insert l k v) k' = lookup l k' := by
  induction l with
  | nil => simp [insert, lookup, Ne.symm h]
  | cons p rest ih =>
    obtain ⟨k2, v2⟩ := p
    by_cases h2 : k2 = k
    · subst h2; simp [insert, lookup, Ne.symm h]
    · by_cases h3 : k2 = k'
      · subst h3; simp [insert, lookup, h2]
      · simp [insert, lookup, h2, h3, ih]

private theorem lookup_erase_self {α} (l : List (Nat × α)) (k : Nat) : lookup (erase l k) k = none := by
  unfold erase
  induction l with
  | nil => rfl
  | cons p rest ih =>
    obtain ⟨k', v'⟩ := p
    by_cases h : k' = k
    · simp [h]; simpa using ih
    · simp [h, lookup]; simpa using ih

private theorem lookup_erase_ne {α} (l : List (Nat × α)) (k k' : Nat) (h : k' ≠ k) :
    lookup (erase l k) k' = lookup l k' := by
  unfold erase
  induction l with
  | nil => rfl
  | cons p rest ih =>
    obtain ⟨k2, v2⟩ := p
    by_cases h2 : k2 = k
    · subst h2
      have : ¬ k2 = k' := fun e => h e.symm
      simp [lookup, this]; simpa using ih
    · by_cases h3 : k2 = k'
      · subst h3; simp [h2, lookup]
      · simp [h2, lookup, h3]; simpa using ih

private theorem get_setTree_self (o : Ovl) (t : Tree) : (o.setTree t).get t.id = some t := by
  simp [Ovl.get, Ovl.setTree, lookup_insert_self]

private theorem lookup_setTree_ne (o : Ovl) (t : Tree) (id : Nat) (h : id ≠ t.id) :
    lookup (o.setTree t).store id = lookup o.store id := by
  simp [Ovl.setTree, lookup_insert_ne _ _ _ _ h]

private theorem get_setTree_ne (o : Ovl) (t : Tree) (id : Nat) (h : id ≠ t.id) : (o.setTree t).get id = o.get id := by
  simp [Ovl.get, lookup_setTree_ne o t id h]

private theorem requested_get (o : Ovl) (id : Nat) (h : o.isRequested id = true) : o.get id = none := by
  simp only [Ovl.isRequested, beq_iff_eq] at h
  simp [Ovl.get, h]

/-- what `handleSendTree` can do: nothing, or store the tree rebuilt from a description whose id
is non-nil and waiting (requested and empty) -/
private theorem handleSendTree_cases (o : Ovl) (tm : Option TreeMarshal) (ro : Option Roster) :
    handleSendTree o tm ro = o ∨
    ∃ tm' r t, tm = some tm' ∧ ro = some r ∧ tm'.treeId ≠ 0 ∧ o.isRequested tm'.treeId = true ∧
      makeTree tm' (some r) = .ok t ∧ handleSendTree o tm ro = o.setTree t := by
  unfold handleSendTree
  cases tm with
  | none => exact Or.inl rfl
  | some tm' =>
    simp only
    by_cases h0 : tm'.treeId = 0
    · simp [h0]
    · simp only [h0, if_false]
      cases ro with
      | none => exact Or.inl rfl
      | some r =>
        simp only
        cases hr : o.isRequested tm'.treeId with
        | false => simp
        | true =>
          simp only [Bool.not_true, Bool.false_eq_true, if_false]
          cases hm : makeTree tm' (some r) with
          | error e => exact Or.inl rfl
          | ok t => exact Or.inr ⟨tm', r, t, rfl, rfl, h0, hr, hm, rfl⟩

private theorem checkPending_eq (o : Ovl) (ro : Roster) :
    checkPending o ro = match lookup o.pending ro.id with
      | none => o
      | some sl => { sl.foldl (pendStep ro) o with pending := erase (sl.foldl (pendStep ro) o).pending ro.id } := by
  unfold checkPending
  cases lookup o.pending ro.id <;> rfl

private theorem pendStep_cases (ro : Roster) (o : Ovl) (tm : TreeMarshal) :
    pendStep ro o tm = o ∨ ∃ t, o.get tm.treeId = none ∧ makeTree tm (some ro) = .ok t ∧ pendStep ro o tm = o.setTree t := by
  unfold pendStep
  cases hg : o.get tm.treeId with
  | some t0 => simp
  | none =>
    simp only [Option.isSome_none, Bool.false_eq_true, if_false]
    cases hm : makeTree tm (some ro) with
    | error e => exact Or.inl rfl
    | ok t => exact Or.inr ⟨t, by simp, rfl, rfl⟩

/-- a property of the overlay state that survives storing a tree into an empty slot survives the
whole roster handler -/
private theorem fold_pendStep_inv (P : Ovl → Prop) (ro : Roster)
    (hstep : ∀ o tm t, P o → o.get tm.treeId = none → makeTree tm (some ro) = .ok t → P (o.setTree t)) :
    ∀ (sl : List TreeMarshal) (o : Ovl), P o → P (sl.foldl (pendStep ro) o) := by
  intro sl
  induction sl with
  | nil => intro o h; exact h
  | cons tm rest ih =>
    intro o h
    simp only [List.foldl_cons]
    apply ih
    rcases pendStep_cases ro o tm with e | ⟨t, h1, h2, e⟩
    · rw [e]; exact h
    · rw [e]; exact hstep o tm t h h1 h2

/-- **a message from a peer never replaces a tree that is stored** — whatever the message (solicited
or not, repeated, with a matching or a foreign roster, in the deprecated roster-then-tree form). -/
theorem c06_never_replaces (o : Ovl) (m : Msg) (id : Nat) (t : Tree) (h : o.get id = some t) :
    (handle o m).1.get id = some t := by
  have hst : ∀ (tm : Option TreeMarshal) (ro : Option Roster), (handleSendTree o tm ro).get id = some t := by
    intro tm ro
    rcases handleSendTree_cases o tm ro with e | ⟨tm', r, t', _, _, _, hreq, hmk, e⟩
    · rw [e]; exact h
    · rw [e, get_setTree_ne _ _ _ ?_]; exact h
      intro heq
      have := requested_get o tm'.treeId hreq
      rw [← (makeTree_ok hmk).1, ← heq, h] at this
      simp at this
  cases m with
  | requestTree tid v =>
    simp only [handle]
    split
    · exact h
    · split <;> exact h
  | responseTree tm ro => exact hst tm ro
  | treeMarshal tm =>
    simp only [handle]
    split
    · exact h
    · split
      · exact h
      · split
        · simpa [Ovl.get] using h
        · exact hst _ _
  | requestRoster rid => exact h
  | sendRoster ro =>
    simp only [handle]
    split
    · exact h
    · rw [checkPending_eq]
      split
      · exact h
      · next sl _ =>
        apply fold_pendStep_inv (fun o => o.get id = some t) ro _ sl o h
        intro o' tm t' hP hnone hmk
        rw [get_setTree_ne _ _ _ ?_]; exact hP
        intro heq
        rw [← (makeTree_ok hmk).1, ← heq, hP] at hnone
        simp at hnone

/-- **a tree sent in a `ResponseTree`, or in the deprecated `TreeMarshal` form with a roster known
from a live instance, is stored only into a slot that is requested and still empty** -/
theorem c06_only_requested_partial (o : Ovl) (id : Nat) :
    (∀ tm ro, (handle o (.responseTree tm ro)).1.get id ≠ o.get id → o.isRequested id = true) ∧
    (∀ tm, (handle o (.treeMarshal tm)).1.get id ≠ o.get id → o.isRequested id = true) := by
  have hst : ∀ (tm : Option TreeMarshal) (ro : Option Roster),
      (handleSendTree o tm ro).get id ≠ o.get id → o.isRequested id = true := by
    intro tm ro hne
    rcases handleSendTree_cases o tm ro with e | ⟨tm', r, t', _, _, _, hreq, hmk, e⟩
    · rw [e] at hne; exact absurd rfl hne
    · by_cases hid : id = t'.id
      · rw [hid, (makeTree_ok hmk).1]; exact hreq
      · rw [e, get_setTree_ne _ _ _ hid] at hne; exact absurd rfl hne
  refine ⟨fun tm ro => hst tm ro, ?_⟩
  intro tm hne
  simp only [handle] at hne
  split at hne
  · exact absurd rfl hne
  · split at hne
    · exact absurd rfl hne
    · split at hne
      · exact absurd (by simp [Ovl.get]) hne
      · exact hst _ _ hne

/-- the roster handler (`checkPendingTreeMarshal`) fills only empty slots, and only with trees whose
description was parked for that roster id -/
theorem c06_roster_fills_empty_partial (o : Ovl) (ro : Roster) (id : Nat)
    (hne : (handle o (.sendRoster ro)).1.get id ≠ o.get id) :
    o.get id = none ∧ ∃ sl, lookup o.pending ro.id = some sl ∧ ∃ tm ∈ sl, tm.treeId = id := by
  simp only [handle] at hne
  split at hne
  · exact absurd rfl hne
  · rw [checkPending_eq] at hne
    split at hne
    · exact absurd rfl hne
    · next sl hsl =>
      refine ⟨?_, sl, hsl, ?_⟩
      · cases hg : o.get id with
        | none => rfl
        | some t =>
          exfalso
          have := c06_never_replaces o (.sendRoster ro) id t hg
          simp only [handle] at this
          rw [if_neg (by assumption), checkPending_eq, hsl] at this
          exact hne (by rw [this, hg])
      · -- some step of the fold changed slot `id`
        have key : ∀ (l : List TreeMarshal) (o' : Ovl), (l.foldl (pendStep ro) o').get id ≠ o'.get id →
            ∃ tm ∈ l, tm.treeId = id := by
          intro l
          induction l with
          | nil => intro o' h; exact absurd rfl h
          | cons tm rest ih =>
            intro o' h
            simp only [List.foldl_cons] at h
            by_cases hstep : (pendStep ro o' tm).get id = o'.get id
            · rw [← hstep] at h
              obtain ⟨x, hx, e⟩ := ih _ h
              exact ⟨x, List.mem_cons_of_mem _ hx, e⟩
            · rcases pendStep_cases ro o' tm with e | ⟨t, _, hmk, e⟩
              · rw [e] at hstep; exact absurd rfl hstep
              · refine ⟨tm, List.mem_cons_self, ?_⟩
                apply Classical.byContradiction
                intro hid
                rw [e, get_setTree_ne _ _ _ (by rw [(makeTree_ok hmk).1]; exact fun h => hid h.symm)] at hstep
                exact hstep rfl
        exact key sl o hne

/-- a description that `MakeTree` refuses is not stored, whichever message brings it -/
theorem c06_malformed_not_stored (o : Ovl) (tm : TreeMarshal) (ro : Option Roster) (e : Err)
    (h : makeTree tm ro = .error e) : (handle o (.responseTree (some tm) ro)).1 = o := by
  simp only [handle]
  rcases handleSendTree_cases o (some tm) ro with e' | ⟨tm', r, t, h1, h2, _, _, hmk, _⟩
  · exact e'
  · simp only [Option.some.injEq] at h1
    subst h1; subst h2
    rw [h] at hmk; simp at hmk

/-- a repeated roster message stores nothing: the descriptions parked for its id were forgotten
when the first one was handled (6793864) -/
theorem c06_repeated_roster_noop (o : Ovl) (ro : Roster) :
    (handle (handle o (.sendRoster ro)).1 (.sendRoster ro)).1 = (handle o (.sendRoster ro)).1 := by
  have hnone : lookup (checkPending o ro).pending ro.id = none := by
    rw [checkPending_eq]
    cases h : lookup o.pending ro.id with
    | none => simpa using h
    | some sl => simp [lookup_erase_self]
  simp only [handle]
  split
  · rfl
  · show checkPending (checkPending o ro) ro = checkPending o ro
    rw [checkPending_eq (checkPending o ro) ro, hnone]

/-! #### everything stored was asked for at some point, or registered locally -/

/-- the invariant: stored trees, waiting slots and parked descriptions all carry identifiers that
were requested by this server at some point (or, for stored trees, registered locally) -/
def StoreInv (o : Ovl) : Prop :=
  (∀ id t, o.get id = some t → id ∈ o.everReq ∨ id ∈ o.locals) ∧
  (∀ id, o.isRequested id = true → id ∈ o.everReq) ∧
  (∀ rid sl tm, lookup o.pending rid = some sl → tm ∈ sl → tm.treeId ∈ o.everReq)

private theorem setTree_inv (o : Ovl) (t : Tree) (h : StoreInv o) (ht : t.id ∈ o.everReq ∨ t.id ∈ o.locals) :
    StoreInv (o.setTree t) := by
  obtain ⟨h1, h2, h3⟩ := h
  refine ⟨?_, ?_, h3⟩
  · intro id t' hg
    by_cases hid : id = t.id
    · subst hid; exact ht
    · rw [get_setTree_ne _ _ _ hid] at hg; exact h1 id t' hg
  · intro id hr
    by_cases hid : id = t.id
    · subst hid
      simp [Ovl.isRequested, Ovl.setTree, lookup_insert_self] at hr
    · apply h2 id
      simpa [Ovl.isRequested, lookup_setTree_ne o t id hid] using hr

private theorem handleSendTree_inv (o : Ovl) (tm : Option TreeMarshal) (ro : Option Roster) (h : StoreInv o) :
    StoreInv (handleSendTree o tm ro) := by
  rcases handleSendTree_cases o tm ro with e | ⟨tm', r, t, _, _, _, hreq, hmk, e⟩
  · rw [e]; exact h
  · rw [e]
    apply setTree_inv o t h
    rw [(makeTree_ok hmk).1]
    exact Or.inl (h.2.1 _ hreq)

private theorem handle_inv (o : Ovl) (m : Msg) (h : StoreInv o) : StoreInv (handle o m).1 := by
  cases m with
  | requestTree tid v =>
    simp only [handle]
    split
    · exact h
    · split <;> exact h
  | responseTree tm ro => exact handleSendTree_inv o tm ro h
  | treeMarshal tm =>
    simp only [handle]
    split
    · exact h
    · next hnz =>
      split
      · exact h
      · next hreq =>
        have hreq' : o.isRequested tm.treeId = true := by simpa using hreq
        split
        · obtain ⟨h1, h2, h3⟩ := h
          refine ⟨h1, h2, ?_⟩
          intro rid sl tm' hl hm
          by_cases hr : rid = tm.rosterId
          · subst hr
            simp only [lookup_insert_self, Option.some.injEq] at hl
            subst hl
            simp only [List.mem_append, List.mem_singleton] at hm
            rcases hm with hm | hm
            · cases hold : lookup o.pending tm.rosterId with
              | none => simp [hold] at hm
              | some l => simp [hold] at hm; exact h3 _ l tm' hold hm
            · subst hm; exact h2 _ hreq'
          · rw [lookup_insert_ne _ _ _ _ hr] at hl
            exact h3 rid sl tm' hl hm
        · exact handleSendTree_inv o _ _ h
  | requestRoster rid => exact h
  | sendRoster ro =>
    simp only [handle]
    split
    · exact h
    · rw [checkPending_eq]
      split
      · exact h
      · next sl hsl =>
        -- the fold keeps the invariant and does not touch `pending`, `everReq`
        have hfold : StoreInv (sl.foldl (pendStep ro) o) ∧ (sl.foldl (pendStep ro) o).pending = o.pending := by
          have hall : ∀ tm ∈ sl, tm.treeId ∈ o.everReq := fun tm hm => h.2.2 _ sl tm hsl hm
          clear hsl
          induction sl generalizing o with
          | nil => exact ⟨h, rfl⟩
          | cons tm rest ih =>
            simp only [List.foldl_cons]
            rcases pendStep_cases ro o tm with e | ⟨t, _, hmk, e⟩
            · rw [e]; exact ih o h (fun x hx => hall x (List.mem_cons_of_mem _ hx))
            · rw [e]
              have hi : StoreInv (o.setTree t) := setTree_inv o t h (by
                rw [(makeTree_ok hmk).1]; exact Or.inl (hall tm List.mem_cons_self))
              have := ih (o.setTree t) hi (fun x hx => hall x (List.mem_cons_of_mem _ hx))
              exact ⟨this.1, this.2⟩
        obtain ⟨⟨f1, f2, f3⟩, fp⟩ := hfold
        refine ⟨f1, f2, ?_⟩
        intro rid sl' tm hl hm
        simp only at hl
        by_cases hr : rid = ro.id
        · subst hr; rw [lookup_erase_self] at hl; simp at hl
        · rw [lookup_erase_ne _ _ _ hr] at hl
          exact f3 rid sl' tm hl hm

private theorem localStep_inv (o : Ovl) (l : Local) (h : StoreInv o) : StoreInv (localStep o l) := by
  obtain ⟨h1, h2, h3⟩ := h
  cases l with
  | reqSend id =>
    simp only [localStep]
    split
    · next hw =>
      have hs : ¬ (lookup o.store id).isSome = true := by simpa [Ovl.wouldRequest] using hw
      refine ⟨?_, ?_, ?_⟩
      · intro id' t hg
        have : o.get id' = some t := by
          by_cases hid : id' = id
          · subst hid; simp [Ovl.get, lookup_insert_self] at hg
          · simpa [Ovl.get, lookup_insert_ne _ _ _ _ hid] using hg
        rcases h1 id' t this with h | h
        · exact Or.inl (List.mem_cons_of_mem _ h)
        · exact Or.inr h
      · intro id' hr
        by_cases hid : id' = id
        · subst hid; exact List.mem_cons_self
        · apply List.mem_cons_of_mem
          apply h2
          simpa [Ovl.isRequested, lookup_insert_ne _ _ _ _ hid] using hr
      · intro rid sl tm hl hm; exact List.mem_cons_of_mem _ (h3 rid sl tm hl hm)
    · exact ⟨h1, h2, h3⟩
  | reqFail id =>
    simp only [localStep]
    split
    · exact ⟨fun id' t hg => (h1 id' t hg).elim (fun h => Or.inl (List.mem_cons_of_mem _ h)) Or.inr,
        fun id' hr => List.mem_cons_of_mem _ (h2 id' hr),
        fun rid sl tm hl hm => List.mem_cons_of_mem _ (h3 rid sl tm hl hm)⟩
    · exact ⟨h1, h2, h3⟩
  | request id =>
    simp only [localStep]
    refine ⟨?_, ?_, ?_⟩
    · intro id' t hg
      have : o.get id' = some t := by
        by_cases hs : (lookup o.store id).isSome
        · simpa [Ovl.get, hs] using hg
        · by_cases hid : id' = id
          · subst hid; simp [Ovl.get, hs, lookup_insert_self] at hg
          · simpa [Ovl.get, hs, lookup_insert_ne _ _ _ _ hid] using hg
      rcases h1 id' t this with h | h
      · exact Or.inl (List.mem_cons_of_mem _ h)
      · exact Or.inr h
    · intro id' hr
      by_cases hid : id' = id
      · subst hid; exact List.mem_cons_self
      · apply List.mem_cons_of_mem
        apply h2
        by_cases hs : (lookup o.store id).isSome
        · simpa [Ovl.isRequested, hs] using hr
        · simpa [Ovl.isRequested, hs, lookup_insert_ne _ _ _ _ hid] using hr
    · intro rid sl tm hl hm; exact List.mem_cons_of_mem _ (h3 rid sl tm hl hm)
  | unrequest id =>
    simp only [localStep]
    split
    · refine ⟨?_, ?_, h3⟩
      · intro id' t hg
        by_cases hid : id' = id
        · subst hid; simp [Ovl.get, lookup_erase_self] at hg
        · exact h1 id' t (by simpa [Ovl.get, lookup_erase_ne _ _ _ hid] using hg)
      · intro id' hr
        by_cases hid : id' = id
        · subst hid; simp [Ovl.isRequested, lookup_erase_self] at hr
        · exact h2 id' (by simpa [Ovl.isRequested, lookup_erase_ne _ _ _ hid] using hr)
    · exact ⟨h1, h2, h3⟩
  | register t =>
    simp only [localStep]
    have := setTree_inv { o with locals := t.id :: o.locals } t
      ⟨fun id t' hg => (h1 id t' hg).elim Or.inl (fun h => Or.inr (List.mem_cons_of_mem _ h)), h2, h3⟩
      (Or.inr List.mem_cons_self)
    exact this
  | «instance» t =>
    simp only [localStep]
    split
    · have := setTree_inv { o with locals := t.id :: o.locals } t
        ⟨fun id t' hg => (h1 id t' hg).elim Or.inl (fun h => Or.inr (List.mem_cons_of_mem _ h)), h2, h3⟩
        (Or.inr List.mem_cons_self)
      exact this
    · exact ⟨h1, h2, h3⟩
  | expire id =>
    simp only [localStep]
    refine ⟨?_, ?_, h3⟩
    · intro id' t hg
      by_cases hid : id' = id
      · subst hid; simp [Ovl.get, lookup_erase_self] at hg
      · exact h1 id' t (by simpa [Ovl.get, lookup_erase_ne _ _ _ hid] using hg)
    · intro id' hr
      by_cases hid : id' = id
      · subst hid; simp [Ovl.isRequested, lookup_erase_self] at hr
      · exact h2 id' (by simpa [Ovl.isRequested, lookup_erase_ne _ _ _ hid] using hr)

private theorem storeInv_run (evs : List Ev) : StoreInv (runEv {} evs) := by
  have h0 : StoreInv ({} : Ovl) := ⟨by intro id t h; simp [Ovl.get, lookup] at h,
    by intro id h; simp [Ovl.isRequested, lookup] at h, by intro rid sl tm h; simp [lookup] at h⟩
  have : ∀ (evs : List Ev) (o : Ovl), StoreInv o → StoreInv (runEv o evs) := by
    intro evs
    induction evs with
    | nil => intro o h; exact h
    | cons e rest ih =>
      intro o h
      simp only [runEv, List.foldl_cons]
      apply ih
      cases e with
      | peer m => exact handle_inv o m h
      | loc l => exact localStep_inv o l h
  exact this evs {} h0

/-- **never a tree the server did not ask for** (as far as the code enforces it): after any
history of peer messages and local events, every stored tree carries an identifier this server
requested at some point or registered itself -/
theorem c06_stored_was_requested_partial (evs : List Ev) :
    ∀ id t, (runEv {} evs).get id = some t → id ∈ (runEv {} evs).everReq ∨ id ∈ (runEv {} evs).locals :=
  (storeInv_run evs).1

/-! #### the full-strength statement, and the one history it fails on -/

/-- the statement asked for: a message from a peer changes what is stored under an identifier only
if that identifier is, at that moment, requested and still empty -/
def C06_only_requested_full : Prop :=
  ∀ (evs : List Ev) (m : Msg) (id : Nat),
    (handle (runEv {} evs) m).1.get id ≠ (runEv {} evs).get id → (runEv {} evs).isRequested id = true

/-- the witness: request tree 1, receive its description in the deprecated form (roster unknown:
parked), withdraw the request (it could not be sent), receive the roster -/
def replayWitness : List Ev × Msg :=
  let ro : Roster := { id := 1, list := [⟨3, 4, false⟩, ⟨5, 6, false⟩, ⟨7, 8, false⟩] }
  let tm : TreeMarshal := { treeId := 1, rosterId := 1, children := .node 3 3 (.node 5 5 .nil (.node 7 7 .nil .nil)) .nil }
  ([.loc (.request 1), .peer (.treeMarshal tm), .loc (.unrequest 1)], .sendRoster ro)

/-- **it does not hold on the code as it is**: a description parked while its tree was requested is
stored when its roster arrives, even though the request has been withdrawn in between (the roster
handler tests "not present", not "requested").  Replayed against the real overlay by the harness
(`witness-replay`). -/
theorem c06_only_requested_full_fails : ¬ C06_only_requested_full := by
  intro h
  have := h replayWitness.1 replayWitness.2 1 (by decide)
  exact absurd this (by decide)

/-! #### a tree learnt from a peer is the sender's tree -/

/-- **request / response**: a server that holds `t` answers a version-1 request with the description
and the roster; a server waiting for `t.id` that handles this answer stores exactly `t`.
**Deprecated form**: a version-0 request is answered with the description alone; the receiver,
knowing no roster with that id, parks it and asks for the roster; the sender answers from its store;
the receiver then stores exactly `t`. -/
theorem c06_peer_learns_same (snd rcv : Ovl) (t : Tree) (ro : Roster) (hd : ro.Distinct) (hw : t.WF ro)
    (hid : t.id ≠ 0) (hrid : ro.id ≠ 0) (hs : snd.get t.id = some t) (hr : rcv.isRequested t.id = true) :
    (∀ v, v ≠ 0 →
      (handle snd (.requestTree t.id v)).2 = [.responseTree (makeTreeMarshal t) (some ro)] ∧
      (handle rcv (.responseTree (some (makeTreeMarshal t)) (some ro))).1.get t.id = some t) ∧
    ((handle snd (.requestTree t.id 0)).2 = [.treeMarshal (makeTreeMarshal t)] ∧
      (rcv.instRoster ro.id = none → lookup rcv.pending ro.id = none →
        snd.getRoster ro.id = some ro →
        (handle rcv (.treeMarshal (makeTreeMarshal t))).2 = [.requestRoster ro.id] ∧
        (handle snd (.requestRoster ro.id)).2 = [.roster (some ro)] ∧
        (handle (handle rcv (.treeMarshal (makeTreeMarshal t))).1 (.sendRoster ro)).1.get t.id = some t)) := by
  have hmk := c06_roundtrip t ro hd hw
  have htm : (makeTreeMarshal t).treeId = t.id ∧ (makeTreeMarshal t).rosterId = ro.id := by
    simp [makeTreeMarshal, hw.1]
  have hstore : (handleSendTree rcv (some (makeTreeMarshal t)) (some ro)).get t.id = some t := by
    simp only [handleSendTree, htm.1, hid, if_false, hr, Bool.not_true, Bool.false_eq_true, hmk]
    exact get_setTree_self rcv t
  refine ⟨?_, ?_, ?_⟩
  · intro v hv
    exact ⟨by simp [handle, hs, hv, hw.1], hstore⟩
  · simp [handle, hs]
  · intro hinst hpend hros
    have hpark : (handle rcv (.treeMarshal (makeTreeMarshal t))) =
        ({ rcv with pending := insert rcv.pending ro.id [makeTreeMarshal t] }, [.requestRoster ro.id]) := by
      simp [handle, htm.1, htm.2, hid, hr, hinst, hpend]
    refine ⟨by rw [hpark], by simp [handle, hros], ?_⟩
    rw [hpark]
    simp only [handle, hrid, if_false]
    rw [checkPending_eq]
    simp only [lookup_insert_self, List.foldl_cons, List.foldl_nil]
    have hnone : ({ rcv with pending := insert rcv.pending ro.id [makeTreeMarshal t] } : Ovl).get (makeTreeMarshal t).treeId = none := by
      rw [htm.1]; simpa [Ovl.get] using requested_get rcv t.id hr
    simp only [pendStep, hnone, Option.isSome_none, Bool.false_eq_true, if_false, hmk]
    simp [Ovl.get, Ovl.setTree, lookup_insert_self]

/-- non-vacuity of `c06_peer_learns_same`: a sender that registered a well-formed tree, a receiver
that requested it -/
example : ∃ (snd rcv : Ovl) (t : Tree) (ro : Roster), ro.Distinct ∧ t.WF ro ∧ t.id ≠ 0 ∧ ro.id ≠ 0 ∧
    snd.get t.id = some t ∧ rcv.isRequested t.id = true ∧ snd.getRoster ro.id = some ro := by
  let ro : Roster := { id := 9, list := [⟨3, 4, false⟩, ⟨5, 6, false⟩] }
  let t := newTree 1 ro (.node 3 3 4 0 0 (.node 5 5 6 1 0 .nil .nil) .nil)
  exact ⟨localStep {} (.register t), localStep {} (.request 1), t, ro, by unfold Roster.Distinct; decide,
    newTree_wf 1 ro _ (by decide) (by simp [NodesOK, ro]), by decide, by decide, by decide, by decide, by decide⟩

/-- a request that cannot be sent leaves no requested marker behind: afterwards a tree pushed by any
peer under that id is not stored (unless the id was already waiting before) -/
theorem c06_failed_request_leaves_no_marker (o : Ovl) (id : Nat) (tm : Option TreeMarshal) (ro : Option Roster)
    (h : o.isRequested id = false) :
    (localStep o (.reqFail id)).isRequested id = false ∧
    (handle (localStep o (.reqFail id)) (.responseTree tm ro)).1.get id = o.get id := by
  have hst : (localStep o (.reqFail id)).store = o.store := by
    simp only [localStep]; split <;> rfl
  have hreq : (localStep o (.reqFail id)).isRequested id = false := by
    simp only [Ovl.isRequested, hst]; simpa [Ovl.isRequested] using h
  refine ⟨hreq, ?_⟩
  have hget : (localStep o (.reqFail id)).get id = o.get id := by simp [Ovl.get, hst]
  apply Classical.byContradiction
  intro hne
  have := (c06_only_requested_partial (localStep o (.reqFail id)) id).1 tm ro (by rw [hget]; exact hne)
  rw [hreq] at this
  exact absurd this (by simp)

/-! #### what a peer can make the server store, exactly -/

/-- **whatever a message from a peer puts into the store went through `MakeTree`'s checks**: a tree
that is in the store after the message and was not there before is the rebuild of a description with
that tree id over a roster (the one sent with it, the one of a live instance, or the roster message
itself) — so nothing malformed or mismatching is ever stored, whichever of the five messages brings
it and whichever of the three paths it takes. -/
theorem c06_stored_is_rebuilt (o : Ovl) (m : Msg) (id : Nat) (t : Tree)
    (h : (handle o m).1.get id = some t) (hnew : o.get id ≠ some t) :
    ∃ tm ro, makeTree tm (some ro) = .ok t ∧ tm.treeId = id := by
  have hst : ∀ (tm : Option TreeMarshal) (ro : Option Roster), (handleSendTree o tm ro).get id = some t →
      ∃ tm ro, makeTree tm (some ro) = .ok t ∧ tm.treeId = id := by
    intro tm ro hg
    rcases handleSendTree_cases o tm ro with e | ⟨tm', r, t', _, _, _, _, hmk, e⟩
    · rw [e] at hg; exact absurd hg hnew
    · rw [e] at hg
      by_cases hid : id = t'.id
      · subst hid
        rw [get_setTree_self] at hg
        simp only [Option.some.injEq] at hg
        subst hg
        exact ⟨tm', r, hmk, (makeTree_ok hmk).1.symm⟩
      · rw [get_setTree_ne _ _ _ hid] at hg; exact absurd hg hnew
  cases m with
  | requestTree tid v =>
    simp only [handle] at h
    split at h
    · exact absurd h hnew
    · split at h <;> exact absurd h hnew
  | responseTree tm ro => exact hst tm ro h
  | treeMarshal tm =>
    simp only [handle] at h
    split at h
    · exact absurd h hnew
    · split at h
      · exact absurd h hnew
      · split at h
        · exact absurd (by simpa [Ovl.get] using h) hnew
        · exact hst _ _ h
  | requestRoster rid => exact absurd h hnew
  | sendRoster ro =>
    simp only [handle] at h
    split at h
    · exact absurd h hnew
    · rw [checkPending_eq] at h
      split at h
      · exact absurd h hnew
      · next sl _ =>
        have := fold_pendStep_inv
          (fun o' => ∀ t', o'.get id = some t' → o.get id = some t' ∨ ∃ tm, makeTree tm (some ro) = .ok t' ∧ tm.treeId = id)
          ro (by
            intro o' tm t' hP hnone hmk t'' hg
            by_cases hid : id = t'.id
            · subst hid
              rw [get_setTree_self] at hg
              simp only [Option.some.injEq] at hg
              subst hg
              exact Or.inr ⟨tm, hmk, (makeTree_ok hmk).1.symm⟩
            · rw [get_setTree_ne _ _ _ hid] at hg; exact hP t'' hg) sl o (fun t' hg => Or.inl hg)
        rcases this t (by simpa [Ovl.get] using h) with h1 | ⟨tm, h1, h2⟩
        · exact absurd h1 hnew
        · exact ⟨tm, ro, h1, h2⟩

/-- **a requested, well-formed answer is stored**: when the slot is waiting and the description
fits the roster sent with it, the tree rebuilt from the two is in the store afterwards (the other
half of "only requested": nothing that was asked for and is in order gets lost) -/
theorem c06_requested_wellformed_stored (o : Ovl) (tm : TreeMarshal) (ro : Roster) (t : Tree)
    (hid : tm.treeId ≠ 0) (hreq : o.isRequested tm.treeId = true) (hmk : makeTree tm (some ro) = .ok t) :
    (handle o (.responseTree (some tm) (some ro))).1.get tm.treeId = some t := by
  simp only [handle, handleSendTree, hid, if_false, hreq, Bool.not_true, Bool.false_eq_true, hmk]
  rw [← (makeTree_ok hmk).1]
  exact get_setTree_self o t

/-- a tree request and a roster request change nothing on the server that answers them; the answer
to a tree request is the description of the stored tree and (unless the deprecated form is asked
for) the roster it carries, the answer to a roster request is a roster with that id taken from a
stored tree (an entry of the store), or the empty roster -/
theorem c06_requests_read_only (o : Ovl) :
    (∀ id v, (handle o (.requestTree id v)).1 = o ∧
      (o.get id = none → (handle o (.requestTree id v)).2 = []) ∧
      (∀ t, o.get id = some t → (handle o (.requestTree id v)).2 =
        [if v = 0 then .treeMarshal (makeTreeMarshal t) else .responseTree (makeTreeMarshal t) t.roster])) ∧
    (∀ rid, (handle o (.requestRoster rid)).1 = o ∧ (handle o (.requestRoster rid)).2 = [.roster (o.getRoster rid)] ∧
      (∀ ro, o.getRoster rid = some ro → ro.id = rid ∧ ∃ p ∈ o.store, ∃ t, p.2 = some t ∧ t.roster = some ro)) := by
  refine ⟨fun id v => ⟨?_, ?_, ?_⟩, fun rid => ⟨rfl, rfl, ?_⟩⟩
  · simp only [handle]; split
    · rfl
    · split <;> rfl
  · intro h; simp [handle, h]
  · intro t h; simp only [handle, h]; split <;> rfl
  · intro ro h
    unfold Ovl.getRoster at h
    obtain ⟨p, hp, hf⟩ := List.exists_of_findSome?_eq_some h
    obtain ⟨k, v⟩ := p
    cases v with
    | none => simp at hf
    | some t =>
      simp only at hf
      cases hr : t.roster with
      | none => simp [hr] at hf
      | some r =>
        simp only [hr] at hf
        split at hf
        · next hid =>
          simp only [Option.some.injEq] at hf
          subst hf
          exact ⟨hid, (k, some t), hp, t, rfl, hr⟩
        · simp at hf

/-! #### the full statement holds as long as no request is withdrawn -/

private theorem fold_pendStep_pending (ro : Roster) : ∀ (sl : List TreeMarshal) (o : Ovl),
    (sl.foldl (pendStep ro) o).pending = o.pending ∧ (sl.foldl (pendStep ro) o).everReq = o.everReq := by
  intro sl
  induction sl with
  | nil => intro o; exact ⟨rfl, rfl⟩
  | cons tm rest ih =>
    intro o
    simp only [List.foldl_cons]
    rcases pendStep_cases ro o tm with e | ⟨t, _, _, e⟩
    · rw [e]; exact ih o
    · rw [e]; exact ih (o.setTree t)

/-- an identifier that has an entry in the store (waiting or holding a tree) -/
def Ovl.registered (o : Ovl) (id : Nat) : Prop := (lookup o.store id).isSome = true

private theorem registered_setTree (o : Ovl) (t : Tree) (id : Nat) (h : o.registered id) : (o.setTree t).registered id := by
  unfold Ovl.registered at *
  by_cases hid : id = t.id
  · subst hid; simp [Ovl.setTree, lookup_insert_self]
  · rw [lookup_setTree_ne o t id hid]; exact h

private theorem handleSendTree_registered (o : Ovl) (tm : Option TreeMarshal) (ro : Option Roster) (id : Nat)
    (h : o.registered id) : (handleSendTree o tm ro).registered id := by
  rcases handleSendTree_cases o tm ro with e | ⟨_, _, t, _, _, _, _, _, e⟩
  · rw [e]; exact h
  · rw [e]; exact registered_setTree o t id h

private theorem fold_pendStep_registered (ro : Roster) (id : Nat) : ∀ (sl : List TreeMarshal) (o : Ovl),
    o.registered id → (sl.foldl (pendStep ro) o).registered id := by
  intro sl o h
  exact fold_pendStep_inv (fun o' => o'.registered id) ro
    (fun o' _ t hP _ _ => registered_setTree o' t id hP) sl o h

/-- a message from a peer never takes an entry out of the store -/
private theorem handle_registered (o : Ovl) (m : Msg) (id : Nat) (h : o.registered id) : (handle o m).1.registered id := by
  cases m with
  | requestTree tid v =>
    simp only [handle]
    split
    · exact h
    · split <;> exact h
  | responseTree tm ro => exact handleSendTree_registered o tm ro id h
  | treeMarshal tm =>
    simp only [handle]
    split
    · exact h
    · split
      · exact h
      · split
        · exact h
        · exact handleSendTree_registered o _ _ id h
  | requestRoster rid => exact h
  | sendRoster ro =>
    simp only [handle]
    split
    · exact h
    · rw [checkPending_eq]
      split
      · exact h
      · next sl _ => exact fold_pendStep_registered ro id sl o h

/-- the events that withdraw a request or drop a tree: a request that turns out not to be
sendable (`Unregister`), the end of a tree's grace period -/
def Ev.withdraws : Ev → Bool
  | .loc (.unrequest _) => true
  | .loc (.expire _) => true
  | _ => false

/-- every parked description belongs to an identifier that still has its entry in the store -/
def ParkedLive (o : Ovl) : Prop :=
  ∀ rid sl tm, lookup o.pending rid = some sl → tm ∈ sl → o.registered tm.treeId

private theorem parkedLive_step (o : Ovl) (e : Ev) (hw : e.withdraws = false) (h : ParkedLive o) : ParkedLive (stepEv o e) := by
  cases e with
  | peer m =>
    simp only [stepEv]
    -- the table of parked descriptions changes in two ways only
    cases m with
    | requestTree tid v =>
      simp only [handle]
      split
      · exact h
      · split <;> exact h
    | responseTree tm ro =>
      intro rid sl tm' hl hm
      have hp : (handleSendTree o tm ro).pending = o.pending := by
        rcases handleSendTree_cases o tm ro with e | ⟨_, _, t, _, _, _, _, _, e⟩ <;> rw [e] <;> rfl
      simp only [handle] at hl ⊢
      rw [hp] at hl
      exact handleSendTree_registered o tm ro _ (h rid sl tm' hl hm)
    | treeMarshal tm =>
      simp only [handle]
      split
      · exact h
      · split
        · exact h
        · next hreq =>
          have hreq' : o.isRequested tm.treeId = true := by simpa using hreq
          split
          · intro rid sl tm' hl hm
            simp only at hl
            show (lookup o.store tm'.treeId).isSome = true
            by_cases hr : rid = tm.rosterId
            · subst hr
              simp only [lookup_insert_self, Option.some.injEq] at hl
              subst hl
              simp only [List.mem_append, List.mem_singleton] at hm
              rcases hm with hm | hm
              · cases hold : lookup o.pending tm.rosterId with
                | none => simp [hold] at hm
                | some l => simp [hold] at hm; exact h _ l tm' hold hm
              · subst hm
                simp only [Ovl.isRequested, beq_iff_eq] at hreq'
                simp [hreq']
            · rw [lookup_insert_ne _ _ _ _ hr] at hl
              exact h rid sl tm' hl hm
          · intro rid sl tm' hl hm
            have hp : (handleSendTree o (some tm) (some ‹Roster›)).pending = o.pending := by
              rcases handleSendTree_cases o (some tm) (some ‹Roster›) with e | ⟨_, _, t, _, _, _, _, _, e⟩ <;> rw [e] <;> rfl
            rw [hp] at hl
            exact handleSendTree_registered o _ _ _ (h rid sl tm' hl hm)
    | requestRoster rid => exact h
    | sendRoster ro =>
      simp only [handle]
      split
      · exact h
      · rw [checkPending_eq]
        split
        · exact h
        · next sl hsl =>
          intro rid sl' tm' hl hm
          simp only at hl
          by_cases hr : rid = ro.id
          · subst hr; rw [lookup_erase_self] at hl; simp at hl
          · rw [lookup_erase_ne _ _ _ hr, (fold_pendStep_pending ro sl o).1] at hl
            exact fold_pendStep_registered ro _ sl o (h rid sl' tm' hl hm)
  | loc l =>
    simp only [stepEv]
    cases l with
    | reqSend id =>
      simp only [localStep]
      split
      · intro rid sl tm hl hm
        have := h rid sl tm hl hm
        unfold Ovl.registered at *
        by_cases hid : tm.treeId = id
        · rw [hid]; simp [lookup_insert_self]
        · simpa [lookup_insert_ne _ _ _ _ hid] using this
      · exact h
    | reqFail id =>
      simp only [localStep]
      split
      · intro rid sl tm hl hm; exact h rid sl tm hl hm
      · exact h
    | request id =>
      simp only [localStep]
      intro rid sl tm hl hm
      have := h rid sl tm hl hm
      unfold Ovl.registered at *
      by_cases hs : (lookup o.store id).isSome
      · simpa [hs] using this
      · by_cases hid : tm.treeId = id
        · rw [hid]; simp [hs, lookup_insert_self]
        · simpa [hs, lookup_insert_ne _ _ _ _ hid] using this
    | unrequest id => simp [Ev.withdraws] at hw
    | register t =>
      simp only [localStep]
      intro rid sl tm hl hm
      exact registered_setTree { o with locals := t.id :: o.locals } t _ (h rid sl tm hl hm)
    | «instance» t =>
      simp only [localStep]
      split
      · intro rid sl tm hl hm
        exact registered_setTree { o with locals := t.id :: o.locals } t _ (h rid sl tm hl hm)
      · exact h
    | expire id => simp [Ev.withdraws] at hw

/-- **never a tree the server is not waiting for — in full, on every history in which no request is
withdrawn and no tree expires**: after any such history of peer messages (solicited, unsolicited,
foreign roster, mismatching, repeated, deprecated form) and local events, whatever message comes
next changes what is stored under an identifier only if that identifier is requested and still
empty at that moment.  The one way around it (`c06_only_requested_full_fails`) needs an `Unregister`
or an expiry between the parking of a description and the arrival of its roster. -/
theorem c06_only_requested_full_without_withdrawal (evs : List Ev) (hnw : ∀ e ∈ evs, e.withdraws = false)
    (m : Msg) (id : Nat) (hne : (handle (runEv {} evs) m).1.get id ≠ (runEv {} evs).get id) :
    (runEv {} evs).isRequested id = true := by
  have hlive : ∀ (evs : List Ev) (o : Ovl), (∀ e ∈ evs, e.withdraws = false) → ParkedLive o → ParkedLive (runEv o evs) := by
    intro evs
    induction evs with
    | nil => intro o _ h; exact h
    | cons e rest ih =>
      intro o hw h
      simp only [runEv, List.foldl_cons]
      exact ih _ (fun x hx => hw x (List.mem_cons_of_mem _ hx)) (parkedLive_step o e (hw e List.mem_cons_self) h)
  have h0 : ParkedLive ({} : Ovl) := by intro rid sl tm h; simp [lookup] at h
  have hl := hlive evs {} hnw h0
  generalize runEv {} evs = o at hne hl
  cases m with
  | requestTree tid v => exact absurd (by rw [((c06_requests_read_only o).1 tid v).1]) hne
  | responseTree tm ro => exact (c06_only_requested_partial o id).1 tm ro hne
  | treeMarshal tm => exact (c06_only_requested_partial o id).2 tm hne
  | requestRoster rid => exact absurd rfl hne
  | sendRoster ro =>
    obtain ⟨hnone, sl, hsl, tm, hm, hid⟩ := c06_roster_fills_empty_partial o ro id hne
    have hreg := hl ro.id sl tm hsl hm
    rw [hid] at hreg
    unfold Ovl.registered at hreg
    unfold Ovl.get at hnone
    unfold Ovl.isRequested
    cases hlk : lookup o.store id with
    | none => simp [hlk] at hreg
    | some v =>
      cases v with
      | none => simp
      | some t => simp [hlk] at hnone

/-- non-vacuity: a history without withdrawal in which a roster message stores a tree (the deprecated
exchange in order: request, description parked, roster) -/
example : ∃ (evs : List Ev) (m : Msg) (id : Nat), (∀ e ∈ evs, e.withdraws = false) ∧
    (handle (runEv {} evs) m).1.get id ≠ (runEv {} evs).get id ∧ (runEv {} evs).isRequested id = true := by
  let ro : Roster := { id := 1, list := [⟨3, 4, false⟩, ⟨5, 6, false⟩, ⟨7, 8, false⟩] }
  let tm : TreeMarshal := { treeId := 1, rosterId := 1, children := .node 3 3 (.node 5 5 .nil (.node 7 7 .nil .nil)) .nil }
  exact ⟨[.loc (.request 1), .peer (.treeMarshal tm)], .sendRoster ro, 1, by decide, by decide, by decide⟩

/-- **what a peer can change, exactly** — on any history: a slot changes only if it is requested and
empty at that moment, or (the known class) the message is a roster, the slot is empty, a description
for it is parked under that roster id, and the identifier was requested at some earlier point -/
theorem c06_store_change_characterised (evs : List Ev) (m : Msg) (id : Nat)
    (hne : (handle (runEv {} evs) m).1.get id ≠ (runEv {} evs).get id) :
    (runEv {} evs).isRequested id = true ∨
    (∃ ro, m = .sendRoster ro ∧ (runEv {} evs).get id = none ∧ id ∈ (runEv {} evs).everReq ∧
      ∃ sl, lookup (runEv {} evs).pending ro.id = some sl ∧ ∃ tm ∈ sl, tm.treeId = id) := by
  have hinv := storeInv_run evs
  generalize runEv {} evs = o at hne hinv
  cases m with
  | requestTree tid v => exact absurd (by rw [((c06_requests_read_only o).1 tid v).1]) hne
  | responseTree tm ro => exact Or.inl ((c06_only_requested_partial o id).1 tm ro hne)
  | treeMarshal tm => exact Or.inl ((c06_only_requested_partial o id).2 tm hne)
  | requestRoster rid => exact absurd rfl hne
  | sendRoster ro =>
    obtain ⟨hnone, sl, hsl, tm, hm, hid⟩ := c06_roster_fills_empty_partial o ro id hne
    exact Or.inr ⟨ro, rfl, hnone, by rw [← hid]; exact hinv.2.2 ro.id sl tm hsl hm, sl, hsl, tm, hm, hid⟩

/-- once a roster message has been handled nothing is parked for its id any more: every description
that waited for it has been stored or dropped (nothing is stuck) -/
theorem c06_roster_clears_parked (o : Ovl) (ro : Roster) (h : ro.id ≠ 0) :
    lookup (handle o (.sendRoster ro)).1.pending ro.id = none := by
  simp only [handle, h, if_false]
  rw [checkPending_eq]
  cases hl : lookup o.pending ro.id with
  | none => simpa using hl
  | some sl => simp [lookup_erase_self]

/-! #### the store behaves like a three-valued map under peer messages -/

/-- **refinement of the slot specification**: under any message from a peer every slot of the store
(absent / waiting / holding a tree) either keeps its value or goes from *no tree* to *holding the
rebuild of a description with that id* — a peer can neither create nor cancel a waiting marker,
neither remove nor exchange a tree.  (Which empty slots may be filled is `c06_store_change_characterised`.) -/
theorem c06_peer_step_refines_slot_spec (o : Ovl) (m : Msg) (id : Nat) :
    lookup (handle o m).1.store id = lookup o.store id ∨
    (o.get id = none ∧ ∃ t tm ro, lookup (handle o m).1.store id = some (some t) ∧
      makeTree tm (some ro) = .ok t ∧ tm.treeId = id) := by
  have hst : ∀ (tm : Option TreeMarshal) (ro : Option Roster),
      lookup (handleSendTree o tm ro).store id = lookup o.store id ∨
      (o.get id = none ∧ ∃ t tm' ro', lookup (handleSendTree o tm ro).store id = some (some t) ∧
        makeTree tm' (some ro') = .ok t ∧ tm'.treeId = id) := by
    intro tm ro
    rcases handleSendTree_cases o tm ro with e | ⟨tm', r, t, _, _, _, hreq, hmk, e⟩
    · rw [e]; exact Or.inl rfl
    · rw [e]
      by_cases hid : id = t.id
      · refine Or.inr ⟨?_, t, tm', r, ?_, hmk, ?_⟩
        · rw [hid, (makeTree_ok hmk).1]; exact requested_get o _ hreq
        · rw [hid]; simp [Ovl.setTree, lookup_insert_self]
        · rw [hid, (makeTree_ok hmk).1]
      · exact Or.inl (lookup_setTree_ne o t id hid)
  cases m with
  | requestTree tid v => exact Or.inl (by rw [((c06_requests_read_only o).1 tid v).1])
  | responseTree tm ro => exact hst tm ro
  | treeMarshal tm =>
    simp only [handle]
    split
    · exact Or.inl rfl
    · split
      · exact Or.inl rfl
      · split
        · exact Or.inl rfl
        · exact hst _ _
  | requestRoster rid => exact Or.inl rfl
  | sendRoster ro =>
    simp only [handle]
    split
    · exact Or.inl rfl
    · rw [checkPending_eq]
      split
      · exact Or.inl rfl
      · next sl _ =>
        have := fold_pendStep_inv
          (fun o' => lookup o'.store id = lookup o.store id ∨
            (o.get id = none ∧ ∃ t tm, lookup o'.store id = some (some t) ∧ makeTree tm (some ro) = .ok t ∧ tm.treeId = id))
          ro (by
            intro o' tm t hP hnone hmk
            by_cases hid : id = t.id
            · refine Or.inr ⟨?_, t, tm, ?_, hmk, ?_⟩
              · rcases hP with h | ⟨h, _⟩
                · have : o'.get id = none := by rw [hid, (makeTree_ok hmk).1]; exact hnone
                  simpa [Ovl.get, h] using this
                · exact h
              · rw [hid]; simp [Ovl.setTree, lookup_insert_self]
              · rw [hid, (makeTree_ok hmk).1]
            · rw [lookup_setTree_ne o' t id hid]; exact hP) sl o (Or.inl rfl)
        rcases this with h | ⟨h, t, tm, h1, h2, h3⟩
        · exact Or.inl h
        · exact Or.inr ⟨h, t, tm, ro, h1, h2, h3⟩

/-- **`NewTree` always computes the aggregates from the structure it is given**, whatever the
aggregate fields of the (possibly re-used) nodes held before: afterwards every node carries the sum
over its subtree.  So a tree made over nodes re-used from an earlier tree whose children changed
since has the same aggregates as the tree a receiver rebuilds from its description. -/
theorem c06_newtree_aggregates_are_subtree_sums (id : Nat) (ro : Roster) (root : TN) :
    AggOK (newTree id ro root).root ∧
    (newTree id ro root).root = (newTree id ro (clearAgg root)).root := by
  constructor
  · simp only [newTree]
    induction root with
    | nil => trivial
    | node nid sid key idx agg c s ihc ihs =>
      exact ⟨by simp [aggregate_sum, keySum_aggregate], ihc, ihs⟩
  · simp [newTree, aggregate_clearAgg]

/-! ### two cooperating servers: any interleaving of requests, answers, duplicates and losses (round 5)

`Model/C06Net.lean`: two overlays and the control messages in flight between them.  The *world* says
which tree every tree id denotes (`W`); servers register only trees of the world.  Then, whatever the
schedule — both servers asking and answering at the same time, the current and the deprecated exchange
mixed, messages handled twice, lost, or overtaken by others, requests withdrawn, trees expiring — a tree
that is in a server's store under an id is the tree the world (its peer) has under that id: id, roster,
node ids, structure, child order, roster positions, aggregates. -/

/-- every id denotes one well-formed tree over a roster of pairwise distinct servers; roster ids denote
rosters (the assumption under which the deprecated path may pick "a roster with that id") -/
def WorldOK (W : Nat → Option Tree) : Prop :=
  (∀ id t, W id = some t → t.id = id ∧ id ≠ 0 ∧ ∃ ro, t.WF ro ∧ ro.Distinct ∧ ro.id ≠ 0) ∧
  (∀ i j t t' ro ro', W i = some t → W j = some t' → t.roster = some ro → t'.roster = some ro' →
      ro.id = ro'.id → ro = ro')

/-- a message in flight was produced by a server of this world -/
def MsgOK (W : Nat → Option Tree) : Msg → Prop
  | .requestTree _ _ => True
  | .requestRoster _ => True
  | .responseTree tm ro => ∃ t r, W t.id = some t ∧ t.roster = some r ∧ tm = some (makeTreeMarshal t) ∧ ro = some r
  | .treeMarshal tm => ∃ t, W t.id = some t ∧ tm = makeTreeMarshal t
  | .sendRoster ro => ro.id = 0 ∨ ∃ t, W t.id = some t ∧ t.roster = some ro

/-- a server's state: every stored tree is the world's tree of that id, every parked description
describes a tree of the world and is filed under its roster id -/
def OvlOK (W : Nat → Option Tree) (o : Ovl) : Prop :=
  (∀ id t, (id, some t) ∈ o.store → W id = some t) ∧
  (∀ rid sl, (rid, sl) ∈ o.pending → ∀ tm ∈ sl, tm.rosterId = rid ∧ ∃ t, W t.id = some t ∧ tm = makeTreeMarshal t)

def NetOK (W : Nat → Option Tree) (n : Net) : Prop :=
  (∀ s, OvlOK W (n.ovl s)) ∧ (∀ s, ∀ m ∈ n.inbox s, MsgOK W m)

/-- servers register trees of the world -/
def EvOK (W : Nat → Option Tree) : NetEv → Prop
  | .loc _ (.register t) => W t.id = some t
  | .loc _ (.instance t) => W t.id = some t
  | _ => True

private theorem lookup_mem {α} (l : List (Nat × α)) (k : Nat) (v : α) (h : lookup l k = some v) : (k, v) ∈ l := by
  induction l with
  | nil => simp [lookup] at h
  | cons p rest ih =>
    obtain ⟨k', v'⟩ := p
    by_cases hk : k' = k
    · simp only [lookup, hk, if_true, Option.some.injEq] at h
      subst hk; subst h; simp
    · simp only [lookup, hk, if_false] at h
      exact List.mem_cons_of_mem _ (ih h)

private theorem mem_insert {α} (l : List (Nat × α)) (k : Nat) (v : α) (p : Nat × α) (h : p ∈ insert l k v) :
    p = (k, v) ∨ p ∈ l := by
  induction l with
  | nil => simp [insert] at h; exact Or.inl h
  | cons q rest ih =>
    obtain ⟨k', v'⟩ := q
    by_cases hk : k' = k
    · simp only [insert, hk, if_true, List.mem_cons] at h
      rcases h with h | h
      · exact Or.inl h
      · exact Or.inr (List.mem_cons_of_mem _ h)
    · simp only [insert, hk, if_false, List.mem_cons] at h
      rcases h with h | h
      · exact Or.inr (by rw [h]; simp)
      · rcases ih h with h' | h'
        · exact Or.inl h'
        · exact Or.inr (List.mem_cons_of_mem _ h')

private theorem mem_erase {α} (l : List (Nat × α)) (k : Nat) (p : Nat × α) (h : p ∈ erase l k) : p ∈ l := by
  unfold erase at h
  exact (List.mem_filter.mp h).1

private theorem get_mem (o : Ovl) (id : Nat) (t : Tree) (h : o.get id = some t) : (id, some t) ∈ o.store := by
  unfold Ovl.get at h
  cases hl : lookup o.store id with
  | none => rw [hl] at h; simp at h
  | some v =>
    rw [hl] at h
    cases v with
    | none => simp at h
    | some t' =>
      simp at h
      subst h
      exact lookup_mem _ _ _ hl

private theorem world_mk {W : Nat → Option Tree} (hW : WorldOK W) (t : Tree) (r : Roster)
    (ht : W t.id = some t) (hr : t.roster = some r) : makeTree (makeTreeMarshal t) (some r) = .ok t := by
  obtain ⟨_, _, ro, hwf, hd, _⟩ := hW.1 t.id t ht
  have : ro = r := by
    have := hwf.1; rw [hr] at this; exact (Option.some.inj this).symm
  subst this
  exact c06_roundtrip t ro hd hwf

private theorem setTree_ok {W : Nat → Option Tree} (o : Ovl) (t : Tree) (ho : OvlOK W o) (ht : W t.id = some t) :
    OvlOK W (o.setTree t) := by
  refine ⟨?_, ho.2⟩
  intro id t' hm
  rcases mem_insert _ _ _ _ hm with h | h
  · simp only [Prod.mk.injEq, Option.some.injEq] at h
    rw [h.1, h.2]; exact ht
  · exact ho.1 id t' h

private theorem hst_ok {W : Nat → Option Tree} (hW : WorldOK W) (o : Ovl) (t : Tree) (r : Roster) (ho : OvlOK W o)
    (ht : W t.id = some t) (hr : t.roster = some r) :
    OvlOK W (handleSendTree o (some (makeTreeMarshal t)) (some r)) := by
  rcases handleSendTree_cases o (some (makeTreeMarshal t)) (some r) with e | ⟨tm', r', t', h1, h2, _, _, hmk, e⟩
  · rw [e]; exact ho
  · rw [e]
    have h1' := Option.some.inj h1
    have h2' := Option.some.inj h2
    rw [← h1', ← h2', world_mk hW t r ht hr] at hmk
    have : t = t' := Except.ok.inj hmk
    rw [← this]
    exact setTree_ok o t ho ht

private theorem mtm_rosterId (t : Tree) (r : Roster) (h : t.roster = some r) : (makeTreeMarshal t).rosterId = r.id := by
  simp [makeTreeMarshal, h]

private theorem fold_ok {W : Nat → Option Tree} (hW : WorldOK W) (ro : Roster)
    (hro : ∃ t0, W t0.id = some t0 ∧ t0.roster = some ro) :
    ∀ (sl : List TreeMarshal) (o : Ovl),
      (∀ tm ∈ sl, tm.rosterId = ro.id ∧ ∃ t, W t.id = some t ∧ tm = makeTreeMarshal t) →
      OvlOK W o → OvlOK W (sl.foldl (pendStep ro) o) := by
  intro sl
  induction sl with
  | nil => intro o _ ho; exact ho
  | cons tm rest ih =>
    intro o hg ho
    simp only [List.foldl_cons]
    apply ih _ (fun x hx => hg x (List.mem_cons_of_mem _ hx))
    rcases pendStep_cases ro o tm with e | ⟨t', _, hmk, e⟩
    · rw [e]; exact ho
    · rw [e]
      obtain ⟨hrid, t, ht, htm⟩ := hg tm (by simp)
      obtain ⟨t0, ht0, hr0⟩ := hro
      obtain ⟨_, _, r, hwf, _, _⟩ := hW.1 t.id t ht
      have hr : t.roster = some r := hwf.1
      have hid : r.id = ro.id := by rw [← mtm_rosterId t r hr, ← htm]; exact hrid
      have hrr : r = ro := hW.2 _ _ t t0 r ro ht ht0 hr hr0 hid
      rw [htm, ← hrr, world_mk hW t r ht hr] at hmk
      have : t = t' := Except.ok.inj hmk
      rw [← this]
      exact setTree_ok o t ho ht

private theorem checkPending_ok {W : Nat → Option Tree} (hW : WorldOK W) (o : Ovl) (ro : Roster)
    (hro : ∃ t0, W t0.id = some t0 ∧ t0.roster = some ro) (ho : OvlOK W o) : OvlOK W (checkPending o ro) := by
  rw [checkPending_eq]
  cases hl : lookup o.pending ro.id with
  | none => exact ho
  | some sl =>
    have hf := fold_ok hW ro hro sl o (ho.2 ro.id sl (lookup_mem _ _ _ hl)) ho
    exact ⟨hf.1, fun rid sl' hm => hf.2 rid sl' (mem_erase _ _ _ hm)⟩

private theorem instRoster_mem (o : Ovl) (rid : Nat) (ro : Roster) (h : o.instRoster rid = some ro) :
    ∃ id t, o.get id = some t ∧ t.roster = some ro ∧ ro.id = rid := by
  unfold Ovl.instRoster at h
  have hm := List.mem_of_getLast? h
  obtain ⟨tid, _, hx⟩ := List.mem_filterMap.mp hm
  cases hg : o.get tid with
  | none => rw [hg] at hx; simp at hx
  | some t =>
    rw [hg] at hx
    cases hr : t.roster with
    | none => simp [hr] at hx
    | some r =>
      simp only [hr, Option.bind_some] at hx
      by_cases hid : r.id = rid
      · simp only [hid, if_true, Option.some.injEq] at hx
        subst hx
        exact ⟨tid, t, hg, hr, hid⟩
      · simp [hid] at hx

private theorem getRoster_mem (o : Ovl) (rid : Nat) (ro : Roster) (h : o.getRoster rid = some ro) :
    ∃ id t, (id, some t) ∈ o.store ∧ t.roster = some ro := by
  unfold Ovl.getRoster at h
  obtain ⟨p, hp, hx⟩ := List.exists_of_findSome?_eq_some h
  obtain ⟨id, v⟩ := p
  cases v with
  | none => simp at hx
  | some t =>
    cases hr : t.roster with
    | none => simp [hr] at hx
    | some r =>
      simp only [hr] at hx
      by_cases hid : r.id = rid
      · simp only [hid, if_true, Option.some.injEq] at hx
        subst hx
        exact ⟨id, t, hp, hr⟩
      · simp [hid] at hx

/-- one message of this world handled by a server of this world: the server stays in the world, and so
do its replies -/
theorem handle_ok {W : Nat → Option Tree} (hW : WorldOK W) (o : Ovl) (m : Msg) (ho : OvlOK W o) (hm : MsgOK W m) :
    OvlOK W (handle o m).1 ∧ ∀ out ∈ (handle o m).2, MsgOK W out.toMsg := by
  cases m with
  | requestTree id v =>
    simp only [handle]
    cases hg : o.get id with
    | none => exact ⟨ho, by simp⟩
    | some t =>
      have hw := ho.1 id t (get_mem o id t hg)
      obtain ⟨hid, _, ro, hwf, _, _⟩ := hW.1 id t hw
      have hw' : W t.id = some t := by rw [hid]; exact hw
      by_cases hv : v = 0
      · simp only [hv, if_true]
        refine ⟨ho, ?_⟩
        intro out hout
        simp only [List.mem_singleton] at hout
        subst hout
        exact ⟨t, hw', rfl⟩
      · simp only [hv, if_false]
        refine ⟨ho, ?_⟩
        intro out hout
        simp only [List.mem_singleton] at hout
        subst hout
        exact ⟨t, ro, hw', hwf.1, rfl, hwf.1⟩
  | responseTree tm ro =>
    obtain ⟨t, r, ht, hr, h1, h2⟩ := hm
    subst h1; subst h2
    exact ⟨hst_ok hW o t r ho ht hr, by simp [handle]⟩
  | treeMarshal tm =>
    obtain ⟨t, ht, h1⟩ := hm
    subst h1
    simp only [handle]
    split
    · exact ⟨ho, by simp⟩
    · split
      · exact ⟨ho, by simp⟩
      · split
        · next hnone =>
          refine ⟨⟨ho.1, ?_⟩, ?_⟩
          · intro rid sl hmem
            rcases mem_insert _ _ _ _ hmem with h | h
            · simp only [Prod.mk.injEq] at h
              obtain ⟨h1, h2⟩ := h
              subst h1; subst h2
              intro tm htm
              rcases List.mem_append.mp htm with h | h
              · cases hl : lookup o.pending (makeTreeMarshal t).rosterId with
                | none => rw [hl] at h; simp at h
                | some sl0 =>
                  rw [hl] at h
                  exact ho.2 _ sl0 (lookup_mem _ _ _ hl) tm (by simpa using h)
              · simp only [List.mem_singleton] at h
                subst h
                exact ⟨rfl, t, ht, rfl⟩
            · exact ho.2 rid sl h
          · intro out hout
            simp only [List.mem_singleton] at hout
            subst hout
            trivial
        · next ro hsome =>
          obtain ⟨id0, t0, hg0, hr0, hid0⟩ := instRoster_mem o _ ro hsome
          have hw0 := ho.1 id0 t0 (get_mem o id0 t0 hg0)
          obtain ⟨hid00, _, _⟩ := hW.1 id0 t0 hw0
          have hw0' : W t0.id = some t0 := by rw [hid00]; exact hw0
          obtain ⟨_, _, r, hwf, _, _⟩ := hW.1 t.id t ht
          have hr : t.roster = some r := hwf.1
          have hrr : r = ro := hW.2 _ _ t t0 r ro ht hw0' hr hr0 (by rw [hid0, mtm_rosterId t r hr])
          subst hrr
          exact ⟨hst_ok hW o t r ho ht hr, by simp⟩
  | requestRoster rid =>
    simp only [handle]
    refine ⟨ho, ?_⟩
    intro out hout
    simp only [List.mem_singleton] at hout
    subst hout
    cases hg : o.getRoster rid with
    | none => exact Or.inl rfl
    | some ro =>
      obtain ⟨id, t, hmem, hr⟩ := getRoster_mem o rid ro hg
      have hw := ho.1 id t hmem
      obtain ⟨hid, _, _⟩ := hW.1 id t hw
      exact Or.inr ⟨t, by rw [hid]; exact hw, hr⟩
  | sendRoster ro =>
    simp only [handle]
    split
    · exact ⟨ho, by simp⟩
    · next hne =>
      rcases hm with h0 | hro
      · exact absurd h0 hne
      · exact ⟨checkPending_ok hW o ro hro ho, by simp⟩

private theorem store_sub_ok {W : Nat → Option Tree} (o o' : Ovl) (ho : OvlOK W o)
    (hs : ∀ id t, (id, some t) ∈ o'.store → (id, some t) ∈ o.store) (hp : o'.pending = o.pending) : OvlOK W o' :=
  ⟨fun id t h => ho.1 id t (hs id t h), by rw [hp]; exact ho.2⟩

/-- a local action (a request, its withdrawal, expiry, the registration of a tree of the world) keeps a
server in the world -/
theorem local_ok {W : Nat → Option Tree} (o : Ovl) (l : Local) (ho : OvlOK W o)
    (hl : match l with | .register t => W t.id = some t | .instance t => W t.id = some t | _ => True) :
    OvlOK W (localStep o l) := by
  have hins : ∀ (id : Nat) (i : Nat) (t : Tree), (i, some t) ∈ insert o.store id none → (i, some t) ∈ o.store := by
    intro id i t h
    rcases mem_insert _ _ _ _ h with h | h
    · simp at h
    · exact h
  cases l with
  | reqSend id =>
    simp only [localStep]
    split
    · exact store_sub_ok o _ ho (hins id) rfl
    · exact ho
  | reqFail id =>
    simp only [localStep]
    split
    · exact store_sub_ok o _ ho (fun _ _ h => h) rfl
    · exact ho
  | request id =>
    simp only [localStep]
    refine store_sub_ok o _ ho ?_ rfl
    intro i t h
    simp only at h
    split at h
    · exact h
    · exact hins id i t h
  | unrequest id =>
    simp only [localStep]
    split
    · exact store_sub_ok o _ ho (fun i t h => mem_erase _ _ _ h) rfl
    · exact ho
  | register t =>
    have := setTree_ok o t ho hl
    exact ⟨this.1, this.2⟩
  | «instance» t =>
    simp only [localStep]
    split
    · have := setTree_ok o t ho hl
      exact ⟨this.1, this.2⟩
    · exact ho
  | expire id =>
    exact store_sub_ok o _ ho (fun i t h => mem_erase _ _ _ h) rfl

private theorem upd_same {α : Type} (f : Site → α) (s : Site) (v : α) : upd f s v s = v := by simp [upd]
private theorem upd_cases {α : Type} (f : Site → α) (s s' : Site) (v : α) : upd f s v s' = v ∨ upd f s v s' = f s' := by
  unfold upd; split
  · exact Or.inl rfl
  · exact Or.inr rfl

private theorem handleAt_ok {W : Nat → Option Tree} (hW : WorldOK W) (n : Net) (s : Site) (m : Msg) (rest : List Msg)
    (hn : NetOK W n) (hm : MsgOK W m) (hrest : ∀ x ∈ rest, MsgOK W x) : NetOK W (n.handleAt s m rest) := by
  obtain ⟨h1, h2⟩ := handle_ok hW (n.ovl s) m (hn.1 s) hm
  refine ⟨?_, ?_⟩
  · intro s'
    simp only [Net.handleAt]
    rcases upd_cases n.ovl s s' (handle (n.ovl s) m).1 with e | e
    · rw [e]; exact h1
    · rw [e]; exact hn.1 s'
  · intro s' x hx
    simp only [Net.handleAt] at hx
    have hin : ∀ s'' y, y ∈ upd n.inbox s rest s'' → MsgOK W y := by
      intro s'' y hy
      rcases upd_cases n.inbox s s'' rest with e | e
      · rw [e] at hy; exact hrest y hy
      · rw [e] at hy; exact hn.2 s'' y hy
    rcases upd_cases (upd n.inbox s rest) s.other s'
        (upd n.inbox s rest s.other ++ (handle (n.ovl s) m).2.map Out.toMsg) with e | e
    · rw [e] at hx
      rcases List.mem_append.mp hx with h | h
      · exact hin _ x h
      · obtain ⟨out, hout, rfl⟩ := List.mem_map.mp h
        exact h2 out hout
    · rw [e] at hx; exact hin _ x hx

private theorem mem_eraseIdx {α} (l : List α) (i : Nat) (x : α) (h : x ∈ l.eraseIdx i) : x ∈ l :=
  List.mem_of_mem_eraseIdx h

theorem netStep_ok {W : Nat → Option Tree} (hW : WorldOK W) (n : Net) (e : NetEv) (hn : NetOK W n) (he : EvOK W e) :
    NetOK W (netStep n e) := by
  cases e with
  | loc s l =>
    refine ⟨?_, hn.2⟩
    intro s'
    simp only [netStep]
    rcases upd_cases n.ovl s s' (localStep (n.ovl s) l) with e | e
    · rw [e]
      apply local_ok _ _ (hn.1 s)
      cases l <;> first | exact he | trivial
    · rw [e]; exact hn.1 s'
  | ask s id v =>
    refine ⟨?_, ?_⟩
    · intro s'
      simp only [netStep]
      rcases upd_cases n.ovl s s' (localStep (n.ovl s) (.reqSend id)) with e | e
      · rw [e]; exact local_ok _ _ (hn.1 s) trivial
      · rw [e]; exact hn.1 s'
    · intro s' x hx
      simp only [netStep] at hx
      split at hx
      · rcases upd_cases n.inbox s.other s' (n.inbox s.other ++ [Msg.requestTree id v]) with e | e
        · rw [e] at hx
          rcases List.mem_append.mp hx with h | h
          · exact hn.2 _ x h
          · simp only [List.mem_singleton] at h; subst h; trivial
        · rw [e] at hx; exact hn.2 s' x hx
      · exact hn.2 s' x hx
  | deliver s i =>
    simp only [netStep]
    cases hg : (n.inbox s)[i]? with
    | none => exact hn
    | some m =>
      exact handleAt_ok hW n s m _ hn (hn.2 s m (List.mem_of_getElem? hg))
        (fun x hx => hn.2 s x (mem_eraseIdx _ _ _ hx))
  | redeliver s i =>
    simp only [netStep]
    cases hg : (n.inbox s)[i]? with
    | none => exact hn
    | some m =>
      exact handleAt_ok hW n s m _ hn (hn.2 s m (List.mem_of_getElem? hg)) (fun x hx => hn.2 s x hx)
  | drop s i =>
    refine ⟨hn.1, ?_⟩
    intro s' x hx
    simp only [netStep] at hx
    rcases upd_cases n.inbox s s' ((n.inbox s).eraseIdx i) with e | e
    · rw [e] at hx; exact hn.2 s x (mem_eraseIdx _ _ _ hx)
    · rw [e] at hx; exact hn.2 s' x hx

/-- **two servers, any schedule: a learnt tree is the peer's tree.**  From any state of the world (for
instance: both stores empty, nothing in flight) and for every finite run — local registrations of trees
of the world, requests in the current or the deprecated form, every message handled in any order, any
number of times or never, withdrawals, expiry — every tree found in either server's store under an id
is the world's tree of that id, equal to it in every field. -/
theorem c06_two_servers_learn_only_the_peers_trees (W : Nat → Option Tree) (hW : WorldOK W)
    (n : Net) (hn : NetOK W n) (evs : List NetEv) (hev : ∀ e ∈ evs, EvOK W e) :
    NetOK W (netRun n evs) ∧ ∀ s id t, ((netRun n evs).ovl s).get id = some t → W id = some t := by
  have hrun : NetOK W (netRun n evs) := by
    unfold netRun
    induction evs generalizing n with
    | nil => exact hn
    | cons e rest ih =>
      simp only [List.foldl_cons]
      exact ih _ (netStep_ok hW n e hn (hev e (by simp))) (fun x hx => hev x (List.mem_cons_of_mem _ hx))
  exact ⟨hrun, fun s id t h => (hrun.1 s).1 id t (get_mem _ id t h)⟩

/-- the empty network is a state of every world -/
theorem netOK_empty (W : Nat → Option Tree) : NetOK W { ovl := fun _ => {}, inbox := fun _ => [] } :=
  ⟨fun _ => ⟨by intro id t h; simp at h, by intro rid sl h; simp at h⟩, by intro s m h; simp at h⟩

/-- non-vacuity of the two-server theorem: a world with one tree (id 1, three nodes over two servers);
A registers it; B asks for it in the deprecated form while A's answer to an earlier current-form request
is still under way, handles the duplicate answers in the "wrong" order — and holds exactly A's tree -/
example : ∃ (W : Nat → Option Tree) (t : Tree) (evs : List NetEv), WorldOK W ∧ W 1 = some t ∧
    (∀ e ∈ evs, EvOK W e) ∧
    ((netRun { ovl := fun _ => {}, inbox := fun _ => [] } evs).ovl .B).get 1 = some t ∧
    (netRun { ovl := fun _ => {}, inbox := fun _ => [] } evs).inbox .B = [] := by
  let ro : Roster := { id := 9, list := [⟨3, 4, false⟩, ⟨5, 6, false⟩] }
  let t := newTree 1 ro (.node 3 3 4 0 0 (.node 5 5 6 1 0 .nil (.node 3 3 4 0 0 .nil .nil)) .nil)
  have hd : ro.Distinct := by unfold Roster.Distinct; decide
  have hw : t.WF ro := newTree_wf 1 ro _ (by decide) (by simp [NodesOK, ro])
  refine ⟨fun id => if id = 1 then some t else none, t,
    [.loc .A (.register t), .ask .B 1 0, .deliver .A 0, .loc .B (.unrequest 1), .ask .B 1 1, .deliver .A 0,
     .deliver .B 0, .deliver .A 0, .redeliver .B 1, .deliver .B 0, .deliver .B 0], ?_, by simp, ?_, by decide, by decide⟩
  · refine ⟨?_, ?_⟩
    · intro id x hx
      by_cases h1 : id = 1
      · simp only [h1, if_true, Option.some.injEq] at hx
        subst hx; subst h1
        exact ⟨rfl, by decide, ro, hw, hd, by decide⟩
      · simp [h1] at hx
    · intro i j x x' r r' hx hx' hr hr' _
      by_cases h1 : i = 1
      · by_cases h2 : j = 1
        · simp only [h1, h2, if_true, Option.some.injEq] at hx hx'
          subst hx; subst hx'
          rw [hr] at hr'; exact Option.some.inj hr'
        · simp [h2] at hx'
      · simp [h1] at hx
  · intro e he
    simp only [List.mem_cons, List.mem_nil_iff, or_false] at he
    rcases he with h | h | h | h | h | h | h | h | h | h | h <;> subst h <;> simp [EvOK, t, newTree]

/-! #### liveness at quiescence for two servers: a request that is neither lost nor withdrawn is answered

`Progress t r s n`: the peer of `s` holds tree `t` (roster `r`), and `s` either holds it too or is waiting
for it *and something is under way*: its request, the answer in one of the two forms, or — deprecated form —
the parked description together with the roster request or the roster.  The predicate is kept by every step
that loses or withdraws nothing about `t` (any other traffic, in any order, duplicates included); when the
network is quiet nothing can be under way, so `s` holds the tree. -/

theorem Site.other_ne (s : Site) : s.other ≠ s := by cases s <;> decide
theorem Site.other_other (s : Site) : s.other.other = s := by cases s <;> rfl

def Waiting (t : Tree) (r : Roster) (s : Site) (n : Net) : Prop :=
  (∃ v, Msg.requestTree t.id v ∈ n.inbox s.other) ∨
  Msg.responseTree (some (makeTreeMarshal t)) (some r) ∈ n.inbox s ∨
  Msg.treeMarshal (makeTreeMarshal t) ∈ n.inbox s ∨
  ((∃ sl, lookup (n.ovl s).pending r.id = some sl ∧ makeTreeMarshal t ∈ sl) ∧
    (Msg.requestRoster r.id ∈ n.inbox s.other ∨ Msg.sendRoster r ∈ n.inbox s))

def Progress (t : Tree) (r : Roster) (s : Site) (n : Net) : Prop :=
  (n.ovl s.other).get t.id = some t ∧
  ((n.ovl s).get t.id = some t ∨ ((n.ovl s).isRequested t.id = true ∧ Waiting t r s n))

/-- nothing about tree `id` is lost or withdrawn -/
def EvKeeps (id : Nat) : NetEv → Prop
  | .drop _ _ => False
  | .loc _ (.unrequest i) => i ≠ id
  | .loc _ (.expire i) => i ≠ id
  | _ => True

def Quiet (n : Net) : Prop := ∀ s, n.inbox s = []

private theorem get_lookup (o : Ovl) (id : Nat) (t : Tree) : o.get id = some t ↔ lookup o.store id = some (some t) := by
  unfold Ovl.get
  cases lookup o.store id with
  | none => simp
  | some v => cases v <;> simp

private theorem req_lookup (o : Ovl) (id : Nat) : o.isRequested id = true ↔ lookup o.store id = some none := by
  simp [Ovl.isRequested]

/-- a stored tree survives every local action except its own expiry (a registration under its id
registers the same tree: ids denote trees) -/
private theorem local_keeps_tree {W : Nat → Option Tree} (o : Ovl) (l : Local) (t : Tree)
    (ht : W t.id = some t) (h : o.get t.id = some t)
    (hl : match l with | .register t' => W t'.id = some t' | .instance t' => W t'.id = some t' | _ => True)
    (hk : ∀ i, l = .expire i → i ≠ t.id) : (localStep o l).get t.id = some t := by
  have hlk := (get_lookup o t.id t).mp h
  have same : ∀ t' : Tree, W t'.id = some t' → t'.id = t.id → t' = t := by
    intro t' h1 h2
    rw [h2, ht] at h1; exact (Option.some.inj h1).symm
  have hset : ∀ t' : Tree, W t'.id = some t' → (o.setTree t').get t.id = some t := by
    intro t' h1
    by_cases hid : t.id = t'.id
    · have := same t' h1 hid.symm
      subst this; exact get_setTree_self o t'
    · rw [get_setTree_ne _ _ _ hid]; exact h
  cases l with
  | reqSend i =>
    by_cases hi : i = t.id
    · subst hi; simp [localStep, Ovl.wouldRequest, hlk]; exact h
    · simp only [localStep]; split
      · rw [get_lookup]; simp only; rw [lookup_insert_ne _ _ _ _ (Ne.symm hi)]; exact hlk
      · exact h
  | reqFail i => simp only [localStep]; split <;> exact h
  | request i =>
    by_cases hi : i = t.id
    · subst hi; rw [get_lookup]; simp [localStep, hlk]
    · rw [get_lookup]; simp only [localStep]; split
      · exact hlk
      · rw [lookup_insert_ne _ _ _ _ (Ne.symm hi)]; exact hlk
  | unrequest i =>
    by_cases hi : i = t.id
    · subst hi; simp [localStep, Ovl.isRequested, hlk]; exact h
    · simp only [localStep]; split
      · rw [get_lookup]; simp only; rw [lookup_erase_ne _ _ _ (Ne.symm hi)]; exact hlk
      · exact h
  | register t' =>
    have := hset t' hl
    simpa [localStep, Ovl.get, Ovl.setTree] using this
  | «instance» t' =>
    simp only [localStep]; split
    · have := hset t' hl
      simpa [Ovl.get, Ovl.setTree] using this
    · exact h
  | expire i =>
    have hi := hk i rfl
    rw [get_lookup]; simp only [localStep]; rw [lookup_erase_ne _ _ _ (Ne.symm hi)]; exact hlk

/-- a waiting marker survives every local action except its withdrawal and expiry, or turns into a tree -/
private theorem local_keeps_marker (o : Ovl) (l : Local) (id : Nat) (h : o.isRequested id = true)
    (hk : ∀ i, (l = .expire i ∨ l = .unrequest i) → i ≠ id) :
    (localStep o l).isRequested id = true ∨ ∃ t', (localStep o l).get id = some t' := by
  have hlk := (req_lookup o id).mp h
  have hset : ∀ t' : Tree, (o.setTree t').isRequested id = true ∨ ∃ t'', (o.setTree t').get id = some t'' := by
    intro t'
    by_cases hid : id = t'.id
    · subst hid; exact Or.inr ⟨t', get_setTree_self o t'⟩
    · left; rw [req_lookup, lookup_setTree_ne o t' id hid]; exact hlk
  cases l with
  | reqSend i =>
    left
    by_cases hi : i = id
    · subst hi; simp [localStep, Ovl.wouldRequest, hlk]; exact h
    · simp only [localStep]; split
      · rw [req_lookup]; simp only; rw [lookup_insert_ne _ _ _ _ (Ne.symm hi)]; exact hlk
      · exact h
  | reqFail i => left; simp only [localStep]; split <;> exact h
  | request i =>
    left
    by_cases hi : i = id
    · subst hi; rw [req_lookup]; simp [localStep, hlk]
    · rw [req_lookup]; simp only [localStep]; split
      · exact hlk
      · rw [lookup_insert_ne _ _ _ _ (Ne.symm hi)]; exact hlk
  | unrequest i =>
    left
    have hi := hk i (Or.inr rfl)
    simp only [localStep]; split
    · rw [req_lookup]; simp only; rw [lookup_erase_ne _ _ _ (Ne.symm hi)]; exact hlk
    · exact h
  | register t' =>
    rcases hset t' with h' | ⟨t'', h'⟩
    · left; simpa [localStep, Ovl.isRequested, Ovl.setTree] using h'
    · right; exact ⟨t'', by simpa [localStep, Ovl.get, Ovl.setTree] using h'⟩
  | «instance» t' =>
    simp only [localStep]; split
    · rcases hset t' with h' | ⟨t'', h'⟩
      · left; simpa [Ovl.isRequested, Ovl.setTree] using h'
      · right; exact ⟨t'', by simpa [Ovl.get, Ovl.setTree] using h'⟩
    · exact Or.inl h
  | expire i =>
    left
    have hi := hk i (Or.inl rfl)
    rw [req_lookup]; simp only [localStep]; rw [lookup_erase_ne _ _ _ (Ne.symm hi)]; exact hlk

private theorem local_pending (o : Ovl) (l : Local) : (localStep o l).pending = o.pending := by
  cases l <;> simp only [localStep, Ovl.setTree] <;> (try split) <;> rfl

/-- a waiting marker survives every message, or turns into a tree -/
private theorem handle_keeps_marker (o : Ovl) (m : Msg) (id : Nat) (h : o.isRequested id = true) :
    (handle o m).1.isRequested id = true ∨ ∃ t', (handle o m).1.get id = some t' := by
  rcases c06_peer_step_refines_slot_spec o m id with e | ⟨_, t', _, _, e, _, _⟩
  · left; rw [req_lookup, e]; exact (req_lookup o id).mp h
  · right; exact ⟨t', (get_lookup _ id t').mpr e⟩

private theorem hst_pending (o : Ovl) (tm : Option TreeMarshal) (ro : Option Roster) :
    (handleSendTree o tm ro).pending = o.pending := by
  rcases handleSendTree_cases o tm ro with e | ⟨_, _, t, _, _, _, _, _, e⟩ <;> rw [e]
  rfl

private theorem fold_pending (ro : Roster) : ∀ (sl : List TreeMarshal) (o : Ovl),
    (sl.foldl (pendStep ro) o).pending = o.pending := by
  intro sl
  induction sl with
  | nil => intro o; rfl
  | cons tm rest ih =>
    intro o
    simp only [List.foldl_cons]
    rw [ih]
    rcases pendStep_cases ro o tm with e | ⟨t, _, _, e⟩ <;> rw [e]
    rfl

/-- a parked description stays parked under every message except the roster message for its roster id -/
private theorem handle_keeps_parked (o : Ovl) (m : Msg) (rid : Nat) (sl : List TreeMarshal) (tm : TreeMarshal)
    (hl : lookup o.pending rid = some sl) (hm : tm ∈ sl) (hne : ∀ ro, m = .sendRoster ro → ro.id ≠ rid) :
    ∃ sl', lookup (handle o m).1.pending rid = some sl' ∧ tm ∈ sl' := by
  cases m with
  | requestTree id v =>
    refine ⟨sl, ?_, hm⟩
    rw [((c06_requests_read_only o).1 id v).1]; exact hl
  | responseTree tm' ro => exact ⟨sl, by simp only [handle]; rw [hst_pending]; exact hl, hm⟩
  | treeMarshal tm' =>
    simp only [handle]
    split
    · exact ⟨sl, hl, hm⟩
    · split
      · exact ⟨sl, hl, hm⟩
      · split
        · by_cases hr : tm'.rosterId = rid
          · refine ⟨sl ++ [tm'], ?_, List.mem_append_left _ hm⟩
            simp only [hr, hl, Option.getD_some]
            exact lookup_insert_self _ _ _
          · refine ⟨sl, ?_, hm⟩
            simp only
            rw [lookup_insert_ne _ _ _ _ (Ne.symm hr)]; exact hl
        · exact ⟨sl, by rw [hst_pending]; exact hl, hm⟩
  | requestRoster rid' => exact ⟨sl, hl, hm⟩
  | sendRoster ro =>
    have hne' := hne ro rfl
    simp only [handle]
    split
    · exact ⟨sl, hl, hm⟩
    · rw [checkPending_eq]
      split
      · exact ⟨sl, hl, hm⟩
      · refine ⟨sl, ?_, hm⟩
        simp only
        rw [lookup_erase_ne _ _ _ (Ne.symm hne'), fold_pending]; exact hl

private theorem fold_keeps_some (ro : Roster) (id : Nat) : ∀ (sl : List TreeMarshal) (o : Ovl),
    (o.get id).isSome = true → ((sl.foldl (pendStep ro) o).get id).isSome = true := by
  intro sl
  induction sl with
  | nil => intro o h; exact h
  | cons tm rest ih =>
    intro o h
    simp only [List.foldl_cons]
    apply ih
    rcases pendStep_cases ro o tm with e | ⟨t, _, _, e⟩ <;> rw [e]
    · exact h
    · by_cases hid : id = t.id
      · subst hid; rw [get_setTree_self]; rfl
      · rw [get_setTree_ne _ _ _ hid]; exact h

private theorem fold_stores (ro : Roster) (tm0 : TreeMarshal) (t : Tree) (hmk : makeTree tm0 (some ro) = .ok t) :
    ∀ (sl : List TreeMarshal) (o : Ovl), tm0 ∈ sl → ((sl.foldl (pendStep ro) o).get t.id).isSome = true := by
  have hid : tm0.treeId = t.id := ((makeTree_ok hmk).1).symm
  intro sl
  induction sl with
  | nil => intro o h; simp at h
  | cons tm rest ih =>
    intro o h
    simp only [List.foldl_cons]
    rcases List.mem_cons.mp h with h | h
    · subst h
      apply fold_keeps_some
      unfold pendStep
      rw [hid]
      cases hg : o.get t.id with
      | some t0 => simp [hg]
      | none => simp [hmk, get_setTree_self]
    · exact ih _ h

private theorem getRoster_of_stored {W : Nat → Option Tree} (hW : WorldOK W) (o : Ovl) (ho : OvlOK W o) (t : Tree) (r : Roster)
    (ht : W t.id = some t) (hr : t.roster = some r) (hg : o.get t.id = some t) : o.getRoster r.id = some r := by
  cases hx : o.getRoster r.id with
  | none =>
    exfalso
    unfold Ovl.getRoster at hx
    have := List.findSome?_eq_none_iff.mp hx (t.id, some t) (get_mem o t.id t hg)
    simp [hr] at this
  | some ro =>
    have hx' := hx
    unfold Ovl.getRoster at hx'
    obtain ⟨p, hp, hy⟩ := List.exists_of_findSome?_eq_some hx'
    obtain ⟨id, v⟩ := p
    cases v with
    | none => simp at hy
    | some t' =>
      cases hr' : t'.roster with
      | none => simp [hr'] at hy
      | some r' =>
        simp only [hr'] at hy
        by_cases hid : r'.id = r.id
        · simp only [hid, if_true, Option.some.injEq] at hy
          subst hy
          have hw' := ho.1 id t' hp
          have hid' := (hW.1 id t' hw').1
          have : r' = r := hW.2 t'.id t.id t' t r' r (by rw [hid']; exact hw') ht hr' hr hid
          rw [this]
        · simp [hid] at hy

private theorem mem_rest {α} (l rest : List α) (x m : α)
    (hrest : ∀ y, y ∈ l → y ≠ m → y ∈ rest) (hx : x ∈ l) (hne : x ≠ m) : x ∈ rest := hrest x hx hne

private theorem eraseIdx_rest {α} (l : List α) (i : Nat) (m : α) (hg : l[i]? = some m) :
    ∀ y, y ∈ l → y ≠ m → y ∈ l.eraseIdx i := by
  intro y hy hne
  obtain ⟨j, hj⟩ := List.getElem?_of_mem hy
  apply List.mem_eraseIdx_iff_getElem?.mpr
  refine ⟨j, ?_, hj⟩
  intro e
  subst e
  rw [hg] at hj
  exact hne (Option.some.inj hj).symm

private theorem handleAt_ovl_same (n : Net) (u : Site) (m : Msg) (rest : List Msg) :
    (n.handleAt u m rest).ovl u = (handle (n.ovl u) m).1 := by simp [Net.handleAt, upd]
private theorem handleAt_ovl_other (n : Net) (u : Site) (m : Msg) (rest : List Msg) :
    (n.handleAt u m rest).ovl u.other = n.ovl u.other := by simp [Net.handleAt, upd, Site.other_ne]
private theorem handleAt_inbox_same (n : Net) (u : Site) (m : Msg) (rest : List Msg) :
    (n.handleAt u m rest).inbox u = rest := by
  have : ¬ u = u.other := fun e => Site.other_ne u e.symm
  simp [Net.handleAt, upd, this]
private theorem handleAt_inbox_other (n : Net) (u : Site) (m : Msg) (rest : List Msg) :
    (n.handleAt u m rest).inbox u.other = n.inbox u.other ++ (handle (n.ovl u) m).2.map Out.toMsg := by
  simp [Net.handleAt, upd, Site.other_ne]

private theorem site_cases (s u : Site) : u = s ∨ u = s.other := by cases s <;> cases u <;> simp [Site.other]

private theorem mtm_treeId (t : Tree) (r : Roster) (h : t.roster = some r) : (makeTreeMarshal t).treeId = t.id := by
  simp [makeTreeMarshal, h]

/-- the holder of the tree handles a message -/
private theorem progress_holder {W : Nat → Option Tree} (hW : WorldOK W) (t : Tree) (r : Roster) (ht : W t.id = some t)
    (hr : t.roster = some r) (s : Site) (n : Net) (hn : NetOK W n) (hp : Progress t r s n) (m : Msg) (rest : List Msg)
    (hrest : ∀ y, y ∈ n.inbox s.other → y ≠ m → y ∈ rest) : Progress t r s (n.handleAt s.other m rest) := by
  obtain ⟨hA, hB⟩ := hp
  have e1 := handleAt_ovl_same n s.other m rest
  have e2 : (n.handleAt s.other m rest).ovl s = n.ovl s := by
    have := handleAt_ovl_other n s.other m rest; rwa [Site.other_other] at this
  have e3 := handleAt_inbox_same n s.other m rest
  have e4 : (n.handleAt s.other m rest).inbox s = n.inbox s ++ (handle (n.ovl s.other) m).2.map Out.toMsg := by
    have := handleAt_inbox_other n s.other m rest; rwa [Site.other_other] at this
  refine ⟨by rw [e1]; exact c06_never_replaces _ m _ _ hA, ?_⟩
  rcases hB with hB | ⟨hreq, hw⟩
  · left; rw [e2]; exact hB
  · right
    refine ⟨by rw [e2]; exact hreq, ?_⟩
    unfold Waiting
    rw [e2, e3, e4]
    rcases hw with ⟨v, hv⟩ | h2 | h3 | ⟨hpk, h4 | h5⟩
    · by_cases hx : Msg.requestTree t.id v = m
      · subst hx
        by_cases hv0 : v = 0
        · right; right; left
          apply List.mem_append_right
          simp [handle, hA, hv0, Out.toMsg]
        · right; left
          apply List.mem_append_right
          simp [handle, hA, hv0, Out.toMsg, hr]
      · exact Or.inl ⟨v, hrest _ hv hx⟩
    · exact Or.inr (Or.inl (List.mem_append_left _ h2))
    · exact Or.inr (Or.inr (Or.inl (List.mem_append_left _ h3)))
    · refine Or.inr (Or.inr (Or.inr ⟨hpk, ?_⟩))
      by_cases hx : Msg.requestRoster r.id = m
      · subst hx
        right
        apply List.mem_append_right
        have := getRoster_of_stored hW (n.ovl s.other) (hn.1 s.other) t r ht hr hA
        simp [handle, this, Out.toMsg]
      · exact Or.inl (hrest _ h4 hx)
    · exact Or.inr (Or.inr (Or.inr ⟨hpk, Or.inr (List.mem_append_left _ h5)⟩))

/-- the server that waits for the tree handles a message -/
private theorem progress_requester {W : Nat → Option Tree} (hW : WorldOK W) (t : Tree) (r : Roster) (ht : W t.id = some t)
    (hr : t.roster = some r) (s : Site) (n : Net) (hn : NetOK W n) (hp : Progress t r s n) (m : Msg) (rest : List Msg)
    (hm : m ∈ n.inbox s) (hrest : ∀ y, y ∈ n.inbox s → y ≠ m → y ∈ rest) : Progress t r s (n.handleAt s m rest) := by
  obtain ⟨hA, hB⟩ := hp
  have e1 := handleAt_ovl_same n s m rest
  have e2 := handleAt_ovl_other n s m rest
  have e3 := handleAt_inbox_same n s m rest
  have e4 := handleAt_inbox_other n s m rest
  refine ⟨by rw [e2]; exact hA, ?_⟩
  rcases hB with hB | ⟨hreq, hw⟩
  · left; rw [e1]; exact c06_never_replaces _ m _ _ hB
  · have hok := (handle_ok hW (n.ovl s) m (hn.1 s) (hn.2 s m hm)).1
    have hist : ∀ t', (handle (n.ovl s) m).1.get t.id = some t' → (handle (n.ovl s) m).1.get t.id = some t := by
      intro t' h
      have := hok.1 t.id t' (get_mem _ _ _ h)
      rw [ht] at this
      rw [h, Option.some.inj this]
    obtain ⟨_, hid0, ro, hwf, hd, hrid0⟩ := hW.1 t.id t ht
    have hror : ro = r := by have := hwf.1; rw [hr] at this; exact (Option.some.inj this).symm
    subst hror
    have hmk := world_mk hW t ro ht hr
    have htid := mtm_treeId t ro hr
    have hrid := mtm_rosterId t ro hr
    -- the answer in the current form
    by_cases hmA : m = .responseTree (some (makeTreeMarshal t)) (some ro)
    · left; rw [e1, hmA]
      have := c06_requested_wellformed_stored (n.ovl s) (makeTreeMarshal t) ro t (by rw [htid]; exact hid0)
        (by rw [htid]; exact hreq) hmk
      rwa [htid] at this
    -- the answer in the deprecated form
    by_cases hmB : m = .treeMarshal (makeTreeMarshal t)
    · subst hmB
      have hreq' : (n.ovl s).isRequested (makeTreeMarshal t).treeId = true := by rw [htid]; exact hreq
      cases hi : (n.ovl s).instRoster (makeTreeMarshal t).rosterId with
      | some ro' =>
        left; rw [e1]
        obtain ⟨id0, t0, hg0, hr0, hid0'⟩ := instRoster_mem _ _ ro' hi
        have hw0 := (hn.1 s).1 id0 t0 (get_mem _ id0 t0 hg0)
        have hid00 := (hW.1 id0 t0 hw0).1
        have hrr : ro = ro' := hW.2 t.id t0.id t t0 ro ro' ht (by rw [hid00]; exact hw0) hr hr0 (by rw [hid0', hrid])
        subst hrr
        have hh : (handle (n.ovl s) (.treeMarshal (makeTreeMarshal t))).1 =
            handleSendTree (n.ovl s) (some (makeTreeMarshal t)) (some ro) := by
          simp [handle, htid, hid0, hreq, hi]
        rw [hh]
        have h5 := c06_requested_wellformed_stored (n.ovl s) (makeTreeMarshal t) ro t (by rw [htid]; exact hid0) hreq' hmk
        rw [htid] at h5
        simpa [handle] using h5
      | none =>
        right
        have hi' : (n.ovl s).instRoster ro.id = none := by rw [← hrid]; exact hi
        have hst1 : (handle (n.ovl s) (.treeMarshal (makeTreeMarshal t))).1.store = (n.ovl s).store := by
          simp [handle, htid, hid0, hreq, hi]
        have hp1 : (handle (n.ovl s) (.treeMarshal (makeTreeMarshal t))).1.pending =
            insert (n.ovl s).pending ro.id ((lookup (n.ovl s).pending ro.id).getD [] ++ [makeTreeMarshal t]) := by
          simp [handle, htid, hid0, hreq, hi', hrid]
        have hout : (handle (n.ovl s) (.treeMarshal (makeTreeMarshal t))).2 = [.requestRoster ro.id] := by
          simp [handle, htid, hid0, hreq, hi', hrid]
        refine ⟨by rw [e1, req_lookup, hst1]; exact (req_lookup _ _).mp hreq, ?_⟩
        unfold Waiting
        rw [e1, e3, e4, hp1, hout]
        refine Or.inr (Or.inr (Or.inr ⟨⟨_, lookup_insert_self _ _ _, by simp⟩, Or.inl ?_⟩))
        simp [Out.toMsg]
    -- the roster, while the description is parked
    by_cases hmC : m = .sendRoster ro ∧ ∃ sl, lookup (n.ovl s).pending ro.id = some sl ∧ makeTreeMarshal t ∈ sl
    · obtain ⟨hmC1, sl, hl, hmem⟩ := hmC
      left; rw [e1]
      have hsome : ((handle (n.ovl s) m).1.get t.id).isSome = true := by
        rw [hmC1]
        simp only [handle, hrid0, if_false]
        rw [checkPending_eq, hl]
        have := fold_stores ro (makeTreeMarshal t) t hmk sl (n.ovl s) hmem
        simpa [Ovl.get] using this
      cases hg : (handle (n.ovl s) m).1.get t.id with
      | none => rw [hg] at hsome; simp at hsome
      | some t' => rw [← hg]; exact hist t' hg
    -- anything else
    rcases handle_keeps_marker (n.ovl s) m t.id hreq with hk | ⟨t', hst⟩
    · right
      refine ⟨by rw [e1]; exact hk, ?_⟩
      unfold Waiting
      rw [e1, e3, e4]
      rcases hw with ⟨v, hv⟩ | h2 | h3 | ⟨⟨sl, hl, hmem⟩, h45⟩
      · exact Or.inl ⟨v, List.mem_append_left _ hv⟩
      · exact Or.inr (Or.inl (hrest _ h2 (fun e => hmA e.symm)))
      · exact Or.inr (Or.inr (Or.inl (hrest _ h3 (fun e => hmB e.symm))))
      · have hnr : ∀ ro', m = .sendRoster ro' → ro'.id ≠ ro.id := by
          intro ro' he hid'
          apply hmC
          have hmsg := hn.2 s m hm
          rw [he] at hmsg
          rcases hmsg with h0 | ⟨t0, hw0, hr0⟩
          · rw [hid'] at h0; exact absurd h0 hrid0
          · have : ro' = ro := hW.2 t0.id t.id t0 t ro' ro hw0 ht hr0 hr hid'
            rw [he, this]
            exact ⟨rfl, sl, hl, hmem⟩
        obtain ⟨sl', hl', hmem'⟩ := handle_keeps_parked (n.ovl s) m ro.id sl _ hl hmem hnr
        refine Or.inr (Or.inr (Or.inr ⟨⟨sl', hl', hmem'⟩, ?_⟩))
        rcases h45 with h4 | h5
        · exact Or.inl (List.mem_append_left _ h4)
        · refine Or.inr (hrest _ h5 ?_)
          intro e
          exact hnr ro e.symm rfl
    · left; rw [e1]; exact hist t' hst

private theorem upd_at {α : Type} (f : Site → α) (u x : Site) (v : α) : upd f u v x = if x = u then v else f x := rfl

/-- one step that loses and withdraws nothing about `t` keeps `Progress` -/
theorem progress_step {W : Nat → Option Tree} (hW : WorldOK W) (t : Tree) (r : Roster) (ht : W t.id = some t)
    (hr : t.roster = some r) (s : Site) (n : Net) (hn : NetOK W n) (hp : Progress t r s n) (e : NetEv)
    (he : EvOK W e) (hk : EvKeeps t.id e) : Progress t r s (netStep n e) := by
  -- a local action `l` at site `u`, possibly with more messages put in flight
  have hloc : ∀ (u : Site) (l : Local) (inbox' : Site → List Msg),
      (match l with | .register t' => W t'.id = some t' | .instance t' => W t'.id = some t' | _ => True) →
      (∀ i, (l = .expire i ∨ l = .unrequest i) → i ≠ t.id) → (∀ x y, y ∈ n.inbox x → y ∈ inbox' x) →
      Progress t r s { ovl := upd n.ovl u (localStep (n.ovl u) l), inbox := inbox' } := by
    intro u l inbox' hl hkeep hsub
    obtain ⟨hA, hB⟩ := hp
    refine ⟨?_, ?_⟩
    · simp only [upd_at]
      split
      · next h => rw [← h]; exact local_keeps_tree _ l t ht hA hl (fun i h => hkeep i (Or.inl h))
      · exact hA
    · by_cases hu : s = u
      · subst hu
        simp only [upd_at, if_true]
        rcases hB with hB | ⟨hreq, hw⟩
        · exact Or.inl (local_keeps_tree _ l t ht hB hl (fun i h => hkeep i (Or.inl h)))
        · rcases local_keeps_marker (n.ovl s) l t.id hreq hkeep with h | ⟨t', h⟩
          · right
            refine ⟨h, ?_⟩
            unfold Waiting
            simp only [upd_at, if_true, local_pending]
            rcases hw with ⟨v, hv⟩ | h2 | h3 | ⟨hpk, h4 | h5⟩
            · exact Or.inl ⟨v, hsub _ _ hv⟩
            · exact Or.inr (Or.inl (hsub _ _ h2))
            · exact Or.inr (Or.inr (Or.inl (hsub _ _ h3)))
            · exact Or.inr (Or.inr (Or.inr ⟨hpk, Or.inl (hsub _ _ h4)⟩))
            · exact Or.inr (Or.inr (Or.inr ⟨hpk, Or.inr (hsub _ _ h5)⟩))
          · left
            have hok := local_ok (n.ovl s) l (hn.1 s) hl
            have := hok.1 t.id t' (get_mem _ _ _ h)
            rw [ht] at this
            rw [h, Option.some.inj this]
      · have hne : ¬ s = u := hu
        rcases hB with hB | ⟨hreq, hw⟩
        · left; simp only [upd_at, hne, if_false]; exact hB
        · right
          refine ⟨by simp only [upd_at, hne, if_false]; exact hreq, ?_⟩
          unfold Waiting
          simp only [upd_at, hne, if_false]
          rcases hw with ⟨v, hv⟩ | h2 | h3 | ⟨hpk, h4 | h5⟩
          · exact Or.inl ⟨v, hsub _ _ hv⟩
          · exact Or.inr (Or.inl (hsub _ _ h2))
          · exact Or.inr (Or.inr (Or.inl (hsub _ _ h3)))
          · exact Or.inr (Or.inr (Or.inr ⟨hpk, Or.inl (hsub _ _ h4)⟩))
          · exact Or.inr (Or.inr (Or.inr ⟨hpk, Or.inr (hsub _ _ h5)⟩))
  -- a message handled at site `u`
  have hdel : ∀ (u : Site) (m : Msg) (rest : List Msg), m ∈ n.inbox u → (∀ y, y ∈ n.inbox u → y ≠ m → y ∈ rest) →
      Progress t r s (n.handleAt u m rest) := by
    intro u m rest hm hrest
    rcases site_cases s u with h | h
    · subst h; exact progress_requester hW t r ht hr u n hn hp m rest hm hrest
    · subst h; exact progress_holder hW t r ht hr s n hn hp m rest hrest
  cases e with
  | loc u l =>
    refine hloc u l n.inbox ?_ ?_ (fun _ _ h => h)
    · cases l <;> first | exact he | trivial
    · intro i h
      rcases h with h | h <;> subst h <;> exact hk
  | ask u i v =>
    simp only [netStep]
    refine hloc u (.reqSend i) _ trivial ?_ ?_
    · intro j h; rcases h with h | h <;> cases h
    · intro x y hy
      split
      · simp only [upd_at]
        split
        · next h => rw [h] at hy; exact List.mem_append_left _ hy
        · exact hy
      · exact hy
  | deliver u i =>
    simp only [netStep]
    cases hg : (n.inbox u)[i]? with
    | none => exact hp
    | some m => exact hdel u m _ (List.mem_of_getElem? hg) (eraseIdx_rest _ i m hg)
  | redeliver u i =>
    simp only [netStep]
    cases hg : (n.inbox u)[i]? with
    | none => exact hp
    | some m => exact hdel u m _ (List.mem_of_getElem? hg) (fun y hy _ => hy)
  | drop u i => exact absurd hk (by simp [EvKeeps])

/-- **liveness at quiescence, two servers**: server `s` asked for tree `t` (or already waits for it with
something under way), its peer holds `t`.  After any run in which nothing about `t` is lost or withdrawn —
whatever else happens, in any order, with duplicates, in the current or the deprecated form — `Progress`
still holds; and when the network is quiet (no message in flight), `s` holds exactly `t`: no request is
stuck, no description stays parked for ever. -/
theorem c06_two_servers_quiescent_request_answered (W : Nat → Option Tree) (hW : WorldOK W) (t : Tree) (r : Roster)
    (ht : W t.id = some t) (hr : t.roster = some r) (s : Site) (n : Net) (hn : NetOK W n) (hp : Progress t r s n)
    (evs : List NetEv) (hev : ∀ e ∈ evs, EvOK W e ∧ EvKeeps t.id e) :
    Progress t r s (netRun n evs) ∧ (Quiet (netRun n evs) → ((netRun n evs).ovl s).get t.id = some t) := by
  have hrun : NetOK W (netRun n evs) ∧ Progress t r s (netRun n evs) := by
    unfold netRun
    induction evs generalizing n with
    | nil => exact ⟨hn, hp⟩
    | cons e rest ih =>
      simp only [List.foldl_cons]
      have h1 := hev e (by simp)
      exact ih _ (netStep_ok hW n e hn h1.1) (progress_step hW t r ht hr s n hn hp e h1.1 h1.2)
        (fun x hx => hev x (List.mem_cons_of_mem _ hx))
  refine ⟨hrun.2, ?_⟩
  intro hq
  rcases hrun.2.2 with h | ⟨_, hw⟩
  · exact h
  · exfalso
    unfold Waiting at hw
    simp only [hq s, hq s.other, List.not_mem_nil, exists_false, false_or, or_false, and_false] at hw

/-- how a request starts: `s` does not know the tree, its peer holds it; `ask` puts `s` into `Progress` -/
theorem c06_ask_starts_progress (t : Tree) (r : Roster) (s : Site) (n : Net) (v : Nat)
    (hA : (n.ovl s.other).get t.id = some t) (hB : lookup (n.ovl s).store t.id = none) :
    Progress t r s (netStep n (.ask s t.id v)) := by
  have hne : ¬ s.other = s := Site.other_ne s
  have hw : (n.ovl s).wouldRequest t.id = true := by simp [Ovl.wouldRequest, hB]
  refine ⟨?_, Or.inr ⟨?_, Or.inl ⟨v, ?_⟩⟩⟩
  · simp only [netStep, upd_at, hne, if_false]; exact hA
  · simp only [netStep, upd_at, if_true, localStep, hw]
    rw [req_lookup]; exact lookup_insert_self _ _ _
  · simp only [netStep, hw, if_true, upd_at]
    simp

/-- non-vacuity of the quiescence theorem: A registered tree 1, B asks for it in the deprecated form; the
hypotheses hold, four deliveries later the network is quiet (and the theorem says B holds the tree) -/
example : ∃ (W : Nat → Option Tree) (t : Tree) (r : Roster) (n : Net) (evs : List NetEv), WorldOK W ∧ W t.id = some t ∧
    t.roster = some r ∧ NetOK W n ∧ Progress t r .B n ∧ (∀ e ∈ evs, EvOK W e ∧ EvKeeps t.id e) ∧ Quiet (netRun n evs) ∧
    ((netRun n evs).ovl .B).get t.id = some t := by
  let ro : Roster := { id := 9, list := [⟨3, 4, false⟩, ⟨5, 6, false⟩] }
  let t := newTree 1 ro (.node 3 3 4 0 0 (.node 5 5 6 1 0 .nil (.node 3 3 4 0 0 .nil .nil)) .nil)
  let W : Nat → Option Tree := fun id => if id = 1 then some t else none
  have hd : ro.Distinct := by unfold Roster.Distinct; decide
  have hw : t.WF ro := newTree_wf 1 ro _ (by decide) (by simp [NodesOK, ro])
  have hW : WorldOK W := by
    refine ⟨?_, ?_⟩
    · intro id x hx
      by_cases h1 : id = 1
      · simp only [W, h1, if_true, Option.some.injEq] at hx
        subst hx; subst h1
        exact ⟨rfl, by decide, ro, hw, hd, by decide⟩
      · simp [W, h1] at hx
    · intro i j x x' r r' hx hx' hr hr' _
      by_cases h1 : i = 1
      · by_cases h2 : j = 1
        · simp only [W, h1, h2, if_true, Option.some.injEq] at hx hx'
          subst hx; subst hx'
          rw [hr] at hr'; exact Option.some.inj hr'
        · simp [W, h2] at hx'
      · simp [W, h1] at hx
  have ht : W t.id = some t := by simp [W, t, newTree]
  let n0 : Net := netStep { ovl := fun _ => {}, inbox := fun _ => [] } (.loc .A (.register t))
  have hn0 : NetOK W n0 := netStep_ok hW _ _ (netOK_empty W) ht
  let n1 : Net := netStep n0 (.ask .B t.id 0)
  have hn1 : NetOK W n1 := netStep_ok hW _ _ hn0 trivial
  have hp : Progress t ro .B n1 := c06_ask_starts_progress t ro .B n0 0 (by decide) (by decide)
  let evs : List NetEv := [.deliver .A 0, .deliver .B 0, .deliver .A 0, .deliver .B 0]
  have hev : ∀ e ∈ evs, EvOK W e ∧ EvKeeps t.id e := by
    intro e he
    simp only [evs, List.mem_cons, List.mem_nil_iff, or_false] at he
    rcases he with h | h | h | h <;> subst h <;> exact ⟨trivial, trivial⟩
  have hq : Quiet (netRun n1 evs) := by intro s; cases s <;> decide
  exact ⟨W, t, ro, n1, evs, hW, ht, hw.1, hn1, hp, hev, hq,
    (c06_two_servers_quiescent_request_answered W hW t ro ht hw.1 .B n1 hn1 hp evs hev).2 hq⟩

/-! #### a description parked under the nil roster id is never dropped

`handleSendTreeMarshal` parks a description of a requested tree under whatever roster id it names — also the nil
id.  `handleSendRoster` refuses rosters with the nil id, so no message can release that entry; the local actions do
not touch the table.  (For the other ids a roster message with that id clears the entry: `c06_roster_clears_parked`.)
The table is not the tree store — nothing of it is ever handed to a protocol — so the statement of C06 is not
violated; the entry is memory that is never given back, one slice element per such message received while the
tree is requested. -/

/-- every parked description can be released by some message of a peer -/
def C06_parked_releasable : Prop :=
  ∀ (o : Ovl) (rid : Nat) (sl : List TreeMarshal), lookup o.pending rid = some sl → ∃ m, lookup (handle o m).1.pending rid = none

/-- **parked under the nil roster id = parked for ever**: whatever messages arrive and whatever the server does -/
theorem c06_nil_roster_description_parked_for_ever (evs : List Ev) (o : Ovl) (sl : List TreeMarshal) (tm : TreeMarshal)
    (hl : lookup o.pending 0 = some sl) (hm : tm ∈ sl) :
    ∃ sl', lookup (runEv o evs).pending 0 = some sl' ∧ tm ∈ sl' := by
  unfold runEv
  induction evs generalizing o sl with
  | nil => exact ⟨sl, hl, hm⟩
  | cons e rest ih =>
    simp only [List.foldl_cons]
    cases e with
    | loc l =>
      simp only [stepEv]
      exact ih (localStep o l) sl (by rw [local_pending]; exact hl) hm
    | peer m =>
      simp only [stepEv]
      by_cases hn : ∃ ro, m = .sendRoster ro ∧ ro.id = 0
      · obtain ⟨ro, rfl, h0⟩ := hn
        have : (handle o (.sendRoster ro)).1 = o := by simp [handle, h0]
        rw [this]; exact ih o sl hl hm
      · obtain ⟨sl', h1, h2⟩ := handle_keeps_parked o m 0 sl tm hl hm
          (fun ro e h0 => hn ⟨ro, e, h0⟩)
        exact ih _ sl' h1 h2

/-- it is reachable (a peer sends it while the tree is requested), so `C06_parked_releasable` is false -/
theorem c06_parked_releasable_fails : ¬ C06_parked_releasable := by
  intro h
  let tm : TreeMarshal := { treeId := 1, rosterId := 0, children := .nil }
  let o := runEv {} [.loc (.request 1), .peer (.treeMarshal tm)]
  have hl : lookup o.pending 0 = some [tm] := by decide
  obtain ⟨m, hm⟩ := h o 0 [tm] hl
  obtain ⟨sl', h1, _⟩ := c06_nil_roster_description_parked_for_ever [.peer m] o [tm] tm hl (by simp)
  simp only [runEv, List.foldl_cons, List.foldl_nil, stepEv] at h1
  rw [hm] at h1; exact absurd h1 (by simp)

/-- **a deprecated description nobody is waiting for is refused at the entrance**: when its tree id is not
requested-and-empty (never asked for, or the tree is present) the message changes nothing — nothing is
stored, nothing is parked for a later roster message, no roster is asked for.  (Parked, it would be
stored by `checkPendingTreeMarshal` as soon as the present tree has expired.) -/
theorem c06_unsolicited_description_not_parked (o : Ovl) (tm : TreeMarshal) (h : o.isRequested tm.treeId = false) :
    handle o (.treeMarshal tm) = (o, []) := by
  simp only [handle]
  by_cases h0 : tm.treeId = 0
  · simp [h0]
  · simp [h0, h]

/-- **with loss there is no recovery by retransmission**: `requestTree` sends a request only when the id has no
slot ("request already sent" otherwise, overlay.go:371-374).  After the request (or its answer) was lost, asking
again puts nothing in flight: the network is quiet, the peer holds the tree, and the requester waits until
it withdraws the request itself (`Unregister` on a failed send, C01/C11).  This is why the quiescence theorem
excludes loss (`EvKeeps`); the code relies on the transport for delivery. -/
example : ∃ (t : Tree) (n : Net), (n.ovl .A).get t.id = some t ∧ (n.ovl .B).isRequested t.id = true ∧ Quiet n ∧
    Quiet (netStep n (.ask .B t.id 1)) ∧ ((netStep n (.ask .B t.id 1)).ovl .B).get t.id = none := by
  let ro : Roster := { id := 9, list := [⟨3, 4, false⟩, ⟨5, 6, false⟩] }
  let t := newTree 1 ro (.node 3 3 4 0 0 (.node 5 5 6 1 0 .nil .nil) .nil)
  let n := netRun { ovl := fun _ => {}, inbox := fun _ => [] } [.loc .A (.register t), .ask .B 1 1, .drop .A 0]
  refine ⟨t, n, by decide, by decide, ?_, ?_, by decide⟩
  · intro s; cases s <;> decide
  · intro s; cases s <;> decide


/-! ### any number of servers, any schedule -/

/-- a state of the world with any number of servers: every server's state is a state of the world, every message
in flight — whoever sent it — was produced by a server of the world -/
def NNetOK (W : Nat → Option Tree) (n : NNet) : Prop :=
  (∀ s, OvlOK W (n.ovl s)) ∧ (∀ s, ∀ m ∈ n.inbox s, MsgOK W m.2)

/-- servers register trees of the world -/
def NEvOK (W : Nat → Option Tree) : NNetEv → Prop
  | .loc _ (.register t) => W t.id = some t
  | .loc _ (.instance t) => W t.id = some t
  | _ => True

private theorem updN_cases {α : Type} (f : Nat → α) (s s' : Nat) (v : α) : updN f s v s' = v ∨ updN f s v s' = f s' := by
  unfold updN; split
  · exact Or.inl rfl
  · exact Or.inr rfl

private theorem nhandleAt_ok {W : Nat → Option Tree} (hW : WorldOK W) (n : NNet) (s p : Nat) (m : Msg)
    (rest : List (Nat × Msg)) (hn : NNetOK W n) (hm : MsgOK W m) (hrest : ∀ x ∈ rest, MsgOK W x.2) :
    NNetOK W (n.handleAt s p m rest) := by
  obtain ⟨h1, h2⟩ := handle_ok hW (n.ovl s) m (hn.1 s) hm
  refine ⟨?_, ?_⟩
  · intro s'
    simp only [NNet.handleAt]
    rcases updN_cases n.ovl s s' (handle (n.ovl s) m).1 with e | e
    · rw [e]; exact h1
    · rw [e]; exact hn.1 s'
  · intro s' x hx
    simp only [NNet.handleAt] at hx
    have hin : ∀ s'' y, y ∈ updN n.inbox s rest s'' → MsgOK W y.2 := by
      intro s'' y hy
      rcases updN_cases n.inbox s s'' rest with e | e
      · rw [e] at hy; exact hrest y hy
      · rw [e] at hy; exact hn.2 s'' y hy
    rcases updN_cases (updN n.inbox s rest) p s'
        (updN n.inbox s rest p ++ (handle (n.ovl s) m).2.map fun o => (s, o.toMsg)) with e | e
    · rw [e] at hx
      rcases List.mem_append.mp hx with h | h
      · exact hin _ x h
      · obtain ⟨out, hout, rfl⟩ := List.mem_map.mp h
        exact h2 out hout
    · rw [e] at hx; exact hin _ x hx

theorem nnetStep_ok {W : Nat → Option Tree} (hW : WorldOK W) (n : NNet) (e : NNetEv) (hn : NNetOK W n) (he : NEvOK W e) :
    NNetOK W (nnetStep n e) := by
  cases e with
  | loc s l =>
    refine ⟨?_, hn.2⟩
    intro s'
    simp only [nnetStep]
    rcases updN_cases n.ovl s s' (localStep (n.ovl s) l) with e | e
    · rw [e]
      apply local_ok _ _ (hn.1 s)
      cases l <;> first | exact he | trivial
    · rw [e]; exact hn.1 s'
  | ask s p id v =>
    refine ⟨?_, ?_⟩
    · intro s'
      simp only [nnetStep]
      rcases updN_cases n.ovl s s' (localStep (n.ovl s) (.reqSend id)) with e | e
      · rw [e]; exact local_ok _ _ (hn.1 s) trivial
      · rw [e]; exact hn.1 s'
    · intro s' x hx
      simp only [nnetStep] at hx
      split at hx
      · rcases updN_cases n.inbox p s' (n.inbox p ++ [(s, Msg.requestTree id v)]) with e | e
        · rw [e] at hx
          rcases List.mem_append.mp hx with h | h
          · exact hn.2 _ x h
          · simp only [List.mem_singleton] at h; subst h; trivial
        · rw [e] at hx; exact hn.2 s' x hx
      · exact hn.2 s' x hx
  | deliver s i =>
    simp only [nnetStep]
    cases hg : (n.inbox s)[i]? with
    | none => exact hn
    | some m =>
      exact nhandleAt_ok hW n s m.1 m.2 _ hn (hn.2 s m (List.mem_of_getElem? hg))
        (fun x hx => hn.2 s x (List.mem_of_mem_eraseIdx hx))
  | redeliver s i =>
    simp only [nnetStep]
    cases hg : (n.inbox s)[i]? with
    | none => exact hn
    | some m =>
      exact nhandleAt_ok hW n s m.1 m.2 _ hn (hn.2 s m (List.mem_of_getElem? hg)) (fun x hx => hn.2 s x hx)
  | drop s i =>
    refine ⟨hn.1, ?_⟩
    intro s' x hx
    simp only [nnetStep] at hx
    rcases updN_cases n.inbox s s' ((n.inbox s).eraseIdx i) with e | e
    · rw [e] at hx; exact hn.2 s x (List.mem_of_mem_eraseIdx hx)
    · rw [e] at hx; exact hn.2 s' x hx

/-- **any number of servers, any schedule: a learnt tree is the world's tree.**  For every world, every state of
it with any number of servers and every finite run — registrations of trees of the world at any server, requests
in the current or the deprecated form put to any server, every message handled in any order, any number of times or
never, its replies travelling back to whoever sent it, withdrawals, expiry — every tree found in any server's store
under an id is the world's tree of that id, equal to it in every field; and every message still in flight is one a
server of the world produces. -/
theorem c06_n_servers_learn_only_the_worlds_trees (W : Nat → Option Tree) (hW : WorldOK W)
    (n : NNet) (hn : NNetOK W n) (evs : List NNetEv) (hev : ∀ e ∈ evs, NEvOK W e) :
    NNetOK W (nnetRun n evs) ∧ ∀ s id t, ((nnetRun n evs).ovl s).get id = some t → W id = some t := by
  have hrun : NNetOK W (nnetRun n evs) := by
    unfold nnetRun
    induction evs generalizing n with
    | nil => exact hn
    | cons e rest ih =>
      simp only [List.foldl_cons]
      exact ih _ (nnetStep_ok hW n e hn (hev e (by simp))) (fun x hx => hev x (List.mem_cons_of_mem _ hx))
  refine ⟨hrun, fun s id t h => (hrun.1 s).1 id t ?_⟩
  unfold Ovl.get at h
  cases hl : lookup ((nnetRun n evs).ovl s).store id with
  | none => simp [hl] at h
  | some v =>
    simp only [hl, Option.join_some] at h
    subst h
    clear hrun
    generalize ((nnetRun n evs).ovl s).store = l at hl
    induction l with
    | nil => simp [lookup] at hl
    | cons p rest ih =>
      obtain ⟨k, v'⟩ := p
      simp only [lookup] at hl
      split at hl
      · next e => subst e; simp at hl; subst hl; exact List.mem_cons_self ..
      · exact List.mem_cons_of_mem _ (ih hl)

/-- the empty network of any size is a state of every world -/
theorem nnetOK_empty (W : Nat → Option Tree) : NNetOK W { ovl := fun _ => {}, inbox := fun _ => [] } :=
  ⟨fun _ => ⟨by intro id t h; simp at h, by intro rid sl h; simp at h⟩, by intro s m h; simp at h⟩

/-- non-vacuity with three servers: 0 registers the tree; 1 asks 0 (current form); 2 asks 1 in the deprecated form
while 1 does not hold the tree yet (no answer); 0's answer reaches 1; 2's request is handled by 1 once more (a
duplicate) and now answered with the bare description; 2 parks it, asks 1 for the roster, gets it — all three
hold exactly the world's tree -/
example : ∃ (W : Nat → Option Tree) (t : Tree) (evs : List NNetEv), WorldOK W ∧ W 1 = some t ∧
    (∀ e ∈ evs, NEvOK W e) ∧
    ((nnetRun { ovl := fun _ => {}, inbox := fun _ => [] } evs).ovl 1).get 1 = some t ∧
    ((nnetRun { ovl := fun _ => {}, inbox := fun _ => [] } evs).ovl 2).get 1 = some t ∧
    (∀ s, s < 3 → (nnetRun { ovl := fun _ => {}, inbox := fun _ => [] } evs).inbox s = []) := by
  let ro : Roster := { id := 9, list := [⟨3, 4, false⟩, ⟨5, 6, false⟩] }
  let t := newTree 1 ro (.node 3 3 4 0 0 (.node 5 5 6 1 0 .nil .nil) .nil)
  let W : Nat → Option Tree := fun i => if i = 1 then some t else none
  refine ⟨W, t, [.loc 0 (.register t), .ask 1 0 1 1, .ask 2 1 1 0, .deliver 0 0, .deliver 1 1, .redeliver 1 0,
      .drop 1 0, .deliver 2 0, .deliver 1 0, .deliver 2 0], ?_, by simp [W], ?_, by decide, by decide, ?_⟩
  · refine ⟨?_, ?_⟩
    · intro id t' h
      by_cases e : id = 1
      · subst e
        have : t' = t := by simpa [W] using h.symm
        subst this
        exact ⟨rfl, by decide, ro, newTree_wf 1 ro _ (by decide) (by simp [NodesOK, ro]), by unfold Roster.Distinct; decide, by decide⟩
      · simp [W, e] at h
    · intro i j t1 t2 r1 r2 h1 h2 h3 h4 _
      have e1 : t1 = t := by
        by_cases e : i = 1
        · subst e; simpa [W] using h1.symm
        · simp [W, e] at h1
      have e2 : t2 = t := by
        by_cases e : j = 1
        · subst e; simpa [W] using h2.symm
        · simp [W, e] at h2
      subst e1; subst e2
      rw [h3] at h4; exact Option.some.inj h4
  · intro e he
    simp only [List.mem_cons, List.mem_nil_iff, or_false] at he
    rcases he with rfl | rfl | rfl | rfl | rfl | rfl | rfl | rfl | rfl | rfl <;> first | trivial | (simp [NEvOK, W])
  · intro s hs
    have : s = 0 ∨ s = 1 ∨ s = 2 := by omega
    rcases this with rfl | rfl | rfl <;> decide

/-! #### liveness at quiescence for any number of servers

`NProgress t r s p n`: server `p` holds tree `t` (roster `r`) and server `s ≠ p` either holds it too or is waiting
for it with something under way between the two: its request to `p`, `p`'s answer in one of the two forms, or the
parked description together with the roster request to `p` or a roster message (from anybody).  Every step of the
network that loses or withdraws nothing about `t` keeps it — whatever the other servers do, whatever they send to `s`
or `p` (their messages are messages of the world), in any order, with duplicates. -/

def NWaiting (t : Tree) (r : Roster) (s p : Nat) (n : NNet) : Prop :=
  (∃ v, (s, Msg.requestTree t.id v) ∈ n.inbox p) ∨
  (p, Msg.responseTree (some (makeTreeMarshal t)) (some r)) ∈ n.inbox s ∨
  (p, Msg.treeMarshal (makeTreeMarshal t)) ∈ n.inbox s ∨
  ((∃ sl, lookup (n.ovl s).pending r.id = some sl ∧ makeTreeMarshal t ∈ sl) ∧
    ((s, Msg.requestRoster r.id) ∈ n.inbox p ∨ ∃ u, (u, Msg.sendRoster r) ∈ n.inbox s))

def NProgress (t : Tree) (r : Roster) (s p : Nat) (n : NNet) : Prop :=
  (n.ovl p).get t.id = some t ∧
  ((n.ovl s).get t.id = some t ∨ ((n.ovl s).isRequested t.id = true ∧ NWaiting t r s p n))

/-- nothing about tree `id` is lost or withdrawn -/
def NEvKeeps (id : Nat) : NNetEv → Prop
  | .drop _ _ => False
  | .loc _ (.unrequest i) => i ≠ id
  | .loc _ (.expire i) => i ≠ id
  | _ => True

def NQuiet (n : NNet) : Prop := ∀ s, n.inbox s = []

private theorem updN_at {α : Type} (f : Nat → α) (u x : Nat) (v : α) : updN f u v x = if x = u then v else f x := rfl

private theorem nhandleAt_ovl (n : NNet) (u f : Nat) (m : Msg) (rest : List (Nat × Msg)) (x : Nat) :
    (n.handleAt u f m rest).ovl x = if x = u then (handle (n.ovl u) m).1 else n.ovl x := rfl

/-- what was in flight and is not the handled message stays in flight -/
private theorem nhandleAt_keeps (n : NNet) (u f : Nat) (m : Msg) (rest : List (Nat × Msg)) (x : Nat) (y : Nat × Msg)
    (hy : y ∈ (if x = u then rest else n.inbox x)) : y ∈ (n.handleAt u f m rest).inbox x := by
  simp only [NNet.handleAt, updN_at]
  by_cases hf : x = f
  · simp only [hf, if_true]
    apply List.mem_append_left
    rw [hf] at hy; exact hy
  · simp only [hf, if_false]; exact hy

/-- the replies are on their way to the sender -/
private theorem nhandleAt_reply (n : NNet) (u f : Nat) (m : Msg) (rest : List (Nat × Msg)) (out : Out)
    (ho : out ∈ (handle (n.ovl u) m).2) : (u, out.toMsg) ∈ (n.handleAt u f m rest).inbox f := by
  simp only [NNet.handleAt, updN_at, if_true]
  apply List.mem_append_right
  exact List.mem_map.mpr ⟨out, ho, rfl⟩

/-- the holder `p` handles a message (from anybody) -/
private theorem nprogress_holder {W : Nat → Option Tree} (hW : WorldOK W) (t : Tree) (r : Roster) (ht : W t.id = some t)
    (hr : t.roster = some r) (s p : Nat) (hsp : s ≠ p) (n : NNet) (hn : NNetOK W n) (hp : NProgress t r s p n)
    (f : Nat) (m : Msg) (rest : List (Nat × Msg))
    (hrest : ∀ y, y ∈ n.inbox p → y ≠ (f, m) → y ∈ rest) : NProgress t r s p (n.handleAt p f m rest) := by
  obtain ⟨hA, hB⟩ := hp
  have e2 : (n.handleAt p f m rest).ovl s = n.ovl s := by simp [nhandleAt_ovl, hsp]
  have keepS : ∀ y, y ∈ n.inbox s → y ∈ (n.handleAt p f m rest).inbox s :=
    fun y hy => nhandleAt_keeps n p f m rest s y (by simp only [hsp, if_false]; exact hy)
  have keepP : ∀ y, y ∈ n.inbox p → y ≠ (f, m) → y ∈ (n.handleAt p f m rest).inbox p :=
    fun y hy hne => nhandleAt_keeps n p f m rest p y (by simp only [if_true]; exact hrest y hy hne)
  refine ⟨by rw [nhandleAt_ovl]; simp only [if_true]; exact c06_never_replaces _ m _ _ hA, ?_⟩
  rcases hB with hB | ⟨hreq, hw⟩
  · left; rw [e2]; exact hB
  · right
    refine ⟨by rw [e2]; exact hreq, ?_⟩
    unfold NWaiting
    rw [e2]
    rcases hw with ⟨v, hv⟩ | h2 | h3 | ⟨hpk, h4 | h5⟩
    · by_cases hx : (s, Msg.requestTree t.id v) = (f, m)
      · obtain ⟨hf, hm⟩ := Prod.mk.inj hx
        subst hf; subst hm
        by_cases hv0 : v = 0
        · right; right; left
          have := nhandleAt_reply n p s (Msg.requestTree t.id v) rest (.treeMarshal (makeTreeMarshal t))
            (by simp [handle, hA, hv0])
          simpa [Out.toMsg] using this
        · right; left
          have := nhandleAt_reply n p s (Msg.requestTree t.id v) rest (.responseTree (makeTreeMarshal t) t.roster)
            (by simp [handle, hA, hv0])
          simpa [Out.toMsg, hr] using this
      · exact Or.inl ⟨v, keepP _ hv hx⟩
    · exact Or.inr (Or.inl (keepS _ h2))
    · exact Or.inr (Or.inr (Or.inl (keepS _ h3)))
    · refine Or.inr (Or.inr (Or.inr ⟨hpk, ?_⟩))
      by_cases hx : (s, Msg.requestRoster r.id) = (f, m)
      · obtain ⟨hf, hm⟩ := Prod.mk.inj hx
        subst hf; subst hm
        right
        have hgr := getRoster_of_stored hW (n.ovl p) (hn.1 p) t r ht hr hA
        have := nhandleAt_reply n p s (Msg.requestRoster r.id) rest (.roster (some r)) (by simp [handle, hgr])
        exact ⟨p, by simpa [Out.toMsg] using this⟩
      · exact Or.inl (keepP _ h4 hx)
    · obtain ⟨u, hu⟩ := h5
      exact Or.inr (Or.inr (Or.inr ⟨hpk, Or.inr ⟨u, keepS _ hu⟩⟩))

/-- the server that waits for the tree handles a message (from anybody) -/
private theorem nprogress_requester {W : Nat → Option Tree} (hW : WorldOK W) (t : Tree) (r : Roster) (ht : W t.id = some t)
    (hr : t.roster = some r) (s p : Nat) (hsp : s ≠ p) (n : NNet) (hn : NNetOK W n) (hp : NProgress t r s p n)
    (f : Nat) (m : Msg) (rest : List (Nat × Msg))
    (hm : (f, m) ∈ n.inbox s) (hrest : ∀ y, y ∈ n.inbox s → y ≠ (f, m) → y ∈ rest) :
    NProgress t r s p (n.handleAt s f m rest) := by
  obtain ⟨hA, hB⟩ := hp
  have hps : ¬ p = s := fun e => hsp e.symm
  have e1 : (n.handleAt s f m rest).ovl s = (handle (n.ovl s) m).1 := by simp [nhandleAt_ovl]
  have e2 : (n.handleAt s f m rest).ovl p = n.ovl p := by simp [nhandleAt_ovl, hps]
  have keepP : ∀ y, y ∈ n.inbox p → y ∈ (n.handleAt s f m rest).inbox p :=
    fun y hy => nhandleAt_keeps n s f m rest p y (by simp only [hps, if_false]; exact hy)
  have keepS : ∀ y, y ∈ n.inbox s → y ≠ (f, m) → y ∈ (n.handleAt s f m rest).inbox s :=
    fun y hy hne => nhandleAt_keeps n s f m rest s y (by simp only [if_true]; exact hrest y hy hne)
  refine ⟨by rw [e2]; exact hA, ?_⟩
  rcases hB with hB | ⟨hreq, hw⟩
  · left; rw [e1]; exact c06_never_replaces _ m _ _ hB
  · have hok := (handle_ok hW (n.ovl s) m (hn.1 s) (hn.2 s (f, m) hm)).1
    have hist : ∀ t', (handle (n.ovl s) m).1.get t.id = some t' → (handle (n.ovl s) m).1.get t.id = some t := by
      intro t' h
      have := hok.1 t.id t' (get_mem _ _ _ h)
      rw [ht] at this
      rw [h, Option.some.inj this]
    obtain ⟨_, hid0, ro, hwf, hd, hrid0⟩ := hW.1 t.id t ht
    have hror : ro = r := by have := hwf.1; rw [hr] at this; exact (Option.some.inj this).symm
    subst hror
    have hmk := world_mk hW t ro ht hr
    have htid := mtm_treeId t ro hr
    have hrid := mtm_rosterId t ro hr
    -- the answer in the current form (from anybody)
    by_cases hmA : m = .responseTree (some (makeTreeMarshal t)) (some ro)
    · left; rw [e1, hmA]
      have := c06_requested_wellformed_stored (n.ovl s) (makeTreeMarshal t) ro t (by rw [htid]; exact hid0)
        (by rw [htid]; exact hreq) hmk
      rwa [htid] at this
    -- the description in the deprecated form (from anybody)
    by_cases hmB : m = .treeMarshal (makeTreeMarshal t)
    · subst hmB
      have hreq' : (n.ovl s).isRequested (makeTreeMarshal t).treeId = true := by rw [htid]; exact hreq
      cases hi : (n.ovl s).instRoster (makeTreeMarshal t).rosterId with
      | some ro' =>
        left; rw [e1]
        obtain ⟨id0, t0, hg0, hr0, hid0'⟩ := instRoster_mem _ _ ro' hi
        have hw0 := (hn.1 s).1 id0 t0 (get_mem _ id0 t0 hg0)
        have hid00 := (hW.1 id0 t0 hw0).1
        have hrr : ro = ro' := hW.2 t.id t0.id t t0 ro ro' ht (by rw [hid00]; exact hw0) hr hr0 (by rw [hid0', hrid])
        subst hrr
        have hh : (handle (n.ovl s) (.treeMarshal (makeTreeMarshal t))).1 =
            handleSendTree (n.ovl s) (some (makeTreeMarshal t)) (some ro) := by
          simp [handle, htid, hid0, hreq, hi]
        rw [hh]
        have h5 := c06_requested_wellformed_stored (n.ovl s) (makeTreeMarshal t) ro t (by rw [htid]; exact hid0) hreq' hmk
        rw [htid] at h5
        simpa [handle] using h5
      | none =>
        right
        have hi' : (n.ovl s).instRoster ro.id = none := by rw [← hrid]; exact hi
        have hst1 : (handle (n.ovl s) (.treeMarshal (makeTreeMarshal t))).1.store = (n.ovl s).store := by
          simp [handle, htid, hid0, hreq, hi]
        have hp1 : (handle (n.ovl s) (.treeMarshal (makeTreeMarshal t))).1.pending =
            insert (n.ovl s).pending ro.id ((lookup (n.ovl s).pending ro.id).getD [] ++ [makeTreeMarshal t]) := by
          simp [handle, htid, hid0, hreq, hi', hrid]
        refine ⟨by rw [e1, req_lookup, hst1]; exact (req_lookup _ _).mp hreq, ?_⟩
        -- the description is parked now; what was under way between `s` and `p` still is, unless this was `p`'s
        -- description: then the roster request is on its way to `p`
        have hparked : ∃ sl, lookup ((n.handleAt s f (.treeMarshal (makeTreeMarshal t)) rest).ovl s).pending ro.id = some sl ∧
            makeTreeMarshal t ∈ sl := by
          rw [e1, hp1]; exact ⟨_, lookup_insert_self _ _ _, by simp⟩
        unfold NWaiting
        rcases hw with ⟨v, hv⟩ | h2 | h3 | ⟨_, h4 | ⟨u, h5⟩⟩
        · exact Or.inl ⟨v, keepP _ hv⟩
        · exact Or.inr (Or.inl (keepS _ h2 (by intro e; cases e)))
        · by_cases hx : (p, Msg.treeMarshal (makeTreeMarshal t)) = (f, Msg.treeMarshal (makeTreeMarshal t))
          · have hf : p = f := (Prod.mk.inj hx).1
            subst hf
            refine Or.inr (Or.inr (Or.inr ⟨hparked, Or.inl ?_⟩))
            have := nhandleAt_reply n s p (.treeMarshal (makeTreeMarshal t)) rest (.requestRoster ro.id)
              (by simp [handle, htid, hid0, hreq, hi', hrid])
            simpa [Out.toMsg] using this
          · exact Or.inr (Or.inr (Or.inl (keepS _ h3 hx)))
        · exact Or.inr (Or.inr (Or.inr ⟨hparked, Or.inl (keepP _ h4)⟩))
        · exact Or.inr (Or.inr (Or.inr ⟨hparked, Or.inr ⟨u, keepS _ h5 (by intro e; cases e)⟩⟩))
    -- the roster (from anybody), while the description is parked
    by_cases hmC : m = .sendRoster ro ∧ ∃ sl, lookup (n.ovl s).pending ro.id = some sl ∧ makeTreeMarshal t ∈ sl
    · obtain ⟨hmC1, sl, hl, hmem⟩ := hmC
      left; rw [e1]
      have hsome : ((handle (n.ovl s) m).1.get t.id).isSome = true := by
        rw [hmC1]
        simp only [handle, hrid0, if_false]
        rw [checkPending_eq, hl]
        have := fold_stores ro (makeTreeMarshal t) t hmk sl (n.ovl s) hmem
        simpa [Ovl.get] using this
      cases hg : (handle (n.ovl s) m).1.get t.id with
      | none => rw [hg] at hsome; simp at hsome
      | some t' => rw [← hg]; exact hist t' hg
    -- anything else
    rcases handle_keeps_marker (n.ovl s) m t.id hreq with hk | ⟨t', hst⟩
    · right
      refine ⟨by rw [e1]; exact hk, ?_⟩
      unfold NWaiting
      rw [e1]
      rcases hw with ⟨v, hv⟩ | h2 | h3 | ⟨⟨sl, hl, hmem⟩, h45⟩
      · exact Or.inl ⟨v, keepP _ hv⟩
      · exact Or.inr (Or.inl (keepS _ h2 (fun e => hmA (Prod.mk.inj e).2.symm)))
      · exact Or.inr (Or.inr (Or.inl (keepS _ h3 (fun e => hmB (Prod.mk.inj e).2.symm))))
      · have hnr : ∀ ro', m = .sendRoster ro' → ro'.id ≠ ro.id := by
          intro ro' he hid'
          apply hmC
          have hmsg := hn.2 s (f, m) hm
          simp only at hmsg
          rw [he] at hmsg
          rcases hmsg with h0 | ⟨t0, hw0, hr0⟩
          · rw [hid'] at h0; exact absurd h0 hrid0
          · have : ro' = ro := hW.2 t0.id t.id t0 t ro' ro hw0 ht hr0 hr hid'
            rw [he, this]
            exact ⟨rfl, sl, hl, hmem⟩
        obtain ⟨sl', hl', hmem'⟩ := handle_keeps_parked (n.ovl s) m ro.id sl _ hl hmem hnr
        refine Or.inr (Or.inr (Or.inr ⟨⟨sl', hl', hmem'⟩, ?_⟩))
        rcases h45 with h4 | ⟨u, h5⟩
        · exact Or.inl (keepP _ h4)
        · refine Or.inr ⟨u, keepS _ h5 ?_⟩
          intro e
          exact hnr ro (Prod.mk.inj e).2.symm rfl
    · left; rw [e1]; exact hist t' hst

/-- a third server handles a message: nothing between `s` and `p` is touched, what it sends is added -/
private theorem nprogress_other (t : Tree) (r : Roster) (s p u : Nat) (hus : u ≠ s) (hup : u ≠ p) (n : NNet)
    (hp : NProgress t r s p n) (f : Nat) (m : Msg) (rest : List (Nat × Msg)) :
    NProgress t r s p (n.handleAt u f m rest) := by
  obtain ⟨hA, hB⟩ := hp
  have hsu : ¬ s = u := fun e => hus e.symm
  have hpu : ¬ p = u := fun e => hup e.symm
  have e1 : (n.handleAt u f m rest).ovl s = n.ovl s := by simp [nhandleAt_ovl, hsu]
  have e2 : (n.handleAt u f m rest).ovl p = n.ovl p := by simp [nhandleAt_ovl, hpu]
  have keepS : ∀ y, y ∈ n.inbox s → y ∈ (n.handleAt u f m rest).inbox s :=
    fun y hy => nhandleAt_keeps n u f m rest s y (by simp only [hsu, if_false]; exact hy)
  have keepP : ∀ y, y ∈ n.inbox p → y ∈ (n.handleAt u f m rest).inbox p :=
    fun y hy => nhandleAt_keeps n u f m rest p y (by simp only [hpu, if_false]; exact hy)
  refine ⟨by rw [e2]; exact hA, ?_⟩
  rcases hB with hB | ⟨hreq, hw⟩
  · left; rw [e1]; exact hB
  · right
    refine ⟨by rw [e1]; exact hreq, ?_⟩
    unfold NWaiting
    rw [e1]
    rcases hw with ⟨v, hv⟩ | h2 | h3 | ⟨hpk, h4 | ⟨x, h5⟩⟩
    · exact Or.inl ⟨v, keepP _ hv⟩
    · exact Or.inr (Or.inl (keepS _ h2))
    · exact Or.inr (Or.inr (Or.inl (keepS _ h3)))
    · exact Or.inr (Or.inr (Or.inr ⟨hpk, Or.inl (keepP _ h4)⟩))
    · exact Or.inr (Or.inr (Or.inr ⟨hpk, Or.inr ⟨x, keepS _ h5⟩⟩))

/-- one step that loses and withdraws nothing about `t` keeps `NProgress` -/
theorem nprogress_step {W : Nat → Option Tree} (hW : WorldOK W) (t : Tree) (r : Roster) (ht : W t.id = some t)
    (hr : t.roster = some r) (s p : Nat) (hsp : s ≠ p) (n : NNet) (hn : NNetOK W n) (hp : NProgress t r s p n)
    (e : NNetEv) (he : NEvOK W e) (hk : NEvKeeps t.id e) : NProgress t r s p (nnetStep n e) := by
  -- a local action `l` at server `u`, possibly with more messages put in flight
  have hloc : ∀ (u : Nat) (l : Local) (inbox' : Nat → List (Nat × Msg)),
      (match l with | .register t' => W t'.id = some t' | .instance t' => W t'.id = some t' | _ => True) →
      (∀ i, (l = .expire i ∨ l = .unrequest i) → i ≠ t.id) → (∀ x y, y ∈ n.inbox x → y ∈ inbox' x) →
      NProgress t r s p { ovl := updN n.ovl u (localStep (n.ovl u) l), inbox := inbox' } := by
    intro u l inbox' hl hkeep hsub
    obtain ⟨hA, hB⟩ := hp
    refine ⟨?_, ?_⟩
    · simp only [updN_at]
      split
      · next h => rw [← h]; exact local_keeps_tree _ l t ht hA hl (fun i h => hkeep i (Or.inl h))
      · exact hA
    · by_cases hu : s = u
      · subst hu
        simp only [updN_at, if_true]
        rcases hB with hB | ⟨hreq, hw⟩
        · exact Or.inl (local_keeps_tree _ l t ht hB hl (fun i h => hkeep i (Or.inl h)))
        · rcases local_keeps_marker (n.ovl s) l t.id hreq hkeep with h | ⟨t', h⟩
          · right
            refine ⟨h, ?_⟩
            unfold NWaiting
            simp only [updN_at, if_true, local_pending]
            rcases hw with ⟨v, hv⟩ | h2 | h3 | ⟨hpk, h4 | ⟨x, h5⟩⟩
            · exact Or.inl ⟨v, hsub _ _ hv⟩
            · exact Or.inr (Or.inl (hsub _ _ h2))
            · exact Or.inr (Or.inr (Or.inl (hsub _ _ h3)))
            · exact Or.inr (Or.inr (Or.inr ⟨hpk, Or.inl (hsub _ _ h4)⟩))
            · exact Or.inr (Or.inr (Or.inr ⟨hpk, Or.inr ⟨x, hsub _ _ h5⟩⟩))
          · left
            have hok := local_ok (n.ovl s) l (hn.1 s) hl
            have := hok.1 t.id t' (get_mem _ _ _ h)
            rw [ht] at this
            rw [h, Option.some.inj this]
      · have hne : ¬ s = u := hu
        rcases hB with hB | ⟨hreq, hw⟩
        · left; simp only [updN_at, hne, if_false]; exact hB
        · right
          refine ⟨by simp only [updN_at, hne, if_false]; exact hreq, ?_⟩
          unfold NWaiting
          simp only [updN_at, hne, if_false]
          rcases hw with ⟨v, hv⟩ | h2 | h3 | ⟨hpk, h4 | ⟨x, h5⟩⟩
          · exact Or.inl ⟨v, hsub _ _ hv⟩
          · exact Or.inr (Or.inl (hsub _ _ h2))
          · exact Or.inr (Or.inr (Or.inl (hsub _ _ h3)))
          · exact Or.inr (Or.inr (Or.inr ⟨hpk, Or.inl (hsub _ _ h4)⟩))
          · exact Or.inr (Or.inr (Or.inr ⟨hpk, Or.inr ⟨x, hsub _ _ h5⟩⟩))
  -- a message handled at server `u`
  have hdel : ∀ (u f : Nat) (m : Msg) (rest : List (Nat × Msg)), (f, m) ∈ n.inbox u →
      (∀ y, y ∈ n.inbox u → y ≠ (f, m) → y ∈ rest) → NProgress t r s p (n.handleAt u f m rest) := by
    intro u f m rest hm hrest
    by_cases h1 : u = s
    · subst h1; exact nprogress_requester hW t r ht hr u p hsp n hn hp f m rest hm hrest
    · by_cases h2 : u = p
      · subst h2; exact nprogress_holder hW t r ht hr s u hsp n hn hp f m rest hrest
      · exact nprogress_other t r s p u h1 h2 n hp f m rest
  cases e with
  | loc u l =>
    refine hloc u l n.inbox ?_ ?_ (fun _ _ h => h)
    · cases l <;> first | exact he | trivial
    · intro i h
      rcases h with h | h <;> subst h <;> exact hk
  | ask u q i v =>
    simp only [nnetStep]
    refine hloc u (.reqSend i) _ trivial ?_ ?_
    · intro j h; rcases h with h | h <;> cases h
    · intro x y hy
      split
      · simp only [updN_at]
        split
        · next h => rw [h] at hy; exact List.mem_append_left _ hy
        · exact hy
      · exact hy
  | deliver u i =>
    simp only [nnetStep]
    cases hg : (n.inbox u)[i]? with
    | none => exact hp
    | some m => exact hdel u m.1 m.2 _ (List.mem_of_getElem? hg) (eraseIdx_rest _ i m hg)
  | redeliver u i =>
    simp only [nnetStep]
    cases hg : (n.inbox u)[i]? with
    | none => exact hp
    | some m => exact hdel u m.1 m.2 _ (List.mem_of_getElem? hg) (fun y hy _ => hy)
  | drop u i => exact absurd hk (by simp [NEvKeeps])

/-- **liveness at quiescence, any number of servers**: server `s` asked server `p` for tree `t` (or already waits for
it with something under way between the two), `p` holds `t`.  After any run in which nothing about `t` is lost or
withdrawn — whatever `s`, `p` and all the other servers do and send meanwhile, in any order, with duplicates, in the
current or the deprecated form — `NProgress` still holds; and when no message is in flight anywhere, `s` holds exactly
`t`: no request is stuck, no description stays parked for ever, and no third server's traffic can make it so. -/
theorem c06_n_servers_quiescent_request_answered (W : Nat → Option Tree) (hW : WorldOK W) (t : Tree) (r : Roster)
    (ht : W t.id = some t) (hr : t.roster = some r) (s p : Nat) (hsp : s ≠ p) (n : NNet) (hn : NNetOK W n)
    (hp : NProgress t r s p n) (evs : List NNetEv) (hev : ∀ e ∈ evs, NEvOK W e ∧ NEvKeeps t.id e) :
    NProgress t r s p (nnetRun n evs) ∧ (NQuiet (nnetRun n evs) → ((nnetRun n evs).ovl s).get t.id = some t) := by
  have hrun : NNetOK W (nnetRun n evs) ∧ NProgress t r s p (nnetRun n evs) := by
    unfold nnetRun
    induction evs generalizing n with
    | nil => exact ⟨hn, hp⟩
    | cons e rest ih =>
      simp only [List.foldl_cons]
      have h1 := hev e (by simp)
      exact ih _ (nnetStep_ok hW n e hn h1.1) (nprogress_step hW t r ht hr s p hsp n hn hp e h1.1 h1.2)
        (fun x hx => hev x (List.mem_cons_of_mem _ hx))
  refine ⟨hrun.2, ?_⟩
  intro hq
  rcases hrun.2.2 with h | ⟨_, hw⟩
  · exact h
  · exfalso
    unfold NWaiting at hw
    simp [hq s, hq p] at hw

/-- how a request starts: `s` does not know the tree, `p` holds it; `ask` puts the pair into `NProgress` -/
theorem c06_n_ask_starts_progress (t : Tree) (r : Roster) (s p : Nat) (hsp : s ≠ p) (n : NNet) (v : Nat)
    (hA : (n.ovl p).get t.id = some t) (hB : lookup (n.ovl s).store t.id = none) :
    NProgress t r s p (nnetStep n (.ask s p t.id v)) := by
  have hne : ¬ p = s := fun e => hsp e.symm
  have hw : (n.ovl s).wouldRequest t.id = true := by simp [Ovl.wouldRequest, hB]
  refine ⟨?_, Or.inr ⟨?_, Or.inl ⟨v, ?_⟩⟩⟩
  · simp only [nnetStep, updN_at, hne, if_false]; exact hA
  · simp only [nnetStep, updN_at, if_true, localStep, hw]
    rw [req_lookup]; exact lookup_insert_self _ _ _
  · simp only [nnetStep, hw, if_true, updN_at]
    simp

/-- non-vacuity of the N-server quiescence theorem: server 0 registered tree 1; server 2 asks it in the deprecated
form; meanwhile server 1 also asks 0 (current form) and — holding nothing yet — is asked by server 3; ten deliveries in
an interleaved order later nothing is in flight among the four servers (and the theorem says 2 holds the tree) -/
example : ∃ (W : Nat → Option Tree) (t : Tree) (r : Roster) (n : NNet) (evs : List NNetEv), WorldOK W ∧ W t.id = some t ∧
    t.roster = some r ∧ NNetOK W n ∧ NProgress t r 2 0 n ∧ (∀ e ∈ evs, NEvOK W e ∧ NEvKeeps t.id e) ∧
    (∀ s, s < 4 → (nnetRun n evs).inbox s = []) ∧ ((nnetRun n evs).ovl 1).get t.id = some t := by
  let ro : Roster := { id := 9, list := [⟨3, 4, false⟩, ⟨5, 6, false⟩] }
  let t := newTree 1 ro (.node 3 3 4 0 0 (.node 5 5 6 1 0 .nil (.node 3 3 4 0 0 .nil .nil)) .nil)
  let W : Nat → Option Tree := fun id => if id = 1 then some t else none
  have hd : ro.Distinct := by unfold Roster.Distinct; decide
  have hw : t.WF ro := newTree_wf 1 ro _ (by decide) (by simp [NodesOK, ro])
  have hW : WorldOK W := by
    refine ⟨?_, ?_⟩
    · intro id x hx
      by_cases h1 : id = 1
      · simp only [W, h1, if_true, Option.some.injEq] at hx
        subst hx; subst h1
        exact ⟨rfl, by decide, ro, hw, hd, by decide⟩
      · simp [W, h1] at hx
    · intro i j x x' r r' hx hx' hr hr' _
      by_cases h1 : i = 1
      · by_cases h2 : j = 1
        · simp only [W, h1, h2, if_true, Option.some.injEq] at hx hx'
          subst hx; subst hx'
          rw [hr] at hr'; exact Option.some.inj hr'
        · simp [W, h2] at hx'
      · simp [W, h1] at hx
  have ht : W t.id = some t := by simp [W, t, newTree]
  let n0 : NNet := nnetStep { ovl := fun _ => {}, inbox := fun _ => [] } (.loc 0 (.register t))
  have hn0 : NNetOK W n0 := nnetStep_ok hW _ _ (nnetOK_empty W) ht
  let n1 : NNet := nnetStep n0 (.ask 2 0 t.id 0)
  have hn1 : NNetOK W n1 := nnetStep_ok hW _ _ hn0 trivial
  have hp : NProgress t ro 2 0 n1 := c06_n_ask_starts_progress t ro 2 0 (by decide) n0 0 (by decide) (by decide)
  let evs : List NNetEv := [.ask 1 0 1 1, .ask 3 1 1 1, .deliver 0 1, .deliver 1 0, .deliver 0 0, .deliver 1 0,
    .deliver 2 0, .deliver 0 0, .deliver 2 0]
  have hev : ∀ e ∈ evs, NEvOK W e ∧ NEvKeeps t.id e := by
    intro e he
    simp only [evs, List.mem_cons, List.mem_nil_iff, or_false] at he
    rcases he with h | h | h | h | h | h | h | h | h <;> subst h <;> exact ⟨trivial, trivial⟩
  refine ⟨W, t, ro, n1, evs, hW, ht, hw.1, hn1, hp, hev, ?_, by decide⟩
  intro s hs
  have : s = 0 ∨ s = 1 ∨ s = 2 ∨ s = 3 := by omega
  rcases this with rfl | rfl | rfl | rfl <;> decide

/-! #### the two-server network is the N-server network restricted to servers 0 and 1 -/

def Site.idx : Site → Nat
  | .A => 0
  | .B => 1

/-- the two-server state as an N-server state: A is server 0, B is server 1 (the messages on their way to one of
them were sent by the other), every other server is empty and idle -/
def Net.toN (n : Net) : NNet :=
  { ovl := fun k => if k = 0 then n.ovl .A else if k = 1 then n.ovl .B else {},
    inbox := fun k => if k = 0 then (n.inbox .A).map (fun m => (1, m))
                      else if k = 1 then (n.inbox .B).map (fun m => (0, m)) else [] }

def NetEv.toN : NetEv → NNetEv
  | .loc s l => .loc s.idx l
  | .ask s id v => .ask s.idx s.other.idx id v
  | .deliver s i => .deliver s.idx i
  | .redeliver s i => .redeliver s.idx i
  | .drop s i => .drop s.idx i

private theorem nnet_ext {a b : NNet} (h1 : ∀ k, a.ovl k = b.ovl k) (h2 : ∀ k, a.inbox k = b.inbox k) : a = b := by
  cases a; cases b
  simp only [NNet.mk.injEq]
  exact ⟨funext h1, funext h2⟩

private theorem map_eraseIdx' {α β : Type} (f : α → β) : ∀ (l : List α) (i : Nat), (l.eraseIdx i).map f = (l.map f).eraseIdx i
  | [], _ => by simp
  | _ :: _, 0 => by simp
  | a :: l, i + 1 => by simp [List.eraseIdx_cons_succ, map_eraseIdx' f l i]

private theorem three (k : Nat) : k = 0 ∨ k = 1 ∨ (k ≠ 0 ∧ k ≠ 1) := by omega

private theorem handleAt_toN (n : Net) (s : Site) (m : Msg) (rest : List Msg) :
    (n.handleAt s m rest).toN = (n.toN).handleAt s.idx s.other.idx m (rest.map fun x => (s.other.idx, x)) := by
  apply nnet_ext
  · intro k
    rcases three k with h | h | ⟨h0, h1⟩
    · subst h; cases s <;> simp [Net.toN, Net.handleAt, NNet.handleAt, upd, updN, Site.idx, Site.other]
    · subst h; cases s <;> simp [Net.toN, Net.handleAt, NNet.handleAt, upd, updN, Site.idx, Site.other]
    · cases s <;> simp [Net.toN, Net.handleAt, NNet.handleAt, upd, updN, Site.idx, Site.other, h0, h1]
  · intro k
    rcases three k with h | h | ⟨h0, h1⟩
    · subst h; cases s <;> simp [Net.toN, Net.handleAt, NNet.handleAt, upd, updN, Site.idx, Site.other, Function.comp_def]
    · subst h; cases s <;> simp [Net.toN, Net.handleAt, NNet.handleAt, upd, updN, Site.idx, Site.other, Function.comp_def]
    · cases s <;> simp [Net.toN, Net.handleAt, NNet.handleAt, upd, updN, Site.idx, Site.other, h0, h1]

/-- **simulation**: every step of the two-server network is the same step of the N-server network on servers 0 and 1 —
so the two-server classes of the harness (`net schedule`, `net lossy`) exercise the N-server model too, and the N-server
theorems specialise to the two-server ones -/
theorem c06_two_servers_embed (n : Net) (e : NetEv) : (netStep n e).toN = nnetStep n.toN e.toN := by
  cases e with
  | loc s l =>
    apply nnet_ext
    · intro k
      rcases three k with h | h | ⟨h0, h1⟩
      · subst h; cases s <;> simp [Net.toN, netStep, nnetStep, NetEv.toN, upd, updN, Site.idx]
      · subst h; cases s <;> simp [Net.toN, netStep, nnetStep, NetEv.toN, upd, updN, Site.idx]
      · cases s <;> simp [Net.toN, netStep, nnetStep, NetEv.toN, upd, updN, Site.idx, h0, h1]
    · intro k; rfl
  | ask s id v =>
    apply nnet_ext
    · intro k
      rcases three k with h | h | ⟨h0, h1⟩
      · subst h; cases s <;> simp [Net.toN, netStep, nnetStep, NetEv.toN, upd, updN, Site.idx, Site.other]
      · subst h; cases s <;> simp [Net.toN, netStep, nnetStep, NetEv.toN, upd, updN, Site.idx, Site.other]
      · cases s <;> simp [Net.toN, netStep, nnetStep, NetEv.toN, upd, updN, Site.idx, Site.other, h0, h1]
    · intro k
      rcases three k with h | h | ⟨h0, h1⟩
      · subst h
        cases s
        · by_cases hw : (n.ovl .A).wouldRequest id = true <;> simp [Net.toN, netStep, nnetStep, NetEv.toN, Site.idx, Site.other, upd, updN, hw]
        · by_cases hw : (n.ovl .B).wouldRequest id = true <;> simp [Net.toN, netStep, nnetStep, NetEv.toN, Site.idx, Site.other, upd, updN, hw]
      · subst h
        cases s
        · by_cases hw : (n.ovl .A).wouldRequest id = true <;> simp [Net.toN, netStep, nnetStep, NetEv.toN, Site.idx, Site.other, upd, updN, hw]
        · by_cases hw : (n.ovl .B).wouldRequest id = true <;> simp [Net.toN, netStep, nnetStep, NetEv.toN, Site.idx, Site.other, upd, updN, hw]
      · cases s
        · by_cases hw : (n.ovl .A).wouldRequest id = true <;> simp [Net.toN, netStep, nnetStep, NetEv.toN, Site.idx, Site.other, upd, updN, hw, h0, h1]
        · by_cases hw : (n.ovl .B).wouldRequest id = true <;> simp [Net.toN, netStep, nnetStep, NetEv.toN, Site.idx, Site.other, upd, updN, hw, h0, h1]
  | deliver s i =>
    simp only [netStep, nnetStep, NetEv.toN]
    have hin : (n.toN).inbox s.idx = (n.inbox s).map (fun x => (s.other.idx, x)) := by
      cases s <;> simp [Net.toN, Site.idx, Site.other]
    rw [hin, List.getElem?_map]
    cases hg : (n.inbox s)[i]? with
    | none => simp
    | some m =>
      simp only [Option.map_some]
      rw [handleAt_toN, map_eraseIdx']
  | redeliver s i =>
    simp only [netStep, nnetStep, NetEv.toN]
    have hin : (n.toN).inbox s.idx = (n.inbox s).map (fun x => (s.other.idx, x)) := by
      cases s <;> simp [Net.toN, Site.idx, Site.other]
    rw [hin, List.getElem?_map]
    cases hg : (n.inbox s)[i]? with
    | none => simp
    | some m =>
      simp only [Option.map_some]
      rw [handleAt_toN]
  | drop s i =>
    apply nnet_ext
    · intro k; rfl
    · intro k
      rcases three k with h | h | ⟨h0, h1⟩
      · subst h; cases s <;> simp [Net.toN, netStep, nnetStep, NetEv.toN, upd, updN, Site.idx, map_eraseIdx']
      · subst h; cases s <;> simp [Net.toN, netStep, nnetStep, NetEv.toN, upd, updN, Site.idx, map_eraseIdx']
      · cases s <;> simp [Net.toN, netStep, nnetStep, NetEv.toN, upd, updN, Site.idx, h0, h1]

theorem c06_two_servers_embed_run (n : Net) (evs : List NetEv) :
    (netRun n evs).toN = nnetRun n.toN (evs.map NetEv.toN) := by
  unfold netRun nnetRun
  induction evs generalizing n with
  | nil => rfl
  | cons e rest ih => simp only [List.foldl_cons, List.map_cons]; rw [ih, c06_two_servers_embed]

/-! ### the code regions the model stands for
Regenerated from /repo's source on every run (`harness/cmd/astfacts` → `OnetVerif/Shapes.lean`): the
calls that matter for synchronisation and data flow, the lock regions and (for decision logic) the
conditions, in source order.  A re-ordering, a dropped call or a changed condition breaks these
obligations even when no sampled input or schedule shows a difference; the check then searches for
a failing input. -/
theorem c06_shape_Tree_MakeTreeMarshal :
    Shapes.tree_Tree_MakeTreeMarshal =
   ["if:(t.Roster==nil)", "return:&TreeMarshal{}",
     "assign:treeM:=&TreeMarshal{TreeID:t.ID,RosterID:t.Roster.ID}", "TreeMarshalCopyTree",
     "assign:treeM.Children=append(treeM.Children,TreeMarshalCopyTree(t.Root))", "return:treeM"] := rfl

theorem c06_shape_TreeMarshalCopyTree :
    Shapes.tree_TreeMarshalCopyTree =
   ["ServerIdentity.GetID", "assign:tm:=&TreeMarshal{TreeNodeID:tr.ID,ServerIdentityID:tr.ServerIdentity.GetID()}",
     "range:i,:=tr.Children{", "TreeMarshalCopyTree",
     "assign:tm.Children=append(tm.Children,TreeMarshalCopyTree(tr.Children[i]))", "}",
     "return:tm"] := rfl

theorem c06_shape_Overlay_requestTree :
    Shapes.overlay_Overlay_requestTree =
   ["o.savePendingMsg", "verifPoint:rt.parked", "treeStorage.Get", "if:(tree!=nil)",
     "o.checkPendingMessages", "return:nil", "verifPoint:rt.recheck-miss", "io.Wrap",
     "if:(err!=nil)", "return:xerrors.Errorf(\"\",err)",
     "if:o.treeStorage.IsRegistered(onetMsg.To.TreeID)", "return:nil",
     "verifPoint:rt.unregistered", "treeStorage.Register", "verifPoint:rt.registered",
     "server.Send", "if:(err!=nil)", "treeStorage.Unregister", "return:xerrors.Errorf(\"\",err)",
     "return:nil"] := rfl

theorem c06_shape_Tree_computeSubtreeAggregate :
    Shapes.tree_Tree_computeSubtreeAggregate =
   ["Public.Clone", "assign:agg:=root.ServerIdentity.Public.Clone()",
     "range:_,ch:=root.Children{", "t.computeSubtreeAggregate", "agg.Add",
     "assign:agg=agg.Add(agg,t.computeSubtreeAggregate(ch))", "}",
     "assign:root.PublicAggregateSubTree=agg", "return:agg"] := rfl

theorem c06_shape_NewTreeFromMarshal :
    Shapes.tree_NewTreeFromMarshal =
   ["network.Unmarshal", "assign:tp,pm,err:=network.Unmarshal(buf,s)", "if:(err!=nil)",
     "return:nil,err", "if:!tp.Equal(TreeMarshalTypeID)", "return:nil,xerrors.New(\"\")",
     "?.MakeTree", "assign:t,err:=?.MakeTree(el)", "if:(err!=nil)",
     "return:nil,xerrors.Errorf(\"\",err)", "t.computeSubtreeAggregate", "return:t,nil"] := rfl

theorem c06_shape_Tree_BinaryUnmarshaler :
    Shapes.tree_Tree_BinaryUnmarshaler =
   ["network.Unmarshal", "assign:_,m,err:=network.Unmarshal(b,s)",
     "assign:tbm,ok:=m.(tbmStruct)", "if:!ok", "return:xerrors.New(\"\")", "NewTreeFromMarshal",
     "assign:tree,err:=NewTreeFromMarshal(s,tbm.T,tbm.Ro)", "if:(err!=nil)",
     "return:xerrors.Errorf(\"\",err)", "assign:t.Roster=tbm.Ro", "assign:t.ID=tree.ID",
     "assign:t.Root=tree.Root", "return:nil"] := rfl

theorem c06_shape_Tree_Equal :
    Shapes.tree_Tree_Equal =
   ["if:(!t.ID.Equal(t2.ID)||!t.Roster.ID.Equal(t2.Roster.ID))", "return:false",
     "return:t.Root.Equal(t2.Root)"] := rfl

theorem c06_shape_TreeNode_Equal :
    Shapes.tree_TreeNode_Equal =
   ["if:(!t.ID.Equal(t2.ID)||!t.ServerIdentity.ID.Equal(t2.ServerIdentity.ID))", "return:false",
     "if:(len(t.Children)!=len(t2.Children))", "return:false", "range:i,c:=t.Children{",
     "if:!c.Equal(t2.Children[i])", "return:false", "}", "return:true"] := rfl

theorem c06_shape_Roster_Search :
    Shapes.tree_Roster_Search =
   ["range:i,e:=ro.List{", "if:e.ID.Equal(eID)", "return:i,e", "}", "return:-1,nil"] := rfl

theorem c06_shape_Overlay_handleRequestTreeDeprecated :
    Shapes.overlay_Overlay_handleRequestTreeDeprecated =
   ["io.Wrap", "server.Send"] := rfl

theorem c06_shape_TreeMarshal_MakeTree_full :
    Shapes.tree_TreeMarshal_MakeTree_full =
   ["if:(ro==nil)", "return:nil,xerrors.New(\"\")", "if:!ro.ID.Equal(tm.RosterID)",
     "return:nil,xerrors.New(\"\")", "if:((len(tm.Children)!=1)||(tm.Children[0]==nil))",
     "return:nil,xerrors.New(\"\")", "assign:tree:=&Tree{ID:tm.TreeID,Roster:ro}",
     "Children[].MakeTreeFromList",
     "assign:tree.Root,err=tm.Children[].MakeTreeFromList(nil,ro)", "if:(err!=nil)",
     "return:nil,xerrors.Errorf(\"\",err)", "tree.computeSubtreeAggregate", "return:tree,nil"] := rfl

theorem c06_shape_TreeMarshal_MakeTreeFromList_full :
    Shapes.tree_TreeMarshal_MakeTreeFromList_full =
   ["ro.searchByKey", "assign:idx,ent:=ro.searchByKey(tm.ServerIdentityID)", "if:(idx<0)",
     "return:nil,xerrors.New(\"\")", "if:(ent.Public==nil)", "return:nil,xerrors.New(\"\")",
     "assign:tn:=&TreeNode{Parent:parent,ID:tm.TreeNodeID,ServerIdentity:ent,RosterIndex:idx}",
     "range:_,c:=tm.Children{", "c.MakeTreeFromList",
     "assign:ntn,err:=c.MakeTreeFromList(tn,ro)", "if:(err!=nil)",
     "return:nil,xerrors.Errorf(\"\",err)", "assign:tn.Children=append(tn.Children,ntn)", "}",
     "return:tn,nil"] := rfl

theorem c06_shape_Overlay_checkPendingTreeMarshal_full :
    Shapes.overlay_Overlay_checkPendingTreeMarshal_full =
   ["pendingTreeLock.Lock", "assign:sl,ok:=o.pendingTreeMarshal[el.ID]", "if:!ok",
     "pendingTreeLock.Unlock", "return:", "range:_,tm:=sl{",
     "if:(o.treeStorage.Get(tm.TreeID)!=nil)", "continue", "tm.MakeTree",
     "assign:tree,err:=tm.MakeTree(el)", "if:(err!=nil)", "continue", "treeStorage.setIfMissing",
     "assign:stored:=o.treeStorage.setIfMissing(tree,false)", "if:stored", "o.checkPendingMessages", "}",
     "pendingTreeLock.Unlock"] := rfl

theorem c06_shape_Overlay_handleSendTree_full :
    Shapes.overlay_Overlay_handleSendTree_full =
   ["if:((rt.TreeMarshal==nil)||rt.TreeMarshal.TreeID.IsNil())", "return:",
     "if:(rt.Roster==nil)", "return:", "if:!o.treeStorage.IsRequested(rt.TreeMarshal.TreeID)",
     "return:", "TreeMarshal.MakeTree", "assign:tree,err:=rt.TreeMarshal.MakeTree(rt.Roster)",
     "if:(err!=nil)", "return:", "treeStorage.setIfMissing",
     "assign:stored:=o.treeStorage.setIfMissing(tree,true)", "if:!stored", "return:",
     "o.checkPendingMessages"] := rfl

theorem c06_shape_Overlay_handleSendTreeMarshal_full :
    Shapes.overlay_Overlay_handleSendTreeMarshal_full =
   ["if:tm.TreeID.IsNil()", "return:", "if:!o.treeStorage.IsRequested(tm.TreeID)", "return:",
     "instancesLock.Lock", "range:_,inst:=o.instances{", "treeStorage.Get",
     "assign:tree:=o.treeStorage.Get(inst.token.TreeID)",
     "if:(((tree!=nil)&&(tree.Roster!=nil))&&tree.Roster.ID.Equal(tm.RosterID))",
     "assign:ro=tree.Roster", "}", "instancesLock.Unlock", "if:(ro==nil)", "io.Wrap",
     "assign:msg,err:=io.Wrap(nil,&OverlayMsg{RequestRoster:&RequestRoster{tm.RosterID}})",
     "if:(err!=nil)", "server.Send", "assign:_,err:=o.server.Send(si,msg)", "if:(err!=nil)",
     "o.addPendingTreeMarshal", "return:", "assign:rt:=&ResponseTree{TreeMarshal:tm,Roster:ro}",
     "o.handleSendTree"] := rfl

theorem c06_shape_Overlay_handleRequestTree_full :
    Shapes.overlay_Overlay_handleRequestTree_full =
   ["treeStorage.Get", "assign:tree:=o.treeStorage.Get(req.TreeID)", "if:(tree==nil)", "return:",
     "tree.MakeTreeMarshal", "assign:treeM:=tree.MakeTreeMarshal()", "if:(req.Version==0)",
     "o.handleRequestTreeDeprecated", "return:", "io.Wrap",
     "assign:msg,err:=io.Wrap(nil,&OverlayMsg{ResponseTree:&ResponseTree{TreeMarshal:treeM,Roster:tree.Roster}})",
     "if:(err!=nil)", "return:", "server.Send", "assign:_,err=o.server.Send(si,msg)",
     "if:(err!=nil)"] := rfl

theorem c06_shape_Overlay_handleRequestRoster_full :
    Shapes.overlay_Overlay_handleRequestRoster_full =
   ["treeStorage.GetRoster", "assign:ro:=o.treeStorage.GetRoster(req.RosterID)", "if:(ro==nil)",
     "assign:ro=&Roster{}", "io.Wrap", "assign:msg,err:=io.Wrap(nil,&OverlayMsg{Roster:ro})",
     "if:(err!=nil)", "return:", "server.Send", "assign:_,err=o.server.Send(si,msg)",
     "if:(err!=nil)", "return:"] := rfl

theorem c06_shape_Overlay_handleSendRoster_full :
    Shapes.overlay_Overlay_handleSendRoster_full =
   ["if:roster.ID.IsNil()", "return:", "o.checkPendingTreeMarshal"] := rfl

theorem c06_shape_treeStorage_Register_full :
    Shapes.treestorage_treeStorage_Register_full =
   ["ts.Lock", "assign:_,ok:=ts.trees[id]", "if:!ok", "assign:ts.trees[id]=nil", "ts.Unlock"] := rfl

theorem c06_shape_treeStorage_Unregister_full :
    Shapes.treestorage_treeStorage_Unregister_full =
   ["ts.Lock", "defer:ts.Unlock", "assign:tree:=ts.trees[id]", "if:(tree==nil)"] := rfl

theorem c06_shape_treeStorage_Set_full :
    Shapes.treestorage_treeStorage_Set_full =
   ["ts.Lock", "defer:ts.Unlock", "ts.cancelDeletion", "assign:ts.trees[tree.ID]=tree"] := rfl

theorem c06_shape_treeStorage_IsRequested_full :
    Shapes.treestorage_treeStorage_IsRequested_full =
   ["ts.Lock", "defer:ts.Unlock", "assign:tree,ok:=ts.trees[id]", "return:(ok&&(tree==nil))"] := rfl

theorem c06_shape_treeStorage_GetRoster_full :
    Shapes.treestorage_treeStorage_GetRoster_full =
   ["ts.Lock", "defer:ts.Unlock", "range:_,tree:=ts.trees{",
     "if:(((tree!=nil)&&(tree.Roster!=nil))&&tree.Roster.ID.Equal(id))", "return:tree.Roster",
     "}", "return:nil"] := rfl

theorem c06_shape_Tree_BinaryMarshaler :
    Shapes.tree_Tree_BinaryMarshaler =
   ["t.Marshal", "assign:bt,err:=t.Marshal()", "if:(err!=nil)",
     "return:nil,xerrors.Errorf(\"\",err)", "assign:tbm:=&tbmStruct{T:bt,Ro:t.Roster}",
     "network.Marshal", "assign:b,err:=network.Marshal(tbm)", "if:(err!=nil)",
     "return:nil,xerrors.Errorf(\"\",err)", "return:b,nil"] := rfl

theorem c06_shape_Tree_Marshal :
    Shapes.tree_Tree_Marshal =
   ["t.MakeTreeMarshal", "network.Marshal",
     "assign:buf,err:=network.Marshal(t.MakeTreeMarshal())", "if:(err!=nil)",
     "return:nil,xerrors.Errorf(\"\",err)", "return:buf,nil"] := rfl

theorem c06_shape_Overlay_addPendingTreeMarshal :
    Shapes.overlay_Overlay_addPendingTreeMarshal =
   ["pendingTreeLock.Lock", "assign:sl,ok=o.pendingTreeMarshal[tm.RosterID]", "if:!ok",
     "assign:sl=make(conv,0)", "assign:sl=append(sl,tm)",
     "assign:o.pendingTreeMarshal[tm.RosterID]=sl", "pendingTreeLock.Unlock"] := rfl


/-- the look-up `MakeTreeFromList` uses since round 7: by the identifier derived from the entry's key -/
theorem c06_shape_Roster_searchByKey :
    Shapes.tree_Roster_searchByKey =
   ["range:i,e:=ro.List{", "if:e.GetID().Equal(eID)", "return:i,e", "}", "return:-1,nil"] := rfl


/-- the store's test-and-set that `handleSendTree` (only a requested slot) and `checkPendingTreeMarshal` (any slot without
a tree) use since the second repair of round 7: test and write under one lock — a handler is one step, as in the model -/
theorem c06_shape_treeStorage_setIfMissing :
    Shapes.treestorage_treeStorage_setIfMissing =
   ["ts.Lock", "defer:ts.Unlock", "assign:t,ok:=ts.trees[tree.ID]",
     "if:((t!=nil)||(onlyRequested&&!ok))", "return:false", "ts.cancelDeletion",
     "assign:ts.trees[tree.ID]=tree", "return:true"] := rfl


end C06
