import OnetVerif.Model.C06
/-! Property C06 — property theorems, negation witnesses, `_partial` variants and non-vacuity
examples only (helper lemmas that need Mathlib go to OnetVerif/Proofs/). -/
namespace C06

end C06
