import OnetVerif.Model.C16
/-! Property C16 — property theorems, negation witnesses, `_partial` variants and non-vacuity
examples only (helper lemmas that need Mathlib go to OnetVerif/Proofs/). -/
namespace C16

end C16
