import OnetVerif.Model.C16
import OnetVerif.Proofs.C16
import OnetVerif.Proofs.C16Sim
import OnetVerif.Proofs.C16Dir
import OnetVerif.Proofs.C18Slices
import OnetVerif.Shapes
/-! Property C16 — service storage returns what was saved, per service, across restarts.

`Db` = bucket name → key → bytes is the bbolt file; `step` is one storage call of a service's
`Context`; `run` a history of calls by any number of services and of server restarts.  `Spec` is
"one map, one version cell and one family of named buckets per service" (`Proofs/C16.lean`).
A stored value is identified with its `network.Marshal` encoding (the codec round trip is an
assumption, see meta/C16.json).  bbolt's atomicity makes every concurrent execution one of these
sequential histories; that, and durability, are assumptions too. -/
namespace C16

/-- **c16_bucket_names_disjoint**: for two different service names neither of which is the other
plus `"version"` or plus `"_"…`, no bucket name the one can derive (main, version, any additional
bucket) is a bucket name the other can derive. -/
theorem c16_bucket_names_disjoint (a b : Bytes) (h : Indep a b) (n : Bytes) : ¬ (Owns a n ∧ Owns b n) :=
  fun ⟨ha, hb⟩ => names_disjoint h ha hb

/-- without the premise the names do collide (why the premise is there) -/
theorem c16_names_collide_without_premise :
    Owns [97] (versionName [97]) ∧ Owns ([97] ++ sVersion) (versionName [97]) ∧
    Owns [97] (extraName [97] [120]) ∧ Owns ([97] ++ [cUnderscore] ++ [120]) (extraName [97] [120]) :=
  ⟨Owns.version, Owns.main, Owns.extra _, Owns.main⟩

/-- the events of a history mention services of `S` only -/
def EvIn (S : List Bytes) : Ev → Prop
  | .call s _ => s ∈ S
  | .restart l => ∀ t ∈ l, t ∈ S

/-- **c16_refines_map**: every history of calls by services of a pairwise independent set `S` —
save, load, raw load, version, additional buckets, in any interleaving, with server restarts (with
any subset of `S` registered) in between — returns exactly the results the per-service
specification returns, and the database keeps representing the specification state. -/
theorem c16_refines_map (known : List Bytes) (S : List Bytes) (hS : PairwiseIndep S) (evs : List Ev)
    (hev : ∀ e ∈ evs, EvIn S e) (db : Db) (hr : ∀ t ∈ S, Ready db t) (σ : Spec)
    (ha : AgreeOn S (abs db) σ) :
    (run known db evs).2 = (specRun known σ evs).2 ∧
    AgreeOn S (abs (run known db evs).1) (specRun known σ evs).1 ∧
    ∀ t ∈ S, Ready (run known db evs).1 t := by
  induction evs generalizing db σ with
  | nil => exact ⟨rfl, ha, hr⟩
  | cons e evs ih =>
    have hrest : ∀ e ∈ evs, EvIn S e := fun e he => hev e (List.mem_cons_of_mem _ he)
    cases e with
    | call s op =>
      have hs : s ∈ S := hev _ List.mem_cons_self
      obtain ⟨h1, h2, h3⟩ := sim_step known hS db σ hs hr ha op
      obtain ⟨i1, i2, i3⟩ := ih hrest _ h3 _ h2
      simp only [run, specRun]
      exact ⟨by rw [h1, i1], i2, i3⟩
    | restart l =>
      have hl : ∀ t ∈ l, t ∈ S := hev _ List.mem_cons_self
      simp only [run, specRun]
      exact ih hrest _ (fun t ht => ready_startServer db l t (Or.inl (hr t ht)))
        _ ((sim_restart hS db l hl).trans ha)

/-- the value the specification holds under `(s, k)` after a history: the one of the latest
successful `Save` by `s` under `k`, else what was there before -/
def lastSaved (s k : Bytes) : List Ev → Option Bytes → Option Bytes
  | [], acc => acc
  | .call s' (.save k' raw) :: r, acc =>
    if s' = s ∧ k' = k ∧ validKey k' then lastSaved s k r (some raw) else lastSaved s k r acc
  | _ :: r, acc => lastSaved s k r acc

private theorem specStep_main (known : List Bytes) (σ : Spec) (s' : Bytes) (op : Op) (s k : Bytes) :
    (specStep known σ s' op).1.main s k =
      match op with
      | .save k' raw => if s' = s ∧ k' = k ∧ validKey k' then some raw else σ.main s k
      | _ => σ.main s k := by
  cases op with
  | save k' raw =>
    simp only [specStep]
    by_cases hk : validKey k'
    · by_cases e : s' = s ∧ k' = k
      · obtain ⟨e1, e2⟩ := e; subst e1; subst e2; simp [hk]
      · have e' : ¬ (s = s' ∧ k = k') := fun h => e ⟨h.1.symm, h.2.symm⟩
        have e'' : ¬ (s' = s ∧ k' = k ∧ validKey k') := fun h => e ⟨h.1, h.2.1⟩
        simp [hk, e', e]
    · have e'' : ¬ (s' = s ∧ k' = k ∧ validKey k') := fun h => hk h.2.2
      simp [hk]
  | bput x k' v => simp only [specStep]; split <;> (try split) <;> rfl
  | bget x k' => simp only [specStep]; split <;> rfl
  | bdel x k' => simp only [specStep]; split <;> rfl
  | _ => rfl

theorem spec_main_run (known : List Bytes) (σ : Spec) (evs : List Ev) (s k : Bytes) :
    (specRun known σ evs).1.main s k = lastSaved s k evs (σ.main s k) := by
  induction evs generalizing σ with
  | nil => rfl
  | cons e evs ih =>
    cases e with
    | restart l => simp only [specRun, lastSaved]; exact ih σ
    | call s' op =>
      simp only [specRun]
      rw [ih, specStep_main]
      cases op <;> simp only [lastSaved]
      next k' raw => split <;> rfl

/-- **read your writes, across restarts**: after any history over `S`, a raw load of `k` by `s`
returns the value of the latest successful `Save` of `k` by the same service `s` — whatever the
other services saved under the same key, and however often the server was restarted — and if
there was none, what the data directory held for `(s, k)` at the beginning. -/
theorem c16_load_latest (known : List Bytes) (S : List Bytes) (hS : PairwiseIndep S) (evs : List Ev)
    (hev : ∀ e ∈ evs, EvIn S e) (db : Db) (hr : ∀ t ∈ S, Ready db t) (s k : Bytes) (hs : s ∈ S) :
    (step known (run known db evs).1 s (.loadRaw k)).2 =
      match lastSaved s k evs (content db (mainName s) k) with
      | none => .nothing
      | some raw => .val raw := by
  obtain ⟨_, h2, h3⟩ := c16_refines_map known S hS evs hev db hr (abs db) (fun _ _ => ⟨rfl, rfl, rfl⟩)
  obtain ⟨g1, _, _⟩ := sim_step known hS _ _ hs h3 h2 (.loadRaw k)
  rw [g1]
  simp only [specStep, spec_main_run]
  rfl

/-- **c16_missing_is_nothing**: (one call) a key under which the service's bucket holds nothing
loads as `(nil, nil)` — `nothing`, not an error — with `Load` and with `LoadRaw`; (histories) on a
fresh data directory, after any history over `S` in which `s` never successfully saved `k`, the
load of `k` by `s` yields nothing, whatever the other services saved under `k`. -/
theorem c16_missing_is_nothing (known : List Bytes) :
    (∀ (db : Db) (s k : Bytes), Ready db s → content db (mainName s) k = none →
      step known db s (.load k) = (db, .nothing) ∧ step known db s (.loadRaw k) = (db, .nothing)) ∧
    (∀ (S : List Bytes), PairwiseIndep S → ∀ (evs : List Ev), (∀ e ∈ evs, EvIn S e) →
      ∀ (s k : Bytes), s ∈ S → lastSaved s k evs none = none →
      (step known (run known (startServer Db.empty S) evs).1 s (.loadRaw k)).2 = .nothing) := by
  constructor
  · intro db s k hr hc
    obtain ⟨b, hb⟩ := Option.isSome_iff_exists.mp hr.1
    have hk : b k = none := by simpa [content, hb] using hc
    constructor <;> simp [step, getFrom, hb, hk]
  · intro S hS evs hev s k hs hl
    have hr : ∀ t ∈ S, Ready (startServer Db.empty S) t := fun t ht => ready_startServer _ _ t (Or.inr ht)
    rw [c16_load_latest known S hS evs hev _ hr s k hs]
    have : content (startServer Db.empty S) (mainName s) k = none := by
      rw [content_startServer]; rfl
    rw [this, hl]

private theorem step_frame (known : List Bytes) (db : Db) (a : Bytes) (op : Op) (n : Bytes)
    (hn : ¬ Owns a n) : (step known db a op).1 n = db n := by
  have h1 : n ≠ mainName a := fun e => hn (e ▸ Owns.main)
  have h2 : n ≠ versionName a := fun e => hn (e ▸ Owns.version)
  have h3 : ∀ x, n ≠ extraName a x := fun x e => hn (e ▸ Owns.extra x)
  cases op with
  | save k raw =>
    simp only [step]
    cases hb : db (mainName a) with
    | none => simp [putIn_none _ _ _ _ hb]
    | some b => rw [putIn_some _ _ _ _ b hb]; by_cases hk : validKey k <;> simp [hk, update, h1]
  | saveVersion v =>
    simp only [step]
    cases hb : db (versionName a) with
    | none => simp [putIn_none _ _ _ _ hb]
    | some b => rw [putIn_some _ _ _ _ b hb]; simp [dbVersionKey_valid, update, h2]
  | addBucket x => simp [step, createBucket, h3 x]
  | bput x k v =>
    simp only [step]
    cases hb : db (extraName a x) with
    | none => simp [putIn_none _ _ _ _ hb]
    | some b => rw [putIn_some _ _ _ _ b hb]; by_cases hk : validKey k <;> simp [hk, update, h3 x]
  | bdel x k =>
    simp only [step]
    cases hb : db (extraName a x) with
    | none => simp [delIn_none _ _ _ hb]
    | some b => rw [delIn_some _ _ _ b hb]; simp [update, h3 x]
  | saveBad k => rfl
  | load k => simp only [step]; split <;> rfl
  | loadRaw k => simp only [step]; split <;> rfl
  | loadVersion => simp only [step]; split <;> (try split) <;> rfl
  | bget x k => simp only [step]; split <;> rfl

private theorem step_local (known : List Bytes) (db₁ db₂ : Db) (b : Bytes) (op : Op)
    (h : ∀ n, Owns b n → db₁ n = db₂ n) : (step known db₁ b op).2 = (step known db₂ b op).2 := by
  have hm := h _ Owns.main
  have hv := h _ Owns.version
  have he := fun x => h _ (Owns.extra x)
  cases op with
  | save k raw =>
    simp only [step]
    cases hb : db₂ (mainName b) with
    | none => rw [putIn_none _ _ _ _ hb, putIn_none _ _ _ _ (hm.trans hb)]
    | some bb => rw [putIn_some _ _ _ _ bb hb, putIn_some _ _ _ _ bb (hm.trans hb)]; by_cases hk : validKey k <;> simp [hk]
  | saveVersion v =>
    simp only [step]
    cases hb : db₂ (versionName b) with
    | none => rw [putIn_none _ _ _ _ hb, putIn_none _ _ _ _ (hv.trans hb)]
    | some bb => rw [putIn_some _ _ _ _ bb hb, putIn_some _ _ _ _ bb (hv.trans hb)]; simp [dbVersionKey_valid]
  | addBucket x => rfl
  | bput x k v =>
    simp only [step]
    cases hb : db₂ (extraName b x) with
    | none => rw [putIn_none _ _ _ _ hb, putIn_none _ _ _ _ ((he x).trans hb)]
    | some bb => rw [putIn_some _ _ _ _ bb hb, putIn_some _ _ _ _ bb ((he x).trans hb)]; by_cases hk : validKey k <;> simp [hk]
  | bdel x k =>
    simp only [step]
    cases hb : db₂ (extraName b x) with
    | none => rw [delIn_none _ _ _ hb, delIn_none _ _ _ ((he x).trans hb)]
    | some bb => rw [delIn_some _ _ _ bb hb, delIn_some _ _ _ bb ((he x).trans hb)]
  | saveBad k => rfl
  | load k => simp only [step, getFrom, hm]; cases db₂ (mainName b) <;> simp <;> split <;> rfl
  | loadRaw k => simp only [step, getFrom, hm]; cases db₂ (mainName b) <;> simp <;> split <;> rfl
  | loadVersion =>
    simp only [step, getFrom, hv]; cases db₂ (versionName b) <;> simp <;> split <;> (try split) <;> rfl
  | bget x k => simp only [step, getFrom, he x]; cases db₂ (extraName b x) <;> simp <;> split <;> rfl

/-- **c16_isolation** (frame): a call of service `a` leaves every bucket that an independent
service `b` can name exactly as it was — keys, version cell, additional buckets — and therefore
every call `b` makes afterwards returns what it would have returned without `a`'s call. -/
theorem c16_isolation (known : List Bytes) (a b : Bytes) (h : Indep a b) (db : Db) (op : Op) :
    (∀ n, Owns b n → (step known db a op).1 n = db n) ∧
    ∀ op', (step known (step known db a op).1 b op').2 = (step known db b op').2 := by
  have hf : ∀ n, Owns b n → (step known db a op).1 n = db n :=
    fun n hn => step_frame known db a op n (fun ha => names_disjoint h ha hn)
  exact ⟨hf, fun op' => step_local known _ _ b op' hf⟩

/-- `int32(v)` -/
def toInt32 (v : Int) : Int := (v + 2147483648) % 4294967296 - 2147483648

theorem decode_encode_version (v : Int) : decodeVersion (encodeVersion v) = some (toInt32 v) := by
  have hnn : 0 ≤ v % 4294967296 := Int.emod_nonneg _ (by decide)
  have hlt : v % 4294967296 < 4294967296 := Int.emod_lt_of_pos _ (by decide)
  have hu : ((v % 4294967296).toNat : Int) = v % 4294967296 := Int.toNat_of_nonneg hnn
  simp only [encodeVersion, decodeVersion, wrap32, toInt32]
  generalize (v % 4294967296).toNat = u at hu
  have hu' : u < 4294967296 := by omega
  have hsum : u % 256 % 256 + 256 * (u / 256 % 256 % 256) + 65536 * (u / 65536 % 256 % 256)
      + 16777216 * (u / 16777216 % 256 % 256) = u := by omega
  rw [hsum]
  congr 1
  split <;> omega

/-- **c16_version_roundtrip**: the version a service saves is the version it loads, for every
version in the `int32` range; outside that range it loads `int32(v)` (the truncation is in the
code: the cell is four bytes). -/
theorem c16_version_roundtrip (known : List Bytes) (db : Db) (s : Bytes) (hr : Ready db s) (v : Int) :
    (step known (step known db s (.saveVersion v)).1 s .loadVersion).2 = .ver (toInt32 v) ∧
    (-2147483648 ≤ v → v < 2147483648 → toInt32 v = v) := by
  constructor
  · obtain ⟨bv, hbv⟩ := Option.isSome_iff_exists.mp hr.2
    simp only [step, putIn_some db _ dbVersionKey (encodeVersion v) bv hbv, dbVersionKey_valid, if_true]
    have hg : getFrom (update db (versionName s) fun k' => if k' = dbVersionKey then some (encodeVersion v) else bv k')
        (versionName s) dbVersionKey = some (some (encodeVersion v)) := by
      simp [getFrom, update]
    rw [hg]
    have hd := decode_encode_version v
    have hne : ∃ c r, encodeVersion v = c :: r := ⟨_, _, rfl⟩
    obtain ⟨c, r, hcr⟩ := hne
    rw [hcr] at hd ⊢
    simp [hd]
  · intro h1 h2; unfold toInt32; omega


/-! ### `Load` proper (decoded values), values whose encoding is the type id alone included -/

private theorem lastSaved_decodable (known : List Bytes) (s k : Bytes) (evs : List Ev) (acc : Option Bytes)
    (hdec : ∀ s' k' raw, Ev.call s' (.save k' raw) ∈ evs → decodable known raw = true)
    (h0 : ∀ raw, acc = some raw → decodable known raw = true) :
    ∀ raw, lastSaved s k evs acc = some raw → decodable known raw = true := by
  induction evs generalizing acc with
  | nil => exact h0
  | cons e evs ih =>
    have hrest : ∀ s' k' raw, Ev.call s' (.save k' raw) ∈ evs → decodable known raw = true :=
      fun s' k' raw hm => hdec s' k' raw (List.mem_cons_of_mem _ hm)
    cases e with
    | restart l => exact ih acc hrest h0
    | call s' op =>
      cases op with
      | save k' raw' =>
        simp only [lastSaved]
        split
        · exact ih _ hrest (fun raw e => by
            cases e; exact hdec s' k' raw' List.mem_cons_self)
        · exact ih acc hrest h0
      | _ => exact ih acc hrest h0

/-- **c16_load_typed**: `Load` (the decoding load) of `k` by `s` after any history over `S` returns
the value of the latest successful `Save` of `k` by `s` — never "nothing", never an error — as long as
what was saved are encodings of registered types (`network.Marshal` output: a registered 16-byte
type id followed by a body of *any* length, the empty body included); with no such save it returns
what the directory held, and nothing if it held nothing. -/
theorem c16_load_typed (known : List Bytes) (S : List Bytes) (hS : PairwiseIndep S) (evs : List Ev)
    (hev : ∀ e ∈ evs, EvIn S e) (db : Db) (hr : ∀ t ∈ S, Ready db t) (s k : Bytes) (hs : s ∈ S)
    (hdec : ∀ s' k' raw, Ev.call s' (.save k' raw) ∈ evs → decodable known raw = true)
    (h0 : ∀ raw, content db (mainName s) k = some raw → decodable known raw = true) :
    (step known (run known db evs).1 s (.load k)).2 =
      match lastSaved s k evs (content db (mainName s) k) with
      | none => .nothing
      | some raw => .val raw := by
  obtain ⟨_, h2, h3⟩ := c16_refines_map known S hS evs hev db hr (abs db) (fun _ _ => ⟨rfl, rfl, rfl⟩)
  obtain ⟨g1, _, _⟩ := sim_step known hS _ _ hs h3 h2 (.load k)
  rw [g1]
  simp only [specStep, spec_main_run]
  have hd := lastSaved_decodable known s k evs (content db (mainName s) k) hdec h0
  show (match lastSaved s k evs (content db (mainName s) k) with
      | none => Res.nothing
      | some raw => if decodable known raw then .val raw else .errUnmarshal) = _
  cases hl : lastSaved s k evs (content db (mainName s) k) with
  | none => rfl
  | some raw => simp [hd raw hl]

/-- an encoding that is a registered type id and nothing else (a value without fields, or with
empty lists only) is decodable: it loads as that value, not as "never saved" -/
theorem c16_empty_body_is_a_value (known : List Bytes) (t : Bytes) (ht : t ∈ known) (hl : t.length = 16)
    (db : Db) (s k : Bytes) (hr : Ready db s) (hk : validKey k) :
    (step known (step known db s (.save k t)).1 s (.load k)).2 = .val t := by
  obtain ⟨b, hb⟩ := Option.isSome_iff_exists.mp hr.1
  have hd : decodable known t = true := by
    simp [decodable, hl, List.take_of_length_le (Nat.le_of_eq hl), ht]
  simp only [step, putIn_some db _ k t b hb, hk, if_true]
  simp [getFrom, update, hd]

/-! ### The data directory: file names, take-over of a legacy file, close and start again -/

/-- **c16_dbfile_names**: the database file is named after the server's key alone; two keys give
the same (legacy) name only if they are the same key, and — hexadecimal notation being injective —
the names of two servers are apart as soon as their keys and the hashes of their keys are
(`h` = SHA-256 in the code: collision and fixed-point freedom on the keys in use is the premise). -/
theorem c16_dbfile_names (h : Bytes → Bytes) (pub q : Bytes) (hp : IsBytes pub) (hq : IsBytes q)
    (hhp : IsBytes (h pub)) (hhq : IsBytes (h q)) :
    (oldName pub = oldName q → pub = q) ∧
    (newName h pub = newName h q → h pub = h q) ∧
    (h pub ≠ pub → newName h pub ≠ oldName pub) ∧
    (h q ≠ h pub → q ≠ h pub → h q ≠ pub → q ≠ pub → Apart h pub q) :=
  ⟨fun e => dbName_inj hp hq e, fun e => dbName_inj hhp hhq e, self_apart h pub hp hhp,
   apart_of_hash h pub q hp hq hhp hhq⟩

/-- **c16_first_start**: what a server finds when it is made on a directory (`newServiceManager`):
a file with the legacy name is taken over — it becomes the server's file, replacing one that has
the new name already, and the legacy name is gone; without one the server's own file is opened as it
is; without either a new database is created.  In all cases the contexts of the registered services
are made and nothing stored is touched. -/
theorem c16_first_start (h : Bytes → Bytes) (d : Dir) (pub : Bytes) (services : List Bytes)
    (hself : newName h pub ≠ oldName pub) :
    startOn h d pub services (oldName pub) = none ∧
    (∀ c, d (oldName pub) = some c →
      startOn h d pub services (newName h pub) = some (startServer c services)) ∧
    (∀ c, d (oldName pub) = none → d (newName h pub) = some c →
      startOn h d pub services (newName h pub) = some (startServer c services)) ∧
    (d (oldName pub) = none → d (newName h pub) = none →
      startOn h d pub services (newName h pub) = some (startServer Db.empty services)) ∧
    ∀ n k, content ((startOn h d pub services (newName h pub)).getD Db.empty) n k = content (initialDb h d pub) n k := by
  obtain ⟨f1, f2⟩ := startOn_file h d pub services hself
  refine ⟨f2, ?_, ?_, ?_, ?_⟩
  · intro c hc; rw [f1]; simp [initialDb, hc]
  · intro c ho hc; rw [f1]; simp [initialDb, ho, hc]
  · intro ho hc; rw [f1]; simp [initialDb, ho, hc]
  · intro n k; rw [f1]; exact content_startServer _ _ _ _

/-- **c16_dir_refines_db**: from its first start on, everything the server with key `pub` does on a
data directory — calls of its services, being closed (keeping its file) and started again any number
of times with any services, while servers with other keys are started on, use and are closed on the
same directory — returns exactly what the database history `proj pub` returns on the database the
server found at its first start; its file holds the database after that history; and no legacy file
re-appears.  (This is where "a restart leaves the contents alone", which `run` builds in, is proved
from the file operations of the code.) -/
theorem c16_dir_refines_db (h : Bytes → Bytes) (known : List Bytes) (pub : Bytes)
    (hself : newName h pub ≠ oldName pub) (d : Dir) (srv : Server) (hsrv : srv.pub = pub) (services : List Bytes)
    (rest : List DEv) (hok : ∀ e ∈ rest, Fits h pub e) :
    resultsOf pub (drun h known d (.start srv services :: rest)).2 =
      (run known (initialDb h d pub) (.restart services :: proj pub rest)).2 ∧
    (drun h known d (.start srv services :: rest)).1 (newName h pub) =
      some (run known (initialDb h d pub) (.restart services :: proj pub rest)).1 ∧
    (drun h known d (.start srv services :: rest)).1 (oldName pub) = none := by
  obtain ⟨f1, f2⟩ := startOn_file h d pub services hself
  simp only [drun, run, hsrv]
  exact dir_sim h known pub hself rest hok _ _ f1 f2

/-- **c16_restart_same_directory**: a value a service saved is what a raw load returns later — also
after the server was closed and started again on the same data directory, any number of times, with
other servers using the directory in between — until the same service overwrites it; a key never
saved returns what the server found in the directory at its first start (the values a file with the
legacy name held, if there was one; nothing on a fresh directory). -/
theorem c16_restart_same_directory (h : Bytes → Bytes) (known : List Bytes) (S : List Bytes)
    (hS : PairwiseIndep S) (pub : Bytes) (hself : newName h pub ≠ oldName pub) (d : Dir) (srv : Server)
    (hsrv : srv.pub = pub) (rest : List DEv) (hok : ∀ e ∈ rest, Fits h pub e)
    (hev : ∀ e ∈ proj pub rest, EvIn S e) (s k : Bytes) (hs : s ∈ S) :
    ∃ db', (drun h known d (.start srv S :: rest)).1 (newName h pub) = some db' ∧
      (step known db' s (.loadRaw k)).2 =
        match lastSaved s k (proj pub rest) (content (initialDb h d pub) (mainName s) k) with
        | none => .nothing
        | some raw => .val raw := by
  obtain ⟨_, g2, _⟩ := c16_dir_refines_db h known pub hself d srv hsrv S rest hok
  refine ⟨_, g2, ?_⟩
  simp only [run]
  have hr : ∀ t ∈ S, Ready (startServer (initialDb h d pub) S) t := fun t ht => ready_startServer _ _ t (Or.inr ht)
  rw [c16_load_latest known S hS (proj pub rest) hev _ hr s k hs, content_startServer]

/-- a directory event of the server with key `pub` that is not a close: a start (as a regular or as a
temporary-directory server) or a storage call -/
def OwnNoClose (pub : Bytes) : DEv → Prop
  | .start srv _ => srv.pub = pub
  | .call p _ _ => p = pub
  | .close _ => False

/-- **unclean stops**: a server that is never closed — the process dies and a new one is started on the same
directory, any number of times, at any point of the history, as a regular or as a temporary-directory server
(whose `closeDatabase` would have deleted the file) — finds every value a service saved before: a raw load
returns the latest save of the same service under that key.  Nothing is kept back until `Close`: every call
has reached the file when it returns (`db.Update`). -/
theorem c16_unclean_stop_keeps (h : Bytes → Bytes) (known : List Bytes) (S : List Bytes)
    (hS : PairwiseIndep S) (pub : Bytes) (hself : newName h pub ≠ oldName pub) (d : Dir) (srv : Server)
    (hsrv : srv.pub = pub) (rest : List DEv) (hown : ∀ e ∈ rest, OwnNoClose pub e)
    (hev : ∀ e ∈ proj pub rest, EvIn S e) (s k : Bytes) (hs : s ∈ S) :
    ∃ db', (drun h known d (.start srv S :: rest)).1 (newName h pub) = some db' ∧
      (step known db' s (.loadRaw k)).2 =
        match lastSaved s k (proj pub rest) (content (initialDb h d pub) (mainName s) k) with
        | none => .nothing
        | some raw => .val raw := by
  refine c16_restart_same_directory h known S hS pub hself d srv hsrv rest (fun e he => ?_) hev s k hs
  have := hown e he
  cases e with
  | start sv l => exact .inl this
  | call p sv op => exact .inl this
  | close sv => exact absurd this (by simp [OwnNoClose])

/-- on a fresh directory: nothing but what the service itself saved -/
theorem c16_fresh_directory (h : Bytes → Bytes) (pub : Bytes) (n k : Bytes) :
    content (initialDb h Dir.empty pub) n k = none := rfl

/-- **c16_tmp_dir_forgets** (so that nobody reads more into the theorems above than they say): a
server made for a temporary directory (`newServer` with a path: the test helpers of local.go)
removes its file when it is closed; started again on the same directory it finds a new, empty
database.  The restart clause of the property is about servers made without a path. -/
theorem c16_tmp_dir_forgets (h : Bytes → Bytes) (d : Dir) (pub : Bytes) (services : List Bytes)
    (hself : newName h pub ≠ oldName pub) (hold : d (oldName pub) = none) :
    closeOn h d { pub := pub, delDb := true } (newName h pub) = none ∧
    startOn h (closeOn h d { pub := pub, delDb := true }) pub services (newName h pub) =
      some (startServer Db.empty services) := by
  have hc : closeOn h d { pub := pub, delDb := true } (newName h pub) = none := by
    simp [closeOn, setFile_same]
  refine ⟨hc, ?_⟩
  have ho : closeOn h d { pub := pub, delDb := true } (oldName pub) = none := by
    rw [closeOn_other _ _ _ _ (by simpa using hself.symm)]; exact hold
  exact (c16_first_start h _ pub services hself).2.2.2.1 ho hc

/-- a server that keeps its file: `closeOn` changes nothing at all -/
theorem c16_close_keeps (h : Bytes → Bytes) (d : Dir) (pub : Bytes) :
    closeOn h d { pub := pub, delDb := false } = d := by simp [closeOn]

/-! ### Non-vacuity -/

/-- `"c16a"`, `"c16b"`, `"c16svc"` -/
example : PairwiseIndep [[99, 49, 54, 97], [99, 49, 54, 98], [99, 49, 54, 115, 118, 99]] := by
  intro a ha b hb hne
  simp only [List.mem_cons, List.not_mem_nil, or_false] at ha hb
  rcases ha with rfl | rfl | rfl <;> rcases hb with rfl | rfl | rfl <;>
    first
    | exact absurd rfl hne
    | (refine ⟨by decide, ⟨by decide, fun x h => ?_⟩, ⟨by decide, fun x h => ?_⟩⟩ <;>
        · have := congrArg (fun l => l.take 5) h
          revert this
          simp [cUnderscore])

example : ∀ t ∈ [[99, 49, 54, 97], [99, 49, 54, 98]],
    Ready (startServer Db.empty [[99, 49, 54, 97], [99, 49, 54, 98]]) t :=
  fun t ht => ready_startServer _ _ t (Or.inr ht)

example : lastSaved [1] [2] [.call [1] (.save [2] [7]), .restart [[1]], .call [3] (.save [2] [8])] none = some [7] := by
  decide

example : toInt32 5 = 5 ∧ toInt32 2147483648 = -2147483648 ∧ toInt32 (4294967296 + 5) = 5 := by decide


/-- a hash under which two keys and their hashes are all different: the premises of
`c16_dbfile_names` / `Fits` can be met (in the code the hash is SHA-256) -/
example : Apart (fun b => 0 :: b) [1, 2] [3, 4] ∧ newName (fun b => 0 :: b) [1, 2] ≠ oldName [1, 2] := by
  constructor
  · exact apart_of_hash _ _ _ (by decide) (by decide) (by decide) (by decide)
      (by decide) (by decide) (by decide) (by decide)
  · exact self_apart _ _ (by decide) (by decide) (by decide)

/-- a directory history the restart theorem speaks about: start, save, close, another server uses the
directory, start again -/
example : ∀ e ∈ [DEv.call [1, 2] [97] (.save [107] [7]), .close { pub := [1, 2], delDb := false },
      .start { pub := [3, 4], delDb := true } [[97]], .call [3, 4] [97] (.save [107] [8]),
      .close { pub := [3, 4], delDb := true }, .start { pub := [1, 2], delDb := false } [[97]]],
    Fits (fun b => 0 :: b) [1, 2] e := by
  have ha : Apart (fun b => 0 :: b) [1, 2] [3, 4] :=
    apart_of_hash _ _ _ (by decide) (by decide) (by decide) (by decide) (by decide) (by decide) (by decide) (by decide)
  intro e he
  simp only [List.mem_cons, List.not_mem_nil, or_false] at he
  rcases he with rfl | rfl | rfl | rfl | rfl | rfl
  · exact Or.inl rfl
  · exact Or.inl ⟨rfl, rfl⟩
  · exact Or.inr ha
  · exact Or.inr ha
  · exact Or.inr ha
  · exact Or.inl rfl

/-- a type id alone is a decodable encoding -/
example : decodable [List.replicate 16 7] (List.replicate 16 7) = true := by decide

/-! ### the bucket name `GetAdditionalBucket` hands out is the service's to keep

Names are values in the model above.  In the code they are byte slices, and a service keeps the name it was given
in order to open the bucket later.  With the slices-over-arrays model of `Model/C18Slices.lean` (bytes as `Nat`):
`GetAdditionalBucket` (context.go:292-296) copies `c.bucketName` into a fresh array (`make` + `copy`) and appends `_` and
the caller's name to the **copy**. -/

open C18 in
/-- the name construction of `GetAdditionalBucket` -/
def addbName (h : Sl.Heap Nat) (bucketName : Sl.Slice) (name : List Nat) : Sl.Heap Nat × Sl.Slice :=
  name.foldl (fun st b => Sl.push st.1 st.2 b 0) (Sl.push (Sl.alloc h (Sl.read h bucketName) 0 0).1 (Sl.alloc h (Sl.read h bucketName) 0 0).2 95 0)

open C18 in
/-- without the copy (seeded change C16r2-A): `append(append(c.bucketName, '_'), name...)` -/
def addbNameShared (h : Sl.Heap Nat) (bucketName : Sl.Slice) (name : List Nat) : Sl.Heap Nat × Sl.Slice :=
  name.foldl (fun st b => Sl.push st.1 st.2 b 0) (Sl.push h bucketName 95 0)

open C18 in
theorem pushes_below (n : Nat) (name : List Nat) :
    ∀ (h : Sl.Heap Nat) (s : Sl.Slice), n ≤ h.length → n ≤ s.arr →
      Sl.Below n h (name.foldl (fun st b => Sl.push st.1 st.2 b 0) (h, s)).1 ∧
      n ≤ (name.foldl (fun st b => Sl.push st.1 st.2 b 0) (h, s)).2.arr := by
  induction name with
  | nil => intro h s _ hs; exact ⟨Sl.Below.refl _ _, hs⟩
  | cons b name ih =>
    intro h s hn hs
    have hp := Sl.push_below n h s b 0 hn hs
    have := ih (Sl.push h s b 0).1 (Sl.push h s b 0).2 (Nat.le_trans hn hp.1.1) hp.2
    exact ⟨hp.1.trans this.1, this.2⟩

open C18 in
/-- **every call of `GetAdditionalBucket` leaves all existing byte arrays alone and returns a name in an array of
its own**: `c.bucketName`, the names returned by earlier calls (of this or any other service) and whatever else a
service holds read the same afterwards — for every service name, every bucket name, any capacity behind
`c.bucketName`. -/
theorem c16_addb_name_fresh (h : Sl.Heap Nat) (bucketName : Sl.Slice) (name : List Nat) :
    Sl.Below h.length h (addbName h bucketName name).1 ∧ h.length ≤ (addbName h bucketName name).2.arr ∧
    ∀ s : Sl.Slice, s.arr < h.length → Sl.read (addbName h bucketName name).1 s = Sl.read h s := by
  have ha := Sl.alloc_below h (Sl.read h bucketName) 0 0
  have hp := Sl.push_below h.length (Sl.alloc h (Sl.read h bucketName) 0 0).1 (Sl.alloc h (Sl.read h bucketName) 0 0).2 95 0
    ha.1.1 (by rw [ha.2]; exact Nat.le_refl _)
  have hf := pushes_below h.length name _ _ (Nat.le_trans ha.1.1 hp.1.1) hp.2
  have hb : Sl.Below h.length h (addbName h bucketName name).1 := (ha.1.trans hp.1).trans hf.1
  exact ⟨hb, hf.2, fun s hs => Sl.read_below hb s hs⟩

open C18 in
/-- the witness (what seeded change C16r2-A did): a 4-byte service name in an array of 8 cells; the name returned for
bucket `x` reads `svc_k…` after the same service asked for bucket `k` when the append goes onto `c.bucketName` itself —
and stays `svc_x` with the copy; both constructions return the right bytes at the time of the call. -/
theorem c16_addb_shared_name_witness :
    let h0 : Sl.Heap Nat := [[99, 49, 54, 97, 0, 0, 0, 0]]
    let bn : Sl.Slice := { arr := 0, off := 0, len := 4, cap := 8 }
    (let a := addbNameShared h0 bn [120]; let b := addbNameShared a.1 bn [107]
     Sl.read a.1 a.2 = [99, 49, 54, 97, 95, 120] ∧ Sl.read b.1 a.2 = [99, 49, 54, 97, 95, 107]) ∧
    (let a := addbName h0 bn [120]; let b := addbName a.1 bn [107]
     Sl.read a.1 a.2 = [99, 49, 54, 97, 95, 120] ∧ Sl.read b.1 a.2 = [99, 49, 54, 97, 95, 120] ∧
     Sl.read b.1 b.2 = [99, 49, 54, 97, 95, 107] ∧ Sl.read b.1 bn = [99, 49, 54, 97]) := by
  decide

/-! ### the code regions the model stands for
Regenerated from /repo's source on every run (`harness/cmd/astfacts` → `OnetVerif/Shapes.lean`): the
calls that matter for synchronisation and data flow, the lock regions and (for decision logic) the
conditions, in source order.  A re-ordering, a dropped call or a changed condition breaks these
obligations even when no sampled input or schedule shows a difference; the check then searches for
a failing input. -/
theorem c16_shape_Context_Save :
    Shapes.context_Context_Save =
   ["network.Marshal", "tx.Bucket", "b.Put", "db.Update"] := rfl

theorem c16_shape_Context_Load :
    Shapes.context_Context_Load =
   ["tx.Bucket", "Bucket().Get", "copy", "db.View", "network.Unmarshal"] := rfl

theorem c16_shape_Context_LoadRaw :
    Shapes.context_Context_LoadRaw =
   ["tx.Bucket", "Bucket().Get", "copy", "db.View"] := rfl

theorem c16_shape_Context_LoadVersion :
    Shapes.context_Context_LoadVersion =
   ["tx.Bucket", "Bucket().Get", "copy", "db.View", "bytes.NewReader", "binary.Read"] := rfl

theorem c16_shape_Context_SaveVersion :
    Shapes.context_Context_SaveVersion =
   ["bytes.NewBuffer", "int32", "binary.Write", "tx.Bucket", "buf.Bytes", "b.Put", "db.Update"] := rfl

theorem c16_shape_Context_GetAdditionalBucket :
    Shapes.context_Context_GetAdditionalBucket =
   ["copy", "byte", "tx.CreateBucketIfNotExists", "db.Update"] := rfl

theorem c16_shape_newServer :
    Shapes.server_newServer =
   ["if:(dbPath==\"\")", "dbPathFromEnv", "else", "newStatusReporterStruct",
     "newProtocolStorage", "NewOverlay", "NewWebSocket", "newServiceManager",
     "statusReporterStruct.RegisterStatusReporter", "return:c"] := rfl

theorem c16_shape_newContext :
    Shapes.context_newContext =
   ["ServiceFactory.Name", "ServiceFactory.Name", "tx.CreateBucketIfNotExists",
     "tx.CreateBucketIfNotExists", "db.Update"] := rfl

theorem c16_shape_dbPathFromEnv :
    Shapes.server_dbPathFromEnv =
   ["os.Getenv", "if:(p==\"\")", "cfgpath.GetDataPath", "return:p"] := rfl

theorem c16_shape_newServiceManager :
    Shapes.service_newServiceManager =
   ["network.NewRoutineDispatcher", "s.updateDbFileName", "s.dbFileName", "openDb",
     "srv.ProtocolRegister", "ServiceFactory.registeredServiceIDs", "ServiceFactory.Name",
     "newContext", "ServiceFactory.start", "servicesMutex.Lock", "servicesMutex.Unlock",
     "WebSocket.registerService", "statusReporterStruct.RegisterStatusReporter"] := rfl

theorem c16_shape_openDb :
    Shapes.service_openDb =
   ["bbolt.Open"] := rfl

theorem c16_shape_serviceManager_dbFileNameOld :
    Shapes.service_serviceManager_dbFileNameOld =
   ["Public.MarshalBinary", "path.Join"] := rfl

theorem c16_shape_serviceManager_dbFileName :
    Shapes.service_serviceManager_dbFileName =
   ["Public.MarshalBinary", "sha256.New", "h.Write", "path.Join"] := rfl

theorem c16_shape_serviceManager_updateDbFileName :
    Shapes.service_serviceManager_updateDbFileName =
   ["s.dbFileNameOld", "os.Stat", "if:(err==nil)", "s.dbFileNameOld", "s.dbFileName",
     "os.Rename", "if:(err!=nil)"] := rfl

theorem c16_shape_serviceManager_closeDatabase :
    Shapes.service_serviceManager_closeDatabase =
   ["if:(s.db!=nil)", "db.Close", "if:(err!=nil)", "if:s.delDb", "s.dbFileName", "os.Remove",
     "if:(err!=nil)", "return:xerrors.Errorf(\"\",err)", "return:nil"] := rfl

theorem c16_shape_newContext_c16 :
    Shapes.context_newContext_c16 =
   ["ServiceFactory.Name", "ServiceFactory.Name",
     "assign:ctx:=&Context{overlay:o,server:c,serviceID:servID,manager:manager,bucketName:conv(ServiceFactory.Name(servID)),bucketVersionName:conv((ServiceFactory.Name(servID)+\"\"))}",
     "tx.CreateBucketIfNotExists", "assign:_,err:=tx.CreateBucketIfNotExists(ctx.bucketName)",
     "if:(err!=nil)", "return:xerrors.Errorf(\"\",err)", "tx.CreateBucketIfNotExists",
     "assign:_,err=tx.CreateBucketIfNotExists(ctx.bucketVersionName)", "if:(err!=nil)",
     "return:xerrors.Errorf(\"\",err)", "return:nil", "db.Update",
     "assign:err:=manager.db.Update(func)", "if:(err!=nil)", "return:ctx"] := rfl

theorem c16_shape_Context_Save_c16 :
    Shapes.context_Context_Save_c16 =
   ["network.Marshal", "assign:buf,err:=network.Marshal(data)", "if:(err!=nil)",
     "return:xerrors.Errorf(\"\",err)", "tx.Bucket", "assign:b:=tx.Bucket(c.bucketName)",
     "return:b.Put(key,buf)", "db.Update", "assign:err=c.manager.db.Update(func)",
     "if:(err!=nil)", "return:xerrors.Errorf(\"\",err)", "return:nil"] := rfl

theorem c16_shape_Context_Load_c16 :
    Shapes.context_Context_Load_c16 =
   ["tx.Bucket", "Bucket().Get", "assign:v:=tx.Bucket().Get(key)", "if:(v==nil)", "return:nil",
     "assign:buf=make(conv,len(v))", "copy", "return:nil", "db.View",
     "assign:err:=c.manager.db.View(func)", "if:(err!=nil)",
     "return:nil,xerrors.Errorf(\"\",err)", "if:(buf==nil)", "return:nil,nil",
     "network.Unmarshal", "assign:_,ret,err:=network.Unmarshal(buf,c.server.suite)",
     "if:(err!=nil)", "return:nil,xerrors.Errorf(\"\")", "return:ret,nil"] := rfl

theorem c16_shape_Context_LoadRaw_c16 :
    Shapes.context_Context_LoadRaw_c16 =
   ["tx.Bucket", "Bucket().Get", "assign:v:=tx.Bucket().Get(key)", "if:(v==nil)", "return:nil",
     "assign:buf=make(conv,len(v))", "copy", "return:nil", "db.View",
     "assign:err:=c.manager.db.View(func)", "if:(err!=nil)",
     "return:nil,xerrors.Errorf(\"\",err)", "return:buf,nil"] := rfl

theorem c16_shape_Context_LoadVersion_c16 :
    Shapes.context_Context_LoadVersion_c16 =
   ["tx.Bucket", "Bucket().Get", "assign:v:=tx.Bucket().Get(dbVersion)", "if:(v==nil)",
     "return:nil", "assign:buf=make(conv,len(v))", "copy", "return:nil", "db.View",
     "assign:err:=c.manager.db.View(func)", "if:(err!=nil)",
     "return:-1,xerrors.Errorf(\"\",err)", "if:(len(buf)==0)", "return:0,nil", "bytes.NewReader",
     "binary.Read", "assign:err=binary.Read(bytes.NewReader(buf),binary.LittleEndian,&version)",
     "if:(err!=nil)", "return:-1,xerrors.Errorf(\"\",err)", "return:int(version),nil"] := rfl

theorem c16_shape_Context_SaveVersion_c16 :
    Shapes.context_Context_SaveVersion_c16 =
   ["bytes.NewBuffer", "assign:buf:=bytes.NewBuffer(nil)", "int32", "binary.Write",
     "assign:err:=binary.Write(buf,binary.LittleEndian,int32(version))", "if:(err!=nil)",
     "return:xerrors.Errorf(\"\",err)", "tx.Bucket", "assign:b:=tx.Bucket(c.bucketVersionName)",
     "return:b.Put(dbVersion,buf.Bytes())", "db.Update", "assign:err=c.manager.db.Update(func)",
     "if:(err!=nil)", "return:xerrors.Errorf(\"\",err)", "return:nil"] := rfl

theorem c16_shape_Context_GetAdditionalBucket_c16 :
    Shapes.context_Context_GetAdditionalBucket_c16 =
   ["assign:bucketName:=make(conv,len(c.bucketName))", "copy", "byte",
     "assign:fullName:=append(append(bucketName,byte('_')),name)", "tx.CreateBucketIfNotExists",
     "assign:_,err:=tx.CreateBucketIfNotExists(fullName)", "if:(err!=nil)",
     "return:xerrors.Errorf(\"\",err)", "return:nil", "db.Update",
     "assign:err:=c.manager.db.Update(func)", "if:(err!=nil)", "return:c.manager.db,fullName"] := rfl

theorem c16_shape_serviceManager_dbFileNameOld_c16 :
    Shapes.service_serviceManager_dbFileNameOld_c16 =
   ["Public.MarshalBinary", "assign:pub,_:=s.server.ServerIdentity.Public.MarshalBinary()",
     "return:path.Join(s.dbPath,fmt.Sprintf(\"\",pub))"] := rfl

theorem c16_shape_serviceManager_dbFileName_c16 :
    Shapes.service_serviceManager_dbFileName_c16 =
   ["Public.MarshalBinary", "assign:pub,_:=s.server.ServerIdentity.Public.MarshalBinary()",
     "sha256.New", "assign:h:=sha256.New()", "h.Write",
     "return:path.Join(s.dbPath,fmt.Sprintf(\"\",h.Sum(nil)))"] := rfl

theorem c16_shape_serviceManager_updateDbFileName_c16 :
    Shapes.service_serviceManager_updateDbFileName_c16 =
   ["s.dbFileNameOld", "os.Stat", "assign:_,err:=os.Stat(s.dbFileNameOld())", "if:(err==nil)",
     "s.dbFileNameOld", "s.dbFileName", "os.Rename",
     "assign:err:=os.Rename(s.dbFileNameOld(),s.dbFileName())", "if:(err!=nil)"] := rfl

theorem c16_shape_serviceManager_closeDatabase_c16 :
    Shapes.service_serviceManager_closeDatabase_c16 =
   ["if:(s.db!=nil)", "db.Close", "assign:err:=s.db.Close()", "if:(err!=nil)", "if:s.delDb",
     "s.dbFileName", "os.Remove", "assign:err:=os.Remove(s.dbFileName())", "if:(err!=nil)",
     "return:xerrors.Errorf(\"\",err)", "return:nil"] := rfl


end C16
