import OnetVerif.Model.C16Core
import OnetVerif.Model.C16Dir
import OnetVerif.Gen.C16
/-! Property C16 — the definitions regenerated from the Go source (`Gen/C16.lean`, written by `harness/cmd/go2lean` on
every check run from `service.go`): `serviceManager.dbFileNameOld` and `serviceManager.dbFileName`, the names of a
server's database file.  The public key is read through `s.server.ServerIdentity.Public` (`ServerIdentity` is a
promoted field of the embedded `*network.Router`) and modelled by its binary encoding (`MarshalBinary` ↦ the bytes);
the hash object is used linearly (`sha256.New()` ↦ the empty input, `h.Write(x)` ↦ the input grows, `h.Sum(nil)` ↦
the hash of the input, the hash function a parameter); `fmt.Sprintf("%x.db", b)` ↦ `hexOf b ++ ".db"`;
`path.Join` is a parameter (the model keeps directory and file name apart).  Nothing imports this file. -/
namespace C16

/-- the public key of the server a service manager belongs to -/
def pubOf (s : Gen.C16.serviceManager) : Bytes := s.server.Router.ServerIdentity.Public

/-- **`dbFileNameOld` as translated**: the data directory joined with the model's `oldName` of the key -/
theorem c16_gen_dbFileNameOld_eq (s : Gen.C16.serviceManager) (join : Bytes → Bytes → Bytes) :
    Gen.C16.serviceManager_dbFileNameOld s join = join s.dbPath (oldName (pubOf s)) := rfl

/-- **`dbFileName` as translated**: the data directory joined with the model's `newName` of the key — the hex form of
the hash of exactly the key's encoding (nothing else is written into the hash object), then `.db` -/
theorem c16_gen_dbFileName_eq (s : Gen.C16.serviceManager) (h : Bytes → Bytes) (join : Bytes → Bytes → Bytes) :
    Gen.C16.serviceManager_dbFileName s h join = join s.dbPath (newName h (pubOf s)) := by
  simp [Gen.C16.serviceManager_dbFileName, newName, pubOf]

/-- **the bucket names as read from the source** (`newContext`, `GetAdditionalBucket`; the values are lifted out of
functions that otherwise open database transactions): the main bucket is the service's name, the version bucket
the name followed by `"version"`, an additional bucket the main name, `'_'` and the caller's name — the model's
`mainName`, `versionName`, `extraName` -/
theorem c16_gen_bucket_names (svcName : Bytes → Bytes) (servID bucket name : Bytes) :
    Gen.C16.newContext_bucketName servID svcName = mainName (svcName servID) ∧
    Gen.C16.newContext_bucketVersionName servID svcName = versionName (svcName servID) ∧
    Gen.C16.GetAdditionalBucket_fullName bucket name = extraName bucket name := ⟨rfl, rfl, rfl⟩
/-- **the decision of `LoadVersion` after the read, as translated** (`len(buf) == 0`, lifted out of a function that
opens a database transaction): with a version cell that holds `b`, the model's `loadVersion` answers 0 exactly when
the translated condition holds, and otherwise what `binary.Read` makes of the first four bytes (an error for fewer
than four).  Falsified by `buf == nil` in place of `len(buf) == 0`, by a default other than 0. -/
theorem c16_gen_loadVersion_decision (known : List Bytes) (db : Db) (svc b : Bytes)
    (h : getFrom db (versionName svc) dbVersionKey = some (some b)) :
    (step known db svc .loadVersion).2 =
      if Gen.C16.LoadVersion_empty b then .ver 0
      else match decodeVersion b with
        | some v => .ver v
        | none => .errVersion := by
  unfold step
  simp only [h]
  cases b with
  | nil => simp [Gen.C16.LoadVersion_empty, Gen.Rt.len]
  | cons x r =>
    have : ¬ ((↑(r.length) : Int) + 1 = 0) := by omega
    simp [Gen.C16.LoadVersion_empty, Gen.Rt.len, this]
    cases decodeVersion (x :: r) <;> rfl
/-- **what `SaveVersion` writes, as translated** (argument 2 of `binary.Write`: `int32(version)`, the conversion with
its two's complement wrap-around): the four bytes the model stores (`encodeVersion`) are the little-endian bytes of
exactly that number — `wrap32` is its residue modulo 2^32.  Falsified by `int64(version)` / `uint16(version)` or a
version written without the conversion. -/
theorem c16_gen_saveVersion_written (v : Int) :
    wrap32 v = (Gen.C16.SaveVersion_arg v % 4294967296).toNat := by
  unfold wrap32 Gen.C16.SaveVersion_arg Gen.Rt.wrapS
  congr 1
  omega
end C16
