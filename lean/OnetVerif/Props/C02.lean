import OnetVerif.Model.C02
import OnetVerif.Shapes
/-! Property C02 — handlers only see messages from the authenticated tree member they name. -/
namespace C02

theorem search_some {nodes : List Node} {id : Nat} {n : Node} (h : search nodes id = some n) :
    n ∈ nodes ∧ n.id = id := by
  unfold search at h
  have hm := List.mem_of_getLast? h
  have := List.mem_filter.mp hm
  exact ⟨this.1, by simpa using this.2⟩

theorem verify_some {nodes : List Node} {m : Msg} {n : Node} (h : verify nodes m = some n) :
    n ∈ nodes ∧ n.id = m.sender ∧ ∀ p, m.peer = some p → n.server = p := by
  unfold verify at h
  split at h
  · simp at h
  · rename_i n' hs
    have hs' := search_some hs
    split at h
    · simp at h; subst h
      exact ⟨hs'.1, hs'.2, by intro p hp; simp_all⟩
    · rename_i p hp
      split at h
      · simp at h; subst h
        refine ⟨hs'.1, hs'.2, ?_⟩
        intro p' hp'
        rw [hp] at hp'; simp at hp'; subst hp'; assumption
      · simp at h

/-- **soundness of one dispatch**: whatever a handler or channel receives, every element names a
node of the instance's tree, that node is the claimed sender, and its server is the peer the
transport attached to the connection the message arrived on. -/
theorem c02_batch_sound (nodes : List Node) (b : List Msg) (xs : List (Node × Msg))
    (h : deliverBatch nodes b = some xs) :
    xs.map Prod.snd = b ∧
    ∀ x ∈ xs, x.1 ∈ nodes ∧ x.1.id = x.2.sender ∧ ∀ p, x.2.peer = some p → x.1.server = p := by
  induction b generalizing xs with
  | nil => simp [deliverBatch] at h; subst h; simp
  | cons m b ih =>
    simp only [deliverBatch] at h
    split at h
    · simp at h
    · rename_i n hv
      split at h
      · simp at h
      · rename_i r hr
        simp at h; subst h
        have := ih r hr
        refine ⟨by simp [this.1], ?_⟩
        intro x hx
        simp at hx
        rcases hx with hx | hx
        · subst hx; exact verify_some hv
        · exact this.2 x hx

/-- **no partial or placeholder delivery**: if any element of a batch has a claimed sender that is
not a node of the tree, or a node hosted by another server than the connection's peer, nothing of
the batch is delivered. -/
theorem c02_bad_sender_not_delivered (nodes : List Node) (b : List Msg) (m : Msg) (hm : m ∈ b)
    (hbad : verify nodes m = none) : deliverBatch nodes b = none := by
  induction b with
  | nil => simp at hm
  | cons m' b ih =>
    simp only [deliverBatch]
    simp at hm
    rcases hm with hm | hm
    · subst hm; simp [hbad]
    · split
      · rfl
      · simp [ih hm]

/-- the three ways a claimed sender is refused -/
theorem c02_verify_none_iff (nodes : List Node) (m : Msg) :
    verify nodes m = none ↔
      search nodes m.sender = none ∨
      ∃ n p, search nodes m.sender = some n ∧ m.peer = some p ∧ n.server ≠ p := by
  unfold verify
  split
  · simp_all
  · rename_i n hs
    split
    · rename_i hp; simp [hs, hp]
    · rename_i p hp
      split
      · rename_i he; simp [hs, hp, he]
      · rename_i he; simp [hs, hp]; exact he

/-- a node id that does not occur in the tree is refused, whoever the peer is -/
theorem c02_unknown_sender_refused (nodes : List Node) (m : Msg)
    (h : ∀ n ∈ nodes, n.id ≠ m.sender) : verify nodes m = none := by
  rw [c02_verify_none_iff]; left
  unfold search
  have : nodes.filter (fun n => n.id == m.sender) = [] := by
    apply List.filter_eq_nil_iff.mpr
    intro n hn; simpa using h n hn
  simp [this]

/-- a member claiming to be a node hosted by another server is refused -/
theorem c02_impersonation_refused (nodes : List Node) (m : Msg) (p : Nat)
    (hp : m.peer = some p) (h : ∀ n ∈ nodes, n.id = m.sender → n.server ≠ p) :
    verify nodes m = none := by
  rw [c02_verify_none_iff]
  cases hs : search nodes m.sender with
  | none => left; rfl
  | some n =>
    right
    have := search_some hs
    exact ⟨n, p, rfl, hp, h n this.1 this.2⟩

/-- **completeness**: in a tree with pairwise distinct node ids, a message from a member that
arrives over that member's connection is accepted. -/
theorem c02_honest_accepted (nodes : List Node) (n : Node) (m : Msg)
    (hn : n ∈ nodes) (hid : ∀ a ∈ nodes, ∀ b ∈ nodes, a.id = b.id → a = b)
    (hs : m.sender = n.id) (hp : m.peer = some n.server) : verify nodes m = some n := by
  have hsearch : search nodes m.sender = some n := by
    unfold search
    have hmem : n ∈ nodes.filter (fun x => x.id == m.sender) := by
      apply List.mem_filter.mpr; exact ⟨hn, by simp [hs]⟩
    cases hl : (nodes.filter (fun x => x.id == m.sender)).getLast? with
    | none =>
      have hnil := List.getLast?_eq_none_iff.mp hl
      rw [hnil] at hmem; simp at hmem
    | some x =>
      have hx := List.mem_filter.mp (List.mem_of_getLast? hl)
      have : x = n := hid x hx.1 n hn (by have := hx.2; simp at this; rw [this, hs])
      rw [this]
  simp [verify, hsearch, hp]

/-- a missing sender token never reaches the instance -/
theorem c02_missing_sender_refused (i : Inst) (q : Queues) (w : Wire) (h : w.sender = none) :
    receive i q w = (q, none) := by
  simp [receive, h]

/-- **every delivery of every run is sound** — for all trees, receiving nodes, aggregated and
plain types, and all sequences of envelopes with arbitrary (claimed sender, peer) pairs. -/
theorem c02_sound (i : Inst) (q : Queues) (ws : List Wire) :
    ∀ d ∈ run i q ws, ∀ x ∈ d,
      x.1 ∈ i.nodes ∧ x.1.id = x.2.sender ∧ ∀ p, x.2.peer = some p → x.1.server = p := by
  induction ws generalizing q with
  | nil => simp [run]
  | cons w ws ih =>
    intro d hd
    simp only [run, List.mem_append] at hd
    rcases hd with hd | hd
    · cases hr : (receive i q w).2 with
      | none => simp [hr] at hd
      | some b =>
        simp [hr] at hd; subst hd
        unfold receive at hr
        split at hr
        · simp at hr
        · rename_i s _
          simp only at hr
          split at hr
          · simp at hr
          · rename_i b' _
            exact (c02_batch_sound i.nodes b' d hr).2
    · exact ih _ d hd

/-! ### non-vacuity -/
private def nodes4 : List Node := [⟨10, 0⟩, ⟨11, 1⟩, ⟨12, 2⟩, ⟨13, 3⟩]
private def inst : Inst := { nodes := nodes4, parent := some 10, nChildren := 2, agg := fun t => t == 1 }

/-- honest children 12, 13 of node 11: one batch of two; a forged third message is refused -/
example : run inst (fun _ => [])
    [⟨1, some 12, some 2, 7, none⟩, ⟨1, some 13, some 3, 8, none⟩, ⟨3, some 12, some 3, 9, none⟩, ⟨3, none, some 2, 1, none⟩, ⟨3, some 99, some 2, 1, none⟩]
    = [[(⟨12, 2⟩, ⟨1, 12, some 2, 7⟩), (⟨13, 3⟩, ⟨1, 13, some 3, 8⟩)]] := by decide

/-- one impersonating element poisons the whole aggregated batch: nothing is delivered -/
example : run inst (fun _ => []) [⟨1, some 12, some 2, 7, none⟩, ⟨1, some 13, some 2, 8, none⟩] = [] := by decide

/-- **the identity field inside the wire message is not an input**: whatever the sender writes into
the `ServerIdentity` field of the message itself, every run delivers the same — only the identity the
transport attached to the connection (`Wire.peer`) is consulted. -/
theorem c02_wire_identity_ignored (i : Inst) (q : Queues) (ws : List Wire) (f : Wire → Option Nat) :
    run i q (ws.map fun w => { w with claimed := f w }) = run i q ws := by
  induction ws generalizing q with
  | nil => rfl
  | cons w ws ih =>
    simp only [List.map_cons, run]
    have h : receive i q { w with claimed := f w } = receive i q w := rfl
    rw [h, ih]

/-- non-vacuity: a message claiming node 12 (hosted by server 2) over server 3's connection, with the
wire field saying "server 2", is refused; the honest one is delivered -/
example : run { nodes := [⟨10, 0⟩, ⟨11, 1⟩, ⟨12, 2⟩, ⟨13, 3⟩], parent := some 10, nChildren := 2, agg := fun _ => false }
    (fun _ => []) [{ ty := 3, sender := some 12, peer := some 3, val := 7, claimed := some 2 },
                   { ty := 3, sender := some 12, peer := some 2, val := 8 }]
    = [[(⟨12, 2⟩, ⟨3, 12, some 2, 8⟩)]] := by decide

/-! ### the code regions the model stands for
Regenerated from /repo's source on every run (`harness/cmd/astfacts` → `OnetVerif/Shapes.lean`): the
calls that matter for synchronisation and data flow, the lock regions and (for decision logic) the
conditions, in source order.  A re-ordering, a dropped call or a changed condition breaks these
obligations even when no sampled input or schedule shows a difference; the check then searches for
a failing input. -/
theorem c02_shape_TreeNodeInstance_createValueAndVerify :
    Shapes.treenode_TreeNodeInstance_createValueAndVerify =
   ["n.Tree", "if:(t!=nil)", "tr.Search", "if:(tn==nil)", "return:m,xerrors.New(\"\")",
     "m.Field", "Field().Set", "m.Field", "Field().Set",
     "if:(((msg.ServerIdentity!=nil)&&(tn!=nil))&&!tn.ServerIdentity.Equal(msg.ServerIdentity))",
     "return:m,xerrors.Errorf(\"\",tn.ServerIdentity,msg.ServerIdentity)", "return:m,nil"] := rfl

theorem c02_shape_TreeNodeInstance_dispatchHandler :
    Shapes.treenode_TreeNodeInstance_dispatchHandler =
   ["n.hasFlag", "to.Elem", "n.createValueAndVerify", "msgs.Index", "Index().Set", "f.Call",
     "errV.IsValid", "errV.IsNil", "n.createValueAndVerify", "f.Call", "errV.IsNil"] := rfl

theorem c02_shape_TreeNodeInstance_dispatchChannel :
    Shapes.treenode_TreeNodeInstance_dispatchChannel =
   ["defer{", "}", "n.hasFlag", "to.Elem", "to.Elem", "n.createValueAndVerify", "out.Index",
     "Index().Set", "to.Elem", "n.createValueAndVerify", "out.Len", "out.Cap",
     "msgDispatchQueueMutex.Lock", "msgDispatchQueueMutex.Unlock", "out.Send"] := rfl

theorem c02_shape_TreeNodeInstance_dispatchMsgToProtocol :
    Shapes.treenode_TreeNodeInstance_dispatchMsgToProtocol =
   ["rx.add", "n.aggregate", "n.dispatchChannel", "n.dispatchHandler"] := rfl

theorem c02_shape_Overlay_Process :
    Shapes.overlay_Overlay_Process =
   ["MsgType.Equal", "o.handleConfigMessage", "protoIO.getByPacketType", "io.Unwrap",
     "o.handleRequestTree", "o.handleSendTree", "o.handleSendTreeMarshal",
     "o.handleRequestRoster", "o.handleSendRoster", "network.MessageType", "o.TransmitMsg"] := rfl


end C02
