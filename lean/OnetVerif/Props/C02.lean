import OnetVerif.Model.C02
/-! Property C02 — property theorems, negation witnesses, `_partial` variants and non-vacuity
examples only (helper lemmas that need Mathlib go to OnetVerif/Proofs/). -/
namespace C02

end C02
