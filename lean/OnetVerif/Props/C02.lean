import OnetVerif.Model.C02
import OnetVerif.Model.C04
import OnetVerif.Shapes
/-! Property C02 — handlers only see messages from the authenticated tree member they name. -/
namespace C02

theorem search_some {nodes : List Node} {id : Nat} {n : Node} (h : search nodes id = some n) :
    n ∈ nodes ∧ n.id = id := by
  unfold search at h
  have hm := List.mem_of_getLast? h
  have := List.mem_filter.mp hm
  exact ⟨this.1, by simpa using this.2⟩

theorem verify_some {nodes : List Node} {m : Msg} {n : Node} (h : verify nodes m = some n) :
    n ∈ nodes ∧ n.id = m.sender ∧ ∀ p, m.peer = some p → n.server = p := by
  unfold verify at h
  split at h
  · simp at h
  · rename_i n' hs
    have hs' := search_some hs
    split at h
    · simp at h; subst h
      exact ⟨hs'.1, hs'.2, by intro p hp; simp_all⟩
    · rename_i p hp
      split at h
      · simp at h; subst h
        refine ⟨hs'.1, hs'.2, ?_⟩
        intro p' hp'
        rw [hp] at hp'; simp at hp'; subst hp'; assumption
      · simp at h

/-- **soundness of one dispatch**: whatever a handler or channel receives, every element names a
node of the instance's tree, that node is the claimed sender, and its server is the peer the
transport attached to the connection the message arrived on. -/
theorem c02_batch_sound (nodes : List Node) (b : List Msg) (xs : List (Node × Msg))
    (h : deliverBatch nodes b = some xs) :
    xs.map Prod.snd = b ∧
    ∀ x ∈ xs, x.1 ∈ nodes ∧ x.1.id = x.2.sender ∧ ∀ p, x.2.peer = some p → x.1.server = p := by
  induction b generalizing xs with
  | nil => simp [deliverBatch] at h; subst h; simp
  | cons m b ih =>
    simp only [deliverBatch] at h
    split at h
    · simp at h
    · rename_i n hv
      split at h
      · simp at h
      · rename_i r hr
        simp at h; subst h
        have := ih r hr
        refine ⟨by simp [this.1], ?_⟩
        intro x hx
        simp at hx
        rcases hx with hx | hx
        · subst hx; exact verify_some hv
        · exact this.2 x hx

/-- **no partial or placeholder delivery**: if any element of a batch has a claimed sender that is
not a node of the tree, or a node hosted by another server than the connection's peer, nothing of
the batch is delivered. -/
theorem c02_bad_sender_not_delivered (nodes : List Node) (b : List Msg) (m : Msg) (hm : m ∈ b)
    (hbad : verify nodes m = none) : deliverBatch nodes b = none := by
  induction b with
  | nil => simp at hm
  | cons m' b ih =>
    simp only [deliverBatch]
    simp at hm
    rcases hm with hm | hm
    · subst hm; simp [hbad]
    · split
      · rfl
      · simp [ih hm]

/-- the three ways a claimed sender is refused -/
theorem c02_verify_none_iff (nodes : List Node) (m : Msg) :
    verify nodes m = none ↔
      search nodes m.sender = none ∨
      ∃ n p, search nodes m.sender = some n ∧ m.peer = some p ∧ n.server ≠ p := by
  unfold verify
  split
  · simp_all
  · rename_i n hs
    split
    · rename_i hp; simp [hs, hp]
    · rename_i p hp
      split
      · rename_i he; simp [hs, hp, he]
      · rename_i he; simp [hs, hp]; exact he

/-- a node id that does not occur in the tree is refused, whoever the peer is -/
theorem c02_unknown_sender_refused (nodes : List Node) (m : Msg)
    (h : ∀ n ∈ nodes, n.id ≠ m.sender) : verify nodes m = none := by
  rw [c02_verify_none_iff]; left
  unfold search
  have : nodes.filter (fun n => n.id == m.sender) = [] := by
    apply List.filter_eq_nil_iff.mpr
    intro n hn; simpa using h n hn
  simp [this]

/-- a member claiming to be a node hosted by another server is refused -/
theorem c02_impersonation_refused (nodes : List Node) (m : Msg) (p : Nat)
    (hp : m.peer = some p) (h : ∀ n ∈ nodes, n.id = m.sender → n.server ≠ p) :
    verify nodes m = none := by
  rw [c02_verify_none_iff]
  cases hs : search nodes m.sender with
  | none => left; rfl
  | some n =>
    right
    have := search_some hs
    exact ⟨n, p, rfl, hp, h n this.1 this.2⟩

/-- **completeness**: in a tree with pairwise distinct node ids, a message from a member that
arrives over that member's connection is accepted. -/
theorem c02_honest_accepted (nodes : List Node) (n : Node) (m : Msg)
    (hn : n ∈ nodes) (hid : ∀ a ∈ nodes, ∀ b ∈ nodes, a.id = b.id → a = b)
    (hs : m.sender = n.id) (hp : m.peer = some n.server) : verify nodes m = some n := by
  have hsearch : search nodes m.sender = some n := by
    unfold search
    have hmem : n ∈ nodes.filter (fun x => x.id == m.sender) := by
      apply List.mem_filter.mpr; exact ⟨hn, by simp [hs]⟩
    cases hl : (nodes.filter (fun x => x.id == m.sender)).getLast? with
    | none =>
      have hnil := List.getLast?_eq_none_iff.mp hl
      rw [hnil] at hmem; simp at hmem
    | some x =>
      have hx := List.mem_filter.mp (List.mem_of_getLast? hl)
      have : x = n := hid x hx.1 n hn (by have := hx.2; simp at this; rw [this, hs])
      rw [this]
  simp [verify, hsearch, hp]

/-- a missing sender token never reaches the handlers -/
theorem c02_missing_sender_refused (i : Inst) (q : Queues) (w : Wire) (h : w.sender = none) :
    receive i q w = (q, []) := by
  simp [receive, h]

/-- the accepted-sender predicate of the statement -/
def Sound (nodes : List Node) (x : Node × Msg) : Prop :=
  x.1 ∈ nodes ∧ x.1.id = x.2.sender ∧ ∀ p, x.2.peer = some p → x.1.server = p

theorem deliverPlain_sound (nodes : List Node) (b : List Msg) :
    (∀ x ∈ deliverPlain nodes b, Sound nodes x) ∧ (deliverPlain nodes b).map Prod.snd <+: b := by
  induction b with
  | nil => simp [deliverPlain]
  | cons m b ih =>
    simp only [deliverPlain]
    split
    · simp
    · rename_i n hv
      refine ⟨?_, ?_⟩
      · intro x hx
        simp at hx
        rcases hx with hx | hx
        · subst hx; exact verify_some hv
        · exact ih.1 x hx
      · simp only [List.map_cons]
        obtain ⟨t, ht⟩ := ih.2
        exact ⟨t, by simp [ht]⟩

/-- **both dispatch forms, handlers and channels alike**: whatever `dispatch` hands over — one slice with the
whole batch, or the messages one by one — every element is sound. -/
theorem c02_dispatch_sound (i : Inst) (ty : Nat) (b : List Msg) :
    ∀ d ∈ dispatch i ty b, ∀ x ∈ d, Sound i.nodes x := by
  intro d hd x hx
  unfold dispatch at hd
  split at hd
  · cases hb : deliverBatch i.nodes b with
    | none => simp [hb] at hd
    | some xs =>
      simp [hb] at hd; subst hd
      exact (c02_batch_sound i.nodes b d hb).2 x hx
  · simp only [List.mem_map] at hd
    obtain ⟨y, hy, rfl⟩ := hd
    simp at hx; subst hx
    exact (deliverPlain_sound i.nodes b).1 _ hy

/-- **every delivery of every run is sound** — for all trees, receiving nodes, aggregated and
plain types, and all sequences of envelopes with arbitrary (claimed sender, peer) pairs. -/
theorem c02_sound (i : Inst) (q : Queues) (ws : List Wire) :
    ∀ d ∈ run i q ws, ∀ x ∈ d,
      x.1 ∈ i.nodes ∧ x.1.id = x.2.sender ∧ ∀ p, x.2.peer = some p → x.1.server = p := by
  induction ws generalizing q with
  | nil => simp [run]
  | cons w ws ih =>
    intro d hd
    simp only [run, List.mem_append] at hd
    rcases hd with hd | hd
    · unfold receive at hd
      split at hd
      · simp at hd
      · simp only at hd
        split at hd
        · simp at hd
        · rename_i b _
          exact c02_dispatch_sound i w.ty b d hd
    · exact ih _ d hd

/-- what `aggregate` releases for a type whose flag is not set is the single message itself -/
theorem aggregate_plain (i : Inst) (q : Queues) (m : Msg) (h : i.agg m.ty = false) :
    aggregate i q m = (q, some [m]) := by
  simp [aggregate, h]

/-- **never in part, never as a placeholder**: if any message of the batch `aggregate` releases has a claimed
sender that is absent from the tree or hosted by another server than its connection's peer, *nothing* of the
batch reaches the handler or channel — in the slice form because the first failure aborts the dispatch, in the
one-by-one form because such a batch is a single message. -/
theorem c02_no_partial_delivery (i : Inst) (q : Queues) (w : Wire) (s : Nat) (b : List Msg)
    (hs : w.sender = some s)
    (hb : (aggregate i q { ty := w.ty, sender := s, peer := w.peer, val := w.val }).2 = some b)
    (hbad : ∃ m ∈ b, verify i.nodes m = none) :
    (receive i q w).2 = [] := by
  obtain ⟨m, hm, hv⟩ := hbad
  simp only [receive, hs, hb, dispatch]
  split
  · simp [c02_bad_sender_not_delivered i.nodes b m hm hv]
  · rename_i hf
    have hf' : i.agg w.ty = false := by simpa using hf
    have := aggregate_plain i q { ty := w.ty, sender := s, peer := w.peer, val := w.val } hf'
    rw [this] at hb
    simp at hb; subst hb
    simp at hm; subst hm
    simp [deliverPlain, hv]

/-- **completeness at the handler, plain types**: a message of a type registered one by one whose claimed sender
the tree accepts for that peer is handed over at once, alone, with exactly that node. -/
theorem c02_honest_plain_delivered (i : Inst) (q : Queues) (w : Wire) (s : Nat) (n : Node)
    (hs : w.sender = some s) (hf : i.agg w.ty = false)
    (hv : verify i.nodes { ty := w.ty, sender := s, peer := w.peer, val := w.val } = some n) :
    receive i q w = (q, [[(n, { ty := w.ty, sender := s, peer := w.peer, val := w.val })]]) := by
  simp [receive, hs, aggregate_plain i q { ty := w.ty, sender := s, peer := w.peer, val := w.val } hf,
    dispatch, hf, deliverPlain, hv]

theorem deliverBatch_all_ok (nodes : List Node) (b : List Msg) (h : ∀ m ∈ b, (verify nodes m).isSome) :
    ∃ xs, deliverBatch nodes b = some xs ∧ xs.map Prod.snd = b := by
  induction b with
  | nil => exact ⟨[], by simp [deliverBatch]⟩
  | cons m b ih =>
    obtain ⟨xs, hx, hm⟩ := ih (fun m' hm' => h m' (by simp [hm']))
    have := h m (by simp)
    cases hv : verify nodes m with
    | none => simp [hv] at this
    | some n => exact ⟨(n, m) :: xs, by simp [deliverBatch, hv, hx], by simp [hm]⟩

/-- **completeness at the handler, aggregated types**: when the batch `aggregate` releases holds only messages
the tree accepts, the handler or channel receives exactly one slice holding exactly that batch. -/
theorem c02_honest_batch_delivered (i : Inst) (q : Queues) (w : Wire) (s : Nat) (b : List Msg)
    (hs : w.sender = some s) (hf : i.agg w.ty = true)
    (hb : (aggregate i q { ty := w.ty, sender := s, peer := w.peer, val := w.val }).2 = some b)
    (hok : ∀ m ∈ b, (verify i.nodes m).isSome) :
    ∃ xs, (receive i q w).2 = [xs] ∧ xs.map Prod.snd = b := by
  obtain ⟨xs, hx, hm⟩ := deliverBatch_all_ok i.nodes b hok
  exact ⟨xs, by simp [receive, hs, hb, dispatch, hf, hx], hm⟩

/-- completeness under the weaker premise real trees satisfy (node ids are derived from the server's key, so
nodes with equal ids are hosted by the same server — also in trees that repeat servers, property C12): a
message from a member over that member's connection is accepted, with a node of that id on that server. -/
theorem c02_honest_accepted_same_server (nodes : List Node) (n : Node) (m : Msg)
    (hn : n ∈ nodes) (hid : ∀ a ∈ nodes, ∀ b ∈ nodes, a.id = b.id → a.server = b.server)
    (hs : m.sender = n.id) (hp : m.peer = some n.server) :
    ∃ n', verify nodes m = some n' ∧ n'.id = n.id ∧ n'.server = n.server ∧ n' ∈ nodes := by
  have hmem : n ∈ nodes.filter (fun x => x.id == m.sender) := by
    apply List.mem_filter.mpr; exact ⟨hn, by simp [hs]⟩
  cases hl : (nodes.filter (fun x => x.id == m.sender)).getLast? with
  | none =>
    have hnil := List.getLast?_eq_none_iff.mp hl
    rw [hnil] at hmem; simp at hmem
  | some x =>
    have hx := List.mem_filter.mp (List.mem_of_getLast? hl)
    have hxid : x.id = n.id := by have := hx.2; simp at this; rw [this, hs]
    have hxs : x.server = n.server := hid x hx.1 n hn hxid
    refine ⟨x, ?_, hxid, hxs, hx.1⟩
    have hsearch : search nodes m.sender = some x := hl
    simp [verify, hsearch, hp, hxs]

/-! ### non-vacuity -/
private def nodes4 : List Node := [⟨10, 0⟩, ⟨11, 1⟩, ⟨12, 2⟩, ⟨13, 3⟩]
private def inst : Inst := { nodes := nodes4, parent := some 10, nChildren := 2, agg := fun t => t == 1 }

/-- honest children 12, 13 of node 11: one batch of two; a forged third message is refused -/
example : run inst (fun _ => [])
    [⟨1, some 12, some 2, 7, none⟩, ⟨1, some 13, some 3, 8, none⟩, ⟨3, some 12, some 3, 9, none⟩, ⟨3, none, some 2, 1, none⟩, ⟨3, some 99, some 2, 1, none⟩]
    = [[(⟨12, 2⟩, ⟨1, 12, some 2, 7⟩), (⟨13, 3⟩, ⟨1, 13, some 3, 8⟩)]] := by decide

/-- one impersonating element poisons the whole aggregated batch: nothing is delivered -/
example : run inst (fun _ => []) [⟨1, some 12, some 2, 7, none⟩, ⟨1, some 13, some 2, 8, none⟩] = [] := by decide

/-- the hypotheses of `c02_honest_accepted` / `_same_server` are met by this tree -/
example : ∀ a ∈ nodes4, ∀ b ∈ nodes4, a.id = b.id → a = b := by decide
/-- a tree that repeats a server (and hence a node id): the weaker premise holds, the stronger does not -/
example : let t : List Node := [⟨10, 0⟩, ⟨11, 1⟩, ⟨10, 0⟩]
    (∀ a ∈ t, ∀ b ∈ t, a.id = b.id → a.server = b.server) ∧ verify t ⟨3, 10, some 0, 5⟩ = some ⟨10, 0⟩ := by decide

/-- **the identity field inside the wire message is not an input**: whatever the sender writes into the
`ServerIdentity` field of the message itself, every run delivers the same — only the identity the
transport attached to the connection (`Wire.peer`) is consulted. -/
theorem c02_wire_identity_ignored (i : Inst) (q : Queues) (ws : List Wire) (f : Wire → Option Nat) :
    run i q (ws.map fun w => { w with claimed := f w }) = run i q ws := by
  induction ws generalizing q with
  | nil => rfl
  | cons w ws ih =>
    simp only [List.map_cons, run]
    have h : receive i q { w with claimed := f w } = receive i q w := rfl
    rw [h, ih]

/-- non-vacuity: a message claiming node 12 (hosted by server 2) over server 3's connection, with the
wire field saying "server 2", is refused; the honest one is delivered -/
example : run { nodes := [⟨10, 0⟩, ⟨11, 1⟩, ⟨12, 2⟩, ⟨13, 3⟩], parent := some 10, nChildren := 2, agg := fun _ => false }
    (fun _ => []) [{ ty := 3, sender := some 12, peer := some 3, val := 7, claimed := some 2 },
                   { ty := 3, sender := some 12, peer := some 2, val := 8 }]
    = [[(⟨12, 2⟩, ⟨3, 12, some 2, 8⟩)]] := by decide

/-! ### the transport side: the peer identity is the connection's, whatever the frame says -/

/-- **the router always names a peer**: an envelope that comes out of `Router.handleConn` or of the send-to-self
shortcut carries an identity — the branch of `createValueAndVerify` that skips the comparison (no identity)
is not reachable from the network. -/
theorem c02_router_always_names_peer (self : Nat) (ident : Nat → Nat) (a : Arrival) :
    (arrive self ident a).peer = some (a.origin self ident) ∧
    (arrive self ident a).sender = a.frame.sender ∧ (arrive self ident a).ty = a.frame.ty ∧
    (arrive self ident a).val = a.frame.val := by
  cases a <;> simp [arrive, process, handleConn, sendToSelf, Arrival.origin, Arrival.frame]

/-- the protocol message the instance sees for an envelope -/
def msgOf (w : Wire) : Option Msg := w.sender.map fun s => { ty := w.ty, sender := s, peer := w.peer, val := w.val }

private theorem aggregate_provenance (i : Inst) (q : Queues) (m : Msg) :
    (∀ t, ∀ x ∈ (aggregate i q m).1 t, x = m ∨ x ∈ q t) ∧
    (∀ b, (aggregate i q m).2 = some b → ∀ x ∈ b, x = m ∨ ∃ t, x ∈ q t) := by
  unfold aggregate
  split
  · exact ⟨fun t x hx => Or.inr hx, fun b hb x hx => by simp at hb; subst hb; simp at hx; exact Or.inl hx⟩
  · simp only
    split
    · refine ⟨?_, ?_⟩
      · intro t x hx
        by_cases e : t = m.ty
        · simp [e] at hx
        · simp [e] at hx; exact Or.inr hx
      · intro b hb x hx
        simp at hb; subst hb
        simp at hx
        rcases hx with hx | hx
        · exact Or.inr ⟨m.ty, hx⟩
        · exact Or.inl hx
    · refine ⟨?_, by simp⟩
      intro t x hx
      by_cases e : t = m.ty
      · simp [e] at hx
        rcases hx with hx | hx
        · exact Or.inr (e ▸ hx)
        · exact Or.inl hx
      · simp [e] at hx; exact Or.inr hx

private theorem dispatch_msgs (i : Inst) (ty : Nat) (b : List Msg) :
    ∀ d ∈ dispatch i ty b, ∀ x ∈ d, x.2 ∈ b := by
  intro d hd x hx
  unfold dispatch at hd
  split at hd
  · cases hb : deliverBatch i.nodes b with
    | none => simp [hb] at hd
    | some xs =>
      simp [hb] at hd; subst hd
      have := (c02_batch_sound i.nodes b d hb).1
      rw [← this]; exact List.mem_map.mpr ⟨x, hx, rfl⟩
  · simp only [List.mem_map] at hd
    obtain ⟨y, hy, rfl⟩ := hd
    simp at hx; subst hx
    have := (deliverPlain_sound i.nodes b).2
    exact this.subset (List.mem_map.mpr ⟨_, hy, rfl⟩)

/-- **nothing is made up**: every message a handler or channel receives is the image of an envelope that
arrived (or was waiting in the queues before) — type, claimed sender, peer identity and payload unchanged. -/
theorem c02_provenance (i : Inst) (q : Queues) (ws : List Wire) :
    ∀ d ∈ run i q ws, ∀ x ∈ d, (∃ w ∈ ws, msgOf w = some x.2) ∨ ∃ t, x.2 ∈ q t := by
  induction ws generalizing q with
  | nil => simp [run]
  | cons w ws ih =>
    intro d hd x hx
    simp only [run, List.mem_append] at hd
    cases hs : w.sender with
    | none =>
      simp only [receive, hs] at hd
      simp at hd
      rcases ih q d hd x hx with ⟨w', hw', h⟩ | h
      · exact Or.inl ⟨w', by simp [hw'], h⟩
      · exact Or.inr h
    | some s =>
      have hp := aggregate_provenance i q { ty := w.ty, sender := s, peer := w.peer, val := w.val }
      have hmsg : msgOf w = some { ty := w.ty, sender := s, peer := w.peer, val := w.val } := by simp [msgOf, hs]
      rcases hd with hd | hd
      · simp only [receive, hs] at hd
        split at hd
        · simp at hd
        · rename_i b hb
          have := dispatch_msgs i w.ty b d hd x hx
          rcases hp.2 b hb x.2 this with h | h
          · exact Or.inl ⟨w, by simp, by rw [hmsg, h]⟩
          · exact Or.inr h
      · have hq1 : (receive i q w).1 = (aggregate i q { ty := w.ty, sender := s, peer := w.peer, val := w.val }).1 := by
          simp [receive, hs]
        rcases ih _ d hd x hx with ⟨w', hw', h⟩ | ⟨t, h⟩
        · exact Or.inl ⟨w', by simp [hw'], h⟩
        · rw [hq1] at h
          rcases hp.1 t x.2 h with h | h
          · exact Or.inl ⟨w, by simp, by rw [hmsg, h]⟩
          · exact Or.inr ⟨t, h⟩

/-- **the statement of the property, transport included**: take any set of connections, each set up with some
identity, and any sequence of frames arriving on them (or sent by the server to itself), every field of every
frame chosen by its sender.  Whatever a handler or channel of the instance receives, each element names a node
of the instance's tree, that node is the sender the frame claimed, and the node's server is the identity of the
very connection the frame arrived on. -/
theorem c02_net_sound (i : Inst) (self : Nat) (ident : Nat → Nat) (evs : List Arrival) :
    ∀ d ∈ netRun i self ident (fun _ => []) evs, ∀ x ∈ d,
      x.1 ∈ i.nodes ∧ x.1.id = x.2.sender ∧
      ∃ a ∈ evs, a.frame.sender = some x.2.sender ∧ a.frame.ty = x.2.ty ∧ a.frame.val = x.2.val ∧
                 x.1.server = a.origin self ident := by
  intro d hd x hx
  have hsound := c02_sound i (fun _ => []) (evs.map (arrive self ident)) d hd x hx
  refine ⟨hsound.1, hsound.2.1, ?_⟩
  rcases c02_provenance i (fun _ => []) (evs.map (arrive self ident)) d hd x hx with ⟨w, hw, hm⟩ | ⟨t, h⟩
  · obtain ⟨a, ha, rfl⟩ := List.mem_map.mp hw
    have hr := c02_router_always_names_peer self ident a
    simp only [msgOf, Option.map_eq_some_iff] at hm
    obtain ⟨s, hs, hx2⟩ := hm
    refine ⟨a, ha, ?_, ?_, ?_, ?_⟩
    · rw [← hr.2.1, hs, ← hx2]
    · rw [← hr.2.2.1, ← hx2]
    · rw [← hr.2.2.2, ← hx2]
    · apply hsound.2.2; rw [← hx2]; exact hr.1
  · simp at h

/-- **what a server sends to itself is checked like everything else**: an element delivered from a frame the
server sent to itself names a node the server itself hosts -/
theorem c02_self_sent_names_own_node (i : Inst) (self : Nat) (ident : Nat → Nat) (evs : List Arrival)
    (hs : ∀ a ∈ evs, ∃ f, a = .self f) :
    ∀ d ∈ netRun i self ident (fun _ => []) evs, ∀ x ∈ d, x.1.server = self := by
  intro d hd x hx
  obtain ⟨_, _, a, ha, _, _, _, ho⟩ := c02_net_sound i self ident evs d hd x hx
  obtain ⟨f, rfl⟩ := hs a ha
  exact ho

/-- **an instance a peer conjured cannot speak for its node**: a peer can make the server create an instance for
ANY node of the tree (the destination token decides, `TransmitMsg` does not ask whether the server hosts the
node); when that instance — honest protocol code — sends to a node the server does host, the message names the
conjured node as its sender.  If that node is hosted elsewhere, nothing of it reaches a handler or channel. -/
theorem c02_conjured_instance_cannot_speak_for_others (i : Inst) (self : Nat) (ident : Nat → Nat) (j ty v : Nat)
    (h : ∀ n ∈ i.nodes, n.id = j → n.server ≠ self) :
    ∀ d ∈ netRun i self ident (fun _ => []) [localSend j ty v], d = [] := by
  intro d hd
  cases d with
  | nil => rfl
  | cons x rest =>
    exfalso
    obtain ⟨hm, hid, a, ha, hsnd, _, _, ho⟩ :=
      c02_net_sound i self ident [localSend j ty v] (x :: rest) hd x (List.mem_cons_self ..)
    simp only [List.mem_singleton] at ha
    subst ha
    simp only [localSend, Arrival.frame, sendToTreeNode, Option.some.injEq] at hsnd
    exact h x.1 hm (hid.trans hsnd.symm) ho

/-- … and it is delivered when the server does host the node (a tree in which a server hosts several nodes) -/
example : netRun { nodes := [⟨10, 0⟩, ⟨11, 1⟩, ⟨12, 0⟩], parent := none, nChildren := 2, agg := fun _ => false } 0 id
      (fun _ => []) [localSend 12 3 7, localSend 11 3 8]
    = [[(⟨12, 0⟩, ⟨3, 12, some 0, 7⟩)]] := by decide

/-- **on a TLS connection the stamped identity is the authenticated key**: whatever identity the peer announces,
an accepted connection carries the key its handshake proved -/
theorem c02_tls_setup_identity_is_proven (k a i : Nat) (h : receiveServerIdentity (some k) a = some i) : i = k := by
  unfold receiveServerIdentity at h
  simp only at h
  split at h
  · rename_i e; cases h; exact e.symm
  · cases h

/-- … and the honest announcement is accepted -/
theorem c02_tls_setup_honest_accepted (k : Nat) : receiveServerIdentity (some k) k = some k := by
  simp [receiveServerIdentity]

/-- **the statement of the property with the connection set-up inside**: every connection `c` is a TLS connection
whose handshake proved the key `key c` and on which the peer announced `ann c`, accepted by `receiveServerIdentity`
as `ident c`.  Every element a handler or channel receives names a node hosted by the server whose key the
connection's handshake proved — whatever was announced. -/
theorem c02_tls_net_sound (i : Inst) (self : Nat) (key ann ident : Nat → Nat) (evs : List Arrival)
    (hid : ∀ c, receiveServerIdentity (some (key c)) (ann c) = some (ident c)) :
    ∀ d ∈ netRun i self ident (fun _ => []) evs, ∀ x ∈ d,
      x.1 ∈ i.nodes ∧ x.1.id = x.2.sender ∧
      ∃ a ∈ evs, a.frame.sender = some x.2.sender ∧ x.1.server = a.origin self key := by
  have e : ident = key := funext fun c => c02_tls_setup_identity_is_proven _ _ _ (hid c)
  subst e
  intro d hd x hx
  obtain ⟨h1, h2, a, ha, h3, _, _, h4⟩ := c02_net_sound i self ident evs d hd x hx
  exact ⟨h1, h2, a, ha, h3, h4⟩

/-- the announcement matters on a plain connection only (that is the residual assumption of this property) -/
example : receiveServerIdentity (some 2) 1 = none ∧ receiveServerIdentity none 1 = some 1 := by decide

/-- what the frames say about their origin is not an input: the deliveries are the same for every content of
the frames' own identity field -/
theorem c02_frame_identity_ignored (i : Inst) (self : Nat) (ident : Nat → Nat) (q : Queues) (evs : List Arrival)
    (g : Frame → Option Nat) :
    netRun i self ident q (evs.map fun a => match a with
        | .conn c f => .conn c { f with claimed := g f }
        | .self f => .self { f with claimed := g f }) = netRun i self ident q evs := by
  unfold netRun
  rw [List.map_map]
  have := c02_wire_identity_ignored i q (evs.map (arrive self ident)) (fun w => g ⟨w.ty, w.sender, w.claimed, w.val⟩)
  rw [← this, List.map_map]
  congr 1
  apply List.map_congr_left
  intro a _
  cases a <;> simp [arrive, process, handleConn, sendToSelf]

/-- non-vacuity: server 3 claims node 12 (server 2) on its own connection and writes "server 2" into the frame:
refused; server 2 on its own connection: delivered; the receiving server (1) sending to itself as its own node -/
example : netRun { nodes := nodes4, parent := some 10, nChildren := 2, agg := fun _ => false } 1 id (fun _ => [])
    [.conn 3 ⟨3, some 12, some 2, 7⟩, .conn 2 ⟨3, some 12, none, 8⟩, .self ⟨3, some 11, none, 9⟩, .self ⟨3, some 12, none, 9⟩]
    = [[(⟨12, 2⟩, ⟨3, 12, some 2, 8⟩)], [(⟨11, 1⟩, ⟨3, 11, some 1, 9⟩)]] := by decide

/-! ### unknown tree, flush, re-registration: the instance as the overlay drives it -/

theorem c02_sound_ops (i : Inst) (s : St) (ops : List Op) :
    ∀ d ∈ opRun i s ops, ∀ x ∈ d,
      x.1 ∈ i.nodes ∧ x.1.id = x.2.sender ∧ ∀ p, x.2.peer = some p → x.1.server = p := by
  induction ops generalizing s with
  | nil => simp [opRun]
  | cons o ops ih =>
    intro d hd
    simp only [opRun, List.mem_append] at hd
    rcases hd with hd | hd
    · cases o with
      | msg w =>
        simp only [opStep] at hd
        split at hd
        · simp at hd
        · have := c02_sound i s.q [w] d (by simpa [run] using hd)
          exact this
      | treeArrives =>
        simp only [opStep] at hd
        split at hd
        · simp at hd
        · rename_i ws _
          exact c02_sound i s.q ws d hd
      | rereg => simp [opStep] at hd
    · exact ih _ d hd

/-- nothing is delivered while the tree is unknown; what was parked is judged by the same rule when the tree
arrives, in arrival order -/
theorem c02_parked_then_flushed (i : Inst) (q : Queues) (ws : List Wire) :
    opRun i { q := q, parked := some [] } (ws.map Op.msg ++ [.treeArrives]) = run i q ws := by
  have : ∀ (pre : List Wire), opRun i { q := q, parked := some pre } (ws.map Op.msg ++ [.treeArrives])
      = run i q (pre ++ ws) := by
    induction ws with
    | nil => intro pre; simp [opRun, opStep]
    | cons w ws ih =>
      intro pre
      simp only [List.map_cons, List.cons_append, opRun, opStep, List.nil_append]
      rw [ih (pre ++ [w])]; simp
  simpa using this []

/-! ### the tree store: other stored trees do not matter -/

/-- **membership is membership in the instance's own tree**: on a server whose store holds arbitrary other
trees (same root server, overlapping members, nodes with the claimed id …), every delivered element names a
node of the tree stored under the instance's tree id. -/
theorem c02_store_membership (s : Store) (tid : Nat) (par : Option Nat) (k : Nat) (agg : Nat → Bool)
    (nodes : List Node) (hget : s.get tid = some nodes) (q : Queues) (ws : List Wire) :
    ∀ d ∈ run (instOf s tid par k agg) q ws, ∀ x ∈ d,
      x.1 ∈ nodes ∧ x.1.id = x.2.sender ∧ ∀ p, x.2.peer = some p → x.1.server = p := by
  have := c02_sound (instOf s tid par k agg) q ws
  simpa [instOf, hget] using this

/-- the other entries of the store are not an input of the instance -/
theorem c02_other_trees_irrelevant (s s' : Store) (tid : Nat) (par : Option Nat) (k : Nat) (agg : Nat → Bool)
    (h : s.get tid = s'.get tid) : instOf s tid par k agg = instOf s' tid par k agg := by
  simp [instOf, h]

/-- a member of another stored tree that is not a member of the instance's tree is refused — also over its own
connection, also when the two trees have the same root -/
theorem c02_member_of_other_stored_tree_refused (s : Store) (tid tid' : Nat) (par : Option Nat) (k : Nat)
    (agg : Nat → Bool) (nodes other : List Node) (n : Node) (m : Msg)
    (hget : s.get tid = some nodes) (_hother : s.get tid' = some other) (_hn : n ∈ other)
    (_hs : m.sender = n.id) (_hp : m.peer = some n.server)
    (hnot : ∀ a ∈ nodes, a.id ≠ n.id) :
    verify (instOf s tid par k agg).nodes m = none := by
  simp only [instOf, hget, Option.getD_some]
  exact c02_unknown_sender_refused nodes m (by intro a ha; rw [_hs]; exact hnot a ha)

/-- non-vacuity: the store holds the instance's tree (id 0) and a tree with the same root (server 0) that also
has server 8; server 8 naming its own node over its own connection is refused, a member is accepted -/
example :
    let s : Store := [(0, nodes4), (5, [⟨10, 0⟩, ⟨18, 8⟩])]
    run (instOf s 0 (some 10) 2 (fun _ => false)) (fun _ => [])
      [⟨3, some 18, some 8, 1, none⟩, ⟨3, some 12, some 2, 2, none⟩] = [[(⟨12, 2⟩, ⟨3, 12, some 2, 2⟩)]] := by decide

/-! ### the one-by-one types as a specification: the handler sees exactly the acceptable envelopes -/

/-- the judgement on one envelope: the element the handler would get, if any -/
def accept (nodes : List Node) (w : Wire) : Option (Node × Msg) :=
  match msgOf w with
  | none => none
  | some m => (verify nodes m).map fun n => (n, m)

/-- **sound, complete, in order, once — in one statement**: for message types registered one by one, what the
handlers and channels of an instance receive over any sequence of envelopes is exactly the sub-sequence of
envelopes whose claimed sender is a node of the tree hosted by the envelope's peer, each handed over alone, in
arrival order, independently of what is queued for other types. -/
theorem c02_plain_run_is_filter (i : Inst) (q : Queues) (ws : List Wire) (hplain : ∀ w ∈ ws, i.agg w.ty = false) :
    run i q ws = (ws.filterMap (accept i.nodes)).map fun x => [x] := by
  induction ws generalizing q with
  | nil => simp [run]
  | cons w ws ih =>
    have hw := hplain w (by simp)
    have ih' := fun q' => ih q' (fun w' hw' => hplain w' (by simp [hw']))
    simp only [run, List.filterMap_cons]
    cases hs : w.sender with
    | none =>
      have : accept i.nodes w = none := by simp [accept, msgOf, hs]
      rw [this, c02_missing_sender_refused i q w hs]
      simp [ih']
    | some s =>
      have hm : msgOf w = some { ty := w.ty, sender := s, peer := w.peer, val := w.val } := by simp [msgOf, hs]
      cases hv : verify i.nodes { ty := w.ty, sender := s, peer := w.peer, val := w.val } with
      | none =>
        have : accept i.nodes w = none := by simp [accept, hm, hv]
        rw [this]
        have hr : receive i q w = (q, []) := by
          simp [receive, hs, aggregate_plain i q { ty := w.ty, sender := s, peer := w.peer, val := w.val } hw,
            dispatch, hw, deliverPlain, hv]
        rw [hr]; simp [ih']
      | some n =>
        have : accept i.nodes w = some (n, { ty := w.ty, sender := s, peer := w.peer, val := w.val }) := by
          simp [accept, hm, hv]
        rw [this, c02_honest_plain_delivered i q w s n hs hw hv]
        simp [ih']

/-- non-vacuity of `c02_plain_run_is_filter`: five envelopes of a plain type, two acceptable -/
example : (([⟨3, some 12, some 2, 1, none⟩, ⟨3, some 12, some 3, 2, none⟩, ⟨3, none, some 2, 3, none⟩,
             ⟨3, some 99, some 2, 4, none⟩, ⟨3, some 13, some 3, 5, none⟩] : List Wire).filterMap (accept nodes4))
    = [(⟨12, 2⟩, ⟨3, 12, some 2, 1⟩), (⟨13, 3⟩, ⟨3, 13, some 3, 5⟩)] := by decide

/-- non-vacuity of `c02_sound_ops` / `c02_parked_then_flushed`: two envelopes arrive before the tree, one forged;
nothing is delivered until the tree arrives, then the honest one is -/
example : opRun { nodes := nodes4, parent := some 10, nChildren := 2, agg := fun _ => false } { parked := some [] }
    [.msg ⟨3, some 12, some 3, 1, none⟩, .msg ⟨3, some 12, some 2, 2, none⟩, .treeArrives, .rereg,
     .msg ⟨3, some 13, some 3, 3, none⟩]
    = [[(⟨12, 2⟩, ⟨3, 12, some 2, 2⟩)], [(⟨13, 3⟩, ⟨3, 13, some 3, 3⟩)]] := by decide

/-! ### this model's `aggregate` is property C04's

C02 carries its own copy of `TreeNodeInstance.aggregate` (over messages that still name their claimed sender and
peer).  Seen through the map that forgets the peer and turns "claimed sender = my parent" into C04's "from the
parent", it is C04's function step for step — so everything C04 proves about batches (one per round, complete,
types and rounds never mixed) holds for the batches this model verifies. -/

def toC04Cfg (i : Inst) : C04.Cfg := { isRoot := i.parent.isNone, nChildren := i.nChildren, agg := i.agg }

def toC04Msg (i : Inst) (m : Msg) : C04.Msg :=
  { ty := m.ty, src := if i.parent = some m.sender then none else some m.sender, val := m.val }

theorem c02_aggregate_refines_c04 (i : Inst) (q : Queues) (m : Msg) :
    C04.aggregate (toC04Cfg i) (fun t => (q t).map (toC04Msg i)) (toC04Msg i m) =
      ((fun t => ((aggregate i q m).1 t).map (toC04Msg i)), (aggregate i q m).2.map (List.map (toC04Msg i))) := by
  have hb : C04.bypass (toC04Cfg i) (toC04Msg i m) = ((i.parent == some m.sender) || !i.agg m.ty) := by
    simp only [C04.bypass, C04.fromParent, toC04Cfg, toC04Msg]
    cases hp : i.parent with
    | none => simp
    | some p =>
      by_cases e : p = m.sender
      · simp [e]
      · simp [e]
  unfold C04.aggregate aggregate
  rw [hb]
  by_cases h : ((i.parent == some m.sender) || !i.agg m.ty) = true
  · simp [h]
  · simp only [h]
    have hty : (toC04Msg i m).ty = m.ty := rfl
    simp only [hty, List.length_append, List.length_map, List.length_cons, List.length_nil]
    by_cases hf : (q m.ty).length + 0 + 1 = i.nChildren
    · have hf' : (q m.ty).length + 1 = i.nChildren := by omega
      simp [hf', toC04Cfg]
      funext t; by_cases e : t = m.ty <;> simp [e]
    · have hf' : ¬ (q m.ty).length + 1 = i.nChildren := by omega
      simp [hf', toC04Cfg]
      funext t; by_cases e : t = m.ty <;> simp [e]

/-- the documented boundary for trees that repeat servers (property C12's known finding; node ids derive from
the server's key): a child hosted by the server of the receiver's parent has the parent's node id, `aggregate`
tells "from the parent" by that id, so the child's message of an aggregated type is released alone and the
batch of its siblings stays incomplete. The sender check itself is unaffected (the node is a member hosted by
the connection's peer). -/
theorem c02_child_with_parents_id_bypasses :
    run { nodes := [⟨10, 0⟩, ⟨11, 1⟩, ⟨12, 2⟩, ⟨10, 0⟩], parent := some 10, nChildren := 2, agg := fun t => t == 1 }
      (fun _ => []) [⟨1, some 12, some 2, 7, none⟩, ⟨1, some 10, some 0, 8, none⟩]
    = [[(⟨10, 0⟩, ⟨1, 10, some 0, 8⟩)]] := by decide

/-- what `aggregate` releases over a list of accepted-for-aggregation messages, with the type each batch was
released for; the final queues -/
def released (i : Inst) (q : Queues) : List Msg → Queues × List (Nat × List Msg)
  | [] => (q, [])
  | m :: l =>
    let r := aggregate i q m
    let r' := released i r.1 l
    (r'.1, (r.2.toList.map fun b => (m.ty, b)) ++ r'.2)

/-- **this model = C04's batches + the sender check**: a run is `aggregate` over the envelopes that carry a sender
token, followed by `dispatch` (the verification) of every released batch … -/
theorem c02_run_is_released_then_verified (i : Inst) (q : Queues) (ws : List Wire) :
    run i q ws = ((released i q (ws.filterMap msgOf)).2).flatMap (fun p => dispatch i p.1 p.2) ∧
    finalQ i q ws = (released i q (ws.filterMap msgOf)).1 := by
  induction ws generalizing q with
  | nil => simp [run, finalQ, released]
  | cons w ws ih =>
    cases hs : w.sender with
    | none =>
      have hm : msgOf w = none := by simp [msgOf, hs]
      have hr := c02_missing_sender_refused i q w hs
      simp only [run, finalQ, List.filterMap_cons, hm, hr]
      simpa using ih q
    | some s =>
      have hm : msgOf w = some { ty := w.ty, sender := s, peer := w.peer, val := w.val } := by simp [msgOf, hs]
      have hr1 : (receive i q w).1 = (aggregate i q { ty := w.ty, sender := s, peer := w.peer, val := w.val }).1 := by
        simp [receive, hs]
      have hr2 : (receive i q w).2 =
          ((aggregate i q { ty := w.ty, sender := s, peer := w.peer, val := w.val }).2.toList.map
            fun b => ((w.ty, b) : Nat × List Msg)).flatMap (fun p => dispatch i p.1 p.2) := by
        simp only [receive, hs]
        cases (aggregate i q { ty := w.ty, sender := s, peer := w.peer, val := w.val }).2 <;> simp
      have := ih (receive i q w).1
      simp only [run, finalQ, List.filterMap_cons, hm, released, List.flatMap_append]
      rw [this.1, this.2, hr1, hr2]
      exact ⟨rfl, rfl⟩

/-- … and the released batches are, message for message, the batches of C04's model over the same arrivals
(with "claimed sender = my parent" read as "from the parent"): every theorem of C04 about which batches exist —
one per round, complete, never mixed — is a theorem about the batches this model verifies. -/
theorem c02_released_refines_c04 (i : Inst) (q : Queues) (l : List Msg) :
    C04.run (toC04Cfg i) (fun t => (q t).map (toC04Msg i)) (l.map (toC04Msg i)) =
      ((fun t => ((released i q l).1 t).map (toC04Msg i)),
       (released i q l).2.map fun p => p.2.map (toC04Msg i)) := by
  induction l generalizing q with
  | nil => simp [C04.run, released]
  | cons m l ih =>
    simp only [List.map_cons, C04.run, released]
    rw [c02_aggregate_refines_c04 i q m]
    simp only
    rw [ih (aggregate i q m).1]
    cases (aggregate i q m).2 <;> simp

/-! ### the code regions the model stands for
Regenerated from /repo's source on every run (`harness/cmd/astfacts` → `OnetVerif/Shapes.lean`): the
calls that matter for synchronisation and data flow, the lock regions and (for decision logic) the
conditions, in source order.  A re-ordering, a dropped call or a changed condition breaks these
obligations even when no sampled input or schedule shows a difference; the check then searches for
a failing input. -/
theorem c02_shape_TreeNodeInstance_createValueAndVerify :
    Shapes.treenode_TreeNodeInstance_createValueAndVerify =
   ["n.Tree", "if:(t!=nil)", "tr.Search", "if:(tn==nil)", "return:m,xerrors.New(\"\")",
     "m.Field", "Field().Set", "m.Field", "Field().Set",
     "if:(((msg.ServerIdentity!=nil)&&(tn!=nil))&&!tn.ServerIdentity.Equal(msg.ServerIdentity))",
     "return:m,xerrors.Errorf(\"\",tn.ServerIdentity,msg.ServerIdentity)", "return:m,nil"] := rfl

theorem c02_shape_TreeNodeInstance_dispatchHandler :
    Shapes.treenode_TreeNodeInstance_dispatchHandler =
   ["n.hasFlag", "to.Elem", "n.createValueAndVerify", "msgs.Index", "Index().Set", "f.Call",
     "errV.IsValid", "errV.IsNil", "n.createValueAndVerify", "f.Call", "errV.IsNil"] := rfl

theorem c02_shape_TreeNodeInstance_dispatchChannel :
    Shapes.treenode_TreeNodeInstance_dispatchChannel =
   ["defer{", "}", "n.hasFlag", "to.Elem", "to.Elem", "n.createValueAndVerify", "out.Index",
     "Index().Set", "to.Elem", "n.createValueAndVerify", "out.Len", "out.Cap",
     "msgDispatchQueueMutex.Lock", "msgDispatchQueueMutex.Unlock", "out.Send"] := rfl

theorem c02_shape_TreeNodeInstance_dispatchMsgToProtocol :
    Shapes.treenode_TreeNodeInstance_dispatchMsgToProtocol =
   ["rx.add", "n.aggregate", "n.dispatchChannel", "n.dispatchHandler"] := rfl

theorem c02_shape_Overlay_Process :
    Shapes.overlay_Overlay_Process =
   ["MsgType.Equal", "o.handleConfigMessage", "protoIO.getByPacketType", "io.Unwrap",
     "o.handleRequestTree", "o.handleSendTree", "o.handleSendTreeMarshal",
     "o.handleRequestRoster", "o.handleSendRoster", "network.MessageType", "o.TransmitMsg"] := rfl

theorem c02_shape_TreeNodeInstance_Tree :
    Shapes.treenode_TreeNodeInstance_Tree =
   ["treeStorage.Get", "if:(tree==nil)", "return:tree"] := rfl

theorem c02_shape_Tree_Search :
    Shapes.tree_Tree_Search =
   ["if:tns.ID.Equal(tn)", "Root.Visit", "return:ret"] := rfl

theorem c02_shape_struct_ServerIdentity_Equal :
    Shapes.network_struct_ServerIdentity_Equal =
   ["if:((((si==nil)||(e2==nil))||(si.Public==nil))||(e2.Public==nil))", "return:false",
     "return:si.Public.Equal(e2.Public)"] := rfl

theorem c02_shape_TreeNodeInstance_createValueAndVerify_b2 :
    Shapes.treenode_TreeNodeInstance_createValueAndVerify_b2 =
   ["assign:m:=reflect.Indirect(reflect.New(t))", "n.Tree", "assign:tr:=n.Tree()", "if:(t!=nil)",
     "tr.Search", "assign:tn:=tr.Search(msg.From.TreeNodeID)", "if:(tn==nil)",
     "return:m,xerrors.New(\"\")", "m.Field", "Field().Set", "m.Field", "Field().Set",
     "if:(((msg.ServerIdentity!=nil)&&(tn!=nil))&&!tn.ServerIdentity.Equal(msg.ServerIdentity))",
     "return:m,xerrors.Errorf(\"\",tn.ServerIdentity,msg.ServerIdentity)", "return:m,nil"] := rfl

theorem c02_shape_TreeNodeInstance_Tree_b2 :
    Shapes.treenode_TreeNodeInstance_Tree_b2 =
   ["treeStorage.Get", "assign:tree:=n.overlay.treeStorage.Get(n.token.TreeID)",
     "if:(tree==nil)", "return:tree"] := rfl

theorem c02_shape_Tree_Search_b2 :
    Shapes.tree_Tree_Search_b2 =
   ["if:tns.ID.Equal(tn)", "assign:ret=tns", "assign:found:=func", "Root.Visit", "return:ret"] := rfl

theorem c02_shape_Overlay_Process_b2 :
    Shapes.overlay_Overlay_Process_b2 =
   ["if:env.MsgType.Equal(ConfigMsgID)", "o.handleConfigMessage", "return:",
     "protoIO.getByPacketType", "assign:io:=o.protoIO.getByPacketType(env.MsgType)", "io.Unwrap",
     "assign:inner,info,err:=io.Unwrap(env.Msg)", "if:(err!=nil)", "return:", "switch:{",
     "case:(info.RequestTree!=nil)", "o.handleRequestTree", "case:(info.ResponseTree!=nil)",
     "o.handleSendTree", "case:(info.TreeMarshal!=nil)", "o.handleSendTreeMarshal",
     "case:(info.RequestRoster!=nil)", "o.handleRequestRoster", "case:(info.Roster!=nil)",
     "o.handleSendRoster", "default", "network.MessageType",
     "assign:typ:=network.MessageType(inner)",
     "assign:protoMsg:=&ProtocolMsg{From:info.TreeNodeInfo.From,To:info.TreeNodeInfo.To,ServerIdentity:env.ServerIdentity,Msg:inner,MsgType:typ,Size:env.Size}",
     "o.TransmitMsg", "assign:err=o.TransmitMsg(protoMsg,io)", "if:(err!=nil)", "}"] := rfl

theorem c02_shape_router_Router_handleConn_b2 :
    Shapes.network_router_Router_handleConn_b2 =
   ["defer{", "c.Close", "assign:err:=c.Close()", "if:(err!=nil)", "c.Rx", "c.Tx",
     "assign:rx,tx:=c.Rx(),c.Tx()", "traffic.updateRx", "traffic.updateTx", "wg.Done",
     "r.removeConnection", "verifC10Point", "}", "verifC10Point", "c.Remote",
     "assign:address:=c.Remote()", "for:{", "c.Receive", "assign:packet,err:=c.Receive()",
     "verifC10Point", "r.Lock", "assign:paused:=r.paused", "r.Unlock", "if:(paused!=nil)",
     "recv:paused", "return:", "if:r.Closed()",
     "return:", "if:(err!=nil)", "if:xerrors.Is(err,ErrTimeout)",
     "r.triggerConnectionErrorHandlers", "return:",
     "if:(xerrors.Is(err,ErrClosed)||xerrors.Is(err,ErrEOF))",
     "r.triggerConnectionErrorHandlers", "return:", "if:xerrors.Is(err,ErrUnknown)",
     "r.triggerConnectionErrorHandlers", "return:", "continue",
     "assign:packet.ServerIdentity=remote", "verifC10Point", "msgTraffic.updateRx", "r.Dispatch",
     "assign:err:=r.Dispatch(packet)", "if:(err!=nil)", "}"] := rfl

theorem c02_shape_router_Router_Send_b2 :
    Shapes.network_router_Router_Send_b2 =
   ["range:_,msg:=msgs{", "if:(msg==nil)", "return:0,xerrors.New(\"\")", "}",
     "if:(len(msgs)==0)", "return:0,xerrors.New(\"\")", "msgTraffic.updateTx",
     "if:e.GetID().Equal(r.ServerIdentity.GetID())", "range:_,msg:=msgs{", "MessageType",
     "assign:packet:=&Envelope{ServerIdentity:e,MsgType:MessageType(msg),Msg:msg}", "r.Dispatch",
     "assign:err:=r.Dispatch(packet)", "if:(err!=nil)", "return:0,xerrors.Errorf(\"\",err)",
     "Marshal", "assign:b,err:=Marshal(msg)", "if:(err!=nil)",
     "return:0,xerrors.Errorf(\"\",err)", "assign:sent+=uint64(len(b))", "}", "return:sent,nil",
     "e.GetID", "r.connection", "assign:c:=r.connection(e.GetID())", "if:(c==nil)", "r.connect",
     "assign:c,sentLen,err=r.connect(e)", "assign:totSentLen+=sentLen", "if:(err!=nil)",
     "return:totSentLen,xerrors.Errorf(\"\",err)", "range:_,msg:=msgs{", "c.Send",
     "assign:sentLen,err:=c.Send(msg)", "assign:totSentLen+=sentLen", "if:(err!=nil)",
     "r.connect", "assign:c,sentLen,err:=r.connect(e)", "assign:totSentLen+=sentLen",
     "if:(err!=nil)", "return:totSentLen,xerrors.Errorf(\"\",err)", "c.Send",
     "assign:sentLen,err=c.Send(msg)", "assign:totSentLen+=sentLen", "if:(err!=nil)",
     "return:totSentLen,xerrors.Errorf(\"\",err)", "}", "return:totSentLen,nil"] := rfl

theorem c02_shape_struct_ServerIdentity_Equal_b2 :
    Shapes.network_struct_ServerIdentity_Equal_b2 =
   ["if:((((si==nil)||(e2==nil))||(si.Public==nil))||(e2.Public==nil))", "return:false",
     "return:si.Public.Equal(e2.Public)"] := rfl

theorem c02_shape_treeStorage_Get_b2 :
    Shapes.treestorage_treeStorage_Get_b2 =
   ["ts.Lock", "defer:ts.Unlock", "return:ts.trees[id]"] := rfl

theorem c02_shape_router_Router_receiveServerIdentity_b2 :
    Shapes.network_router_Router_receiveServerIdentity_b2 =
   ["c.Receive", "assign:nm,err:=c.Receive()", "if:(err!=nil)",
     "return:nil,xerrors.Errorf(\"\",err)", "if:(nm.MsgType!=ServerIdentityType)",
     "return:nil,xerrors.Errorf(\"\",nm.MsgType.String())",
     "assign:dst:=nm.Msg.(ServerIdentity)", "assign:tcpConn,ok:=c.(TCPConn)", "if:ok",
     "assign:tlsConn,ok:=tcpConn.conn.(tls.Conn)", "if:ok", "tlsConn.ConnectionState",
     "assign:cs:=tlsConn.ConnectionState()", "if:(len(cs.PeerCertificates)==0)",
     "return:nil,xerrors.New(\"\")", "pubFromCN",
     "assign:pub,err:=pubFromCN(tcpConn.suite,cs.PeerCertificates[0].Subject.CommonName)",
     "if:(err!=nil)", "return:nil,xerrors.Errorf(\"\",err)", "if:!pub.Equal(dst.Public)",
     "return:nil,xerrors.New(\"\")", "else", "if:!r.UnauthOk", "return:dst,nil"] := rfl



/-! ### identity messages in the middle of an established connection -/

/-- the protocol-message frames of a connection's stream -/
def framesOf : List Item → List Frame
  | [] => []
  | .frame f :: l => f :: framesOf l
  | .ident _ :: l => framesOf l

/-- **a later self-description changes nothing**: whatever the peer sends on an established connection — frames and
`ServerIdentity` messages describing any server, in any order —, the overlay gets exactly the frames, each stamped with
the identity the connection was SET UP with. -/
theorem c02_midconn_identity_ignored (remote : Nat) (items : List Item) :
    handleStream remote items = (framesOf items).map (handleConn remote) := by
  induction items with
  | nil => rfl
  | cons it l ih => cases it <;> simp [handleStream, framesOf, ih]

/-- **the property's statement over such streams**: every element a handler or channel receives from the stream of a
connection names a node of the instance's tree hosted by the server the connection was set up with — whatever
identities the peer announced in between. -/
theorem c02_midconn_sound (i : Inst) (remote : Nat) (items : List Item) :
    ∀ d ∈ run i (fun _ => []) ((handleStream remote items).map process), ∀ x ∈ d,
      x.1 ∈ i.nodes ∧ x.1.id = x.2.sender ∧ x.1.server = remote := by
  intro d hd x hx
  have hs := c02_sound i (fun _ => []) _ d hd x hx
  refine ⟨hs.1, hs.2.1, ?_⟩
  -- every wire of the run carries the set-up identity
  have hall : ∀ w ∈ (handleStream remote items).map process, w.peer = some remote := by
    intro w hw
    rw [c02_midconn_identity_ignored] at hw
    simp only [List.map_map, List.mem_map] at hw
    obtain ⟨f, _, rfl⟩ := hw
    rfl
  rcases c02_provenance i (fun _ => []) _ d hd x hx with ⟨w, hw, hm⟩ | ⟨t, ht⟩
  · simp only [msgOf, Option.map_eq_some_iff] at hm
    obtain ⟨sn, _, hx2⟩ := hm
    apply hs.2.2
    rw [← hx2]
    exact hall w hw
  · simp at ht

/-- **negation witness for the router that follows the peer's later self-descriptions** (seeded C02r7-A): member 2
connects honestly, announces itself again as member 1, names member 1's node — the handler receives the message
"from node 11", hosted by server 1, over a connection that was set up (on TLS: proved) as server 2. -/
theorem c02_midconn_adopt_variant_spoofs :
    let i : Inst := { nodes := [⟨10, 0⟩, ⟨11, 1⟩, ⟨12, 2⟩], parent := none, nChildren := 2, agg := fun _ => false }
    let items : List Item := [.ident 1, .frame { ty := 3, sender := some 11, claimed := none, val := 7 }]
    run i (fun _ => []) ((handleStreamAdopt 2 items).map process) = [[(⟨11, 1⟩, { ty := 3, sender := 11, peer := some 1, val := 7 })]] ∧
    run i (fun _ => []) ((handleStream 2 items).map process) = [] := by
  decide

end C02
