import OnetVerif.Model.C07
import OnetVerif.Model.C07Locks
import OnetVerif.Shapes
/-! Property C07 — no peer input can crash, wedge or silence a server. -/
namespace C07

/-! ### no panic -/
theorem handOver_not_panic (s : Srv) (t : TRef) (frm : Frm) (b : Body) : (handOver s t frm b).1 ≠ .panic := by
  unfold handOver; simp only; split <;> simp

theorem deliverIn_not_panic (s : Srv) (to : Tok) (frm : Frm) (b : Body) : (deliverIn s to frm b).1 ≠ .panic := by
  unfold deliverIn
  cases to with
  | none => simp
  | zero => simp
  | badNode => simp
  | done =>
    simp only
    split
    · simp
    · split <;> exact handOver_not_panic _ _ _ _
  | run => simp only; split <;> exact handOver_not_panic _ _ _ _
  | fresh t => simp only; split <;> exact handOver_not_panic _ _ _ _
  | badProto t => simp only; split <;> simp
  | badProtoNew t => simp

theorem deliver_not_panic (s : Srv) (to : Tok) (frm : Frm) (b : Body) : (deliver s to frm b).1 ≠ .panic := by
  unfold deliver
  split
  · exact deliverIn_not_panic _ _ _ _
  · exact deliverIn_not_panic _ _ _ _

theorem sendTree_not_panic (s : Srv) (tm : Option TM) (ro : Option Ro) : (sendTree s tm ro).1 ≠ .panic := by
  unfold sendTree
  cases tm with
  | none => simp
  | some tm =>
    simp only
    split
    · simp
    · cases ro with
      | none => simp
      | some ro =>
        simp only
        split
        · simp
        · split <;> simp

/-- **no panic**: in every server state, no envelope — whatever its type and field values —
makes the overlay or the instance it is handed to panic. -/
theorem c07_no_panic (s : Srv) (e : Env) : (process s e).1 ≠ .panic := by
  cases e with
  | proto to frm b =>
    simp only [process]
    split
    · simp
    · split
      · simp
      · split
        · exact deliver_not_panic _ _ _ _
        · split <;> simp
  | reqTree t v => simp only [process]; split <;> simp
  | respTree tm ro => exact sendTree_not_panic s tm ro
  | treeMarshal tm =>
    simp only [process]
    split
    · simp
    · split
      · simp
      · split
        · exact sendTree_not_panic _ _ _
        · simp
  | reqRoster r => simp [process]
  | sendRoster ro => simp only [process]; split <;> simp
  | config w d =>
    simp only [process]
    split
    · simp
    · split <;> simp

/-- no step of any finite sequence panics -/
theorem c07_no_panic_run (s : Srv) (pre : List Env) (e : Env) : (process (runEnvs s pre) e).1 ≠ .panic :=
  c07_no_panic _ e

/-! ### a generic way to carry a property of the state through `process`

`Keeps P`: every building block of `process` keeps `P`; then `process` does. -/
structure Stable (P : Srv → Prop) : Prop where
  hand : ∀ s t frm b, P s → P (handOver s t frm b).2
  crea : ∀ s to, P s → P (created s to)
  cln : ∀ s t, P s → P (clean s t)
  listK : ∀ s, P s → s.armed .K = false → P { s with doneLive := true } ∧ P { s with run := true }
  listT : ∀ s t, P s → s.armed t = false → P { s with fresh := upd s.fresh t true }
  mark : ∀ s, P s → (∀ t, P { s with protoFailed := upd s.protoFailed t true }) ∧ P { s with junkMarks := s.junkMarks + 1 }
  refresh : ∀ s t, P s → P { s with armed := upd s.armed t false }
  park : ∀ s t (x : Tok × Frm × Body), P s → s.slot t ≠ .present → treeOf x.1 = t →
      P { s with armed := upd s.armed t false, parked := upd s.parked t (s.parked t ++ [x]) } ∧
      (s.slot t = .absent → P { s with armed := upd s.armed t false, parked := upd s.parked t (s.parked t ++ [x]), slot := upd s.slot t .requested, asks := s.asks + 1 })
  store : ∀ s t r, P s → s.slot t ≠ .present →
      P { s with slot := upd s.slot t .present, armed := upd s.armed t false, parked := upd s.parked t [], treeRo := upd s.treeRo t r }
  reply : ∀ s, P s → P { s with replies := s.replies + 1 }
  ptm : ∀ s tm, P s → P { s with pendingTM := s.pendingTM ++ [tm], asks := s.asks + 1 }
  ptmDrop : ∀ s (f : TM → Bool), P s → P { s with treeLock := 0, pendingTM := s.pendingTM.filter f }
  cfg : ∀ s d, P s → P { s with cfgJunk := s.cfgJunk + 1 } ∧ P { s with cfgHas := upd s.cfgHas d true }
  take : ∀ s t, P s → P (taken s t)

theorem created_armed (s : Srv) (to : Tok) : (created s to).armed (treeOf to) = false := by
  unfold created
  cases h : destOf to <;> simp [upd]

theorem Stable.deliverIn {P : Srv → Prop} (h : Stable P) (s : Srv) (to : Tok) (frm : Frm) (b : Body) (hp : P s) :
    P (deliverIn s to frm b).2 := by
  unfold C07.deliverIn
  cases to with
  | none => exact hp
  | zero => exact hp
  | badNode => exact h.cln _ _ hp
  | done =>
    simp only
    split
    · exact h.cln _ _ hp
    · split
      · exact h.hand _ _ _ _ hp
      · exact h.hand _ _ _ _ (h.listK _ (h.crea _ _ hp) (created_armed s .done)).1
  | run =>
    simp only
    split
    · exact h.hand _ _ _ _ hp
    · exact h.hand _ _ _ _ (h.listK _ (h.crea _ _ hp) (created_armed s .run)).2
  | fresh t =>
    simp only
    split
    · exact h.hand _ _ _ _ hp
    · exact h.hand _ _ _ _ (h.listT _ t (h.crea _ _ hp) (created_armed s (.fresh t)))
  | badProto t =>
    simp only
    split
    · exact h.cln _ _ hp
    · exact h.cln _ _ ((h.mark _ (h.crea _ _ hp)).1 t)
  | badProtoNew t =>
    simp only
    exact h.cln _ _ (h.mark _ (h.crea _ _ hp)).2

theorem Stable.transmitFoundIn {P : Srv → Prop} (h : Stable P) (s : Srv) (to : Tok) (frm : Frm) (b : Body) (hp : P s) :
    P (transmitFoundIn s to frm b).2 := h.deliverIn _ _ _ _ (h.refresh _ _ hp)

theorem Stable.flushIn {P : Srv → Prop} (h : Stable P) (l : List (Tok × Frm × Body)) (s : Srv) (hp : P s) :
    P (flushIn s l) := by
  induction l generalizing s with
  | nil => exact hp
  | cons x l ih =>
    obtain ⟨to, frm, b⟩ := x
    exact ih _ (h.transmitFoundIn _ _ _ _ hp)

theorem Stable.deliver {P : Srv → Prop} (h : Stable P) (s : Srv) (to : Tok) (frm : Frm) (b : Body) (hp : P s) :
    P (deliver s to frm b).2 := by
  unfold C07.deliver
  split
  · exact h.flushIn _ _ (h.deliverIn _ _ _ _ (h.take _ _ hp))
  · exact h.deliverIn _ _ _ _ hp

theorem Stable.transmitFound {P : Srv → Prop} (h : Stable P) (s : Srv) (to : Tok) (frm : Frm) (b : Body) (hp : P s) :
    P (transmitFound s to frm b).2 := h.deliver _ _ _ _ (h.refresh _ _ hp)

theorem Stable.flush {P : Srv → Prop} (h : Stable P) (l : List (Tok × Frm × Body)) (s : Srv) (hp : P s) :
    P (flush s l) := by
  induction l generalizing s with
  | nil => exact hp
  | cons x l ih =>
    obtain ⟨to, frm, b⟩ := x
    exact ih _ (h.transmitFound _ _ _ _ hp)

theorem Stable.storeAndFlush {P : Srv → Prop} (h : Stable P) (s : Srv) (t : TRef) (r : RoRef) (hp : P s)
    (hs : s.slot t ≠ .present) : P (storeAndFlush s t r) :=
  h.flush _ _ (h.store _ _ _ hp hs)

theorem Stable.sendTree {P : Srv → Prop} (h : Stable P) (s : Srv) (tm : Option TM) (ro : Option Ro) (hp : P s) :
    P (sendTree s tm ro).2 := by
  unfold C07.sendTree
  cases tm with
  | none => exact hp
  | some tm =>
    simp only
    split
    · exact hp
    · cases ro with
      | none => exact hp
      | some ro =>
        simp only
        split
        · exact hp
        · rename_i hr
          split
          · exact h.storeAndFlush _ _ _ hp (by simp at hr; simp [hr])
          · exact hp

theorem Stable.fold {P : Srv → Prop} (h : Stable P) (ro : Ro) (l : List TM) (s : Srv) (hp : P s) :
    P (l.foldl (fun acc tm =>
        if acc.slot tm.id = .present then acc
        else if makeTree tm ro then C07.storeAndFlush acc tm.id ro.id else acc) s) := by
  induction l generalizing s with
  | nil => exact hp
  | cons tm l ih =>
    simp only [List.foldl_cons]
    apply ih
    split
    · exact hp
    · rename_i hs
      split
      · exact h.storeAndFlush _ _ _ hp hs
      · exact hp

/-- every property that the building blocks keep is kept by every envelope -/
theorem Stable.process {P : Srv → Prop} (h : Stable P) (s : Srv) (e : Env) (hp : P s) : P (process s e).2 := by
  cases e with
  | proto to frm b =>
    simp only [C07.process]
    split
    · exact hp
    · split
      · exact hp
      · split
        · exact h.transmitFound _ _ _ _ hp
        · rename_i hs
          have hk := h.park s (treeOf to) (to, frm, b) hp hs rfl
          split
          · rename_i ha
            exact hk.2 (by simpa using ha)
          · exact hk.1
  | reqTree t v => simp only [C07.process]; split; exact h.reply _ hp; exact hp
  | respTree tm ro => exact h.sendTree _ _ _ hp
  | treeMarshal tm =>
    simp only [C07.process]
    split
    · exact hp
    · split
      · exact hp
      · split
        · exact h.sendTree _ _ _ hp
        · exact h.ptm _ _ hp
  | reqRoster r => exact h.reply _ hp
  | sendRoster ro =>
    simp only [C07.process]
    split
    · exact hp
    · exact h.ptmDrop _ _ (h.fold ro _ s hp)
  | config w d =>
    simp only [C07.process]
    split
    · exact hp
    · split
      · exact (h.cfg _ d hp).1
      · exact (h.cfg _ d hp).2

theorem Stable.run {P : Srv → Prop} (h : Stable P) (es : List Env) (s : Srv) (hp : P s) : P (runEnvs s es) := by
  induction es generalizing s with
  | nil => exact hp
  | cons e es ih => exact ih _ (h.process s e hp)

/-! ### no lock left held -/
theorem stable_lock : Stable (fun s => s.treeLock = 0) := by
  constructor
  · intro s t frm b h; unfold handOver; simp only; split <;> exact h
  · intro s to h; unfold created; cases destOf to <;> exact h
  · intro s t h; unfold clean; split <;> exact h
  · intro s h _; exact ⟨h, h⟩
  · intro s t h _; exact h
  · intro s h; exact ⟨fun _ => h, h⟩
  · intro s t h; exact h
  · intro s t x h _ _; exact ⟨h, fun _ => h⟩
  · intro s t r h _; exact h
  · intro s h; exact h
  · intro s tm h; exact h
  · intro s f _; rfl
  · intro s d h; exact ⟨h, h⟩
  · intro s t h; exact h

/-- **no lock left held**: after every envelope the pending-tree lock is free again. -/
theorem c07_locks_released (s : Srv) (e : Env) (h : s.treeLock = 0) : (process s e).2.treeLock = 0 :=
  stable_lock.process s e h

theorem c07_locks_released_run (es : List Env) (s : Srv) (h : s.treeLock = 0) :
    (runEnvs s es).treeLock = 0 := stable_lock.run es s h

/-! ### a tree that is present is never removed or replaced by an envelope -/
theorem upd_present {f : TRef → Slot} {t x : TRef} {v : Slot} (h : f x = .present)
    (hv : v = .present ∨ t ≠ x) : upd f t v x = .present := by
  unfold upd
  by_cases e : x = t
  · rcases hv with hv | hv
    · simp [e, hv]
    · exact absurd e.symm hv
  · simp [e, h]

theorem stable_present (x : TRef) : Stable (fun s => s.slot x = .present) := by
  constructor
  · intro s t frm b h; unfold handOver; simp only; split <;> exact h
  · intro s to h; unfold created; cases destOf to <;> exact h
  · intro s t h; unfold clean; split <;> exact h
  · intro s h _; exact ⟨h, h⟩
  · intro s t h _; exact h
  · intro s h; exact ⟨fun _ => h, h⟩
  · intro s t h; exact h
  · intro s t y h hs _
    refine ⟨h, fun ha => ?_⟩
    exact upd_present h (.inr (by intro e; subst e; rw [h] at ha; cases ha))
  · intro s t r h _; exact upd_present h (.inl rfl)
  · intro s h; exact h
  · intro s tm h; exact h
  · intro s f h; exact h
  · intro s d h; exact ⟨h, h⟩
  · intro s t h; exact upd_present h (.inl rfl)

/-- **a known tree cannot be taken away or replaced** by any envelope -/
theorem c07_present_stays (s : Srv) (e : Env) (x : TRef) (h : s.slot x = .present) :
    (process s e).2.slot x = .present := (stable_present x).process s e h

theorem c07_present_stays_run (es : List Env) (s : Srv) (x : TRef) (h : s.slot x = .present) :
    (runEnvs s es).slot x = .present := (stable_present x).run es s h

/-! ### no envelope schedules the removal of a tree that an instance is using -/
def ListedSafe (s : Srv) : Prop := ∀ t, listedOn s t = true → s.armed t = false

theorem upd_false_of {f : TRef → Bool} {t x : TRef} (h : f x = false) : upd f t false x = false := by
  unfold upd; split <;> simp [h]

theorem stable_listed : Stable ListedSafe := by
  constructor
  · intro s t frm b h; unfold handOver; simp only; split <;> exact h
  · intro s to h
    unfold created
    cases destOf to
    · intro t ht; exact upd_false_of (h t ht)
    · intro t ht; exact upd_false_of (h t ht)
  · intro s t h
    unfold clean
    split
    · exact h
    · rename_i hn
      intro x hx
      have hx' : listedOn s x = true := hx
      have : x ≠ t := by intro e; subst e; exact hn hx'
      simp [upd, this, h x hx']
  · intro s h hk
    constructor
    · intro t ht
      cases t with
      | K => exact hk
      | R => exact h .R ht
      | U => exact h .U ht
      | Z => exact h .Z ht
    · intro t ht
      cases t with
      | K => exact hk
      | R => exact h .R ht
      | U => exact h .U ht
      | Z => exact h .Z ht
  · intro s t h ha x hx
    by_cases e : x = t
    · subst e; exact ha
    · apply h x
      cases x <;> cases t <;> simp_all [listedOn, upd]
  · intro s h; exact ⟨fun _ => h, h⟩
  · intro s t h x hx; exact upd_false_of (h x hx)
  · intro s t y h _ _
    exact ⟨fun x hx => upd_false_of (h x hx), fun _ x hx => upd_false_of (h x hx)⟩
  · intro s t r h _ x hx; exact upd_false_of (h x hx)
  · intro s h; exact h
  · intro s tm h; exact h
  · intro s f h; exact h
  · intro s d h; exact ⟨h, h⟩
  · intro s t h x hx; exact upd_false_of (h x hx)

/-- **no peer input schedules the removal of a tree an instance is using**: in every state reached by any
sequence of envelopes, a tree with a listed instance has no removal scheduled (messages for protocols the
server does not have, for finished tokens, … schedule it only for trees nobody uses). -/
theorem c07_used_tree_not_scheduled (es : List Env) (s : Srv) (h : ListedSafe s) : ListedSafe (runEnvs s es) :=
  stable_listed.run es s h

theorem listedSafe_init : ListedSafe {} := by intro t _; rfl

/-! ### what is parked is either still parked or its tree has arrived -/
def ParkedClean (s : Srv) : Prop := ∀ t, s.slot t = .present → s.parked t = []

theorem stable_parkedClean : Stable ParkedClean := by
  constructor
  · intro s t frm b h; unfold handOver; simp only; split <;> exact h
  · intro s to h; unfold created; cases destOf to <;> exact h
  · intro s t h; unfold clean; split <;> exact h
  · intro s h _; exact ⟨h, h⟩
  · intro s t h _; exact h
  · intro s h; exact ⟨fun _ => h, h⟩
  · intro s t h; exact h
  · intro s t y h hs _
    constructor
    · intro x hx
      have hxt : x ≠ t := by intro e; subst e; exact hs hx
      simp [upd, hxt, h x hx]
    · intro _ x hx
      have hxt : x ≠ t := by intro e; subst e; simp [upd] at hx
      simp only [upd, hxt, if_false] at hx ⊢
      exact h x hx
  · intro s t r h _ x hx
    by_cases e : x = t
    · subst e; simp [upd]
    · simp only [upd, e, if_false] at hx ⊢
      exact h x hx
  · intro s h; exact h
  · intro s tm h; exact h
  · intro s f h; exact h
  · intro s d h; exact ⟨h, h⟩
  · intro s t h x hx
    by_cases e : x = t
    · subst e; simp [taken, upd]
    · simp only [taken, upd, e, if_false] at hx ⊢
      exact h x hx

theorem stable_kept (x : Tok × Frm × Body) (t : TRef) : Stable (fun s => x ∈ s.parked t ∨ s.slot t = .present) := by
  constructor
  · intro s t' frm b h; unfold handOver; simp only; split <;> exact h
  · intro s to h; unfold created; cases destOf to <;> exact h
  · intro s t' h; unfold clean; split <;> exact h
  · intro s h _; exact ⟨h, h⟩
  · intro s t' h _; exact h
  · intro s h; exact ⟨fun _ => h, h⟩
  · intro s t' h; exact h
  · intro s t' y h hs _
    have key : x ∈ upd s.parked t' (s.parked t' ++ [y]) t ∨ s.slot t = .present := by
      rcases h with h | h
      · left
        by_cases e : t = t'
        · subst e; simp [upd, h]
        · simp [upd, e, h]
      · exact .inr h
    refine ⟨key, fun ha => ?_⟩
    rcases key with k | k
    · exact .inl k
    · right; exact upd_present k (.inr (by intro e; subst e; rw [k] at ha; cases ha))
  · intro s t' r h _
    by_cases e : t = t'
    · subst e; right; simp [upd]
    · rcases h with h | h
      · left; simp [upd, e, h]
      · right; simp [upd, e, h]
  · intro s h; exact h
  · intro s tm h; exact h
  · intro s f h; exact h
  · intro s d h; exact ⟨h, h⟩
  · intro s t' h
    by_cases e : t = t'
    · subst e; right; simp [taken, upd]
    · rcases h with h | h
      · left; simp [taken, upd, e, h]
      · right; simp [taken, upd, e, h]

/-- **a parked message is not lost**: whatever envelopes follow, a protocol message parked for a tree
stays parked until that tree is stored (and the parked messages flushed). -/
theorem c07_parked_kept (es : List Env) (s : Srv) (x : Tok × Frm × Body) (t : TRef) (h : x ∈ s.parked t) :
    x ∈ (runEnvs s es).parked t ∨ (runEnvs s es).slot t = .present :=
  (stable_kept x t).run es s (.inl h)

/-! the flush of parked messages: how many reach the protocol -/
def b2n (b : Bool) : Nat := if b then 1 else 0

/-- does a parked message reach the protocol when its tree arrives? (`dm`: the `done` token is marked) -/
def dcount (dm : Bool) : Tok × Frm × Body → Nat
  | (.run, frm, b) => b2n (reader .K frm b)
  | (.fresh t, frm, b) => b2n (reader t frm b)
  | (.done, frm, b) => if dm then 0 else b2n (reader .K frm b)
  | _ => 0

theorem handOver_delivered (s : Srv) (t : TRef) (frm : Frm) (b : Body) :
    (handOver s t frm b).2.delivered = s.delivered + b2n (reader t frm b) ∧
    (handOver s t frm b).2.doneMark = s.doneMark ∧ (handOver s t frm b).2.slot = s.slot ∧
    (handOver s t frm b).2.parked = s.parked := by
  unfold handOver
  cases h : reader t frm b <;> simp [b2n, h]

theorem created_same (s : Srv) (to : Tok) :
    (created s to).delivered = s.delivered ∧ (created s to).doneMark = s.doneMark ∧
    (created s to).slot = s.slot ∧ (created s to).parked = s.parked := by
  unfold created; cases destOf to <;> simp

theorem clean_same (s : Srv) (t : TRef) :
    (clean s t).delivered = s.delivered ∧ (clean s t).doneMark = s.doneMark ∧
    (clean s t).slot = s.slot ∧ (clean s t).parked = s.parked := by
  unfold clean; split <;> simp

theorem handOver_via (X s : Srv) (t : TRef) (frm : Frm) (b : Body) (hd : X.delivered = s.delivered)
    (hm : X.doneMark = s.doneMark) (hs : X.slot = s.slot) (hp : X.parked = s.parked) :
    (handOver X t frm b).2.delivered = s.delivered + b2n (reader t frm b) ∧
    (handOver X t frm b).2.doneMark = s.doneMark ∧ (handOver X t frm b).2.slot = s.slot ∧
    (handOver X t frm b).2.parked = s.parked := by
  have := handOver_delivered X t frm b
  rw [hd, hm, hs, hp] at this; exact this

theorem clean_via (X s : Srv) (t : TRef) (hd : X.delivered = s.delivered)
    (hm : X.doneMark = s.doneMark) (hs : X.slot = s.slot) (hp : X.parked = s.parked) :
    (clean X t).delivered = s.delivered + 0 ∧ (clean X t).doneMark = s.doneMark ∧
    (clean X t).slot = s.slot ∧ (clean X t).parked = s.parked := by
  have := clean_same X t
  rw [hd, hm, hs, hp] at this; simpa using this

theorem transmitFoundIn_delivered (s : Srv) (to : Tok) (frm : Frm) (b : Body) :
    (transmitFoundIn s to frm b).2.delivered = s.delivered + dcount s.doneMark (to, frm, b) ∧
    (transmitFoundIn s to frm b).2.doneMark = s.doneMark ∧ (transmitFoundIn s to frm b).2.slot = s.slot ∧
    (transmitFoundIn s to frm b).2.parked = s.parked := by
  unfold transmitFoundIn deliverIn
  cases to with
  | none => simp [dcount]
  | zero => simp [dcount]
  | badNode => simp only [dcount]; exact clean_via _ s .K rfl rfl rfl rfl
  | done =>
    by_cases hd : s.doneMark = true
    · have hd2 : ({ s with armed := upd s.armed (treeOf .done) false } : Srv).doneMark = true := hd
      rw [if_pos hd2]
      simp only [dcount]
      rw [if_pos hd]
      exact clean_via { s with armed := upd s.armed (treeOf .done) false } s .K rfl rfl rfl rfl
    · have hd2 : ¬ ({ s with armed := upd s.armed (treeOf .done) false } : Srv).doneMark = true := hd
      rw [if_neg hd2]
      simp only [dcount]
      rw [if_neg hd]
      split
      · exact handOver_via { s with armed := upd s.armed (treeOf .done) false } s .K frm b rfl rfl rfl rfl
      · exact handOver_via { created { s with armed := upd s.armed (treeOf .done) false } .done with doneLive := true }
          s .K frm b (created_same _ _).1 (created_same _ _).2.1 (created_same _ _).2.2.1 (created_same _ _).2.2.2
  | run =>
    simp only [dcount]
    split
    · exact handOver_via _ s .K frm b rfl rfl rfl rfl
    · exact handOver_via _ s .K frm b (created_same _ _).1 (created_same _ _).2.1 (created_same _ _).2.2.1
        (created_same _ _).2.2.2
  | fresh t =>
    simp only [dcount]
    split
    · exact handOver_via _ s t frm b rfl rfl rfl rfl
    · exact handOver_via _ s t frm b (created_same _ _).1 (created_same _ _).2.1 (created_same _ _).2.2.1
        (created_same _ _).2.2.2
  | badProto t =>
    simp only [dcount]
    split
    · exact clean_via _ s t rfl rfl rfl rfl
    · exact clean_via _ s t (created_same _ _).1 (created_same _ _).2.1 (created_same _ _).2.2.1
        (created_same _ _).2.2.2
  | badProtoNew t =>
    simp only [dcount]
    exact clean_via _ s t (created_same _ _).1 (created_same _ _).2.1 (created_same _ _).2.2.1
        (created_same _ _).2.2.2

theorem flushIn_delivered (l : List (Tok × Frm × Body)) (s : Srv) :
    (flushIn s l).delivered = s.delivered + (l.map (dcount s.doneMark)).sum ∧
    (flushIn s l).slot = s.slot ∧ (flushIn s l).parked = s.parked := by
  induction l generalizing s with
  | nil => simp [flushIn]
  | cons x l ih =>
    obtain ⟨to, frm, b⟩ := x
    simp only [flushIn, List.map_cons, List.sum_cons]
    have h := transmitFoundIn_delivered s to frm b
    have := ih (transmitFoundIn s to frm b).2
    rw [h.1, h.2.1, h.2.2.1, h.2.2.2] at this
    refine ⟨by omega, this.2.1, this.2.2⟩

/-! With nothing parked for the message's tree, and the tree there, the creation path is the plain one:
`Set` is a no-op, `hasPendingMsg` says no, no goroutine is started. -/
theorem upd_self {α : Type} (f : TRef → α) (t : TRef) : upd f t (f t) = f := by
  funext x; unfold upd; split
  · rename_i h; rw [h]
  · rfl

theorem taken_self (s : Srv) (t : TRef) (hs : s.slot t = .present) (ha : s.armed t = false) (hp : s.parked t = []) :
    taken s t = s := by
  unfold taken
  have e1 : upd s.slot t .present = s.slot := by rw [← hs]; exact upd_self _ _
  have e2 : upd s.armed t false = s.armed := by rw [← ha]; exact upd_self _ _
  have e3 : upd s.parked t [] = s.parked := by rw [← hp]; exact upd_self _ _
  rw [e1, e2, e3]

theorem deliver_clean (s : Srv) (to : Tok) (frm : Frm) (b : Body) (hs : s.slot (treeOf to) = .present)
    (ha : s.armed (treeOf to) = false) (hp : s.parked (treeOf to) = []) : deliver s to frm b = deliverIn s to frm b := by
  unfold deliver
  split
  · rw [taken_self s _ hs ha hp, hp]; rfl
  · rfl

theorem transmitFound_clean (s : Srv) (to : Tok) (frm : Frm) (b : Body) (hs : s.slot (treeOf to) = .present)
    (hp : s.parked (treeOf to) = []) : transmitFound s to frm b = transmitFoundIn s to frm b := by
  unfold transmitFound transmitFoundIn
  exact deliver_clean _ to frm b hs (by simp [upd]) hp

/-- every parked message is parked under the tree its token names (`pendingMsg` is ONE list in the code, looked
through by tree id: `parked t` is its part for `t`) -/
def Tagged (s : Srv) : Prop := ∀ t x, x ∈ s.parked t → treeOf x.1 = t

theorem mem_upd_nil {t t' : TRef} {f : TRef → List (Tok × Frm × Body)} {x : Tok × Frm × Body}
    (hx : x ∈ upd f t [] t') : x ∈ f t' := by
  unfold upd at hx
  split at hx
  · cases hx
  · exact hx

theorem stable_tagged : Stable Tagged := by
  constructor
  · intro s t frm b h; unfold handOver; simp only; split <;> exact h
  · intro s to h; unfold created; cases destOf to <;> exact h
  · intro s t h; unfold clean; split <;> exact h
  · intro s h _; exact ⟨h, h⟩
  · intro s t h _; exact h
  · intro s h; exact ⟨fun _ => h, h⟩
  · intro s t h; exact h
  · intro s t y h _ hy
    have key : ∀ t' x, x ∈ upd s.parked t (s.parked t ++ [y]) t' → treeOf x.1 = t' := by
      intro t' x hx
      unfold upd at hx
      split at hx
      · rename_i e
        subst e
        rcases List.mem_append.mp hx with hx | hx
        · exact h _ x hx
        · simp at hx; subst hx; exact hy
      · exact h t' x hx
    exact ⟨key, fun _ => key⟩
  · intro s t r h _ t' x hx; exact h t' x (mem_upd_nil hx)
  · intro s h; exact h
  · intro s tm h; exact h
  · intro s f h; exact h
  · intro s d h; exact ⟨h, h⟩
  · intro s t h t' x hx; exact h t' x (mem_upd_nil hx)

theorem tagged_init : Tagged {} := by
  intro t x hx
  cases t <;> simp at hx
  subst hx; rfl

theorem flush_clean (l : List (Tok × Frm × Body)) (s : Srv)
    (h : ∀ x ∈ l, s.slot (treeOf x.1) = .present ∧ s.parked (treeOf x.1) = []) : flush s l = flushIn s l := by
  induction l generalizing s with
  | nil => rfl
  | cons x l ih =>
    obtain ⟨to, frm, b⟩ := x
    simp only [flush, flushIn]
    have hx := h (to, frm, b) (List.mem_cons_self ..)
    rw [transmitFound_clean s to frm b hx.1 hx.2]
    apply ih
    intro y hy
    have d := transmitFoundIn_delivered s to frm b
    rw [d.2.2.1, d.2.2.2]
    exact h y (List.mem_cons_of_mem _ hy)

/-! ### still serves -/
def legitKinds : List Body := [.m3, .m4, .m1, .m2]

/-- the legitimate tree response for the requested tree R -/
def legitResp : Env := .respTree (some ⟨.R, .roR, .good⟩) (some ⟨.roR, true, true⟩)

theorem handOver_fst (s : Srv) (t : TRef) (frm : Frm) (b : Body) :
    (handOver s t frm b).1 = if reader t frm b then .ok else .ignored := by
  unfold handOver; simp only; split <;> rfl

theorem transmitFoundIn_fst_fresh (s : Srv) (t : TRef) (frm : Frm) (b : Body) :
    (transmitFoundIn s (.fresh t) frm b).1 = if reader t frm b then .ok else .ignored := by
  unfold transmitFoundIn deliverIn; simp only; split <;> exact handOver_fst _ _ _ _

theorem transmitFoundIn_fst_run (s : Srv) (frm : Frm) (b : Body) :
    (transmitFoundIn s .run frm b).1 = if reader .K frm b then .ok else .ignored := by
  unfold transmitFoundIn deliverIn; simp only; split <;> exact handOver_fst _ _ _ _

theorem legit_reader (b : Body) (hb : b ∈ legitKinds) : reader .K .member b = true ∧ b ≠ .garbage := by
  simp only [legitKinds, List.mem_cons, List.mem_nil_iff, or_false] at hb
  rcases hb with rfl | rfl | rfl | rfl <;> decide

/-- **still serves**: after *any finite sequence* of envelopes of any type with any field values, from
any starting state in which the tree K is known, (1) a legitimate protocol message of a new run on K —
of EVERY kind the protocol registers: plain or aggregated, handler or channel — is handed to its
instance and reaches the protocol, (2) so does a legitimate message for the instance that was
running, (3) a legitimate tree request (current or old version) is answered, (4) a roster request is
answered. -/
theorem c07_still_serves (es : List Env) (s0 : Srv) (hK : s0.slot .K = .present) (hc : ParkedClean s0) :
    let s := runEnvs s0 es
    (∀ b ∈ legitKinds, (process s (.proto (.fresh .K) .member b)).1 = .ok ∧
        (process s (.proto (.fresh .K) .member b)).2.delivered = s.delivered + 1) ∧
    (∀ b ∈ legitKinds, (process s (.proto .run .member b)).1 = .ok ∧
        (process s (.proto .run .member b)).2.delivered = s.delivered + 1) ∧
    (∀ v0, (process s (.reqTree .K v0)).1 = .ok ∧ (process s (.reqTree .K v0)).2.replies = s.replies + 1) ∧
    (∀ r, (process s (.reqRoster r)).1 = .ok ∧ (process s (.reqRoster r)).2.replies = s.replies + 1) := by
  have hp := c07_present_stays_run es s0 .K hK
  have hpk := stable_parkedClean.run es s0 hc .K hp
  simp only
  generalize runEnvs s0 es = s at *
  refine ⟨?_, ?_, ?_, ?_⟩
  · intro b hb
    obtain ⟨hr, hg⟩ := legit_reader b hb
    have e : process s (.proto (.fresh .K) .member b) = transmitFoundIn s (.fresh .K) .member b := by
      rw [← transmitFound_clean s (.fresh .K) .member b hp hpk]
      simp [process, treeOf, hp, hg]
    rw [e, transmitFoundIn_fst_fresh, (transmitFoundIn_delivered s (.fresh .K) .member b).1]
    simp [hr, dcount, b2n]
  · intro b hb
    obtain ⟨hr, hg⟩ := legit_reader b hb
    have e : process s (.proto .run .member b) = transmitFoundIn s .run .member b := by
      rw [← transmitFound_clean s .run .member b hp hpk]
      simp [process, treeOf, hp, hg]
    rw [e, transmitFoundIn_fst_run, (transmitFoundIn_delivered s .run .member b).1]
    simp [hr, dcount, b2n]
  · intro v0; simp [process, hp]
  · intro r; simp [process]

/-- **a requested tree is still accepted, and the run waiting for it goes on**: in any state in which the
tree R is requested, the legitimate tree response stores the tree, and EVERY message parked for it is
given to its instance: exactly those of them reach the protocol that would have reached it had the tree
been there (`dcount`), and nothing stays parked. -/
theorem c07_requested_tree_unblocks (s : Srv) (h : s.slot .R = .requested) (ht : Tagged s) :
    let s' := (process s legitResp).2
    s'.slot .R = .present ∧ s'.parked .R = [] ∧
    s'.delivered = s.delivered + ((s.parked .R).map (dcount s.doneMark)).sum := by
  simp only [legitResp, process, sendTree, h, makeTree]
  simp only [storeAndFlush]
  rw [flush_clean _ _ (by
    intro x hx
    rw [ht .R x hx]
    simp [upd])]
  have := flushIn_delivered (s.parked .R) { s with slot := upd s.slot .R .present, armed := upd s.armed .R false, parked := upd s.parked .R [], treeRo := upd s.treeRo .R .roR }
  simp at this ⊢
  refine ⟨?_, ?_, this.1⟩
  · rw [this.2.1]; simp [upd]
  · rw [this.2.2]; simp [upd]

/-- … and this after any sequence of envelopes: either R is still requested (then the theorem above
applies), or some envelope of the sequence delivered it, and then nothing is parked for it any more. -/
theorem c07_requested_tree_after_any_sequence (es : List Env) (s0 : Srv) (hc : ParkedClean s0) (ht : Tagged s0)
    (hr : s0.slot .R ≠ .absent) :
    let s := runEnvs s0 es
    let s' := (process s legitResp).2
    s'.slot .R = .present ∧ s'.parked .R = [] := by
  have hpc := stable_parkedClean.run es s0 hc
  have htg := stable_tagged.run es s0 ht
  have hne : (runEnvs s0 es).slot .R ≠ .absent := by
    have : Stable (fun s => s.slot .R ≠ .absent) := by
      constructor
      · intro s t frm b h; unfold handOver; simp only; split <;> exact h
      · intro s to h; unfold created; cases destOf to <;> exact h
      · intro s t h; unfold clean; split <;> exact h
      · intro s h _; exact ⟨h, h⟩
      · intro s t h _; exact h
      · intro s h; exact ⟨fun _ => h, h⟩
      · intro s t h; exact h
      · intro s t y h hs _
        refine ⟨h, fun _ => ?_⟩
        simp only [upd]; split <;> simp [h]
      · intro s t r h _
        simp only [upd]; split <;> simp [h]
      · intro s h; exact h
      · intro s tm h; exact h
      · intro s f h; exact h
      · intro s d h; exact ⟨h, h⟩
      · intro s t h
        simp only [taken, upd]; split <;> simp [h]
    exact this.run es s0 hr
  simp only
  generalize runEnvs s0 es = s at *
  cases hs : s.slot .R with
  | absent => exact absurd hs hne
  | requested => exact ⟨(c07_requested_tree_unblocks s hs htg).1, (c07_requested_tree_unblocks s hs htg).2.1⟩
  | present =>
    have : (process s legitResp).2 = s := by simp [legitResp, process, sendTree, hs]
    rw [this]; exact ⟨hs, hpc .R hs⟩

/-! ### the storm of the harness (concurrent envelopes that list / unlist instances while the
deprecated tree message looks through the listed instances) changes nothing but the done marks -/
theorem c07_storm_only_marks (n : Nat) (s : Srv) (hK : s.slot .K = .present) (ho : s.other = true)
    (hr : s.treeRo .K = .roK) (hpk : s.parked .K = []) :
    let s' := runEnvs s (Drv.stormEnvs n)
    s'.slot = s.slot ∧ s'.parked = s.parked ∧ s'.handed = s.handed ∧ s'.delivered = s.delivered ∧
    s'.replies = s.replies ∧ s'.asks = s.asks ∧ s'.pendingTM = s.pendingTM ∧ s'.run = s.run ∧
    s'.doneLive = s.doneLive ∧ s'.fresh = s.fresh ∧ s'.junkMarks = s.junkMarks + n := by
  induction n generalizing s with
  | zero => simp [Drv.stormEnvs, runEnvs]
  | succ n ih =>
    simp only [Drv.stormEnvs, runEnvs]
    have uu : upd (upd s.armed .K false) .K false = upd s.armed .K false := by
      funext x; simp only [upd]; split <;> rfl
    have h1 : (process s (.proto (.badProtoNew .K) .member .m3)).2 =
        { s with armed := upd s.armed .K false, junkMarks := s.junkMarks + 1 } := by
      have e : process s (.proto (.badProtoNew .K) .member .m3) = transmitFoundIn s (.badProtoNew .K) .member .m3 := by
        rw [← transmitFound_clean s (.badProtoNew .K) .member .m3 hK hpk]
        simp [process, treeOf, hK]
      rw [e]
      simp [treeOf, transmitFoundIn, deliverIn, created, destOf, clean, listedOn, ho, uu]
    rw [h1]
    have h2 : ∀ x : Srv, x.slot .K = .present → x.other = true → x.treeRo .K = .roK →
        (process x (.treeMarshal ⟨.R, .roK, .emptyChildren⟩)).2 = x := by
      intro x _ hxo hxr
      simp only [process]
      split
      · rfl
      · split
        · rfl
        · rename_i hreq
          have hreq' : x.slot .R = .requested := by simpa using hreq
          have : instanceRoster x .roK = true := by simp [instanceRoster, hxr, listedOn, hxo]
          simp [this, sendTree, hreq', makeTree]
    rw [h2 { s with armed := upd s.armed .K false, junkMarks := s.junkMarks + 1 } hK ho hr]
    have := ih { s with armed := upd s.armed .K false, junkMarks := s.junkMarks + 1 } hK ho hr hpk
    simp only at this ⊢
    obtain ⟨a, b, c, d, e, f, g, h, i, j, k⟩ := this
    exact ⟨a, b, c, d, e, f, g, h, i, j, by omega⟩

/-! ### the window between a message's tree lookup and the creation of its instance (/repo fafcac0)

A protocol message that has found its tree goes on to `transmitMux` while the tree's removal completes and other
envelopes are handled: messages for the tree are parked and the tree is requested again.  The creation stores the
tree the message holds and flushes what was parked meanwhile. -/

theorem deliverIn_eq_transmitFoundIn (X : Srv) (to : Tok) (frm : Frm) (b : Body) (ha : X.armed (treeOf to) = false) :
    deliverIn X to frm b = transmitFoundIn X to frm b := by
  unfold transmitFoundIn
  have : upd X.armed (treeOf to) false = X.armed := by rw [← ha]; exact upd_self _ _
  rw [this]

/-- **a creation releases what was parked for its tree**: in ANY state, when `TransmitMsg` creates an instance
(whether or not the protocol's constructor then succeeds), the tree is stored afterwards and nothing is parked
for it any more; the number of parked messages that reach the protocol is exactly that of those that would have
reached it had the tree been there all the time. -/
theorem c07_creation_releases_parked (s : Srv) (to : Tok) (frm : Frm) (b : Body) (hc : creating s to = true) :
    let s' := (deliver s to frm b).2
    s'.slot (treeOf to) = .present ∧ s'.parked (treeOf to) = [] ∧
    s'.delivered = s.delivered + dcount s.doneMark (to, frm, b) + ((s.parked (treeOf to)).map (dcount s.doneMark)).sum := by
  simp only [deliver, hc, if_true]
  have ha : (taken s (treeOf to)).armed (treeOf to) = false := by simp [taken, upd]
  rw [deliverIn_eq_transmitFoundIn _ to frm b ha]
  have d := transmitFoundIn_delivered (taken s (treeOf to)) to frm b
  have f := flushIn_delivered (s.parked (treeOf to)) (transmitFoundIn (taken s (treeOf to)) to frm b).2
  rw [d.1, d.2.1, d.2.2.1, d.2.2.2] at f
  refine ⟨?_, ?_, ?_⟩
  · rw [f.2.1]; simp [taken, upd]
  · rw [f.2.2]; simp [taken, upd]
  · rw [f.1]; simp [taken]

theorem window_not_panic (s : Srv) (to : Tok) (frm : Frm) (b : Body) (es : List Env) :
    (window s to frm b es).1 ≠ .panic := by
  unfold window
  simp only
  split
  · exact c07_no_panic _ _
  · exact deliver_not_panic _ _ _ _

/-- a predicate that every envelope keeps and the completed removal of an unused tree keeps is kept by a window -/
theorem Stable.window {P : Srv → Prop} (h : Stable P)
    (hx : ∀ s t, P s → listedOn s t = false → P { s with slot := upd s.slot t .absent, armed := upd s.armed t false })
    (s : Srv) (to : Tok) (frm : Frm) (b : Body) (es : List Env) (hp : P s) : P (window s to frm b es).2 := by
  unfold C07.window
  simp only
  split
  · exact h.process _ _ hp
  · rename_i hn
    have hl : listedOn s (treeOf to) = false := by
      cases hh : listedOn s (treeOf to)
      · rfl
      · exact absurd (Or.inr (Or.inr (Or.inr hh))) hn
    exact h.deliver _ _ _ _ (h.run es _ (hx s _ hp hl))

theorem rwindow_not_panic (s : Srv) (to : Tok) (frm : Frm) (b : Body) (es : List Env) :
    (rwindow s to frm b es).1 ≠ .panic := by
  unfold rwindow
  simp only
  split
  · exact c07_no_panic _ _
  · simp

/-- a predicate that every envelope keeps, and that does not look at the request counter and at the difference
between an absent and a requested tree, is kept by the window of `requestTree` -/
theorem Stable.rwindow {P : Srv → Prop} (h : Stable P)
    (hx : ∀ s t, P s → P { s with slot := upd s.slot t (if s.slot t = .absent then .requested else s.slot t), asks := s.asks + 1 })
    (s : Srv) (to : Tok) (frm : Frm) (b : Body) (es : List Env) (hp : P s) : P (rwindow s to frm b es).2 := by
  unfold C07.rwindow
  simp only
  split
  · exact h.process _ _ hp
  · rename_i hn
    have hs : s.slot (treeOf to) ≠ .present := by
      intro e
      exact hn (Or.inr (Or.inr (by rw [e]; simp)))
    exact hx _ _ (h.run es _ (h.park s (treeOf to) (to, frm, b) hp hs rfl).1)

theorem parkedClean_ask (s : Srv) (t : TRef) (h : ParkedClean s) :
    ParkedClean { s with slot := upd s.slot t (if s.slot t = .absent then .requested else s.slot t), asks := s.asks + 1 } := by
  intro x hx
  apply h x
  simp only [upd] at hx
  split at hx
  · rename_i e
    subst e
    split at hx
    · cases hx
    · exact hx
  · exact hx

/-- **a message is not lost in the window of `requestTree`**: held between `IsRegistered` and `Register` while
any envelopes are handled, the message is afterwards still parked, or its tree has arrived (and the flush took it:
`c07_quiescent_nothing_stuck`) -/
theorem c07_rwindow_parked_not_lost (s : Srv) (to : Tok) (frm : Frm) (b : Body) (es : List Env)
    (hg : b ≠ .garbage) (hn : to ≠ .none) (ha : s.slot (treeOf to) = .absent) :
    let s' := (rwindow s to frm b es).2
    (to, frm, b) ∈ s'.parked (treeOf to) ∨ s'.slot (treeOf to) = .present := by
  have hc : ¬ (b = .garbage ∨ to = .none ∨ s.slot (treeOf to) ≠ .absent) := by
    intro h
    rcases h with h | h | h
    · exact hg h
    · exact hn h
    · exact h ha
  simp only [rwindow, hc, if_false]
  have k := (stable_kept (to, frm, b) (treeOf to)).run es
    { s with armed := upd s.armed (treeOf to) false,
             parked := upd s.parked (treeOf to) (s.parked (treeOf to) ++ [(to, frm, b)]) }
    (.inl (by simp [upd]))
  rcases k with k | k
  · exact .inl k
  · right; simp [upd, k]

/-- an event at the server: an envelope, a window around a protocol message whose tree is there (between the
lookup and `transmitMux`), or around one whose tree is not (between `IsRegistered` and `Register`) -/
inductive Ev where
  | env (e : Env)
  | win (to : Tok) (frm : Frm) (b : Body) (es : List Env)
  | rwin (to : Tok) (frm : Frm) (b : Body) (es : List Env)

def stepEv (s : Srv) : Ev → Out × Srv
  | .env e => process s e
  | .win to frm b es => window s to frm b es
  | .rwin to frm b es => rwindow s to frm b es

def runEvs (s : Srv) : List Ev → Srv
  | [] => s
  | e :: es => runEvs (stepEv s e).2 es

theorem parkedClean_expire (s : Srv) (t : TRef) (h : ParkedClean s) :
    ParkedClean { s with slot := upd s.slot t .absent, armed := upd s.armed t false } := by
  intro x hx
  have hxt : x ≠ t := by intro e; subst e; simp [upd] at hx
  simp only [upd, hxt, if_false] at hx
  exact h x hx

/-- **nothing is stuck at quiescence**: after any history of envelopes and windows (every step run to its end:
handler, reader and flush goroutines), no message is parked for a tree the server has — a parked message waits
only for a tree that is absent or requested, and `c07_requested_tree_unblocks` / `c07_creation_releases_parked`
say that the arrival of that tree, by the peer's answer or in the hands of an earlier message, releases it. -/
theorem c07_quiescent_nothing_stuck (evs : List Ev) (s : Srv) (hc : ParkedClean s) : ParkedClean (runEvs s evs) := by
  induction evs generalizing s with
  | nil => exact hc
  | cons e evs ih =>
    apply ih
    cases e with
    | env e => exact stable_parkedClean.process _ _ hc
    | win to frm b es => exact stable_parkedClean.window (fun s t h _ => parkedClean_expire s t h) _ _ _ _ _ hc
    | rwin to frm b es => exact stable_parkedClean.rwindow (fun s t h => parkedClean_ask s t h) _ _ _ _ _ hc

/-- no step of such a history panics, and the pending-tree lock is free after it -/
theorem c07_windows_no_panic_locks_released (evs : List Ev) (s : Srv) (e : Ev) (h : s.treeLock = 0) :
    (stepEv (runEvs s evs) e).1 ≠ .panic ∧ (runEvs s evs).treeLock = 0 := by
  constructor
  · cases e with
    | env e => exact c07_no_panic _ _
    | win to frm b es => exact window_not_panic _ _ _ _ _
    | rwin to frm b es => exact rwindow_not_panic _ _ _ _ _
  · induction evs generalizing s with
    | nil => exact h
    | cons e evs ih =>
      apply ih
      cases e with
      | env e => exact stable_lock.process _ _ h
      | win to frm b es => exact stable_lock.window (fun _ _ h _ => h) _ _ _ _ _ h
      | rwin to frm b es => exact stable_lock.rwindow (fun _ _ h => h) _ _ _ _ _ h

/-- a window takes away only a tree that no instance uses: a tree in use stays through any such history -/
theorem c07_window_keeps_used_trees (s : Srv) (to : Tok) (frm : Frm) (b : Body) (es : List Env) (x : TRef)
    (hx : s.slot x = .present) (hu : listedOn s x = true) : (window s to frm b es).2.slot x = .present := by
  unfold window
  simp only
  split
  · exact (stable_present x).process _ _ hx
  · rename_i hn
    have hne : x ≠ treeOf to := by
      intro e
      exact hn (Or.inr (Or.inr (Or.inr (e ▸ hu))))
    have h1 : ({ s with slot := upd s.slot (treeOf to) .absent, armed := upd s.armed (treeOf to) false } : Srv).slot x
        = .present := by simp [upd, hne, hx]
    exact (stable_present x).deliver _ _ _ _ ((stable_present x).run es _ h1)

/-- the code before /repo fafcac0 (`windowOld`: the creation stored the tree without looking at the parked
messages): a message parked in the window stays parked although its tree is there — and the peer's answer to the
new request is refused, the tree not being requested any more; the code as it is now delivers both messages -/
theorem c07_old_creation_left_parked :
    let s0 := runEnvs {} [.proto (.badProto .U) .member .m3, .respTree (some ⟨.U, .roX, .good⟩) (some ⟨.roX, true, true⟩)]
    let old := (windowOld s0 (.fresh .U) .member .m3 [.proto (.fresh .U) .member .m4]).2
    let new := (window s0 (.fresh .U) .member .m3 [.proto (.fresh .U) .member .m4]).2
    s0.slot .U = .present ∧ listedOn s0 .U = false ∧
    old.slot .U = .present ∧ (old.parked .U).length = 1 ∧ old.delivered = 1 ∧
    (process old (.respTree (some ⟨.U, .roX, .good⟩) (some ⟨.roX, true, true⟩))).2.parked .U = old.parked .U ∧
    new.slot .U = .present ∧ new.parked .U = [] ∧ new.delivered = 2 := by
  simp [runEnvs, process, treeOf, sendTree, makeTree, storeAndFlush, flush, transmitFound, deliver, deliverIn, creating,
    taken, flushIn, transmitFoundIn, created, destOf, clean, listedOn, handOver, reader, aggregated, handled,
    memberIsParent, nChildren, upd, window, windowOld]

/-! ### the pinned code before the repairs: negation witnesses (each replayed on the real code,
`notes/probes/onet_overlay_c07_probe_test.go.txt`, and kept as corpus cases) -/
theorem c07_old_nil_destination : (processOld {} (.proto .none .member .m3)).1 = .panic := by
  simp [processOld]
theorem c07_old_nil_sender : (processOld {} (.proto (.fresh .K) .none .m3)).1 = .panic := by
  simp [processOld, treeOf, creates]
theorem c07_old_empty_description :
    (processOld {} (.respTree (some ⟨.R, .roR, .emptyChildren⟩) (some ⟨.roR, true, true⟩))).1 = .panic := by
  simp [processOld]
theorem c07_old_roster_member_without_key :
    (processOld {} (.respTree (some ⟨.R, .roR, .good⟩) (some ⟨.roR, true, false⟩))).1 = .panic := by
  simp [processOld]
theorem c07_old_roster_request_over_empty_slot : (processOld {} (.reqRoster .roK)).1 = .panic := by
  simp [processOld]
theorem c07_old_lock_left_held : (processOld {} (.sendRoster ⟨.roR, true, true⟩)).2.treeLock = 1 := by
  simp [processOld]

/-! ### non-vacuity -/
/-- the server as the harness sets it up meets the hypotheses of the theorems above -/
example : ParkedClean {} ∧ Tagged {} ∧ ListedSafe {} ∧ ({} : Srv).slot .K = .present := by
  refine ⟨?_, tagged_init, listedSafe_init, rfl⟩
  intro t ht
  cases t <;> simp_all

/-- the deprecated roster-then-tree path stores the requested tree and the parked run goes on -/
example : (runEnvs {} [.treeMarshal ⟨.R, .roR, .good⟩, (.sendRoster ⟨.roR, true, true⟩)]).slot .R = .present ∧
    (runEnvs {} [.treeMarshal ⟨.R, .roR, .good⟩, (.sendRoster ⟨.roR, true, true⟩)]).delivered = 1 := by
  simp [runEnvs, process, instanceRoster, listedOn, makeTree, storeAndFlush, flush, transmitFound, deliver, deliverIn, creating, taken, flushIn, transmitFoundIn, created,
    destOf, treeOf, handOver, reader, aggregated, handled, memberIsParent, upd]

/-- a tree arrives for a message of a protocol the server does not have: no instance is listed, the
removal of the tree is scheduled; a real run on it cancels the removal (`ListedSafe` is not vacuous) -/
example :
    let s := runEnvs {} [.proto (.badProto .U) .member .m3, .respTree (some ⟨.U, .roX, .good⟩) (some ⟨.roX, true, true⟩)]
    s.slot .U = .present ∧ s.armed .U = true ∧ listedOn s .U = false ∧
    (process s (.proto (.fresh .U) .member .m1)).2.armed .U = false ∧
    (process s (.proto (.fresh .U) .member .m1)).2.delivered = 1 := by
  simp [runEnvs, process, treeOf, sendTree, makeTree, storeAndFlush, flush, transmitFound, deliver, deliverIn, creating, taken, flushIn, transmitFoundIn, created, destOf,
    clean, listedOn, handOver, reader, aggregated, handled, memberIsParent, nChildren, upd]

/-- the instance side refuses: no sender, a sender of another server, an unknown sender, a type the
protocol does not handle, an aggregated kind at a leaf from anybody but the parent -/
example : reader .K .none .m3 = false ∧ reader .K .spoof .m3 = false ∧ reader .K .stranger .m4 = false ∧
    reader .K .member .unhandled = false ∧ reader .K .stranger .m1 = false ∧ reader .U .stranger .m1 = false ∧
    reader .U .member .m2 = true ∧ reader .K .member .m1 = true := by decide


/-! ### all locks: released, never taken twice, one global order (`Model/C07Locks.lean`) -/

/-- a sequence that gives back the stack of held locks it started with -/
def Closed (held : List Lock) (tr : List LEv) : Prop := nest held tr = some held

theorem nest_append (h : List Lock) (a b : List LEv) :
    nest h (a ++ b) = (nest h a).bind (fun h' => nest h' b) := by
  induction a generalizing h with
  | nil => simp [nest]
  | cons e a ih =>
    cases e with
    | acq l =>
      simp only [List.cons_append, nest]
      split
      · simp
      · split
        · exact ih _
        · simp
    | rel l =>
      simp only [List.cons_append, nest]
      cases h with
      | nil => simp
      | cons x rest =>
        simp only
        split
        · exact ih _
        · simp
    | send =>
      simp only [List.cons_append, nest]
      split
      · exact ih _
      · simp

theorem closed_send : Closed [] [.send] := rfl

theorem closed_nil (h : List Lock) : Closed h [] := rfl

theorem closed_append {h : List Lock} {a b : List LEv} (ha : Closed h a) (hb : Closed h b) : Closed h (a ++ b) := by
  unfold Closed at *; rw [nest_append, ha]; exact hb

theorem closed_within {h : List Lock} {l : Lock} {inner : List LEv} (hn : l ∉ h)
    (hr : h.all (fun x => rank x < rank l) = true) (hi : Closed (l :: h) inner) : Closed h (within l inner) := by
  unfold Closed within at *
  simp only [List.cons_append, List.nil_append, nest, hn, hr, if_false, if_true]
  rw [nest_append, hi]
  simp [nest]

/-- a leaf lock (rank 2) can be taken and released under any of the stacks that occur -/
theorem closed_leaf (h : List Lock) (l : Lock) (hl : rank l = 2) (hh : h.all (fun x => rank x < 2) = true) :
    Closed h (within l []) := by
  apply closed_within
  · intro hm
    have := List.all_eq_true.mp hh l hm
    simp [hl] at this
  · simpa [hl] using hh
  · exact closed_nil _

theorem closed_ts (h : List Lock) (hh : h.all (fun x => rank x < 2) = true) : Closed h tsOp := closed_leaf h .store rfl hh
theorem closed_pm (h : List Lock) (hh : h.all (fun x => rank x < 2) = true) : Closed h pmOp := closed_leaf h .pendingMsg rfl hh
theorem closed_cfg (h : List Lock) (hh : h.all (fun x => rank x < 2) = true) : Closed h cfgOp := closed_leaf h .pendingCfg rfl hh
theorem closed_q (h : List Lock) (hh : h.all (fun x => rank x < 2) = true) : Closed h qOp := closed_leaf h .queue rfl hh

theorem closed_clean (h : List Lock) (hh : h.all (fun x => rank x < 2) = true) (s : Srv) (t : TRef) :
    Closed h (cleanTr s t) := by
  unfold cleanTr; split
  · exact closed_nil _
  · exact closed_ts h hh

theorem closed_inst_mux {inner : List LEv} (hi : Closed [.instances, .transmitMux] inner) :
    Closed [.transmitMux] (within .instances inner) :=
  closed_within (by decide) (by decide) hi

theorem closed_create : Closed [.transmitMux] createTr := by
  unfold createTr
  exact closed_append (closed_append (closed_append (closed_inst_mux (closed_nil _)) (closed_ts _ (by decide)))
    (closed_pm _ (by decide))) (closed_cfg _ (by decide))

theorem closed_bindHand : Closed [.transmitMux] bindHandTr := by
  unfold bindHandTr
  exact closed_append (closed_inst_mux (closed_nil _)) (closed_q _ (by decide))

theorem closed_fail (X : Srv) (t : TRef) :
    Closed [.transmitMux] (within .instances (qOp ++ cleanTr X t)) :=
  closed_inst_mux (closed_append (closed_q _ (by decide)) (closed_clean _ (by decide) X t))

/-- **`TransmitMsg` is well nested and ordered** in every state, for every destination token -/
theorem closed_transmit (s : Srv) (to : Tok) : Closed [] (transmitTr s to) := by
  unfold transmitTr
  apply closed_append (closed_ts [] (by decide))
  apply closed_within (by decide) (by decide)
  have i0 : Closed [.transmitMux] (within .instances []) := closed_inst_mux (closed_nil _)
  have hand : Closed [.transmitMux] (within .instances [] ++ qOp) := closed_append i0 (closed_q _ (by decide))
  have full : Closed [.transmitMux] (within .instances [] ++ createTr ++ bindHandTr) :=
    closed_append (closed_append i0 closed_create) closed_bindHand
  cases to with
  | none => exact closed_nil _
  | zero => exact i0
  | badNode => exact closed_append i0 (closed_inst_mux (closed_clean _ (by decide) _ _))
  | done =>
    simp only
    split
    · exact closed_inst_mux (closed_clean _ (by decide) _ _)
    · split
      · exact hand
      · exact full
  | run => simp only; split; exact hand; exact full
  | fresh t => simp only; split; exact hand; exact full
  | badProto t =>
    simp only
    split
    · exact closed_inst_mux (closed_clean _ (by decide) _ _)
    · exact closed_append (closed_append i0 closed_create) (closed_fail _ _)
  | badProtoNew t =>
    simp only
    exact closed_append (closed_append i0 closed_create) (closed_fail _ _)

theorem closed_flushBody (l : List (Tok × Frm × Body)) (s : Srv) : Closed [] (flushBody s l) := by
  induction l generalizing s with
  | nil => exact closed_nil _
  | cons x l ih =>
    obtain ⟨to, frm, b⟩ := x
    exact closed_append (closed_transmit s to) (ih _)

theorem closed_sendTree (s : Srv) (tm : Option TM) (ro : Option Ro) : Closed [] (sendTreeTr s tm ro) := by
  unfold sendTreeTr
  cases tm with
  | none => exact closed_nil _
  | some tm =>
    simp only
    split
    · exact closed_nil _
    · cases ro with
      | none => exact closed_nil _
      | some ro =>
        simp only
        split
        · exact closed_ts _ (by decide)
        · split
          · exact closed_append (closed_ts _ (by decide)) (closed_ts _ (by decide))
          · exact closed_ts _ (by decide)

theorem closed_instLoop (n : Nat) : Closed [.instances] (instLoop n) := by
  induction n with
  | zero => exact closed_nil _
  | succ n ih => exact closed_append (closed_ts _ (by decide)) ih

theorem closed_pendingLoop (ro : Ro) (l : List TM) (s : Srv) : Closed [.pendingTree] (pendingLoopTr ro s l) := by
  induction l generalizing s with
  | nil => exact closed_nil _
  | cons tm l ih =>
    simp only [pendingLoopTr]
    split
    · exact closed_append (closed_ts _ (by decide)) (ih _)
    · split
      · exact closed_append (closed_append (closed_ts _ (by decide)) (closed_ts _ (by decide))) (ih _)
      · exact closed_append (closed_ts _ (by decide)) (ih _)

/-- **no lock is left held, none is taken twice, and all are taken in one global order**: for every server
state and every envelope the handler goroutine's sequence of lock operations — `transmitMux`, the instance
list's, the pending-tree, pending-message and pending-config locks, the tree store's mutex, an instance's
queue mutex — is well nested, ends with every lock released, and respects `rank`. -/
theorem c07_all_locks_released_and_ordered (s : Srv) (e : Env) : nest [] (lockTrace s e) = some [] := by
  show Closed [] (lockTrace s e)
  cases e with
  | proto to frm b =>
    simp only [lockTrace]
    split
    · exact closed_nil _
    · split
      · exact closed_nil _
      · split
        · exact closed_transmit s to
        · have t := closed_ts [] (by decide)
          refine closed_append (closed_append (closed_append (closed_append t (closed_pm [] (by decide))) t) t) ?_
          split
          · exact closed_append t closed_send
          · exact closed_nil _
  | reqTree t v =>
    simp only [lockTrace]
    refine closed_append (closed_ts _ (by decide)) ?_
    split
    · exact closed_send
    · exact closed_nil _
  | respTree tm ro => exact closed_sendTree s tm ro
  | treeMarshal tm =>
    simp only [lockTrace]
    split
    · exact closed_nil _
    · split
      · exact closed_ts _ (by decide)
      · refine closed_append (closed_append (closed_ts _ (by decide)) ?_) ?_
        · exact closed_within (by decide) (by decide) (closed_instLoop _)
        · split
          · exact closed_sendTree _ _ _
          · exact closed_append closed_send (closed_within (by decide) (by decide) (closed_nil _))
  | reqRoster r => exact closed_append (closed_ts _ (by decide)) closed_send
  | sendRoster ro =>
    simp only [lockTrace]
    split
    · exact closed_nil _
    · exact closed_within (by decide) (by decide) (closed_pendingLoop ro _ s)
  | config w d =>
    simp only [lockTrace]
    split
    · exact closed_nil _
    · exact closed_cfg _ (by decide)

/-- the same for the flush goroutine that a stored tree starts -/
theorem c07_flush_locks_released_and_ordered (s : Srv) (l : List (Tok × Frm × Body)) :
    nest [] (flushTr s l) = some [] := by
  show Closed [] (flushTr s l)
  unfold flushTr
  exact closed_append (closed_pm [] (by decide)) (closed_flushBody l s)

/-- the pinned code before repair 9b09732 ended a roster message with `pendingTreeLock` held -/
theorem c07_old_locks_not_released :
    nest [] (lockTraceOld {} (.sendRoster ⟨.roR, true, true⟩)) = some [.pendingTree] := by decide

/-- the handler held in the window of `requestTree` releases every lock, whatever happened in the window; a
`Register` with an early return that forgets the store's mutex (seeded change C07r5-A) does not: the store stays
locked and every later message blocks in `getAndRefresh` -/
theorem c07_miss_window_locks : nest [] missTr = some [] ∧ nest [] missTrLeaky = some [.store] := by decide

/-- **no lock is held across a `Send`**: `nest` accepts a `Send` only with nothing held, so
`c07_all_locks_released_and_ordered` says it of every handler; this is the reading of one step -/
theorem c07_send_needs_no_lock (h : List Lock) (es : List LEv) (r : List Lock)
    (hn : nest h (.send :: es) = some r) : h = [] := by
  simp only [nest] at hn
  split at hn
  · rename_i he; simpa using he
  · cases hn

/-- **a `Send` may run a whole handler before it returns** (the peer announced the server's own identity: the
router dispatches the message in the calling routine): put any well-nested trace in the place of a `Send` of a
well-nested trace — the result is well nested, ordered, and ends with the same locks held.  With the theorem above:
every handler's trace stays closed however deep the self-addressed exchange goes. -/
theorem c07_reentrant_send_closed (callee : List LEv) (hc : nest [] callee = some []) (tr : List LEv)
    (h r : List Lock) (ht : nest h tr = some r) : nest h (spliceSend callee tr) = some r := by
  induction tr generalizing h with
  | nil => exact ht
  | cons e es ih =>
    cases e with
    | acq l =>
      simp only [spliceSend, nest] at ht ⊢
      split
      · rename_i hm; simp [hm] at ht
      · rename_i hm
        simp only [hm, if_false] at ht
        split
        · rename_i ho; simp only [ho, if_true] at ht; exact ih _ ht
        · rename_i ho; simp [ho] at ht
    | rel l =>
      simp only [spliceSend, nest] at ht ⊢
      cases h with
      | nil => simp at ht
      | cons x rest =>
        simp only at ht ⊢
        split
        · rename_i hx; simp only [hx, if_true] at ht; exact ih _ ht
        · rename_i hx; simp [hx] at ht
    | send =>
      have he := c07_send_needs_no_lock h es r ht
      subst he
      simp only [spliceSend]
      rw [nest_append, hc]
      simpa [nest] using ht

/-- the seeded change C07r6-B: the roster request goes out under `pendingTreeLock` — rejected; and what the
self-addressed exchange then does inside that `Send` (`checkPendingTreeMarshal`) takes the lock a second time -/
theorem c07_send_under_lock_rejected :
    nest [] (treeMarshalTrLockedSend {}) = none ∧ nest [.pendingTree] (selfRosterRoundTrip []) = none ∧
    nest [] (spliceSend (selfRosterRoundTrip []) (lockTrace {} (.treeMarshal ⟨.R, .roX, .good⟩))) = some [] := by decide

/-- the order is not vacuous: taking the instance list's lock while holding the store's mutex (the inverse of
`cleanTreeStorage`'s nesting) is rejected, and so is taking a lock twice -/
example : nest [] [.acq .store, .acq .instances, .rel .instances, .rel .store] = none ∧
    nest [] [.acq .transmitMux, .acq .transmitMux] = none ∧
    nest [] (lockTrace {} (.proto (.badProto .K) .member .m3)) = some [] := by decide


/-! ### the code regions the model stands for
Regenerated from /repo's source on every run (`harness/cmd/astfacts` → `OnetVerif/Shapes.lean`): the
calls that matter for synchronisation and data flow, the lock regions and (for decision logic) the
conditions, in source order.  A re-ordering, a dropped call or a changed condition breaks these
obligations even when no sampled input or schedule shows a difference; the check then searches for
a failing input. -/
theorem c07_shape_Overlay_Process :
    Shapes.overlay_Overlay_Process =
   ["MsgType.Equal", "o.handleConfigMessage", "protoIO.getByPacketType", "io.Unwrap",
     "o.handleRequestTree", "o.handleSendTree", "o.handleSendTreeMarshal",
     "o.handleRequestRoster", "o.handleSendRoster", "network.MessageType", "o.TransmitMsg"] := rfl

theorem c07_shape_Overlay_TransmitMsg :
    Shapes.overlay_Overlay_TransmitMsg =
   ["treeStorage.getAndRefresh", "verifPoint:tm.miss", "o.requestTree", "verifPoint:tm.found",
     "transmitMux.Lock", "defer:transmitMux.Unlock", "instancesLock.Lock", "To.ID", "To.ID",
     "o.cleanTreeStorage", "instancesLock.Unlock", "o.TreeNodeFromTree",
     "instancesLock.Lock", "o.cleanTreeStorage", "instancesLock.Unlock",
     "o.newTreeNodeInstanceFromToken", "treeStorage.Set", "o.hasPendingMsg",
     "o.checkPendingMessages", "To.ID", "o.getConfig", "serviceManager.newProtocol",
     "instancesLock.Lock", "o.nodeDelete", "instancesLock.Unlock",
     "instancesLock.Lock", "o.nodeDelete", "instancesLock.Unlock", "go{", "defer{", "tni.Token",
     "ServiceFactory.Name", "}", "pi.Dispatch", "tni.Token", "ServiceFactory.Name", "}",
     "o.RegisterProtocolInstance", "pi.ProcessProtocolMsg"] := rfl

theorem c07_shape_Overlay_requestTree :
    Shapes.overlay_Overlay_requestTree =
   ["o.savePendingMsg", "verifPoint:rt.parked", "treeStorage.Get", "if:(tree!=nil)",
     "o.checkPendingMessages", "return:nil", "verifPoint:rt.recheck-miss", "io.Wrap",
     "if:(err!=nil)", "return:xerrors.Errorf(\"\",err)",
     "if:o.treeStorage.IsRegistered(onetMsg.To.TreeID)", "return:nil",
     "verifPoint:rt.unregistered", "treeStorage.Register", "verifPoint:rt.registered",
     "server.Send", "if:(err!=nil)", "treeStorage.Unregister", "return:xerrors.Errorf(\"\",err)",
     "return:nil"] := rfl

theorem c07_shape_Overlay_checkPendingMessages :
    Shapes.overlay_Overlay_checkPendingMessages =
   ["go{", "verifPoint:cpm.start", "pendingMsgLock.Lock", "ID.Equal", "pendingMsgLock.Unlock",
     "o.TransmitMsg", "verifPoint:cpm.done", "}"] := rfl

theorem c07_shape_Overlay_handleSendTree :
    Shapes.overlay_Overlay_handleSendTree =
   ["if:((rt.TreeMarshal==nil)||rt.TreeMarshal.TreeID.IsNil())", "return:",
     "if:(rt.Roster==nil)", "return:", "if:!o.treeStorage.IsRequested(rt.TreeMarshal.TreeID)",
     "return:", "TreeMarshal.MakeTree", "if:(err!=nil)", "return:", "treeStorage.setIfMissing",
     "if:!stored", "return:", "o.checkPendingMessages"] := rfl

theorem c07_shape_Overlay_handleSendTreeMarshal :
    Shapes.overlay_Overlay_handleSendTreeMarshal =
   ["if:tm.TreeID.IsNil()", "return:", "if:!o.treeStorage.IsRequested(tm.TreeID)", "return:",
     "instancesLock.Lock", "treeStorage.Get",
     "if:(((tree!=nil)&&(tree.Roster!=nil))&&tree.Roster.ID.Equal(tm.RosterID))",
     "instancesLock.Unlock", "if:(ro==nil)", "io.Wrap", "if:(err!=nil)", "server.Send",
     "if:(err!=nil)", "o.addPendingTreeMarshal", "return:", "o.handleSendTree"] := rfl

theorem c07_shape_Overlay_handleRequestTree :
    Shapes.overlay_Overlay_handleRequestTree =
   ["treeStorage.Get", "tree.MakeTreeMarshal", "o.handleRequestTreeDeprecated", "io.Wrap",
     "server.Send"] := rfl

theorem c07_shape_Overlay_handleRequestRoster :
    Shapes.overlay_Overlay_handleRequestRoster =
   ["treeStorage.GetRoster", "io.Wrap", "server.Send"] := rfl

theorem c07_shape_Overlay_handleSendRoster :
    Shapes.overlay_Overlay_handleSendRoster =
   ["ID.IsNil", "o.checkPendingTreeMarshal"] := rfl

theorem c07_shape_Overlay_checkPendingTreeMarshal :
    Shapes.overlay_Overlay_checkPendingTreeMarshal =
   ["pendingTreeLock.Lock", "if:!ok", "pendingTreeLock.Unlock", "return:",
     "if:(o.treeStorage.Get(tm.TreeID)!=nil)", "tm.MakeTree", "if:(err!=nil)",
     "treeStorage.setIfMissing", "if:stored", "o.checkPendingMessages", "pendingTreeLock.Unlock"] := rfl

theorem c07_shape_Overlay_nodeDelete :
    Shapes.overlay_Overlay_nodeDelete =
   ["token.ID", "tni.closeDispatch", "o.cleanTreeStorage"] := rfl

theorem c07_shape_Overlay_cleanTreeStorage :
    Shapes.overlay_Overlay_cleanTreeStorage =
   ["if:inst.token.TreeID.Equal(token.TreeID)", "if:notUsed", "treeStorage.Remove"] := rfl

theorem c07_shape_TreeMarshal_MakeTree :
    Shapes.tree_TreeMarshal_MakeTree =
   ["if:(ro==nil)", "return:nil,xerrors.New(\"\")", "if:!ro.ID.Equal(tm.RosterID)",
     "return:nil,xerrors.New(\"\")", "if:((len(tm.Children)!=1)||(tm.Children[]==nil))",
     "return:nil,xerrors.New(\"\")", "Children[].MakeTreeFromList", "if:(err!=nil)",
     "return:nil,xerrors.Errorf(\"\",err)", "tree.computeSubtreeAggregate", "return:tree,nil"] := rfl

theorem c07_shape_TreeMarshal_MakeTreeFromList :
    Shapes.tree_TreeMarshal_MakeTreeFromList =
   ["ro.searchByKey", "if:(idx<0)", "return:nil,xerrors.New(\"\")", "if:(ent.Public==nil)",
     "return:nil,xerrors.New(\"\")", "c.MakeTreeFromList", "if:(err!=nil)",
     "return:nil,xerrors.Errorf(\"\",err)", "return:tn,nil"] := rfl

theorem c07_shape_treeStorage_GetRoster :
    Shapes.treestorage_treeStorage_GetRoster =
   ["ts.Lock", "defer:ts.Unlock",
     "if:(((tree!=nil)&&(tree.Roster!=nil))&&tree.Roster.ID.Equal(id))", "return:tree.Roster",
     "return:nil"] := rfl

theorem c07_shape_treeStorage_IsRequested :
    Shapes.treestorage_treeStorage_IsRequested =
   ["ts.Lock", "defer:ts.Unlock", "return:(ok&&(tree==nil))"] := rfl

theorem c07_shape_TreeNodeInstance_dispatchMsgToProtocol :
    Shapes.treenode_TreeNodeInstance_dispatchMsgToProtocol =
   ["rx.add", "n.aggregate", "n.dispatchChannel", "n.dispatchHandler"] := rfl

theorem c07_shape_TreeNodeInstance_aggregate :
    Shapes.treenode_TreeNodeInstance_aggregate =
   ["n.IsRoot", "n.Parent", "TreeNodeID.Equal",
     "if:(fromParent||!n.hasFlag(mt,AggregateMessages))", "return:mt,?,true", "if:!ok",
     "if:(len(msgs)==len(n.Children()))", "return:mt,msgs,true", "return:mt,nil,false"] := rfl

theorem c07_shape_TreeNodeInstance_dispatchHandler :
    Shapes.treenode_TreeNodeInstance_dispatchHandler =
   ["n.hasFlag", "to.Elem", "n.createValueAndVerify", "msgs.Index", "Index().Set", "f.Call",
     "errV.IsValid", "errV.IsNil", "n.createValueAndVerify", "f.Call", "errV.IsNil"] := rfl

theorem c07_shape_TreeNodeInstance_dispatchChannel :
    Shapes.treenode_TreeNodeInstance_dispatchChannel =
   ["defer{", "}", "n.hasFlag", "to.Elem", "to.Elem", "n.createValueAndVerify", "out.Index",
     "Index().Set", "to.Elem", "n.createValueAndVerify", "out.Len", "out.Cap",
     "msgDispatchQueueMutex.Lock", "msgDispatchQueueMutex.Unlock", "out.Send"] := rfl

theorem c07_shape_TreeNodeInstance_createValueAndVerify :
    Shapes.treenode_TreeNodeInstance_createValueAndVerify =
   ["n.Tree", "if:(t!=nil)", "tr.Search", "if:(tn==nil)", "return:m,xerrors.New(\"\")",
     "m.Field", "Field().Set", "m.Field", "Field().Set",
     "if:(((msg.ServerIdentity!=nil)&&(tn!=nil))&&!tn.ServerIdentity.Equal(msg.ServerIdentity))",
     "return:m,xerrors.Errorf(\"\",tn.ServerIdentity,msg.ServerIdentity)", "return:m,nil"] := rfl

theorem c07_shape_Overlay_newTreeNodeInstanceFromToken :
    Shapes.overlay_Overlay_newTreeNodeInstanceFromToken =
   ["newTreeNodeInstance", "instancesLock.Lock", "defer:instancesLock.Unlock", "if:o.closed",
     "tni.closeDispatch", "return:tni", "tok.ID", "return:tni"] := rfl

theorem c07_shape_Overlay_RegisterProtocolInstance :
    Shapes.overlay_Overlay_RegisterProtocolInstance =
   ["instancesLock.Lock", "defer:instancesLock.Unlock", "pi.Token", "tok.ID", "tni.isBound",
     "tni.bind", "tok.ID"] := rfl

theorem c07_shape_Overlay_savePendingMsg :
    Shapes.overlay_Overlay_savePendingMsg =
   ["pendingMsgLock.Lock", "pendingMsgLock.Unlock"] := rfl

theorem c07_shape_TreeNodeInstance_closeDispatch :
    Shapes.treenode_TreeNodeInstance_closeDispatch =
   ["defer{", "}", "msgDispatchQueueMutex.Lock", "close:msgDispatchQueueWait",
     "msgDispatchQueueMutex.Unlock", "n.ProtocolInstance", "pni.Shutdown"] := rfl

theorem c07_shape_TreeNodeInstance_ProcessProtocolMsg :
    Shapes.treenode_TreeNodeInstance_ProcessProtocolMsg =
   ["msgDispatchQueueMutex.Lock", "defer:msgDispatchQueueMutex.Unlock", "if:n.closing",
     "return:", "n.notifyDispatch"] := rfl

theorem c07_shape_Overlay_hasPendingMsg_b2 :
    Shapes.overlay_Overlay_hasPendingMsg_b2 =
   ["pendingMsgLock.Lock", "defer:pendingMsgLock.Unlock", "range:_,msg:=o.pendingMsg{",
     "if:((msg.To!=nil)&&id.Equal(msg.To.TreeID))", "return:true", "}", "return:false"] := rfl

theorem c07_shape_Overlay_checkPendingMessages_b2 :
    Shapes.overlay_Overlay_checkPendingMessages_b2 =
   ["go{", "verifPoint:cpm.start", "pendingMsgLock.Lock", "range:_,msg:=o.pendingMsg{",
     "if:t.ID.Equal(msg.To.TreeID)", "assign:remaining=append(remaining,msg)", "else",
     "assign:newPending=append(newPending,msg)", "}", "assign:o.pendingMsg=newPending",
     "pendingMsgLock.Unlock", "range:_,msg:=remaining{", "o.TransmitMsg",
     "assign:err:=o.TransmitMsg(msg.ProtocolMsg,msg.MessageProxy)", "if:(err!=nil)", "continue",
     "}", "verifPoint:cpm.done", "}"] := rfl

theorem c07_shape_Overlay_savePendingMsg_b2 :
    Shapes.overlay_Overlay_savePendingMsg_b2 =
   ["pendingMsgLock.Lock",
     "assign:o.pendingMsg=append(o.pendingMsg,pendingMsg{ProtocolMsg:onetMsg,MessageProxy:io})",
     "pendingMsgLock.Unlock"] := rfl

theorem c07_shape_Overlay_RegisterTree_b2 :
    Shapes.overlay_Overlay_RegisterTree_b2 =
   ["treeStorage.Set", "o.checkPendingMessages"] := rfl

theorem c07_shape_Overlay_TreeNodeFromTree_b2 :
    Shapes.overlay_Overlay_TreeNodeFromTree_b2 =
   ["tree.Search", "assign:tn:=tree.Search(id)", "if:(tn==nil)", "return:nil,xerrors.New(\"\")",
     "return:tn,nil"] := rfl

theorem c07_shape_Overlay_handleConfigMessage_b2 :
    Shapes.overlay_Overlay_handleConfigMessage_b2 =
   ["assign:config,ok:=env.Msg.(ConfigMsg)", "if:!ok", "return:", "pendingConfigsMut.Lock",
     "defer:pendingConfigsMut.Unlock", "assign:o.pendingConfigs[config.Dest]=&config.Config"] := rfl

theorem c07_shape_Overlay_getConfig_b2 :
    Shapes.overlay_Overlay_getConfig_b2 =
   ["pendingConfigsMut.Lock", "defer:pendingConfigsMut.Unlock", "assign:c:=o.pendingConfigs[id]",
     "return:c"] := rfl

theorem c07_shape_treeStorage_getAndRefresh_b2 :
    Shapes.treestorage_treeStorage_getAndRefresh_b2 =
   ["ts.Lock", "defer:ts.Unlock", "ts.cancelDeletion", "return:ts.trees[id]"] := rfl

theorem c07_shape_treeStorage_Remove_b2 :
    Shapes.treestorage_treeStorage_Remove_b2 =
   ["ts.Lock", "defer:ts.Unlock", "if:ts.closed", "return:", "assign:_,ok:=ts.cancellations[id]",
     "if:ok", "return:", "wg.Add", "assign:c:=make(conv)", "assign:ts.cancellations[id]=c",
     "go{", "defer:wg.Done", "time.NewTimer", "assign:timer:=time.NewTimer(ts.timeout)",
     "recv:C", "verifPoint:ts.fired", "ts.Lock", "if:(ts.cancellations[id]==c)", "ts.Unlock",
     "recv:c", "timer.Stop", "return:", "}"] := rfl



/-! ### handlers held at the same time: arbitrary schedules of holds, releases, envelopes and removals -/

theorem releaseHeld_not_panic (s : Srv) (h : Held) : (releaseHeld s h).1 ≠ .panic := by
  unfold releaseHeld
  cases h.kind
  · exact deliver_not_panic _ _ _ _
  · simp

theorem sstep_not_panic (x : SSt) (e : SEv) : (sstep x e).1 ≠ .panic := by
  cases e with
  | env e => exact c07_no_panic _ _
  | hold to frm b =>
    simp only [sstep]
    split
    · exact c07_no_panic _ _
    · split <;> simp
  | expire t => simp [sstep]
  | release i =>
    simp only [sstep]
    cases x.held[i]? with
    | none => simp
    | some h => exact releaseHeld_not_panic _ _

/-- a predicate every envelope keeps, that the completed removal of an unused tree keeps and that does not look at the
request counter nor at the difference between an absent and a requested tree, is kept by every step of a schedule -/
theorem Stable.sstep {P : Srv → Prop} (h : Stable P)
    (hx : ∀ s t, P s → listedOn s t = false → P { s with slot := upd s.slot t .absent, armed := upd s.armed t false })
    (ha : ∀ s t, P s → P (registerAsk s t))
    (x : SSt) (e : SEv) (hp : P x.s) : P (sstep x e).2.s := by
  cases e with
  | env e => exact h.process _ _ hp
  | hold to frm b =>
    simp only [C07.sstep]
    split
    · exact h.process _ _ hp
    · rename_i hn
      split
      · exact h.refresh _ _ hp
      · rename_i hnp
        exact (h.park x.s (treeOf to) (to, frm, b) hp hnp rfl).1
  | expire t =>
    simp only [C07.sstep, expireTree]
    split
    · rename_i hc; exact hx _ _ hp hc.2
    · exact hp
  | release i =>
    simp only [C07.sstep]
    cases hh : x.held[i]? with
    | none => exact hp
    | some hd =>
      simp only [releaseHeld]
      cases hd.kind
      · exact h.deliver _ _ _ _ hp
      · exact ha _ _ hp

theorem Stable.srun {P : Srv → Prop} (h : Stable P)
    (hx : ∀ s t, P s → listedOn s t = false → P { s with slot := upd s.slot t .absent, armed := upd s.armed t false })
    (ha : ∀ s t, P s → P (registerAsk s t))
    (es : List SEv) (x : SSt) (hp : P x.s) : P (srun x es).s := by
  induction es generalizing x with
  | nil => exact hp
  | cons e es ih => exact ih _ (h.sstep hx ha x e hp)

/-- **no crash and no lock left, whatever is held and in whatever order it goes on**: in every schedule — any number
of protocol messages held past their tree lookup or between `IsRegistered` and `Register`, released in any order,
interleaved with any envelopes and with removals of unused trees — no step panics and the pending-tree lock is free
after every step. -/
theorem c07_sched_no_panic_locks_released (es : List SEv) (x : SSt) (e : SEv) (h : x.s.treeLock = 0) :
    (sstep (srun x es) e).1 ≠ .panic ∧ (srun x es).s.treeLock = 0 :=
  ⟨sstep_not_panic _ _, stable_lock.srun (fun _ _ h _ => h) (fun _ _ h => h) es x h⟩

/-- **nothing is stuck, in every state of every schedule** — also while handlers are held: a message is parked only for
a tree the server does not have.  (With `held = []` this is quiescence: `c07_quiescent_nothing_stuck` for three-way
and wider interleavings.) -/
theorem c07_sched_nothing_stuck (es : List SEv) (x : SSt) (hc : ParkedClean x.s) : ParkedClean (srun x es).s :=
  stable_parkedClean.srun (fun s t h _ => parkedClean_expire s t h) (fun s t h => parkedClean_ask s t h) es x hc

theorem srun_append (x : SSt) (a b : List SEv) : srun x (a ++ b) = srun (srun x a) b := by
  induction a generalizing x with
  | nil => rfl
  | cons e a ih => simp [srun, ih]

theorem srun_envs (x : SSt) (es : List Env) : srun x (es.map .env) = { x with s := runEnvs x.s es } := by
  induction es generalizing x with
  | nil => rfl
  | cons e es ih => simp [srun, sstep, runEnvs, ih]

theorem upd_upd {α : Type} (f : TRef → α) (t : TRef) (v w : α) : upd (upd f t v) t w = upd f t w := by
  funext x; simp only [upd]; split <;> rfl

/-- **the one-message windows are schedules**: `window` = hold, the removal, the envelopes, release -/
theorem c07_sched_window_is_schedule (s : Srv) (to : Tok) (frm : Frm) (b : Body) (es : List Env)
    (hg : b ≠ .garbage) (hn : to ≠ .none) (hp : s.slot (treeOf to) = .present) (hl : listedOn s (treeOf to) = false) :
    (srun { s := s } ([.hold to frm b, .expire (treeOf to)] ++ es.map .env ++ [.release 0])).s
      = (window s to frm b es).2 := by
  have hw : ¬ (b = .garbage ∨ to = .none ∨ s.slot (treeOf to) ≠ .present ∨ listedOn s (treeOf to) = true) := by
    simp [hg, hn, hp, hl]
  have hh : ¬ (b = .garbage ∨ to = .none ∨ s.slot (treeOf to) = .requested) := by simp [hg, hn, hp]
  have hl' : listedOn { s with armed := upd s.armed (treeOf to) false } (treeOf to) = false := by
    rw [← hl]; cases treeOf to <;> rfl
  have e1 : sstep { s := s } (.hold to frm b) =
      (.ok, { s := { s with armed := upd s.armed (treeOf to) false }, held := [⟨.found, to, frm, b⟩] }) := by
    simp [sstep, hg, hn, hp]
  have e2 : sstep { s := { s with armed := upd s.armed (treeOf to) false }, held := [⟨.found, to, frm, b⟩] } (.expire (treeOf to)) =
      (.ok, { s := { s with slot := upd s.slot (treeOf to) .absent, armed := upd s.armed (treeOf to) false },
              held := [⟨.found, to, frm, b⟩] }) := by
    simp [sstep, expireTree, hp, hl', upd_upd]
  simp only [window, hw, if_false, srun_append, srun_envs]
  simp only [srun, e1, e2]
  simp [sstep, releaseHeld]

/-- … and `rwindow` = hold, the envelopes, release -/
theorem c07_sched_rwindow_is_schedule (s : Srv) (to : Tok) (frm : Frm) (b : Body) (es : List Env)
    (hg : b ≠ .garbage) (hn : to ≠ .none) (ha : s.slot (treeOf to) = .absent) :
    (srun { s := s } ([.hold to frm b] ++ es.map .env ++ [.release 0])).s = (rwindow s to frm b es).2 := by
  have hw : ¬ (b = .garbage ∨ to = .none ∨ s.slot (treeOf to) ≠ .absent) := by simp [hg, hn, ha]
  have hh : ¬ (b = .garbage ∨ to = .none ∨ s.slot (treeOf to) = .requested) := by simp [hg, hn, ha]
  have hp : ¬ s.slot (treeOf to) = .present := by simp [ha]
  have e1 : sstep { s := s } (.hold to frm b) =
      (.ok, { s := { s with armed := upd s.armed (treeOf to) false,
                            parked := upd s.parked (treeOf to) (s.parked (treeOf to) ++ [(to, frm, b)]) },
              held := [⟨.missed, to, frm, b⟩] }) := by
    simp [sstep, hg, hn, ha]
  simp only [rwindow, hw, if_false, srun_append, srun_envs]
  simp only [srun, e1]
  simp [sstep, releaseHeld, registerAsk]

/-! non-vacuity: a three-way interleaving no window reaches.  Tree U is stored and unused; A and B both get past the
lookup (held at `tm.found`), the tree is removed, C misses it (parked, held at `rt.unregistered`), a fourth message
for U is handled to its end (parked behind C, the tree is requested); then B goes on FIRST (stores the tree it
holds, creates the instance, takes C's and the fourth message), then C (its `Register` finds the tree set: kept),
then A (the instance exists).  All four reach the instance, nothing is parked, the tree is there. -/
private def s0 : Srv := runEnvs {} [.proto (.badProto .U) .member .m3, .respTree (some ⟨.U, .roX, .good⟩) (some ⟨.roX, true, true⟩)]
private def three : List SEv :=
  [.hold (.fresh .U) .member .m3, .hold (.fresh .U) .member .m4, .expire .U, .hold (.fresh .U) .member .m3,
   .env (.proto (.fresh .U) .member .m4), .release 1, .release 1, .release 0]

example : s0.slot .U = .present ∧ listedOn s0 .U = false := by decide
example : let x := srun { s := s0 } three
    x.held.length = 0 ∧ x.s.slot .U = .present ∧ x.s.parked .U = [] ∧ x.s.handed = 4 ∧ x.s.delivered = 4 := by
  decide
/-- in the middle of it (two handlers held past the lookup, one before `Register`, the tree gone and requested) two
messages are parked — for a tree the server does not have -/
example : let x := srun { s := s0 } (three.take 5)
    x.held.length = 3 ∧ x.s.slot .U = .requested ∧ (x.s.parked .U).length = 2 := by decide

/-- a `Register` that does not look whether the tree has been set meanwhile (the variant treestorage.go's comment
rules out) -/
def registerAskBlind (s : Srv) (t : TRef) : Srv :=
  { s with slot := upd s.slot t (if s.slot t = .present then .requested else .requested), asks := s.asks + 1 }

/-- **negation witness for that variant, reachable only with two handlers held at once**: C's `Register`, running
after B has stored the tree and created the instance, turns the slot of a tree IN USE back into "requested": the
next message for the running instance is parked instead of delivered — the server is silenced on that run (and the
peer's answer to C's request is the only thing that brings it back). -/
theorem c07_sched_blind_register_silences :
    let x := srun { s := s0 } (three.take 6)          -- … B has gone on
    let blind := registerAskBlind x.s .U                -- C goes on with the blind `Register`
    let good := (sstep x (.release 1)).2.s              -- C goes on with the code as it is
    x.s.slot .U = .present ∧ listedOn x.s .U = true ∧
    good.slot .U = .present ∧ (process good (.proto (.fresh .U) .member .m3)).2.delivered = good.delivered + 1 ∧
    blind.slot .U = .requested ∧ (process blind (.proto (.fresh .U) .member .m3)).2.delivered = blind.delivered := by
  decide

/-- `treeStorage.Register` writes the empty slot only when the id has no entry ("never drop a tree that has been set in
the meantime"): the `registerAsk` of the schedule model; its blind variant is `c07_sched_blind_register_silences` -/
theorem c07_shape_treeStorage_Register_full :
    Shapes.treestorage_treeStorage_Register_full =
      ["ts.Lock", "assign:_,ok:=ts.trees[id]", "if:!ok", "assign:ts.trees[id]=nil", "ts.Unlock"] := rfl

/-- `nodeDone`: the whole of `nodeDelete` (the protocol's `Shutdown` included) runs inside the instance-list region — the
window op `lockrace` widens -/
theorem c07_shape_Overlay_nodeDone :
    Shapes.overlay_Overlay_nodeDone = ["instancesLock.Lock", "o.nodeDelete", "instancesLock.Unlock"] := rfl

namespace LockOrder
open Shapes

/-! ### the lock order read off the source

The lock traces of `Model/C07Locks.lean` are a hand transcription.  Here the acquisition graph is computed from the
call/lock sequences `harness/cmd/astfacts` regenerates from the source on every run (`Shapes.lean`): walking a
function's tokens with the set of locks held (`X.Lock` adds an edge from every held lock to X; `X.Unlock` releases
unless the next token is a `return` — the unlock of an early-exit branch; a deferred unlock holds to the end; a `go{ … }`
block starts with nothing held; a call of a function of the table is walked with the caller's locks held). -/

def lockTok : List (String × Lock) :=
  [("transmitMux.Lock", .transmitMux), ("instancesLock.Lock", .instances), ("pendingTreeLock.Lock", .pendingTree),
   ("pendingMsgLock.Lock", .pendingMsg), ("pendingConfigsMut.Lock", .pendingCfg), ("ts.Lock", .store),
   ("msgDispatchQueueMutex.Lock", .queue)]

def unlockTok : List (String × Lock) :=
  [("transmitMux.Unlock", .transmitMux), ("instancesLock.Unlock", .instances), ("pendingTreeLock.Unlock", .pendingTree),
   ("pendingMsgLock.Unlock", .pendingMsg), ("pendingConfigsMut.Unlock", .pendingCfg), ("ts.Unlock", .store),
   ("msgDispatchQueueMutex.Unlock", .queue)]

def returns : List String := ["return:", "return:nil", "return:tni", "return:true", "return:false"]

/-- the functions of onet a call token stands for (what is not listed takes none of the seven locks: user code, the
router, reflection) -/
def callees : List (String × List String) :=
  [("o.requestTree", overlay_Overlay_requestTree), ("o.cleanTreeStorage", overlay_Overlay_cleanTreeStorage),
   ("o.nodeDelete", overlay_Overlay_nodeDelete), ("o.getConfig", overlay_Overlay_getConfig_b2),
   ("o.hasPendingMsg", overlay_Overlay_hasPendingMsg_b2), ("o.checkPendingMessages", overlay_Overlay_checkPendingMessages),
   ("o.savePendingMsg", overlay_Overlay_savePendingMsg), ("o.newTreeNodeInstanceFromToken", overlay_Overlay_newTreeNodeInstanceFromToken),
   ("o.RegisterProtocolInstance", overlay_Overlay_RegisterProtocolInstance), ("o.TransmitMsg", overlay_Overlay_TransmitMsg),
   ("o.handleConfigMessage", overlay_Overlay_handleConfigMessage_b2), ("o.handleSendTree", overlay_Overlay_handleSendTree),
   ("TreeMarshal.MakeTree", []), ("o.handleSendTreeMarshal", overlay_Overlay_handleSendTreeMarshal),
   ("o.handleRequestTree", overlay_Overlay_handleRequestTree), ("o.handleRequestRoster", overlay_Overlay_handleRequestRoster),
   ("o.handleSendRoster", overlay_Overlay_handleSendRoster), ("o.checkPendingTreeMarshal", overlay_Overlay_checkPendingTreeMarshal),
   ("o.RegisterTree", overlay_Overlay_RegisterTree), ("o.addPendingTreeMarshal", overlay_Overlay_addPendingTreeMarshal),
   ("treeStorage.Get", treestorage_treeStorage_Get), ("treeStorage.getAndRefresh", treestorage_treeStorage_getAndRefresh),
   ("treeStorage.Set", treestorage_treeStorage_Set), ("treeStorage.Remove", treestorage_treeStorage_Remove),
   ("treeStorage.GetRoster", treestorage_treeStorage_GetRoster), ("treeStorage.IsRequested", treestorage_treeStorage_IsRequested),
   ("treeStorage.IsRegistered", treestorage_treeStorage_IsRegistered), ("treeStorage.Register", treestorage_treeStorage_Register),
   ("treeStorage.Unregister", treestorage_treeStorage_Unregister),
   ("treeStorage.setIfMissing", treestorage_treeStorage_setIfMissing),
   ("tni.closeDispatch", treenode_TreeNodeInstance_closeDispatch), ("pi.ProcessProtocolMsg", treenode_TreeNodeInstance_ProcessProtocolMsg)]

/-- tokens that open a block closed by `"}"` (besides `go{`) in the functions of the table -/
def openers : List String := ["defer{", "range:_,msg:=o.pendingMsg{", "range:_,inst:=o.instances{", "range:_,tm:=sl{"]

/-- the edges (held, acquired) of one function's tokens.  `go`: `some (depth, saved)` while inside a `go{ … }` block
(nothing of the caller is held there; `saved` comes back at its end) -/
def walkWith (call : List Lock → List String → List (Lock × Lock)) :
    List Lock → Option (Nat × List Lock) → List String → List (Lock × Lock)
  | _, _, [] => []
  | held, go, tok :: rest =>
    if tok == "go{" then
      match go with
      | none => walkWith call [] (some (1, held)) rest
      | some (d, sv) => walkWith call held (some (d + 1, sv)) rest
    else if openers.contains tok then
      match go with
      | none => walkWith call held none rest
      | some (d, sv) => walkWith call held (some (d + 1, sv)) rest
    else if tok == "}" then
      match go with
      | none => walkWith call held none rest
      | some (d, sv) => if d ≤ 1 then walkWith call sv none rest else walkWith call held (some (d - 1, sv)) rest
    else
      match lockTok.lookup tok with
      | some l => (held.map fun h => (h, l)) ++ walkWith call (l :: held) go rest
      | none =>
        match unlockTok.lookup tok with
        | some l =>
          match rest with
          | nxt :: _ => if returns.contains nxt then walkWith call held go rest else walkWith call (held.erase l) go rest
          | [] => []
        | none =>
          match callees.lookup tok with
          | some body => call held body ++ walkWith call held go rest
          | none => walkWith call held go rest

/-- calls are followed `n` levels deep (the only cycle is `TransmitMsg` → flush → `TransmitMsg`, through a `go`) -/
def walk : Nat → List Lock → List String → List (Lock × Lock)
  | 0 => fun _ _ => []
  | n + 1 => fun held toks => walkWith (walk n) held none toks

/-- the handlers `Overlay.Process` dispatches to, the flush, and what an instance's end runs -/
def entries : List (List String) :=
  [overlay_Overlay_handleConfigMessage_b2, overlay_Overlay_handleRequestTree, overlay_Overlay_handleSendTree,
   overlay_Overlay_handleSendTreeMarshal, overlay_Overlay_handleRequestRoster, overlay_Overlay_handleSendRoster,
   overlay_Overlay_TransmitMsg, overlay_Overlay_checkPendingMessages, overlay_Overlay_nodeDone, overlay_Overlay_RegisterTree,
   overlay_Overlay_getConfig_b2]

def edges : List (Lock × Lock) := (entries.flatMap (walk 5 [])).eraseDups


/-- **the acquisition graph of the source**: over every handler `Overlay.Process` dispatches to, the flush, the end of an
instance — following calls into the overlay, the tree store and the instance — these are ALL the pairs (lock held, lock
taken).  They are the nestings `Model/C07Locks.lean` transcribes by hand. -/
theorem c07_lock_graph_of_source :
    edges = [(.transmitMux, .instances), (.instances, .store), (.transmitMux, .store), (.instances, .queue),
             (.transmitMux, .queue), (.transmitMux, .pendingMsg), (.transmitMux, .pendingCfg), (.pendingTree, .store)] := by
  decide

/-- **the order is a strict one**: every acquisition in the source goes up in `rank` — so no cycle of handlers waiting for
each other's locks exists, and no lock is taken while it is held -/
theorem c07_lock_order_of_source : ∀ e ∈ edges, rank e.1 < rank e.2 := by
  rw [c07_lock_graph_of_source]; decide

/-- **negation witness** (seeded C07r7-A): a `handleConfigMessage` that looks at the instance list while it holds the
config list, and a `getConfig` called inside the instance-list region of `TransmitMsg`, give the two opposite edges —
the second against the order -/
theorem c07_lock_order_inversion_detected :
    walk 3 [] ["pendingConfigsMut.Lock", "defer:pendingConfigsMut.Unlock", "instancesLock.Lock", "instancesLock.Unlock"]
      = [(.pendingCfg, .instances)] ∧
    walk 3 [] ["transmitMux.Lock", "defer:transmitMux.Unlock", "instancesLock.Lock", "o.cleanTreeStorage", "o.getConfig", "instancesLock.Unlock"]
      = [(.transmitMux, .instances), (.instances, .store), (.transmitMux, .store), (.instances, .pendingCfg), (.transmitMux, .pendingCfg)] ∧
    ¬ rank Lock.pendingCfg < rank Lock.instances := by
  decide

end LockOrder
end C07
