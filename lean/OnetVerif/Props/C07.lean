import OnetVerif.Model.C07
/-! Property C07 — property theorems, negation witnesses, `_partial` variants and non-vacuity
examples only (helper lemmas that need Mathlib go to OnetVerif/Proofs/). -/
namespace C07

end C07
