import OnetVerif.Model.C07
import OnetVerif.Shapes
/-! Property C07 — no peer input can crash, wedge or silence a server. -/
namespace C07

theorem deliver_not_panic (s : Srv) (to : Tok) (frm : Frm) (m3 : Bool) : (deliver s to frm m3).1 ≠ .panic := by
  unfold deliver
  cases to <;> cases frm <;> simp <;> split <;> simp

theorem sendTree_not_panic (s : Srv) (tm : Option TM) (ro : Option Ro) : (sendTree s tm ro).1 ≠ .panic := by
  unfold sendTree
  cases tm with
  | none => simp
  | some tm =>
    simp only
    split
    · simp
    · cases ro with
      | none => simp
      | some ro =>
        simp only
        split
        · simp
        · split <;> simp

/-- **no panic**: in every server state, no envelope — whatever its type and field values —
makes the overlay panic. -/
theorem c07_no_panic (s : Srv) (e : Env) : (process s e).1 ≠ .panic := by
  cases e with
  | proto to frm b m3 =>
    simp only [process]
    split
    · simp
    · split
      · simp
      · split
        · exact deliver_not_panic _ _ _ _
        · split <;> simp
  | reqTree t v => simp only [process]; split <;> simp
  | respTree tm ro => exact sendTree_not_panic s tm ro
  | treeMarshal tm =>
    simp only [process]
    split
    · simp
    · split
      · simp
      · split
        · exact sendTree_not_panic _ _ _
        · simp
  | reqRoster r => simp [process]
  | sendRoster ro => simp only [process]; split <;> simp
  | config w => simp [process]

theorem deliver_lock (s : Srv) (to : Tok) (frm : Frm) (m3 : Bool) : (deliver s to frm m3).2.treeLock = s.treeLock := by
  unfold deliver
  cases to <;> cases frm <;> simp <;> split <;> simp

theorem storeAndFlush_lock (s : Srv) (t : TRef) (r : RoRef) : (storeAndFlush s t r).treeLock = s.treeLock := rfl

theorem sendTree_lock (s : Srv) (tm : Option TM) (ro : Option Ro) :
    (sendTree s tm ro).2.treeLock = s.treeLock := by
  unfold sendTree
  cases tm with
  | none => simp
  | some tm =>
    simp only
    split
    · simp
    · cases ro with
      | none => simp
      | some ro =>
        simp only
        split
        · simp
        · split <;> simp [storeAndFlush_lock]

/-- **no lock left held**: after every envelope the pending-tree lock is free again. -/
theorem c07_locks_released (s : Srv) (e : Env) (h : s.treeLock = 0) : (process s e).2.treeLock = 0 := by
  cases e with
  | proto to frm b m3 =>
    simp only [process]
    split
    · exact h
    · split
      · exact h
      · split
        · rw [deliver_lock]; exact h
        · split <;> simpa using h
  | reqTree t v => simp only [process]; split <;> simpa using h
  | respTree tm ro => simp only [process]; rw [sendTree_lock]; exact h
  | treeMarshal tm =>
    simp only [process]
    split
    · exact h
    · split
      · exact h
      · split
        · rw [sendTree_lock]; exact h
        · simpa using h
  | reqRoster r => simpa [process] using h
  | sendRoster ro => simp only [process]; split <;> simp [h]
  | config w => simpa [process] using h

theorem c07_locks_released_run (es : List Env) (s : Srv) (h : s.treeLock = 0) :
    (runEnvs s es).treeLock = 0 := by
  induction es generalizing s with
  | nil => exact h
  | cons e es ih => exact ih _ (c07_locks_released s e h)

/-! a tree that is present is never removed or replaced by an envelope -/
theorem upd_present {f : TRef → Slot} {t x : TRef} {v : Slot} (h : f x = .present)
    (hv : v = .present ∨ t ≠ x) : upd f t v x = .present := by
  unfold upd
  by_cases e : x = t
  · rcases hv with hv | hv
    · simp [e, hv]
    · exact absurd e.symm hv
  · simp [e, h]

theorem deliver_slot (s : Srv) (to : Tok) (frm : Frm) (m3 : Bool) : (deliver s to frm m3).2.slot = s.slot := by
  unfold deliver
  cases to <;> cases frm <;> simp <;> split <;> simp

theorem storeAndFlush_keeps (s : Srv) (t x : TRef) (r : RoRef) (h : s.slot x = .present) :
    (storeAndFlush s t r).slot x = .present := by
  simp only [storeAndFlush]
  exact upd_present h (.inl rfl)

theorem sendTree_keeps (s : Srv) (tm : Option TM) (ro : Option Ro) (x : TRef) (h : s.slot x = .present) :
    (sendTree s tm ro).2.slot x = .present := by
  unfold sendTree
  cases tm with
  | none => simpa
  | some tm =>
    simp only
    split
    · simpa
    · cases ro with
      | none => simpa
      | some ro =>
        simp only
        split
        · simpa
        · split
          · exact storeAndFlush_keeps s tm.id x _ h
          · simpa

theorem foldl_keeps (ro : Ro) (l : List TM) (s : Srv) (x : TRef) (h : s.slot x = .present) :
    (l.foldl (fun acc tm =>
        if acc.slot tm.id = .present then acc
        else if makeTree tm ro then storeAndFlush acc tm.id ro.id else acc) s).slot x = .present := by
  induction l generalizing s with
  | nil => simpa
  | cons tm l ih =>
    simp only [List.foldl_cons]
    apply ih
    split
    · exact h
    · split
      · exact storeAndFlush_keeps s tm.id x _ h
      · exact h

/-- **a known tree cannot be taken away or replaced** by any envelope -/
theorem c07_present_stays (s : Srv) (e : Env) (x : TRef) (h : s.slot x = .present) :
    (process s e).2.slot x = .present := by
  cases e with
  | proto to frm b m3 =>
    simp only [process]
    split
    · exact h
    · split
      · exact h
      · split
        · rw [deliver_slot]; exact h
        · rename_i hnp
          split
          · simp only
            apply upd_present h
            right; intro e; subst e; exact hnp h
          · exact h
  | reqTree t v => simp only [process]; split <;> simpa using h
  | respTree tm ro => exact sendTree_keeps s tm ro x h
  | treeMarshal tm =>
    simp only [process]
    split
    · exact h
    · split
      · exact h
      · split
        · exact sendTree_keeps _ _ _ x h
        · simpa using h
  | reqRoster r => simpa [process] using h
  | sendRoster ro =>
    simp only [process]
    split
    · exact h
    · simp only
      exact foldl_keeps ro _ s x h
  | config w => simpa [process] using h

theorem c07_present_stays_run (es : List Env) (s : Srv) (x : TRef) (h : s.slot x = .present) :
    (runEnvs s es).slot x = .present := by
  induction es generalizing s with
  | nil => exact h
  | cons e es ih => exact ih _ (c07_present_stays s e x h)

/-- **still serves**: after *any finite sequence* of envelopes of any type with any field
values, in any of the starting states, (1) a legitimate protocol message of a new run on the
known tree is handed to its instance and reaches the handler, (2) a legitimate tree request is
answered, (3) a roster request is answered, and nothing panics on the way. -/
theorem c07_still_serves (es : List Env) (s0 : Srv) (hK : s0.slot .K = .present) :
    let s := runEnvs s0 es
    (process s (.proto (.fresh .K) .member true true)).1 = .ok ∧
    (process s (.proto (.fresh .K) .member true true)).2.delivered = s.delivered + 1 ∧
    (process s (.reqTree .K false)).2.replies = s.replies + 1 ∧
    (process s (.reqRoster .roK)).2.replies = s.replies + 1 := by
  have hp := c07_present_stays_run es s0 .K hK
  simp only
  generalize runEnvs s0 es = s at *
  refine ⟨?_, ?_, ?_, ?_⟩
  · simp [process, treeOf, hp, deliver]
  · simp [process, treeOf, hp, deliver]
  · simp [process, hp]
  · simp [process]

/-! ### the pinned code before the repairs: five negation witnesses (each replayed on the real code,
`notes/probes/onet_overlay_c07_probe_test.go.txt`, and kept as corpus cases) -/
theorem c07_old_nil_destination : (processOld {} (.proto .none .member true true)).1 = .panic := by
  simp [processOld]
theorem c07_old_nil_sender : (processOld {} (.proto (.fresh .K) .none true true)).1 = .panic := by
  simp [processOld, treeOf, creates]
theorem c07_old_empty_description :
    (processOld {} (.respTree (some ⟨.R, .roR, .emptyChildren⟩) (some ⟨.roR, true, true⟩))).1 = .panic := by
  simp [processOld]
theorem c07_old_roster_member_without_key :
    (processOld {} (.respTree (some ⟨.R, .roR, .good⟩) (some ⟨.roR, true, false⟩))).1 = .panic := by
  simp [processOld]
theorem c07_old_roster_request_over_empty_slot : (processOld {} (.reqRoster .roK)).1 = .panic := by
  simp [processOld]
theorem c07_old_lock_left_held : (processOld {} (.sendRoster ⟨.roR, true, true⟩)).2.treeLock = 1 := by
  simp [processOld]

/-! ### non-vacuity: the deprecated roster-then-tree path stores the requested tree -/
example : (runEnvs {} [.treeMarshal ⟨.R, .roR, .good⟩, (.sendRoster ⟨.roR, true, true⟩)]).slot .R = .present ∧
    (runEnvs {} [.treeMarshal ⟨.R, .roR, .good⟩, (.sendRoster ⟨.roR, true, true⟩)]).delivered = 1 := by
  simp [runEnvs, process, instanceRoster, makeTree, storeAndFlush, upd]

/-! ### the code regions the model stands for
Regenerated from /repo's source on every run (`harness/cmd/astfacts` → `OnetVerif/Shapes.lean`): the
calls that matter for synchronisation and data flow, the lock regions and (for decision logic) the
conditions, in source order.  A re-ordering, a dropped call or a changed condition breaks these
obligations even when no sampled input or schedule shows a difference; the check then searches for
a failing input. -/
theorem c07_shape_Overlay_Process :
    Shapes.overlay_Overlay_Process =
   ["MsgType.Equal", "o.handleConfigMessage", "protoIO.getByPacketType", "io.Unwrap",
     "o.handleRequestTree", "o.handleSendTree", "o.handleSendTreeMarshal",
     "o.handleRequestRoster", "o.handleSendRoster", "network.MessageType", "o.TransmitMsg"] := rfl

theorem c07_shape_Overlay_handleSendTree :
    Shapes.overlay_Overlay_handleSendTree =
   ["if:((rt.TreeMarshal==nil)||rt.TreeMarshal.TreeID.IsNil())", "return:",
     "if:(rt.Roster==nil)", "return:", "if:!o.treeStorage.IsRequested(rt.TreeMarshal.TreeID)",
     "return:", "TreeMarshal.MakeTree", "if:(err!=nil)", "return:", "o.RegisterTree"] := rfl

theorem c07_shape_Overlay_handleSendTreeMarshal :
    Shapes.overlay_Overlay_handleSendTreeMarshal =
   ["if:tm.TreeID.IsNil()", "return:", "if:!o.treeStorage.IsRequested(tm.TreeID)", "return:",
     "instancesLock.Lock", "treeStorage.Get",
     "if:(((tree!=nil)&&(tree.Roster!=nil))&&tree.Roster.ID.Equal(tm.RosterID))",
     "instancesLock.Unlock", "if:(ro==nil)", "io.Wrap", "if:(err!=nil)", "server.Send",
     "if:(err!=nil)", "o.addPendingTreeMarshal", "return:", "o.handleSendTree"] := rfl

theorem c07_shape_Overlay_handleRequestTree :
    Shapes.overlay_Overlay_handleRequestTree =
   ["treeStorage.Get", "tree.MakeTreeMarshal", "o.handleRequestTreeDeprecated", "io.Wrap",
     "server.Send"] := rfl

theorem c07_shape_Overlay_handleRequestRoster :
    Shapes.overlay_Overlay_handleRequestRoster =
   ["treeStorage.GetRoster", "io.Wrap", "server.Send"] := rfl

theorem c07_shape_Overlay_handleSendRoster :
    Shapes.overlay_Overlay_handleSendRoster =
   ["ID.IsNil", "o.checkPendingTreeMarshal"] := rfl

theorem c07_shape_Overlay_checkPendingTreeMarshal :
    Shapes.overlay_Overlay_checkPendingTreeMarshal =
   ["pendingTreeLock.Lock", "if:!ok", "pendingTreeLock.Unlock", "return:",
     "if:(o.treeStorage.Get(tm.TreeID)!=nil)", "tm.MakeTree", "if:(err!=nil)", "o.RegisterTree",
     "pendingTreeLock.Unlock"] := rfl

theorem c07_shape_TreeMarshal_MakeTree :
    Shapes.tree_TreeMarshal_MakeTree =
   ["if:(ro==nil)", "return:nil,xerrors.New(\"\")", "if:!ro.ID.Equal(tm.RosterID)",
     "return:nil,xerrors.New(\"\")", "if:((len(tm.Children)!=1)||(tm.Children[]==nil))",
     "return:nil,xerrors.New(\"\")", "Children[].MakeTreeFromList", "if:(err!=nil)",
     "return:nil,xerrors.Errorf(\"\",err)", "tree.computeSubtreeAggregate", "return:tree,nil"] := rfl

theorem c07_shape_TreeMarshal_MakeTreeFromList :
    Shapes.tree_TreeMarshal_MakeTreeFromList =
   ["ro.Search", "if:(idx<0)", "return:nil,xerrors.New(\"\")", "if:(ent.Public==nil)",
     "return:nil,xerrors.New(\"\")", "c.MakeTreeFromList", "if:(err!=nil)",
     "return:nil,xerrors.Errorf(\"\",err)", "return:tn,nil"] := rfl

theorem c07_shape_treeStorage_GetRoster :
    Shapes.treestorage_treeStorage_GetRoster =
   ["ts.Lock", "defer:ts.Unlock", "if:((tree!=nil)&&tree.Roster.ID.Equal(id))",
     "return:tree.Roster", "return:nil"] := rfl

theorem c07_shape_treeStorage_IsRequested :
    Shapes.treestorage_treeStorage_IsRequested =
   ["ts.Lock", "defer:ts.Unlock", "return:(ok&&(tree==nil))"] := rfl


end C07
