import OnetVerif.Model.C07
import OnetVerif.Gen.C07
/-! Property C07 — the guards regenerated from the Go source (`Gen/C07.lean`, written by `harness/cmd/go2lean` on every
check run): the nil / length tests the five repairs added (/repo fc12581, 6586085, a34bf3c, 9ed8d4a, fe946b8), lifted out
of functions that take locks, start goroutines and send (`"extract"`, kind `if`, form `rich`).  A Go pointer is an
`Option`, a read through a pointer that was not tested before it is `none` of the panic layer.  For each guard: (1) it
**never panics** — every read is behind its test, which is exactly what a dropped or re-ordered test breaks; (2) what it
decides; (3) the model (`Model/C07.lean`, where every pointer a peer can leave nil is a `none`-like constructor) takes
its refusing branch exactly where the guard fires, and `processOld` (the code without the guard) is where it panics.
Nothing imports this file. -/
namespace C07

/-- tokens of the model as the translated code sees them: absent, or some token -/
def tokOf : Tok → Option Gen.C07.Token
  | .none => none
  | _ => some { TreeNodeID := 0 }

def frmOf : Frm → Option Gen.C07.Token
  | .none => none
  | .member => some { TreeNodeID := 1 }
  | .stranger => some { TreeNodeID := 2 }
  | .spoof => some { TreeNodeID := 3 }

/-- the protocol message of the model's envelope `proto to frm _` -/
def msgOf (to : Tok) (frm : Frm) : Gen.C07.ProtocolMsg := { From := frmOf frm, To := tokOf to }

/-! ### `Overlay.TransmitMsg`: `onetMsg == nil || onetMsg.To == nil` -/

/-- never panics, whatever the message: `onetMsg.To` is read behind `onetMsg == nil ||` -/
theorem c07_gen_noDestination_total (m : Option Gen.C07.ProtocolMsg) :
    Gen.C07.TransmitMsg_noDestination m = some (m.isNone || (m.bind (·.To)).isNone) := by
  unfold Gen.C07.TransmitMsg_noDestination
  cases m with
  | none => rfl
  | some x => cases h : x.To <;> simp [h]

/-- the guard fires exactly on the model's absent destination token, and there `process` refuses the message
without touching the state, while the code before /repo fc12581 (`processOld`) dereferences: panic -/
theorem c07_gen_noDestination_model (s : Srv) (to : Tok) (frm : Frm) (b : Body) (hb : b ≠ .garbage) :
    Gen.C07.TransmitMsg_noDestination (some (msgOf to frm)) = some (decide (to = .none)) ∧
    (Gen.C07.TransmitMsg_noDestination (some (msgOf to frm)) = some true →
      process s (.proto to frm b) = (.ignored, s) ∧ (processOld s (.proto to frm b)).1 = .panic) := by
  constructor
  · cases to <;> simp [Gen.C07.TransmitMsg_noDestination, msgOf, tokOf]
  · intro h
    have : to = .none := by
      cases to <;> simp [Gen.C07.TransmitMsg_noDestination, msgOf, tokOf] at h ⊢
    subst this
    simp [process, processOld, hb]

/-! ### `TreeNodeInstance.dispatchMsgToProtocol`: `onetMsg.From == nil` -/

theorem c07_gen_noSender_model (t : TRef) (to : Tok) (frm : Frm) (b : Body) :
    Gen.C07.dispatch_noSender (msgOf to frm) = decide (frm = .none) ∧
    (Gen.C07.dispatch_noSender (msgOf to frm) = true → reader t frm b = false) := by
  constructor
  · cases frm <;> simp [Gen.C07.dispatch_noSender, msgOf, frmOf]
  · intro h
    have : frm = .none := by cases frm <;> simp [Gen.C07.dispatch_noSender, msgOf, frmOf] at h ⊢
    subst this; simp [reader]

/-- the code before /repo 6586085 reads the sender token in the reader goroutine: where the guard fires (and the
message reaches an instance) it panics -/
theorem c07_gen_noSender_old (s : Srv) (to : Tok) (b : Body) (hb : b ≠ .garbage) (ht : to ≠ .none)
    (hp : s.slot (treeOf to) = .present) (hc : creates to = true) :
    Gen.C07.dispatch_noSender (msgOf to .none) = true ∧ (processOld s (.proto to .none b)).1 = .panic := by
  refine ⟨rfl, ?_⟩
  simp [processOld, hb, ht, hp, hc]

/-! ### `TreeMarshal.MakeTree`: `ro == nil`, `len(tm.Children) != 1 || tm.Children[0] == nil` -/

theorem c07_gen_noRoster (ro : Option Gen.C07.Roster) : Gen.C07.MakeTree_noRoster ro = ro.isNone := by
  cases ro <;> rfl

/-- **the index is behind the length test**: `tm.Children[0]` is evaluated only when `len(tm.Children) == 1`, so the
condition never panics — with `&&`, the operands swapped or the length test dropped it would (the variant below) -/
theorem c07_gen_notOneRoot_total (tm : Gen.C07.TreeMarshal) :
    Gen.C07.MakeTree_notOneRoot tm = some (match tm.Children with | [some _] => false | _ => true) := by
  unfold Gen.C07.MakeTree_notOneRoot
  obtain ⟨ch⟩ := tm
  match ch with
  | [] => simp [Gen.Rt.len]
  | [none] => simp [Gen.Rt.len, Gen.Rt.idx]
  | [some x] => simp [Gen.Rt.len, Gen.Rt.idx]
  | a :: b :: l =>
    have : (Gen.Rt.len (a :: b :: l) != 1) = true := by
      simp [Gen.Rt.len]; omega
    simp [this]

/-- the description shapes of the model as the translated code sees their `Children` -/
def childrenOf : Shape → List (Option Gen.C07.TreeMarshal)
  | .emptyChildren => []
  | .twoRoots => [some { Children := [] }, some { Children := [] }]
  | _ => [some { Children := [] }]

/-- where the guard fires the model's `makeTree` refuses (and `sendTree` leaves the state alone); the code before
/repo a34bf3c indexes the empty list: `processOld` panics on the description without nodes -/
theorem c07_gen_notOneRoot_model (tm : TM) (ro : Ro)
    (h : Gen.C07.MakeTree_notOneRoot { Children := childrenOf tm.shape } = some true) :
    makeTree tm ro = false := by
  obtain ⟨i, r, sh⟩ := tm
  cases sh <;> simp [Gen.C07.MakeTree_notOneRoot, childrenOf, Gen.Rt.len, Gen.Rt.idx] at h <;> simp [makeTree]

/-- the variant without the length test (what the repaired line replaced): the bare read `tm.Children[0]` panics on
the empty description — this is `c07_old_empty_description` seen from the translated side -/
theorem c07_gen_notOneRoot_unguarded_panics :
    Gen.Rt.idx (childrenOf .emptyChildren) 0 = none ∧
    Gen.C07.MakeTree_notOneRoot { Children := childrenOf .emptyChildren } = some true := by
  constructor <;> rfl

/-! ### `TreeMarshal.MakeTreeFromList`: `ent.Public == nil` -/

/-- on an identity that was found in the roster (the `idx < 0` return is before it) the guard never panics and
fires exactly on a missing key -/
theorem c07_gen_noKey (e : Gen.C07.ServerIdentity) :
    Gen.C07.MakeTreeFromList_noKey (some e) = some e.Public.isNone := by
  obtain ⟨p⟩ := e
  cases p <;> rfl

/-- the model's roster classes as the identity `MakeTreeFromList` finds for a node of the description -/
def entOf (ro : Ro) : Gen.C07.ServerIdentity := { Public := if ro.keysOk then some 1 else none }

theorem c07_gen_noKey_model (tm : TM) (ro : Ro)
    (h : Gen.C07.MakeTreeFromList_noKey (some (entOf ro)) = some true) : makeTree tm ro = false := by
  have : ro.keysOk = false := by
    cases hk : ro.keysOk <;> simp [Gen.C07.MakeTreeFromList_noKey, entOf, hk] at h ⊢
  simp [makeTree, this]

/-! ### `treeStorage.GetRoster`: `tree != nil && tree.Roster != nil && tree.Roster.ID.Equal(id)` -/

/-- **an empty slot is skipped, never dereferenced**: the loop condition is total — without `tree != nil` (the code
before /repo 9ed8d4a) the read `tree.Roster` of a requested-but-empty slot is the panic of
`c07_old_roster_request_over_empty_slot` -/
theorem c07_gen_GetRoster_hit_total (tree : Option Gen.C07.Tree) (id : Nat) :
    Gen.C07.GetRoster_hit tree id =
      some (match tree with
            | some { Roster := some r } => r.ID == id
            | _ => false) := by
  unfold Gen.C07.GetRoster_hit
  match tree with
  | none => rfl
  | some { Roster := none } => rfl
  | some { Roster := some r } => by_cases h : r.ID = id <;> simp [h]

/-- the slots of the model as the loop sees them: a requested slot is a nil entry -/
def slotTree (s : Srv) (t : TRef) : Option Gen.C07.Tree :=
  match s.slot t with
  | .present => some { Roster := some { ID := 7 } }
  | _ => none

theorem c07_gen_GetRoster_model (s : Srv) (r : RoRef) (id : Nat) :
    (∀ t, ∃ v, Gen.C07.GetRoster_hit (slotTree s t) id = some v) ∧ (process s (.reqRoster r)).1 = .ok := by
  constructor
  · intro t; rw [c07_gen_GetRoster_hit_total]; exact ⟨_, rfl⟩
  · simp [process]

end C07
