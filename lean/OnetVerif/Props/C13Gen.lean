import OnetVerif.Model.C13
import OnetVerif.Gen.C13
import OnetVerif.Gen.C13K
import OnetVerif.Props.C13
import OnetVerif.Proofs.C13SvcGen
import OnetVerif.Proofs.C13VisitGen
/-! Property C13 — the definitions regenerated from the Go source (`Gen/C13.lean`, written by `harness/cmd/go2lean`
on every check run from `messages.go`, `protocol.go`, `tree.go`, `service.go`, `network/encoding.go`) equal the
hand-written pre-images of `Model/C13.lean`.  `Gen.C13.Token` is the Go struct field by field (every id a
`uuid.UUID`, modelled by its 16 bytes); `Token.ofGen` reads it as the model's `Token`.  Nothing imports this file. -/
namespace C13

/-- the translated struct read as the model's -/
def Token.ofGen (t : Gen.C13.Token) : Token :=
  { roster := t.RosterID, tree := t.TreeID, proto := t.ProtoID, service := t.ServiceID, round := t.RoundID,
    node := t.TreeNodeID }

/-- `network.NamespaceURL` as read from the source is the model's `ns` -/
theorem c13_gen_consts : Gen.C13.NamespaceURL = ns := by decide

/-- **`Token.ID` as translated is the model's token id**: the SHA-1 UUID of `NamespaceURL`, `"token/"` and the
text forms of roster, round, service, protocol, tree and node id in that order -/
theorem c13_gen_Token_ID_eq (H : HashFns) (t : Gen.C13.Token) :
    Gen.C13.Token_ID H t = tokenId H (Token.ofGen t) := by
  unfold Gen.C13.Token_ID tokenId tokenPre Token.ofGen
  simp only [Gen.C13.RosterID_String, Gen.C13.RoundID_String, Gen.C13.ServiceID_String, Gen.C13.ProtocolID_String,
    Gen.C13.TreeID_String, Gen.C13.TreeNodeID_String, c13_gen_consts]
  have : ascii "token/" = [116, 111, 107, 101, 110, 47] := by decide
  rw [this]
  simp only [List.append_assoc]

/-- **`ProtocolNameToID` as translated is the model's protocol id** (MD5 UUID of `NamespaceURL`,
`"protocolname/"` and the name) -/
theorem c13_gen_ProtocolNameToID_eq (H : HashFns) (name : Bytes) :
    Gen.C13.ProtocolNameToID H name = protoId H name := by
  unfold Gen.C13.ProtocolNameToID protoId protoPre
  have : ascii "protocolname/" = [112, 114, 111, 116, 111, 99, 111, 108, 110, 97, 109, 101, 47] := by decide
  rw [c13_gen_consts, this]
/-- **the `Equal` methods of the seven identifier types as translated are the model's `idEqual`** (Go's `==` on
the 16-byte arrays; the operator is mapped to `idEqual` by `meta/go2lean.json`, what is checked here is that
each method compares its receiver with its argument and nothing else), and `ServiceID.IsNil` is `idIsNil` -/
theorem c13_gen_id_Equal_eq (H : HashFns) (a b : Bytes) :
    Gen.C13.TreeID_Equal H a b = idEqual a b ∧ Gen.C13.RosterID_Equal H a b = idEqual a b ∧
    Gen.C13.TreeNodeID_Equal H a b = idEqual a b ∧ Gen.C13.TokenID_Equal H a b = idEqual a b ∧
    Gen.C13.RoundID_Equal H a b = idEqual a b ∧ Gen.C13.ProtocolID_Equal H a b = idEqual a b ∧
    Gen.C13.ServiceID_Equal H a b = idEqual a b ∧ Gen.C13.ServiceID_IsNil H a = idIsNil a :=
  ⟨rfl, rfl, rfl, rfl, rfl, rfl, rfl, rfl⟩
/-- **the `IsNil` methods of the six other identifier types as translated are the model's `idIsNil`**: each compares its
receiver with the nil UUID through the type's own `Equal` -/
theorem c13_gen_id_IsNil_eq (H : HashFns) (a : Bytes) :
    Gen.C13.TreeID_IsNil H a = idIsNil a ∧ Gen.C13.RosterID_IsNil H a = idIsNil a ∧
    Gen.C13.TreeNodeID_IsNil H a = idIsNil a ∧ Gen.C13.TokenID_IsNil H a = idIsNil a ∧
    Gen.C13.RoundID_IsNil H a = idIsNil a ∧ Gen.C13.ProtocolID_IsNil H a = idIsNil a :=
  ⟨rfl, rfl, rfl, rfl, rfl, rfl⟩

/-! ### round 7: the identifier derivations that sit inside functions the translator cannot take as a whole
(`NewTree`, `NewRoster`, `NewTreeNode`, `serviceFactory.Register`: loops over a hash writer, closures, registration
under a lock).  What is lifted from the source is the *value assigned* to the identifier (kind `assign` of
`"extract"`): the expression over the hash object `h` (its content = what was written to it), the roster, the
name, the identity.  The theorems say that the model's `…IdOfPre` functions are exactly these expressions. -/

/-- **`NewRoster`'s `ID:` field as read from the source is the model's roster id of the bytes fed to `h`**:
the SHA-1 UUID of the hex text of the SHA-256 digest.  Falsified by: another digest, the raw digest instead of
its hex text, another UUID version. -/
theorem c13_gen_NewRoster_ID_eq (H : HashFns) (h : Bytes) :
    Gen.C13.NewRoster_ID H h = rosterIdOfPre H h := rfl

/-- hence, when the loops have fed `h` with the model's roster pre-image, the field is the model's roster id -/
theorem c13_gen_NewRoster_ID_roster (H : HashFns) (ro : List Member) :
    Gen.C13.NewRoster_ID H (rosterPre ro) = rosterId H ro := rfl

/-- **`NewTree`'s `url` and `ID:` as read from the source are the model's outer pre-image and tree id**:
`NamespaceURL + "tree/" + roster.ID.String() + hex(h.Sum(nil))`, SHA-1 UUID of it.  Falsified by: dropping the
roster id, the roster id's bytes instead of its text form, another prefix, another order. -/
theorem c13_gen_NewTree_url_eq (H : HashFns) (ro : Gen.C13.Roster) (h : Bytes) :
    Gen.C13.NewTree_url H ro h = treeOuterPre ro.ID (H.sha256 h) := by
  unfold Gen.C13.NewTree_url treeOuterPre
  have : ascii "tree/" = [116, 114, 101, 101, 47] := by decide
  simp only [Gen.C13.RosterID_String, c13_gen_consts, this, List.append_assoc]

theorem c13_gen_NewTree_ID_eq (H : HashFns) (ro : Gen.C13.Roster) (h : Bytes) :
    Gen.C13.NewTree_ID H (Gen.C13.NewTree_url H ro h) = treeIdOfPre H ro.ID h := by
  rw [c13_gen_NewTree_url_eq]; rfl

/-- hence, when `Visit` has fed `h` with the model's depth-first pre-image, the field is the model's tree id -/
theorem c13_gen_NewTree_ID_tree (H : HashFns) (ro : Gen.C13.Roster) (f : Forest) :
    Gen.C13.NewTree_ID H (Gen.C13.NewTree_url H ro (dfs f)) = treeId H ro.ID f :=
  c13_gen_NewTree_ID_eq H ro (dfs f)

/-- **`NewTreeNode`'s `ID:` as read from the source is the model's node id of the key's text form** (the
text form `Public.String()` is a parameter: `keyText` of the model for the three suites); it reads the key and
nothing else of the identity.  Falsified by: an id from the address, from the roster index, from the deprecated
`ID` field, with a prefix. -/
theorem c13_gen_NewTreeNode_ID_eq (H : HashFns) (ni : Gen.C13.ServerIdentity) (text : Bytes → Bytes) :
    Gen.C13.NewTreeNode_ID H ni text = nodeIdStr H (text ni.Public) := rfl

theorem c13_gen_NewTreeNode_ID_ed25519 (H : HashFns) (ni : Gen.C13.ServerIdentity) :
    Gen.C13.NewTreeNode_ID H ni hexAscii = nodeId H ni.Public := rfl

/-- **the service id `serviceFactory.Register` assigns, as read from the source, is the model's**: the SHA-1
UUID of the name alone — no suite, no prefix, no registration state (the seeded change C13r4-A hashed
`name + suite`). -/
theorem c13_gen_Register_id_eq (H : HashFns) (name : Bytes) :
    Gen.C13.serviceFactory_Register_id H name = serviceId H name := rfl

/-- **`ServerIdentity.GetID` as translated (whole function; the key is an option in `Gen.C13K`)**: never panics;
without a key the nil UUID; with a key the model's server id of its text form. -/
theorem c13_gen_ServerIdentity_GetID_eq (H : HashFns) (text : Bytes → Bytes) :
    (∀ key, Gen.C13K.ServerIdentity_GetID H ⟨some key⟩ text = some (serverIdStr H (text key))) ∧
    Gen.C13K.ServerIdentity_GetID H ⟨none⟩ text = some nilUuid := by
  refine ⟨fun key => ?_, rfl⟩
  have : ns ++ ascii "id/" = [104, 116, 116, 112, 115, 58, 47, 47, 100, 101, 100, 105, 115, 46, 101, 112, 102, 108, 46, 99,
      104, 47, 105, 100, 47] := by decide
  simp only [Gen.C13K.ServerIdentity_GetID, serverIdStr, serverPreStr, this]
  rfl

/-- in one equation: the translated function is the model's `serverIdOpt` (what the driver answers the op `nokey` with) -/
theorem c13_gen_ServerIdentity_GetID_opt (H : HashFns) (text : Bytes → Bytes) (si : Gen.C13K.ServerIdentity) :
    Gen.C13K.ServerIdentity_GetID H si text = some (serverIdOpt H (si.Public.map text)) := by
  obtain ⟨pub⟩ := si
  cases pub with
  | none => exact (c13_gen_ServerIdentity_GetID_eq H text).2
  | some k => exact (c13_gen_ServerIdentity_GetID_eq H text).1 k

theorem c13_gen_ServerIdentity_GetID_ed25519 (H : HashFns) (key : Bytes) :
    Gen.C13K.ServerIdentity_GetID H ⟨some key⟩ hexAscii = some (serverId H key) :=
  (c13_gen_ServerIdentity_GetID_eq H hexAscii).1 key

/-- **`Context.NewPeerSetID` as translated is the model's peer-set id**: SHA-256 over the service id followed by
the data, cut / padded to 32 bytes by `network.NewPeerSetID`; the slice `c.serviceID[:]` never panics. -/
theorem c13_gen_Context_NewPeerSetID_eq (H : HashFns) (c : Gen.C13.Context) (data : Bytes) :
    Gen.C13.Context_NewPeerSetID H c data = some (peerSetId H c.serviceID data) := by
  have hs : Gen.Rt.slice c.serviceID 0 (Gen.Rt.len c.serviceID) = some c.serviceID := by
    simp [Gen.Rt.slice, Gen.Rt.len]
  simp only [Gen.C13.Context_NewPeerSetID, hs, peerSetId, peerSetPre, List.nil_append]

/-! ### round 7, second part: the hash feeds themselves (loops over a hash writer, translated by `go2lean` with the
hash object as an accumulating byte list: `Gen.Rt.loop`) -/

/-- the translated identity read as the model's roster member: its key, then its service keys in order -/
def memOfGen (id : Gen.C13.ServerIdentity) : Member :=
  { key := id.Public, svcs := id.ServiceIdentities.map (·.Public) }

private theorem loop_next {α σ ρ : Type} (f : σ → α → σ) (body : σ → α → Gen.Rt.Step ρ σ)
    (hb : ∀ s x, body s x = .next (f s x)) : ∀ (xs : List α) (s : σ), Gen.Rt.loop xs s body = Sum.inr (xs.foldl f s) := by
  intro xs
  induction xs with
  | nil => intro s; rfl
  | cons x r ih => intro s; simp only [Gen.Rt.loop, hb, List.foldl_cons]; exact ih _

private theorem svc_fold (l : List Gen.C13.ServiceIdentity) (h : Bytes) :
    l.foldl (fun h s => h ++ s.Public) h = h ++ (l.map (·.Public)).flatten := by
  induction l generalizing h with
  | nil => simp
  | cons a r ih => simp [ih, List.append_assoc]

private theorem member_fold (ids : List Gen.C13.ServerIdentity) (h : Bytes) :
    ids.foldl (fun h id => (h ++ id.Public) ++ (id.ServiceIdentities.map (·.Public)).flatten) h =
      h ++ rosterPre (ids.map memOfGen) := by
  induction ids generalizing h with
  | nil => simp [rosterPre, rosterKeys]
  | cons a r ih =>
    simp only [List.foldl_cons, ih]
    simp only [List.map_cons, rosterPre, rosterKeys, memberKeys, memOfGen, List.flatten_append,
      List.flatten_cons, List.append_assoc]

/-- **the bytes `NewRoster`'s loops feed to the hash, as translated from the source, are the model's roster
pre-image** (appended to whatever the hash held): every member's key followed by its service keys, members in list
order.  Falsified by: skipping the service keys (mutant `C13_roster_ignores_service_keys`), feeding them before the
server key, a separator, feeding only the first member. -/
theorem c13_gen_NewRoster_h_eq (H : HashFns) (ids : List Gen.C13.ServerIdentity) (h : Bytes) :
    Gen.C13.NewRoster_h H ids h = h ++ rosterPre (ids.map memOfGen) := by
  unfold Gen.C13.NewRoster_h
  have inner : ∀ (id : Gen.C13.ServerIdentity) (h : Bytes),
      Gen.Rt.loop (ρ := Gen.Rt.Step Bytes Bytes) id.ServiceIdentities h (fun h srvid => Gen.Rt.Step.next (h ++ srvid.Public)) =
        Sum.inr (h ++ (id.ServiceIdentities.map (·.Public)).flatten) := by
    intro id h
    rw [loop_next (fun h (s : Gen.C13.ServiceIdentity) => h ++ s.Public) _ (fun _ _ => rfl), svc_fold]
  rw [loop_next (fun h (id : Gen.C13.ServerIdentity) => (h ++ id.Public) ++ (id.ServiceIdentities.map (·.Public)).flatten)]
  · exact member_fold ids h
  · intro s x
    simp only [inner]

/-- **`NewRoster`'s id as assembled from the two translated pieces (hash feed, `ID:` expression) is the model's
roster id** -/
theorem c13_gen_NewRoster_id (H : HashFns) (ids : List Gen.C13.ServerIdentity) :
    Gen.C13.NewRoster_ID H (Gen.C13.NewRoster_h H ids []) = rosterId H (ids.map memOfGen) := by
  rw [c13_gen_NewRoster_h_eq]; rfl

/-- **`Roster.GetID` as translated (the whole function) is the model's roster id of the list**: it never fails, and it
is the id `NewRoster` gives the same list — the two derivations agree for every roster -/
theorem c13_gen_Roster_GetID_eq (H : HashFns) (ro : Gen.C13.Roster) :
    Gen.C13.Roster_GetID H ro = some (rosterId H (ro.List.map memOfGen)) ∧
    Gen.C13.Roster_GetID H ro = some (Gen.C13.NewRoster_ID H (Gen.C13.NewRoster_h H ro.List [])) := by
  have h1 : Gen.C13.Roster_GetID H ro = some (rosterId H (ro.List.map memOfGen)) := by
    unfold Gen.C13.Roster_GetID
    have inner : ∀ (id : Gen.C13.ServerIdentity) (h : Bytes),
        Gen.Rt.loop (ρ := Gen.Rt.Step (Option Bytes) Bytes) id.ServiceIdentities h
          (fun h srvid => Gen.Rt.Step.next (h ++ srvid.Public)) =
          Sum.inr (h ++ (id.ServiceIdentities.map (·.Public)).flatten) := by
      intro id h
      rw [loop_next (fun h (s : Gen.C13.ServiceIdentity) => h ++ s.Public) _ (fun _ _ => rfl), svc_fold]
    dsimp only
    rw [loop_next (fun h (id : Gen.C13.ServerIdentity) => (h ++ id.Public) ++ (id.ServiceIdentities.map (·.Public)).flatten)]
    · simp only [member_fold, List.nil_append]; rfl
    · intro s x
      simp only [inner]
  exact ⟨h1, by rw [h1, c13_gen_NewRoster_id]⟩

/-! #### the tree: the closure `NewTree` hands to `Visit`, folded over the pre-order walk, is the model's `dfs` -/

mutual
/-- the translated pointer tree (`Children` slices) as the model's first-child / next-sibling forest -/
def forestOfNode : Gen.C13.TreeNode → Forest → Forest
  | ⟨si, ch⟩, sib => .node si.Public (forestOfList ch) sib
def forestOfList : List Gen.C13.TreeNode → Forest
  | [] => .nil
  | c :: r => forestOfNode c (forestOfList r)
end

mutual
/-- `TreeNode.Visit` (tree.go: `fn(depth, t)`, then every child in order): the nodes in the order the closure sees them -/
def visitNode : Gen.C13.TreeNode → List Gen.C13.TreeNode
  | ⟨si, ch⟩ => ⟨si, ch⟩ :: visitList ch
def visitList : List Gen.C13.TreeNode → List Gen.C13.TreeNode
  | [] => []
  | c :: r => visitNode c ++ visitList r
end

private theorem visit_one (H : HashFns) (h : Bytes) (d : Int) (tn : Gen.C13.TreeNode) :
    Gen.C13.NewTree_visit H h d tn = h ++ (tn.ServerIdentity.Public ++ leafMark (forestOfList tn.Children)) := by
  unfold Gen.C13.NewTree_visit Gen.C13.TreeNode_IsLeaf leafMark
  cases hc : tn.Children with
  | nil => simp [Gen.Rt.len, forestOfList, Forest.isNil]
  | cons c r =>
    have : ¬ ((r.length : Int) + 1 = 0) := by omega
    obtain ⟨si, ch⟩ := c
    simp [Gen.Rt.len, forestOfList, forestOfNode, Forest.isNil, this]

mutual
private theorem visit_fold_node (H : HashFns) (d : Int) : ∀ (t : Gen.C13.TreeNode) (sib : Forest) (h : Bytes),
    (visitNode t).foldl (fun h tn => Gen.C13.NewTree_visit H h d tn) h ++ dfs sib = h ++ dfs (forestOfNode t sib)
  | ⟨si, ch⟩, sib, h => by
    simp only [visitNode, List.foldl_cons, forestOfNode, dfs]
    rw [visit_one, visit_fold_list H d ch]
    simp only [List.append_assoc]
private theorem visit_fold_list (H : HashFns) (d : Int) : ∀ (ts : List Gen.C13.TreeNode) (h : Bytes),
    (visitList ts).foldl (fun h tn => Gen.C13.NewTree_visit H h d tn) h = h ++ dfs (forestOfList ts)
  | [], h => by simp [visitList, forestOfList, dfs]
  | c :: r, h => by
    simp only [visitList, List.foldl_append, forestOfList]
    rw [visit_fold_list H d r, visit_fold_node H d c]
end

/-- **the closure `NewTree` hands to `Visit`, as translated from the source, folded over the pre-order walk of the
pointer tree, feeds the hash with the model's depth-first pre-image `dfs`**: every node's key, the byte `1` after a
leaf, whatever depth the walk reports.  Falsified by: no leaf marker (mutant `C13_tree_no_leaf_marker`), the marker
before the key or after inner nodes, the depth or the roster index fed to the hash (seed C13r3-A). -/
theorem c13_gen_NewTree_visit_dfs (H : HashFns) (d : Int) (root : Gen.C13.TreeNode) (h : Bytes) :
    (visitNode root).foldl (fun h tn => Gen.C13.NewTree_visit H h d tn) h = h ++ dfs (forestOfNode root .nil) := by
  have := visit_fold_node H d root .nil h
  simpa [dfs] using this

/-- **`NewTree`'s id as assembled from the translated pieces (closure over the walk, `url`, `ID:`) is the model's tree id** -/
theorem c13_gen_NewTree_id (H : HashFns) (d : Int) (ro : Gen.C13.Roster) (root : Gen.C13.TreeNode) :
    Gen.C13.NewTree_ID H (Gen.C13.NewTree_url H ro ((visitNode root).foldl (fun h tn => Gen.C13.NewTree_visit H h d tn) [])) =
      treeId H ro.ID (forestOfNode root .nil) := by
  rw [c13_gen_NewTree_visit_dfs, List.nil_append]
  exact c13_gen_NewTree_ID_tree H ro _

/-- non-vacuity: the two colliding witnesses of the known finding are pointer trees of the translation -/
example : let n (k : Nat) (ch : List Gen.C13.TreeNode) : Gen.C13.TreeNode := ⟨⟨[k], []⟩, ch⟩
    forestOfNode (n 10 [n 11 [n 12 [], n 13 []]]) .nil = wT1 ∧ forestOfNode (n 10 [n 11 [n 12 []], n 13 []]) .nil = wT2 := by
  constructor <;> rfl
/-! ### the service factory's look-ups, regenerated (round 7, b7-xlat)

`Gen/C13Svc.lean`: `serviceFactory.ServiceID`, `Name`, `Suite`, `SuiteByID`, `RegisteredServiceNames`, `registeredServiceIDs` whole;
`Unregister` as its three pieces (the search loop with `break`, the not-found test, the removal by two slices and `append`).
Proofs: `Proofs/C13SvcGen.lean` (`SvcGen.regOf` reads the translated factory as the model's registry). -/

/-- `serviceFactory.ServiceID` as regenerated = `svcLookupId` (the id of the first entry with that name, else the nil id) -/
theorem c13_gen_svc_ServiceID_eq (s : Gen.C13Svc.serviceFactory) (name : Bytes) :
    Gen.C13Svc.serviceFactory_ServiceID s name = svcLookupId (SvcGen.regOf s) name := SvcGen.ServiceID_eq s name

/-- `serviceFactory.Name` as regenerated = `svcLookupName` -/
theorem c13_gen_svc_Name_eq (s : Gen.C13Svc.serviceFactory) (id : Bytes) :
    Gen.C13Svc.serviceFactory_Name s id = svcLookupName (SvcGen.regOf s) id := SvcGen.Name_eq s id

/-- `serviceFactory.SuiteByID` as regenerated = `svcLookupSuite` (Go's nil for "no entry" and for "default suite" alike) -/
theorem c13_gen_svc_SuiteByID_eq (s : Gen.C13Svc.serviceFactory) (id : Bytes) :
    Gen.C13Svc.serviceFactory_SuiteByID s id = (svcLookupSuite (SvcGen.regOf s) id).getD none := SvcGen.SuiteByID_eq s id

/-- `RegisteredServiceNames` / `registeredServiceIDs` as regenerated: names / ids in registration order -/
theorem c13_gen_svc_names_ids_eq (s : Gen.C13Svc.serviceFactory) :
    Gen.C13Svc.serviceFactory_RegisteredServiceNames s = (SvcGen.regOf s).map (·.name) ∧
    Gen.C13Svc.serviceFactory_registeredServiceIDs s = (SvcGen.regOf s).map (·.id) := SvcGen.names_ids_eq s

/-- **`serviceFactory.Unregister` as its three regenerated pieces = `svcUnregister`**: an error exactly when no entry has the name,
otherwise the FIRST such entry is removed (the `break`), never a slice panic.  Falsified by: no `break` (last match:
mutant `C13_unregister_last_match`), `index+1` dropped, `index <= 0`. -/
theorem c13_gen_svc_Unregister_eq (s : Gen.C13Svc.serviceFactory) (name : Bytes) :
    (let i := Gen.C13Svc.Unregister_index s name (-1)
     if Gen.C13Svc.Unregister_notFound i then some none
     else (Gen.C13Svc.Unregister_rest s i).map fun l => some (l.map SvcGen.entryOf)) =
    some (svcUnregister (SvcGen.regOf s) name) := SvcGen.Unregister_eq s name

/-! ### `TreeNode.Visit` itself, regenerated (round 7, b7-xlat)

`Gen.C13.TreeNode_Visit` (function flag `"callback"`: generic in the state the callback threads; fuel for the recursion).
`Proofs/C13VisitGen.lean`: it is the callback folded over the pre-order walk `VisitGen.walkNode`, for every fuel of at least the
height of the tree. -/

/-- `TreeNode.Visit` as regenerated = the callback folded over the pre-order walk (node, then every child in order, depth + 1) -/
theorem c13_gen_Visit_eq (H : HashFns) {σ : Type} (fn : σ → Int → Gen.C13.TreeNode → σ) (fuel : Nat) (t : Gen.C13.TreeNode)
    (d : Int) (st : σ) (h : VisitGen.heightNode t ≤ fuel) :
    Gen.C13.TreeNode_Visit H fuel t d fn st = some ((VisitGen.walkNode d t).foldl (fun s p => fn s p.1 p.2) st) :=
  VisitGen.Visit_eq H fn fuel t d st h

mutual
private theorem walk_node {σ : Type} (g : σ → Int → Gen.C13.TreeNode → σ) (hg : ∀ s d d' n, g s d n = g s d' n) (d d0 : Int) :
    ∀ (t : Gen.C13.TreeNode) (st : σ), (VisitGen.walkNode d t).foldl (fun s p => g s p.1 p.2) st = (visitNode t).foldl (fun s n => g s d0 n) st
  | ⟨si, ch⟩, st => by
    simp only [VisitGen.walkNode, visitNode, List.foldl_cons]
    rw [hg st d d0, walk_list g hg (d + 1) d0 ch]
private theorem walk_list {σ : Type} (g : σ → Int → Gen.C13.TreeNode → σ) (hg : ∀ s d d' n, g s d n = g s d' n) (d d0 : Int) :
    ∀ (ts : List Gen.C13.TreeNode) (st : σ), (VisitGen.walkList d ts).foldl (fun s p => g s p.1 p.2) st = (visitList ts).foldl (fun s n => g s d0 n) st
  | [], st => by simp [VisitGen.walkList, visitList]
  | c :: r, st => by
    simp only [VisitGen.walkList, visitList, List.foldl_append]
    rw [walk_node g hg d d0 c, walk_list g hg d d0 r]
end

/-- **`NewTree`'s walk as the code runs it — the regenerated `Visit` driving the regenerated closure from depth 0 — feeds the hash
with `dfs`** -/
theorem c13_gen_NewTree_walk (H : HashFns) (fuel : Nat) (root : Gen.C13.TreeNode) (hf : VisitGen.heightNode root ≤ fuel) :
    Gen.C13.TreeNode_Visit H fuel root 0 (fun h d tn => Gen.C13.NewTree_visit H h d tn) [] = some (dfs (forestOfNode root .nil)) := by
  rw [VisitGen.Visit_eq H _ fuel root 0 [] hf]
  have hg : ∀ (s : Bytes) (d d' : Int) (n : Gen.C13.TreeNode), Gen.C13.NewTree_visit H s d n = Gen.C13.NewTree_visit H s d' n := by
    intro s d d' n; rfl
  rw [walk_node (fun h d tn => Gen.C13.NewTree_visit H h d tn) hg 0 0 root []]
  rw [c13_gen_NewTree_visit_dfs]; simp


/-- **`NewTree`'s identifier with every piece regenerated from the source** — the walk (`TreeNode.Visit`), the closure it drives,
the `url` and the `ID:` expression: for fuel ≥ the height of the pointer tree the walk returns, and the id assembled from
what it returns is the model's tree id of the forest the pointer tree stands for.  No hand-written step is left between
`tree.go` and `treeId`; the pre-image theorems of Props/C13.lean (`c13_tree_collision_iff`, `c13_tree_full_nary_injective`, the
two tree collisions) speak about this function. -/
theorem c13_gen_NewTree_whole (H : HashFns) (ro : Gen.C13.Roster) (root : Gen.C13.TreeNode) (fuel : Nat)
    (hf : VisitGen.heightNode root ≤ fuel) :
    (Gen.C13.TreeNode_Visit H fuel root 0 (fun h d tn => Gen.C13.NewTree_visit H h d tn) []).map
      (fun h => Gen.C13.NewTree_ID H (Gen.C13.NewTree_url H ro h)) = some (treeId H ro.ID (forestOfNode root .nil)) := by
  rw [c13_gen_NewTree_walk H fuel root hf]
  simp only [Option.map_some]
  exact congrArg some (c13_gen_NewTree_ID_tree H ro _)

/-- non-vacuity: on the pointer tree of the witness r(a(b,c)) the walk returns with fuel 3 -/
example (H : HashFns) : let n (k : Nat) (ch : List Gen.C13.TreeNode) : Gen.C13.TreeNode := ⟨⟨[k], []⟩, ch⟩
    Gen.C13.TreeNode_Visit H 3 (n 10 [n 11 [n 12 [], n 13 []]]) 0 (fun h d tn => Gen.C13.NewTree_visit H h d tn) [] = some (dfs wT1) := by
  intro n
  exact c13_gen_NewTree_walk H 3 (n 10 [n 11 [n 12 [], n 13 []]]) (by decide)

end C13
