import OnetVerif.Model.C13
import OnetVerif.Gen.C13
/-! Property C13 — the definitions regenerated from the Go source (`Gen/C13.lean`, written by `harness/cmd/go2lean`
on every check run from `messages.go`, `protocol.go`, `tree.go`, `service.go`, `network/encoding.go`) equal the
hand-written pre-images of `Model/C13.lean`.  `Gen.C13.Token` is the Go struct field by field (every id a
`uuid.UUID`, modelled by its 16 bytes); `Token.ofGen` reads it as the model's `Token`.  Nothing imports this file. -/
namespace C13

/-- the translated struct read as the model's -/
def Token.ofGen (t : Gen.C13.Token) : Token :=
  { roster := t.RosterID, tree := t.TreeID, proto := t.ProtoID, service := t.ServiceID, round := t.RoundID,
    node := t.TreeNodeID }

/-- `network.NamespaceURL` as read from the source is the model's `ns` -/
theorem c13_gen_consts : Gen.C13.NamespaceURL = ns := by decide

/-- **`Token.ID` as translated is the model's token id**: the SHA-1 UUID of `NamespaceURL`, `"token/"` and the
text forms of roster, round, service, protocol, tree and node id in that order -/
theorem c13_gen_Token_ID_eq (H : HashFns) (t : Gen.C13.Token) :
    Gen.C13.Token_ID H t = tokenId H (Token.ofGen t) := by
  unfold Gen.C13.Token_ID tokenId tokenPre Token.ofGen
  simp only [Gen.C13.RosterID_String, Gen.C13.RoundID_String, Gen.C13.ServiceID_String, Gen.C13.ProtocolID_String,
    Gen.C13.TreeID_String, Gen.C13.TreeNodeID_String, c13_gen_consts]
  have : ascii "token/" = [116, 111, 107, 101, 110, 47] := by decide
  rw [this]
  simp only [List.append_assoc]

/-- **`ProtocolNameToID` as translated is the model's protocol id** (MD5 UUID of `NamespaceURL`,
`"protocolname/"` and the name) -/
theorem c13_gen_ProtocolNameToID_eq (H : HashFns) (name : Bytes) :
    Gen.C13.ProtocolNameToID H name = protoId H name := by
  unfold Gen.C13.ProtocolNameToID protoId protoPre
  have : ascii "protocolname/" = [112, 114, 111, 116, 111, 99, 111, 108, 110, 97, 109, 101, 47] := by decide
  rw [c13_gen_consts, this]
/-- **the `Equal` methods of the seven identifier types as translated are the model's `idEqual`** (Go's `==` on
the 16-byte arrays; the operator is mapped to `idEqual` by `meta/go2lean.json`, what is checked here is that
each method compares its receiver with its argument and nothing else), and `ServiceID.IsNil` is `idIsNil` -/
theorem c13_gen_id_Equal_eq (H : HashFns) (a b : Bytes) :
    Gen.C13.TreeID_Equal H a b = idEqual a b ∧ Gen.C13.RosterID_Equal H a b = idEqual a b ∧
    Gen.C13.TreeNodeID_Equal H a b = idEqual a b ∧ Gen.C13.TokenID_Equal H a b = idEqual a b ∧
    Gen.C13.RoundID_Equal H a b = idEqual a b ∧ Gen.C13.ProtocolID_Equal H a b = idEqual a b ∧
    Gen.C13.ServiceID_Equal H a b = idEqual a b ∧ Gen.C13.ServiceID_IsNil H a = idIsNil a :=
  ⟨rfl, rfl, rfl, rfl, rfl, rfl, rfl, rfl⟩
/-- **the `IsNil` methods of the six other identifier types as translated are the model's `idIsNil`**: each compares its
receiver with the nil UUID through the type's own `Equal` -/
theorem c13_gen_id_IsNil_eq (H : HashFns) (a : Bytes) :
    Gen.C13.TreeID_IsNil H a = idIsNil a ∧ Gen.C13.RosterID_IsNil H a = idIsNil a ∧
    Gen.C13.TreeNodeID_IsNil H a = idIsNil a ∧ Gen.C13.TokenID_IsNil H a = idIsNil a ∧
    Gen.C13.RoundID_IsNil H a = idIsNil a ∧ Gen.C13.ProtocolID_IsNil H a = idIsNil a :=
  ⟨rfl, rfl, rfl, rfl, rfl, rfl⟩
end C13
