import OnetVerif.Model.C13
import OnetVerif.Gen.C13
import OnetVerif.Gen.C13K
/-! Property C13 — the definitions regenerated from the Go source (`Gen/C13.lean`, written by `harness/cmd/go2lean`
on every check run from `messages.go`, `protocol.go`, `tree.go`, `service.go`, `network/encoding.go`) equal the
hand-written pre-images of `Model/C13.lean`.  `Gen.C13.Token` is the Go struct field by field (every id a
`uuid.UUID`, modelled by its 16 bytes); `Token.ofGen` reads it as the model's `Token`.  Nothing imports this file. -/
namespace C13

/-- the translated struct read as the model's -/
def Token.ofGen (t : Gen.C13.Token) : Token :=
  { roster := t.RosterID, tree := t.TreeID, proto := t.ProtoID, service := t.ServiceID, round := t.RoundID,
    node := t.TreeNodeID }

/-- `network.NamespaceURL` as read from the source is the model's `ns` -/
theorem c13_gen_consts : Gen.C13.NamespaceURL = ns := by decide

/-- **`Token.ID` as translated is the model's token id**: the SHA-1 UUID of `NamespaceURL`, `"token/"` and the
text forms of roster, round, service, protocol, tree and node id in that order -/
theorem c13_gen_Token_ID_eq (H : HashFns) (t : Gen.C13.Token) :
    Gen.C13.Token_ID H t = tokenId H (Token.ofGen t) := by
  unfold Gen.C13.Token_ID tokenId tokenPre Token.ofGen
  simp only [Gen.C13.RosterID_String, Gen.C13.RoundID_String, Gen.C13.ServiceID_String, Gen.C13.ProtocolID_String,
    Gen.C13.TreeID_String, Gen.C13.TreeNodeID_String, c13_gen_consts]
  have : ascii "token/" = [116, 111, 107, 101, 110, 47] := by decide
  rw [this]
  simp only [List.append_assoc]

/-- **`ProtocolNameToID` as translated is the model's protocol id** (MD5 UUID of `NamespaceURL`,
`"protocolname/"` and the name) -/
theorem c13_gen_ProtocolNameToID_eq (H : HashFns) (name : Bytes) :
    Gen.C13.ProtocolNameToID H name = protoId H name := by
  unfold Gen.C13.ProtocolNameToID protoId protoPre
  have : ascii "protocolname/" = [112, 114, 111, 116, 111, 99, 111, 108, 110, 97, 109, 101, 47] := by decide
  rw [c13_gen_consts, this]
/-- **the `Equal` methods of the seven identifier types as translated are the model's `idEqual`** (Go's `==` on
the 16-byte arrays; the operator is mapped to `idEqual` by `meta/go2lean.json`, what is checked here is that
each method compares its receiver with its argument and nothing else), and `ServiceID.IsNil` is `idIsNil` -/
theorem c13_gen_id_Equal_eq (H : HashFns) (a b : Bytes) :
    Gen.C13.TreeID_Equal H a b = idEqual a b ∧ Gen.C13.RosterID_Equal H a b = idEqual a b ∧
    Gen.C13.TreeNodeID_Equal H a b = idEqual a b ∧ Gen.C13.TokenID_Equal H a b = idEqual a b ∧
    Gen.C13.RoundID_Equal H a b = idEqual a b ∧ Gen.C13.ProtocolID_Equal H a b = idEqual a b ∧
    Gen.C13.ServiceID_Equal H a b = idEqual a b ∧ Gen.C13.ServiceID_IsNil H a = idIsNil a :=
  ⟨rfl, rfl, rfl, rfl, rfl, rfl, rfl, rfl⟩
/-- **the `IsNil` methods of the six other identifier types as translated are the model's `idIsNil`**: each compares its
receiver with the nil UUID through the type's own `Equal` -/
theorem c13_gen_id_IsNil_eq (H : HashFns) (a : Bytes) :
    Gen.C13.TreeID_IsNil H a = idIsNil a ∧ Gen.C13.RosterID_IsNil H a = idIsNil a ∧
    Gen.C13.TreeNodeID_IsNil H a = idIsNil a ∧ Gen.C13.TokenID_IsNil H a = idIsNil a ∧
    Gen.C13.RoundID_IsNil H a = idIsNil a ∧ Gen.C13.ProtocolID_IsNil H a = idIsNil a :=
  ⟨rfl, rfl, rfl, rfl, rfl, rfl⟩

/-! ### round 7: the identifier derivations that sit inside functions the translator cannot take as a whole
(`NewTree`, `NewRoster`, `NewTreeNode`, `serviceFactory.Register`: loops over a hash writer, closures, registration
under a lock).  What is lifted from the source is the *value assigned* to the identifier (kind `assign` of
`"extract"`): the expression over the hash object `h` (its content = what was written to it), the roster, the
name, the identity.  The theorems say that the model's `…IdOfPre` functions are exactly these expressions. -/

/-- **`NewRoster`'s `ID:` field as read from the source is the model's roster id of the bytes fed to `h`**:
the SHA-1 UUID of the hex text of the SHA-256 digest.  Falsified by: another digest, the raw digest instead of
its hex text, another UUID version. -/
theorem c13_gen_NewRoster_ID_eq (H : HashFns) (h : Bytes) :
    Gen.C13.NewRoster_ID H h = rosterIdOfPre H h := rfl

/-- hence, when the loops have fed `h` with the model's roster pre-image, the field is the model's roster id -/
theorem c13_gen_NewRoster_ID_roster (H : HashFns) (ro : List Member) :
    Gen.C13.NewRoster_ID H (rosterPre ro) = rosterId H ro := rfl

/-- **`NewTree`'s `url` and `ID:` as read from the source are the model's outer pre-image and tree id**:
`NamespaceURL + "tree/" + roster.ID.String() + hex(h.Sum(nil))`, SHA-1 UUID of it.  Falsified by: dropping the
roster id, the roster id's bytes instead of its text form, another prefix, another order. -/
theorem c13_gen_NewTree_url_eq (H : HashFns) (ro : Gen.C13.Roster) (h : Bytes) :
    Gen.C13.NewTree_url H ro h = treeOuterPre ro.ID (H.sha256 h) := by
  unfold Gen.C13.NewTree_url treeOuterPre
  have : ascii "tree/" = [116, 114, 101, 101, 47] := by decide
  simp only [Gen.C13.RosterID_String, c13_gen_consts, this, List.append_assoc]

theorem c13_gen_NewTree_ID_eq (H : HashFns) (ro : Gen.C13.Roster) (h : Bytes) :
    Gen.C13.NewTree_ID H (Gen.C13.NewTree_url H ro h) = treeIdOfPre H ro.ID h := by
  rw [c13_gen_NewTree_url_eq]; rfl

/-- hence, when `Visit` has fed `h` with the model's depth-first pre-image, the field is the model's tree id -/
theorem c13_gen_NewTree_ID_tree (H : HashFns) (ro : Gen.C13.Roster) (f : Forest) :
    Gen.C13.NewTree_ID H (Gen.C13.NewTree_url H ro (dfs f)) = treeId H ro.ID f :=
  c13_gen_NewTree_ID_eq H ro (dfs f)

/-- **`NewTreeNode`'s `ID:` as read from the source is the model's node id of the key's text form** (the
text form `Public.String()` is a parameter: `keyText` of the model for the three suites); it reads the key and
nothing else of the identity.  Falsified by: an id from the address, from the roster index, from the deprecated
`ID` field, with a prefix. -/
theorem c13_gen_NewTreeNode_ID_eq (H : HashFns) (ni : Gen.C13.ServerIdentity) (text : Bytes → Bytes) :
    Gen.C13.NewTreeNode_ID H ni text = nodeIdStr H (text ni.Public) := rfl

theorem c13_gen_NewTreeNode_ID_ed25519 (H : HashFns) (ni : Gen.C13.ServerIdentity) :
    Gen.C13.NewTreeNode_ID H ni hexAscii = nodeId H ni.Public := rfl

/-- **the service id `serviceFactory.Register` assigns, as read from the source, is the model's**: the SHA-1
UUID of the name alone — no suite, no prefix, no registration state (the seeded change C13r4-A hashed
`name + suite`). -/
theorem c13_gen_Register_id_eq (H : HashFns) (name : Bytes) :
    Gen.C13.serviceFactory_Register_id H name = serviceId H name := rfl

/-- **`ServerIdentity.GetID` as translated (whole function; the key is an option in `Gen.C13K`)**: never panics;
without a key the nil UUID; with a key the model's server id of its text form. -/
theorem c13_gen_ServerIdentity_GetID_eq (H : HashFns) (text : Bytes → Bytes) :
    (∀ key, Gen.C13K.ServerIdentity_GetID H ⟨some key⟩ text = some (serverIdStr H (text key))) ∧
    Gen.C13K.ServerIdentity_GetID H ⟨none⟩ text = some nilUuid := by
  refine ⟨fun key => ?_, rfl⟩
  have : ns ++ ascii "id/" = [104, 116, 116, 112, 115, 58, 47, 47, 100, 101, 100, 105, 115, 46, 101, 112, 102, 108, 46, 99,
      104, 47, 105, 100, 47] := by decide
  simp only [Gen.C13K.ServerIdentity_GetID, serverIdStr, serverPreStr, this]
  rfl

theorem c13_gen_ServerIdentity_GetID_ed25519 (H : HashFns) (key : Bytes) :
    Gen.C13K.ServerIdentity_GetID H ⟨some key⟩ hexAscii = some (serverId H key) :=
  (c13_gen_ServerIdentity_GetID_eq H hexAscii).1 key

/-- **`Context.NewPeerSetID` as translated is the model's peer-set id**: SHA-256 over the service id followed by
the data, cut / padded to 32 bytes by `network.NewPeerSetID`; the slice `c.serviceID[:]` never panics. -/
theorem c13_gen_Context_NewPeerSetID_eq (H : HashFns) (c : Gen.C13.Context) (data : Bytes) :
    Gen.C13.Context_NewPeerSetID H c data = some (peerSetId H c.serviceID data) := by
  have hs : Gen.Rt.slice c.serviceID 0 (Gen.Rt.len c.serviceID) = some c.serviceID := by
    simp [Gen.Rt.slice, Gen.Rt.len]
  simp only [Gen.C13.Context_NewPeerSetID, hs, peerSetId, peerSetPre, List.nil_append]
end C13
