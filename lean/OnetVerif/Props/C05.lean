import OnetVerif.Model.C05
/-! Property C05 — property theorems, negation witnesses, `_partial` variants and non-vacuity
examples only (helper lemmas that need Mathlib go to OnetVerif/Proofs/). -/
namespace C05

end C05
