import OnetVerif.Model.C05
import OnetVerif.Shapes
/-! Property C05 — one instance's handlers run one at a time, in acceptance order; a blocked
handler delays only its own instance.  All statements are for arbitrary schedules (`List Act`),
hence unboundedly many feeders, messages and interleavings. -/
namespace C05

/-- the message whose handler is running, if any -/
def cur (s : St) : List Nat := match s.pc with | .handling m => [m] | _ => []

structure Inv (s : St) : Prop where
  order  : s.accepted = s.finished ++ cur s ++ s.queue
  start  : s.started = s.finished ++ cur s
  wake   : s.pc = .waiting → s.queue ≠ [] → s.token = true

theorem inv_init : Inv {} := by constructor <;> simp [cur]

theorem inv_step (s s' : St) (a : Act) (h : Inv s) (hs : step s a = some s') : Inv s' := by
  obtain ⟨ho, hst, hw⟩ := h
  cases a with
  | accept m =>
    simp only [step] at hs
    split at hs <;> simp at hs <;> subst hs
    · exact ⟨ho, hst, hw⟩
    · constructor <;> simp_all [cur]
  | close => simp [step] at hs; subst hs; constructor <;> simp_all [cur]
  | reader =>
    simp only [step] at hs
    split at hs
    · split at hs
      · simp at hs; subst hs; constructor <;> simp_all [cur]
      · split at hs <;> simp at hs <;> subst hs <;> constructor <;> simp_all [cur]
    · simp at hs; subst hs; constructor <;> simp_all [cur]
    · split at hs <;> simp at hs; subst hs; constructor <;> simp_all [cur]
    · simp at hs

theorem inv_run (as : List Act) (s s' : St) (h : Inv s) (hr : run s as = some s') : Inv s' := by
  induction as generalizing s with
  | nil => simp [run] at hr; subst hr; exact h
  | cons a as ih =>
    simp only [run] at hr
    split at hr
    · exact ih _ (inv_step _ _ _ h ‹_›) hr
    · exact ih _ h hr

/-- **acceptance order**: under every schedule, the handlers that have started are exactly a
prefix of the messages accepted for the instance, in acceptance order (nothing skipped,
nothing reordered, nothing duplicated). -/
theorem c05_fifo (as : List Act) (s : St) (hr : run {} as = some s) :
    s.started <+: s.accepted := by
  have h := inv_run as {} s inv_init hr
  rw [h.start, h.order]; simp [List.append_assoc]

/-- **one at a time**: a handler starts only after the previous one returned — the started
handlers are the finished ones plus at most one running. -/
theorem c05_serial (as : List Act) (s : St) (hr : run {} as = some s) :
    ∃ running, s.started = s.finished ++ running ∧ running.length ≤ 1 := by
  have h := inv_run as {} s inv_init hr
  refine ⟨cur s, h.start, ?_⟩
  unfold cur; split <;> simp

/-- **no lost wake-up**: whenever the reader sleeps while a message is queued, the wake-up token is
there; hence a reader with pending work and no running handler can always take a step. -/
theorem c05_no_lost_wakeup (as : List Act) (s : St) (hr : run {} as = some s)
    (hq : s.queue ≠ []) (hp : ∀ m, s.pc ≠ .handling m) (hst : s.pc ≠ .stopped) :
    step s .reader ≠ none := by
  have h := inv_run as {} s inv_init hr
  cases hpc : s.pc with
  | top =>
    simp only [step, hpc]
    split
    · simp
    · cases hq' : s.queue with
      | nil => exact absurd hq' hq
      | cons m q => simp
  | handling m => exact absurd hpc (hp m)
  | waiting =>
    have := h.wake hpc hq
    simp [step, hpc, this]
  | stopped => exact absurd hpc hst

/-- **everything accepted is handled**: in a state where the reader is blocked (no step enabled)
and the instance was not closed, every accepted message has been handled to the end. -/
theorem c05_quiescent_all_handled (as : List Act) (s : St) (hr : run {} as = some s)
    (hblocked : step s .reader = none) (hc : s.closing = false) :
    s.finished = s.accepted ∧ s.queue = [] := by
  have h := inv_run as {} s inv_init hr
  cases hpc : s.pc with
  | top =>
    simp only [step, hpc, hc] at hblocked
    cases hq : s.queue <;> simp [hq] at hblocked
  | handling m => simp [step, hpc] at hblocked
  | waiting =>
    simp only [step, hpc] at hblocked
    have ht : s.token = false := by
      cases ht : s.token <;> simp [ht] at hblocked ⊢
    have hq : s.queue = [] := by
      cases hq : s.queue with
      | nil => rfl
      | cons m q =>
        have := h.wake hpc (by simp [hq])
        simp [ht] at this
    refine ⟨?_, hq⟩
    have := h.order
    simp [cur, hpc, hq] at this
    exact this.symm
  | stopped =>
    -- the reader only stops after `close`
    exfalso
    have : ∀ (as : List Act) (s0 s : St), (s0.pc = .stopped → s0.closing = true) →
        run s0 as = some s → s.pc = .stopped → s.closing = true := by
      intro as
      induction as with
      | nil => intro s0 s h0 hr hp; simp [run] at hr; subst hr; exact h0 hp
      | cons a as ih =>
        intro s0 s h0 hr hp
        simp only [run] at hr
        split at hr
        · rename_i s1 hs
          refine ih s1 s ?_ hr hp
          intro hp1
          cases a with
          | accept m =>
            simp only [step] at hs
            split at hs <;> simp at hs <;> subst hs
            · exact h0 hp1
            · simp at hp1; simpa using h0 hp1
          | close => simp [step] at hs; subst hs; rfl
          | reader =>
            simp only [step] at hs
            split at hs
            · split at hs
              · rename_i hcl; simp at hs; subst hs; exact hcl
              · split at hs <;> simp at hs <;> subst hs <;> simp at hp1
            · simp at hs; subst hs; simp at hp1
            · split at hs <;> simp at hs; subst hs; simp at hp1
            · simp at hs
        · exact ih s0 s h0 hr hp
    have := this as {} s (by simp) hr hpc
    simp [hc] at this

/-- **handing a message over never waits for a handler**: `accept` is enabled in every state,
in particular while the instance's handler is blocked for ever. -/
theorem c05_handover_nonblocking (s : St) (m : Nat) : step s (.accept m) ≠ none := by
  simp only [step]; split <;> simp

/-- **a blocked handler delays only its own instance**: on a server with any number of
instances, (1) a step of instance `i` leaves every other instance untouched, and (2) whatever
instance `i` is doing — including sitting in a handler that never returns — a message for another
instance `j` can be handed over and `j`'s reader can start its handler. -/
theorem c05_instances_independent (s s' : Server) (i j : Nat) (a : Act) (hij : j ≠ i)
    (hs : sstep s (.at i a) = some s') : s' j = s j := by
  simp only [sstep, Option.map_eq_some_iff] at hs
  obtain ⟨t, _, ht⟩ := hs
  subst ht; simp [hij]

theorem c05_other_instance_progresses (s : Server) (i j : Nat) (m k : Nat) (hij : j ≠ i)
    (hblocked : (s i).pc = .handling k) (hidle : (s j).pc = .top) (hq : (s j).queue = [])
    (hc : (s j).closing = false) :
    ∃ s1 s2, sstep s (.at j (.accept m)) = some s1 ∧ sstep s1 (.at j .reader) = some s2 ∧
      (s2 j).pc = .handling m ∧ (s2 i).pc = .handling k := by
  have hji : i ≠ j := fun e => hij e.symm
  let t1 : St := { (s j) with queue := (s j).queue ++ [m], token := true, accepted := (s j).accepted ++ [m] }
  let s1 : Server := fun x => if x = j then t1 else s x
  let t2 : St := { t1 with queue := [], pc := .handling m, started := t1.started ++ [m] }
  let s2 : Server := fun x => if x = j then t2 else s1 x
  have e1 : sstep s (.at j (.accept m)) = some s1 := by
    simp [sstep, step, hc, s1, t1]
  have e2 : sstep s1 (.at j .reader) = some s2 := by
    simp [sstep, step, hc, hidle, hq, s1, s2, t1, t2]
  refine ⟨s1, s2, e1, e2, ?_, ?_⟩
  · simp [s2, t2]
  · simp [s2, s1, hji, hblocked]

/-! ### non-vacuity: a concrete schedule with two feeders and a slow handler -/
example : ∃ s, run {} [.accept 1, .reader, .accept 2, .accept 3, .reader, .reader, .reader, .reader] = some s ∧
    s.started = [1, 2, 3] ∧ s.finished = [1, 2] ∧ s.accepted = [1, 2, 3] := by
  refine ⟨_, rfl, ?_⟩; decide
example : step { pc := .handling 7 } (.accept 9) ≠ none := c05_handover_nonblocking _ _

/-! ### the code regions the model stands for
Regenerated from /repo's source on every run (`harness/cmd/astfacts` → `OnetVerif/Shapes.lean`): the
calls that matter for synchronisation and data flow, the lock regions and (for decision logic) the
conditions, in source order.  A re-ordering, a dropped call or a changed condition breaks these
obligations even when no sampled input or schedule shows a difference; the check then searches for
a failing input. -/
theorem c05_shape_TreeNodeInstance_ProcessProtocolMsg :
    Shapes.treenode_TreeNodeInstance_ProcessProtocolMsg =
   ["msgDispatchQueueMutex.Lock", "defer:msgDispatchQueueMutex.Unlock", "if:n.closing",
     "return:", "n.notifyDispatch"] := rfl

theorem c05_shape_TreeNodeInstance_notifyDispatch :
    Shapes.treenode_TreeNodeInstance_notifyDispatch =
   ["send:msgDispatchQueueWait"] := rfl

theorem c05_shape_TreeNodeInstance_dispatchMsgReader :
    Shapes.treenode_TreeNodeInstance_dispatchMsgReader =
   ["msgDispatchQueueMutex.Lock", "msgDispatchQueueMutex.Unlock", "msgDispatchQueueMutex.Unlock",
     "n.dispatchMsgToProtocol", "msgDispatchQueueMutex.Unlock", "recv:msgDispatchQueueWait"] := rfl

theorem c05_shape_TreeNodeInstance_closeDispatch :
    Shapes.treenode_TreeNodeInstance_closeDispatch =
   ["defer{", "}", "msgDispatchQueueMutex.Lock", "close:msgDispatchQueueWait",
     "msgDispatchQueueMutex.Unlock", "n.ProtocolInstance", "pni.Shutdown"] := rfl


end C05
